import StepModel.LazyEager
import StepModel.Props.C01
/-!
# Externally mapped (complex) records of the eager grammar under the lazy scanner, and sections that mix both mappings

Lemmas for `Props/C10.lean`: a record `#id = ( PART(…) PART(…) … ) ;` (`CRec`) is indexed by `nextInstance` under the **empty keyword**
with, as references, the `#n` of all its parts in file order; a data section of internally and externally mapped records in any order
(`renderItems`) is scanned record by record.
-/
namespace StepModel.Lazy
open StepModel.Generated
open StepModel StepModel.P21 StepModel.P21.RLemmas StepModel.P21.Lemmas StepModel.P21.Grammar

variable {F : Type}

/-- the parameter list of a record or part up to its closing parenthesis, as a sequence the scanner passes -/
theorem params_lseq : ∀ (ps : List (Param F)), ps ≠ [] → (∀ p ∈ ps, LazyParam p) →
    ∃ X, renderParams ps = X ++ [41] ∧ LSeq X (paramsRefs ps) := by
  intro ps
  induction ps with
  | nil => intro h; exact absurd rfl h
  | cons p t ih =>
    intro _ hall
    have hp := hall p (by simp)
    cases t with
    | nil =>
      refine ⟨p.before ++ (p.tok ++ p.after), by simp [renderParams], ?_⟩
      have := LSeq.item_last hp.hb hp.tok hp.ha
      simpa [paramsRefs] using this
    | cons q u =>
      obtain ⟨X, hX, hL⟩ := ih (by simp) (fun x hx => hall x (List.mem_cons_of_mem _ hx))
      refine ⟨p.before ++ (p.tok ++ (p.after ++ 44 :: X)), by simp [renderParams, hX], ?_⟩
      have h44 : LSeq (44 :: X) (paramsRefs (q :: u)) := LSeq.plain 44 X _ (by decide) hL
      have := LSeq.item hp.hb hp.tok hp.ha 44 X (by decide) (by decide) h44
      simpa [paramsRefs] using this

set_option maxRecDepth 100000 in
theorem alpha_not_digit : ∀ b, b < 256 → StepModel.isDigit b = true → StepModel.isAlpha b = false := by decide

/-- the parts of an externally mapped record, one after the other -/
theorem cparts_lseq (f : CPart F → List Nat) : ∀ (cs' : List (CPart F)),
    (∀ c ∈ cs', LSeq c.text (f c) ∧ StepModel.isAlpha c.n0 = true) → LSeq (renderCParts cs') (cs'.flatMap f) := by
  intro cs'
  induction cs' with
  | nil => intro _; exact LSeq.nil
  | cons c t ih =>
    intro h
    have hc := h c (by simp)
    have ht := ih (fun x hx => h x (List.mem_cons_of_mem _ hx))
    simp only [renderCParts, List.flatMap_cons]
    refine LSeq.append hc.1 ht ?_ ?_
    · cases t with
      | nil => simp [renderCParts]
      | cons c2 u =>
        have h2 := (h c2 (by simp)).2
        simp only [renderCParts, CPart.text, List.cons_append, List.head?_cons, ne_eq, Option.some.injEq]
        intro e; rw [e] at h2; revert h2; decide
    · cases t with
      | nil => simp [renderCParts]
      | cons c2 u =>
        have h2 := (h c2 (by simp)).2
        intro x hx
        simp only [renderCParts, CPart.text, List.cons_append, List.head?_cons, Option.some.injEq] at hx
        rw [← hx]
        cases hd : StepModel.isDigit c2.n0 with
        | false => rfl
        | true =>
          have hs := digit_small c2.n0 hd
          exact absurd h2 (by rw [alpha_not_digit c2.n0 hs hd]; decide)

/-- the lazy side's conditions on an externally mapped record: the instance name as for `LazyRec`, the parts a sequence the scanner
    passes with the references `refs`, all bytes below 256 -/
structure LazyCRec (r : CRec F) (refs : List Nat) : Prop where
  pos : 0 < StepModel.digitsVal r.ds 0
  dlen : idLen (cs r.ds) ≤ instanceIdDigits
  parts : LSeq (renderCParts r.parts) refs
  sm : Small (r.ds ++ (r.s1 ++ (r.s2 ++ (renderCParts r.parts ++ r.s4))))

/-- an externally mapped record after the layout `lead`, as the scanner model sees it, followed by `rest` -/
def crec (lead : List Nat) (r : CRec F) (rest : Bytes) : Bytes :=
  cs lead ++ ('#' :: (cs r.ds ++ (cs r.s1 ++ ('=' :: (cs r.s2 ++ ('(' :: (cs (renderCParts r.parts) ++ (')' :: (cs r.s4 ++
    (';' :: rest))))))))))

theorem crec_eq (lead : List Nat) (r : CRec F) (rest : List Nat) : cs (lead ++ 35 :: r.text rest) = crec lead r (cs rest) := by
  simp [crec, CRec.text, cs, ch]

theorem crec_length (lead : List Nat) (r : CRec F) (rest : Bytes) : (crec lead r rest).length = (crec lead r []).length + rest.length := by
  simp [crec]; omega

/-- what the lazy index records for an externally mapped record: the empty keyword -/
def crecEntry (r : CRec F) (refs : List Nat) : Entry := { id := StepModel.digitsVal r.ds 0, kw := [], refs := refs }

theorem nextInstance_crec (hraw : commentsRaw = true) (lead : List Nat) (hlead : Seps lead) (hls : Small lead)
    (r : CRec F) (hlex : r.Lex) (refs : List Nat) (hlz : LazyCRec r refs) (rest : Bytes) (f : Nat)
    (hf : (crec lead r rest).length + 6 ≤ f) :
    nextInstance f (crec lead r rest) = .ok (some (crecEntry r refs, rest)) := by
  have sm1 := hlz.sm.app
  have sm2 := sm1.2.app
  have sm3 := sm2.2.app
  have sm4 := sm3.2.app
  obtain ⟨gL, wL, hgL, hwL, heL⟩ := seps_gap hraw lead hlead hls
  obtain ⟨g1, w1, hg1, hw1, he1⟩ := seps_gap hraw r.s1 hlex.h1 sm2.1
  obtain ⟨g2, w2, hg2, hw2, he2⟩ := seps_gap hraw r.s2 hlex.h2 sm3.1
  obtain ⟨g4, w4, hg4, hw4, he4⟩ := seps_gap hraw r.s4 hlex.h4 sm4.2
  obtain ⟨P, hP⟩ : ∃ P, P = cs (renderCParts r.parts) ++ (')' :: (cs r.s4 ++ (';' :: rest))) := ⟨_, rfl⟩
  obtain ⟨K, hK⟩ : ∃ K, K = cs r.s2 ++ ('(' :: P) := ⟨_, rfl⟩
  have hrender : crec lead r rest = gapRender gL wL ('#' :: (cs r.ds ++ gapRender g1 w1 ('=' :: K))) := by
    unfold crec
    rw [heL, gapRender_append, he1, gapRender_append, hK, hP]
  have hlen : (crec lead r rest).length = lead.length + 1 + r.ds.length + r.s1.length + 1 + K.length := by
    unfold crec; rw [hK, hP]; simp only [List.length_append, List.length_cons, cs_length]; omega
  have hlenK : K.length = r.s2.length + 1 + P.length := by
    rw [hK]; simp only [List.length_append, cs_length, List.length_cons]; omega
  have hlenP : P.length = (renderCParts r.parts).length + 1 + r.s4.length + 1 + rest.length := by
    rw [hP]; simp only [List.length_append, cs_length, List.length_cons]; omega
  have hdd := all_digit_cs r.ds sm1.1 hlex.ddig
  have hdne : cs r.ds ≠ [] := by
    intro e; have := congrArg List.length e; rw [cs_length] at this
    exact hlex.dne (List.length_eq_zero_iff.mp (by simpa using this))
  have hval := digitsVal_cs0 r.ds sm1.1
  have hhi : StepModel.digitsVal r.ds 0 ≤ instanceIdMax := by
    have h1 := hlex.dhi
    unfold CRec.id at h1
    have : ((StepModel.digitsVal r.ds 0 : Nat) : Int) ≤ 2147483647 := h1
    have e : instanceIdMax = 18446744073709551615 := rfl
    omega
  have hrn := readInstanceNumber_seps gL wL hgL hwL (cs r.ds) g1 w1 hg1 hw1 hdne hdd hlz.dlen (by rw [hval]; exact hlz.pos)
    (by rw [hval]; exact hhi) K f (by rw [← hrender]; omega)
  -- the (empty) keyword: the scanner stands at the `(` of the record
  have hkl := kwLoop_gap w2 hw2 [] (by simp) '(' P (by decide) (by decide) (fun _ => ⟨by decide, by decide, by decide⟩) g2 hg2 f (by
    have h1 := gapRender_length g2 w2 ([] ++ '(' :: P)
    have h2 : (gapRender g2 w2 []).length = r.s2.length := by rw [← he2, cs_length]
    rw [h1, h2]
    simp only [List.nil_append, List.length_cons]
    omega)
  have hgk : getDelimitedKeyword f keywordDelims (skipWS K) = .ok ([], '(' :: P) := by
    unfold getDelimitedKeyword
    rw [skipWS_idem, hK, he2, gapRender_append]
    have := hkl
    simp only [List.nil_append] at this
    rw [this]
    simp (config := { decide := true }) only [↓reduceIte, Bool.true_or]
  -- the parts
  have hse : seekEnd f 0 [] ('(' :: P) = .ok (refs, rest) := by
    have hl4 : (gapRender g4 w4 []).length = r.s4.length := by rw [← he4, cs_length]
    obtain ⟨fb, rfl⟩ : ∃ j, f = j + 1 := ⟨f - 1, by omega⟩
    obtain ⟨fc, hkc, hec⟩ := seekEnd_lseq hraw (renderCParts r.parts) refs hlz.parts sm4.1 (r.s4.length + rest.length + 4) fb 1 []
      (')' :: (cs r.s4 ++ (';' :: rest))) (by decide) (fun c hc => by simp at hc; rw [← hc]; decide) (by simp) (by omega)
    obtain ⟨fd, rfl⟩ : ∃ j, fc = j + 1 := ⟨fc - 1, by omega⟩
    have hbt := betweenTokens_gap g4 hg4 w4 hw4 ';' (by decide) (by decide) (by decide) rest fd (by
      have := gapRender_length g4 w4 (';' :: rest); simp only [List.length_cons] at this; omega)
    simp only [seekEnd, beq_self_eq_true, ↓reduceIte]
    rw [show (0 : Int) + 1 = 1 from rfl, hP, hec]
    rw [he4, gapRender_append]
    simp (config := { decide := true }) [seekEnd, hbt]
  have hid : (digitsVal (cs r.ds) == 0) = false := by rw [hval]; simp; have := hlz.pos; omega
  unfold nextInstance
  rw [hrender, hrn]
  simp only [hid, Bool.false_eq_true, ↓reduceIte, hgk, hse]
  simp [crecEntry, hval]

/-- **what `STEPread` is handed for an externally mapped record**: from the recorded offset, `seekg( begin ); findNormalString( "(" )` and
    one character back leave the stream at the record's outer parenthesis: `( PART(…) PART(…) … ) s4 ; rest` — what
    `STEPcomplex::STEPread` reads -/
theorem stepReadInput_crec (hraw : commentsRaw = true) (lead : List Nat) (hlead : Seps lead) (hls : Small lead)
    (r : CRec F) (hlex : r.Lex) (refs : List Nat) (hlz : LazyCRec r refs) (rest : Bytes) (f : Nat)
    (hf : 6 * (crec lead r rest).length + 30 ≤ f) :
    stepReadInput f (crec lead r rest) = .ok ('(' :: (cs (renderCParts r.parts) ++ (')' :: (cs r.s4 ++ (';' :: rest))))) := by
  have sm1 := hlz.sm.app
  have sm2 := sm1.2.app
  have sm3 := sm2.2.app
  obtain ⟨gL, wL, hgL, hwL, heL⟩ := seps_gap hraw lead hlead hls
  obtain ⟨g1, w1, hg1, hw1, he1⟩ := seps_gap hraw r.s1 hlex.h1 sm2.1
  obtain ⟨g2, w2, hg2, hw2, he2⟩ := seps_gap hraw r.s2 hlex.h2 sm3.1
  have hds : (r.ds).all (inert '(') = true := all_inert_of _ digit_inert _ sm1.1 hlex.ddig
  obtain ⟨P, hP⟩ : ∃ P, P = cs (renderCParts r.parts) ++ (')' :: (cs r.s4 ++ (';' :: rest))) := ⟨_, rfl⟩
  obtain ⟨T2, hT2⟩ : ∃ T, T = cs r.s2 ++ ('(' :: P) := ⟨_, rfl⟩
  obtain ⟨T1, hT1⟩ : ∃ T, T = cs r.s1 ++ ('=' :: T2) := ⟨_, rfl⟩
  have hL : crec lead r rest = cs lead ++ ('#' :: (cs r.ds ++ T1)) := by
    simp only [crec, hT1, hT2, hP]
  have hlT2 : T2.length = (cs r.s2).length + 1 + P.length := by rw [hT2]; simp only [List.length_append, List.length_cons]; omega
  have hlT1 : T1.length = (cs r.s1).length + 1 + T2.length := by rw [hT1]; simp only [List.length_append, List.length_cons]; omega
  have len : (crec lead r rest).length = (cs lead).length + 1 + r.ds.length + T1.length := by
    rw [hL]; simp only [List.length_append, List.length_cons, cs_length]; omega
  unfold stepReadInput
  suffices h : findOne '(' f (crec lead r rest) = .ok P by rw [h, hP]
  rw [hL, heL, gapRender_append]
  obtain ⟨fa, ha1, ha2⟩ := findOne_gap '(' (by decide) wL hwL ('#' :: (cs r.ds ++ T1)) (by simp) gL hgL
    (4 * (crec lead r rest).length + 20) f (by
      have : (gapRender gL wL ('#' :: (cs r.ds ++ T1))).length = (crec lead r rest).length := by
        rw [hL, heL, gapRender_append]
      omega)
  rw [ha2]
  simp only [List.length_append, List.length_cons, cs_length] at ha1
  obtain ⟨fb, rfl⟩ : ∃ j, fa = j + 1 := ⟨fa - 1, by omega⟩
  rw [findOne_char '(' fb '#' _ (by decide) (by decide) (by decide) (by decide)]
  obtain ⟨fc, rfl⟩ : ∃ j, fb = j + r.ds.length := ⟨fb - r.ds.length, by omega⟩
  rw [findOne_inerts '(' r.ds hds fc T1]
  rw [hT1, he1, gapRender_append]
  obtain ⟨fd, hd1, hd2⟩ := findOne_gap '(' (by decide) w1 hw1 ('=' :: T2) (by simp) g1 hg1
    (3 * (crec lead r rest).length + 10) fc (by
      have h1 : (gapRender g1 w1 ('=' :: T2)).length = (cs r.s1).length + 1 + T2.length := by
        rw [← gapRender_append, ← he1]; simp only [List.length_append, List.length_cons]; omega
      omega)
  rw [hd2]
  simp only [List.length_cons] at hd1
  obtain ⟨fe, rfl⟩ : ∃ j, fd = j + 1 := ⟨fd - 1, by omega⟩
  rw [findOne_char '(' fe '=' _ (by decide) (by decide) (by decide) (by decide)]
  rw [hT2, he2, gapRender_append]
  obtain ⟨fi, hi1, hi2⟩ := findOne_gap '(' (by decide) w2 hw2 ('(' :: P) (by simp) g2 hg2 1 fe (by
      have h1 : (gapRender g2 w2 ('(' :: P)).length = (cs r.s2).length + 1 + P.length := by
        rw [← gapRender_append, ← he2]; simp only [List.length_append, List.length_cons]; omega
      omega)
  rw [hi2]
  simp only [List.length_cons] at hi1
  obtain ⟨fj, rfl⟩ : ∃ j, fi = j + 1 := ⟨fi - 1, by omega⟩
  exact findOne_hit '(' fj P (by decide) (by decide) (by decide)

/-! ### a data section of records of both mappings -/

open StepModel.P21.C01

/-- the entity references in the values the eager reader sets for an externally mapped record, part by part in file order -/
def crefs (r : CRec F) : List Nat := r.parts.flatMap (fun c => c.vals.flatMap valRefs)

/-- what the lazy index records for a record of either mapping -/
def anyEntry : AnyRec F → Entry
  | .simple rg => recEntry rg.1
  | .complex r _ => crecEntry r (crefs r)

def mpieces (lead : List Nat) : List (AnyRec F) → List ((Bytes → Bytes) × Entry)
  | [] => []
  | .simple rg :: t => (lrec lead rg.1, recEntry rg.1) :: mpieces rg.2 t
  | .complex r g :: t => (crec lead r, crecEntry r (crefs r)) :: mpieces g t

def mlastLead (lead : List Nat) : List (AnyRec F) → List Nat
  | [] => lead
  | .simple rg :: t => mlastLead rg.2 t
  | .complex _ g :: t => mlastLead g t

/-- what the lazy side needs of a record of either mapping and of the layout after it -/
def LazyAny : AnyRec F → Prop
  | .simple rg => rg.1.Lex ∧ LazyRec rg.1 ∧ Seps rg.2 ∧ Small rg.2
  | .complex r g => r.Lex ∧ LazyCRec r (crefs r) ∧ Seps g ∧ Small g

theorem cs_renderItems (d : Dict) (fin : List Nat) : ∀ (rs : List (AnyRec F)) (lead : List Nat),
    cs (lead ++ renderItems (rs.map (AnyRec.item d)) fin) =
      (mpieces lead rs).foldr (fun p x => p.1 x) (cs (mlastLead lead rs) ++ cs fin) := by
  intro rs
  induction rs with
  | nil => intro lead; simp [renderItems, mpieces, mlastLead, cs_append]
  | cons a t ih =>
    intro lead
    cases a with
    | simple rg =>
      simp only [List.map_cons, AnyRec.item, renderItems, mpieces, mlastLead, List.foldr_cons]
      rw [rec_text_append, lrec_eq, ih rg.2]
    | complex r g =>
      simp only [List.map_cons, AnyRec.item, renderItems, mpieces, mlastLead, List.foldr_cons]
      rw [crec_text_append, crec_eq, ih g]

theorem mpieces_map (rs : List (AnyRec F)) : ∀ lead, (mpieces lead rs).map (·.2) = rs.map anyEntry := by
  induction rs with
  | nil => intro _; rfl
  | cons a t ih => intro lead; cases a <;> simp [mpieces, anyEntry, ih]

theorem mpieces_next (hraw : commentsRaw = true) (fuel : Nat) : ∀ (rs : List (AnyRec F)), (∀ a ∈ rs, LazyAny a) →
    ∀ (lead : List Nat), Seps lead → Small lead →
      (∀ p ∈ mpieces lead rs, ∀ rest, (p.1 rest).length + 6 ≤ fuel → nextInstance fuel (p.1 rest) = .ok (some (p.2, rest))) ∧
      (∀ p ∈ mpieces lead rs, ∀ rest, rest.length + 1 ≤ (p.1 rest).length) ∧
      Seps (mlastLead lead rs) ∧ Small (mlastLead lead rs) := by
  intro rs
  induction rs with
  | nil => intro _ lead hl hs; exact ⟨fun p hp => (by cases hp), fun p hp => (by cases hp), hl, hs⟩
  | cons a t ih =>
    intro hall lead hl hs
    cases a with
    | simple rg =>
      have h0 : rg.1.Lex ∧ LazyRec rg.1 ∧ Seps rg.2 ∧ Small rg.2 := hall (.simple rg) (by simp)
      obtain ⟨i1, i2, i3, i4⟩ := ih (fun x hx => hall x (List.mem_cons_of_mem _ hx)) rg.2 h0.2.2.1 h0.2.2.2
      refine ⟨?_, ?_, i3, i4⟩
      · intro p hp rest hlen
        simp only [mpieces, List.mem_cons] at hp
        rcases hp with h | h
        · subst h; exact nextInstance_lrec hraw lead hl hs rg.1 h0.1 h0.2.1 rest fuel hlen
        · exact i1 p h rest hlen
      · intro p hp rest
        simp only [mpieces, List.mem_cons] at hp
        rcases hp with h | h
        · subst h
          have := lrec_length lead rg.1 rest
          have h1 : 1 ≤ (lrec lead rg.1 []).length := by simp [lrec]; omega
          simp only; omega
        · exact i2 p h rest
    | complex r g =>
      have h0 : r.Lex ∧ LazyCRec r (crefs r) ∧ Seps g ∧ Small g := hall (.complex r g) (by simp)
      obtain ⟨i1, i2, i3, i4⟩ := ih (fun x hx => hall x (List.mem_cons_of_mem _ hx)) g h0.2.2.1 h0.2.2.2
      refine ⟨?_, ?_, i3, i4⟩
      · intro p hp rest hlen
        simp only [mpieces, List.mem_cons] at hp
        rcases hp with h | h
        · subst h; exact nextInstance_crec hraw lead hl hs r h0.1 _ h0.2.1 rest fuel hlen
        · exact i1 p h rest hlen
      · intro p hp rest
        simp only [mpieces, List.mem_cons] at hp
        rcases hp with h | h
        · subst h
          have := crec_length lead r rest
          have h1 : 1 ≤ (crec lead r []).length := by simp [crec]; omega
          simp only; omega
        · exact i2 p h rest

/-- **the lazy scanner on a data section that mixes internally and externally mapped records** -/
theorem scan_items (hraw : commentsRaw = true) (d : Dict) (rs : List (AnyRec F)) (hrs : ∀ a ∈ rs, LazyAny a)
    (g0 sp tail : List Nat) (hg0 : Seps g0) (hs0 : Small g0) (hsp : sp.all StepModel.isSpace = true) (hssp : Small sp) :
    scan (cs (g0 ++ renderItems (rs.map (AnyRec.item d)) (RLemmas.endsec sp tail))) = .ok (rs.map anyEntry, true) := by
  obtain ⟨i1, i2, i3, i4⟩ := mpieces_next hraw
    (4 * (cs (g0 ++ renderItems (rs.map (AnyRec.item d)) (RLemmas.endsec sp tail))).length + 16) rs hrs g0 hg0 hs0
  obtain ⟨gT, wT, hgT, hwT, heT⟩ := seps_gap hraw (mlastLead g0 rs) i3 i4
  have hfile := cs_renderItems d (RLemmas.endsec sp tail) rs g0
  have htailEq : cs (mlastLead g0 rs) ++ cs (RLemmas.endsec sp tail) = endsecG gT wT (cs sp) (cs tail) := by
    rw [heT, gapRender_append, cs_endsec]; rfl
  rw [htailEq] at hfile
  have hsp' := all_space_cs sp hssp hsp
  have hcount : ∀ (ps : List ((Bytes → Bytes) × Entry)) (x : Bytes), (∀ p ∈ ps, ∀ rest, rest.length + 1 ≤ (p.1 rest).length) →
      ps.length + x.length ≤ (ps.foldr (fun p y => p.1 y) x).length := by
    intro ps x
    induction ps with
    | nil => intro _; simp
    | cons p t ih =>
      intro h
      have h1 := ih (fun q hq => h q (List.mem_cons_of_mem _ hq))
      have h2 := h p (by simp) (t.foldr (fun p y => p.1 y) x)
      simp only [List.foldr_cons, List.length_cons]; omega
  have hLc := hcount (mpieces g0 rs) (endsecG gT wT (cs sp) (cs tail)) i2
  unfold scan
  rw [hfile] at i1 ⊢
  have htail := nextInstance_endsecG gT hgT wT (cs sp) (cs tail) hwT
    (4 * ((mpieces g0 rs).foldr (fun p x => p.1 x) (endsecG gT wT (cs sp) (cs tail))).length + 16) (by omega)
  have hse := sectionEnd_endsecG gT hgT wT (cs sp) (cs tail) hwT hsp'
    (4 * ((mpieces g0 rs).foldr (fun p x => p.1 x) (endsecG gT wT (cs sp) (cs tail))).length + 16) (by omega)
  rw [scanLoop_pieces _ _ htail (mpieces g0 rs) i1 (fun p hp rest => by have := i2 p hp rest; omega) (by omega) _ (by omega) [],
    hse, mpieces_map]
  simp

/-! ### the recorded offsets of a mixed section -/

theorem crec_append (lead : List Nat) (r : CRec F) (rest : Bytes) : crec lead r rest = crec lead r [] ++ rest := by
  simp [crec]

/-- a record of either mapping after the layout `lead`, followed by `rest` -/
def anyText (lead : List Nat) : AnyRec F → Bytes → Bytes
  | .simple rg => lrec lead rg.1
  | .complex r _ => crec lead r

def BeginOfAny (S : Bytes) (pos : Nat) (off : Nat) (a : AnyRec F) : Prop :=
  pos ≤ off ∧ ∃ lead rest, Seps lead ∧ Small lead ∧ S.drop (off - pos) = anyText lead a rest

theorem all2_shift_any (A R : Bytes) (pos : Nat) : ∀ (offs : List Nat) (rs : List (AnyRec F)),
    All2 (BeginOfAny R (pos + A.length)) offs rs → All2 (BeginOfAny (A ++ R) pos) offs rs := by
  intro offs rs h
  induction h with
  | nil => exact All2.nil
  | @cons off rg _ _ hb _ ih =>
    refine All2.cons ?_ ih
    obtain ⟨hge, ld, rst, hs1, hs2, hd⟩ := hb
    refine ⟨by omega, ld, rst, hs1, hs2, ?_⟩
    have : off - pos = A.length + (off - (pos + A.length)) := by omega
    rw [this, drop_prefix]
    exact hd

theorem scanBegins_items_loop (hraw : commentsRaw = true) (fuel : Nat) (T : Bytes) (hT : nextInstance fuel T = .ok none) :
    ∀ (rs : List (AnyRec F)), (∀ a ∈ rs, LazyAny a) → ∀ (lead : List Nat), Seps lead → Small lead →
      ((mpieces lead rs).foldr (fun p x => p.1 x) T).length + 6 ≤ fuel →
      ∀ (n pos : Nat) (acc : List Nat), rs.length < n →
        ∃ offs, scanBeginsLoop n fuel pos ((mpieces lead rs).foldr (fun p x => p.1 x) T) acc = .ok (acc.reverse ++ offs) ∧
          All2 (BeginOfAny ((mpieces lead rs).foldr (fun p x => p.1 x) T) pos) offs rs := by
  intro rs
  induction rs with
  | nil =>
    intro _ lead _ _ _ n pos acc hn
    obtain ⟨n0, rfl⟩ : ∃ j, n = j + 1 := ⟨n - 1, by simp at hn; omega⟩
    exact ⟨[], by simp [mpieces, scanBeginsLoop, hT], All2.nil⟩
  | cons a t ih =>
    intro hrs lead hlead hls hlen n pos acc hn
    obtain ⟨n0, rfl⟩ : ∃ j, n = j + 1 := ⟨n - 1, by simp at hn; omega⟩
    cases a with
    | simple rg =>
      have h0 : rg.1.Lex ∧ LazyRec rg.1 ∧ Seps rg.2 ∧ Small rg.2 := hrs (.simple rg) (by simp)
      simp only [mpieces, List.foldr_cons] at hlen ⊢
      obtain ⟨R, hR⟩ : ∃ R, R = (mpieces rg.2 t).foldr (fun p x => p.1 x) T := ⟨_, rfl⟩
      rw [← hR] at hlen ⊢
      have hnext := nextInstance_lrec hraw lead hlead hls rg.1 h0.1 h0.2.1 R fuel hlen
      have hle : R.length ≤ (lrec lead rg.1 R).length := by rw [lrec_length]; omega
      obtain ⟨offs, h1, h2⟩ := ih (fun x hx => hrs x (List.mem_cons_of_mem _ hx)) rg.2 h0.2.2.1 h0.2.2.2 (by rw [← hR]; omega) n0
        (pos + ((lrec lead rg.1 R).length - R.length)) (pos :: acc) (by simp at hn; omega)
      rw [← hR] at h1 h2
      refine ⟨pos :: offs, ?_, ?_⟩
      · simp only [scanBeginsLoop, hnext, h1]; simp
      · refine All2.cons ⟨Nat.le_refl _, lead, R, hlead, hls, by simp [anyText]⟩ ?_
        have hA : (lrec lead rg.1 R).length - R.length = (lrec lead rg.1 []).length := by rw [lrec_length lead rg.1 R]; omega
        rw [hA] at h2
        rw [lrec_append lead rg.1 R]
        exact all2_shift_any (lrec lead rg.1 []) R pos _ _ h2
    | complex r g =>
      have h0 : r.Lex ∧ LazyCRec r (crefs r) ∧ Seps g ∧ Small g := hrs (.complex r g) (by simp)
      simp only [mpieces, List.foldr_cons] at hlen ⊢
      obtain ⟨R, hR⟩ : ∃ R, R = (mpieces g t).foldr (fun p x => p.1 x) T := ⟨_, rfl⟩
      rw [← hR] at hlen ⊢
      have hnext := nextInstance_crec hraw lead hlead hls r h0.1 _ h0.2.1 R fuel hlen
      have hle : R.length ≤ (crec lead r R).length := by rw [crec_length]; omega
      obtain ⟨offs, h1, h2⟩ := ih (fun x hx => hrs x (List.mem_cons_of_mem _ hx)) g h0.2.2.1 h0.2.2.2 (by rw [← hR]; omega) n0
        (pos + ((crec lead r R).length - R.length)) (pos :: acc) (by simp at hn; omega)
      rw [← hR] at h1 h2
      refine ⟨pos :: offs, ?_, ?_⟩
      · simp only [scanBeginsLoop, hnext, h1]; simp
      · refine All2.cons ⟨Nat.le_refl _, lead, R, hlead, hls, by simp [anyText]⟩ ?_
        have hA : (crec lead r R).length - R.length = (crec lead r []).length := by rw [crec_length lead r R]; omega
        rw [hA] at h2
        rw [crec_append lead r R]
        exact all2_shift_any (crec lead r []) R pos _ _ h2

/-- the recorded offsets of a whole mixed data section: one per record, each at the start of the layout in front of its `#` -/
theorem scanBegins_items (hraw : commentsRaw = true) (d : Dict) (rs : List (AnyRec F)) (hrs : ∀ a ∈ rs, LazyAny a)
    (g0 sp tail : List Nat) (hg0 : Seps g0) (hs0 : Small g0) :
    ∃ offs, scanBegins (cs (g0 ++ renderItems (rs.map (AnyRec.item d)) (RLemmas.endsec sp tail))) = .ok offs ∧
      All2 (BeginOfAny (cs (g0 ++ renderItems (rs.map (AnyRec.item d)) (RLemmas.endsec sp tail))) 0) offs rs := by
  obtain ⟨_, i2, i3, i4⟩ := mpieces_next hraw
    (4 * (cs (g0 ++ renderItems (rs.map (AnyRec.item d)) (RLemmas.endsec sp tail))).length + 16) rs hrs g0 hg0 hs0
  obtain ⟨gT, wT, hgT, hwT, heT⟩ := seps_gap hraw (mlastLead g0 rs) i3 i4
  have hfile := cs_renderItems d (RLemmas.endsec sp tail) rs g0
  have htailEq : cs (mlastLead g0 rs) ++ cs (RLemmas.endsec sp tail) = endsecG gT wT (cs sp) (cs tail) := by
    rw [heT, gapRender_append, cs_endsec]; rfl
  rw [htailEq] at hfile
  have hcount : ∀ (ps : List ((Bytes → Bytes) × Entry)) (x : Bytes), (∀ p ∈ ps, ∀ rest, rest.length + 1 ≤ (p.1 rest).length) →
      ps.length + x.length ≤ (ps.foldr (fun p y => p.1 y) x).length := by
    intro ps x
    induction ps with
    | nil => intro _; simp
    | cons p t ih =>
      intro h
      have h1 := ih (fun q hq => h q (List.mem_cons_of_mem _ hq))
      have h2 := h p (by simp) (t.foldr (fun p y => p.1 y) x)
      simp only [List.foldr_cons, List.length_cons]; omega
  have hLc := hcount (mpieces g0 rs) (endsecG gT wT (cs sp) (cs tail)) i2
  have hlen : (mpieces g0 rs).length = rs.length := by
    have := congrArg List.length (mpieces_map rs g0)
    simpa using this
  unfold scanBegins
  rw [hfile]
  have htail := nextInstance_endsecG gT hgT wT (cs sp) (cs tail) hwT
    (4 * ((mpieces g0 rs).foldr (fun p x => p.1 x) (endsecG gT wT (cs sp) (cs tail))).length + 16) (by omega)
  obtain ⟨offs, h1, h2⟩ := scanBegins_items_loop hraw _ _ htail rs hrs g0 hg0 hs0 (by omega)
    (((mpieces g0 rs).foldr (fun p x => p.1 x) (endsecG gT wT (cs sp) (cs tail))).length + 1) 0 [] (by omega)
  exact ⟨offs, by simpa using h1, h2⟩

end StepModel.Lazy

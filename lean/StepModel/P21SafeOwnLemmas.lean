import StepModel.P21SafeOwn
/-! Ownership of aggregate nodes: the safety condition is sufficient (helper file for Props/C05). -/
namespace StepModel.P21Safe

def OwnOut.isOk : OwnOut → Bool
  | .ok _ => true
  | _ => false

theorem deleteAt_assign_notAssignGuard (g : Option DelGuard) (h : NodeHeap) (hg : g = none ∨ g = some .ifNotAssign) :
    deleteAt g true h = .ok h := by
  rcases hg with rfl | rfl <;> simp [deleteAt, guardApplies]

/-- validating (`!assignVal`): the list is empty, `item` is the scratch node or null; one `delete` frees it -/
theorem deleteAt_scratch (g : Option DelGuard) (scratch : Bool) :
    (deleteAt g false ⟨[], [], if scratch then some 0 else none⟩ = .ok ⟨[], [], if scratch then some 0 else none⟩ ∧ g = none)
    ∨ (∃ fr, deleteAt g false ⟨[], [], if scratch then some 0 else none⟩ = .ok ⟨[], fr, if scratch then some 0 else none⟩ ∧ g.isSome = true)
    ∨ (g = some .ifAssign ∧ deleteAt g false ⟨[], [], if scratch then some 0 else none⟩ = .ok ⟨[], [], if scratch then some 0 else none⟩) := by
  cases g with
  | none => left; simp [deleteAt]
  | some gg =>
    cases gg <;> cases scratch <;> simp [deleteAt, guardApplies, deleteItem]

/-- if every `delete item` is guarded by "not assigning" and no way out passes two of them, no run frees a node the list
holds and none frees a node twice — for every number of elements and every way out -/
theorem aggrRun_safe (cfg : DelCfg) (hs : delCfgSafe cfg = true) (assign scratch : Bool) (k : Nat) (exit : AggrExit) :
    (aggrRun cfg assign scratch k exit).isOk = true := by
  obtain ⟨gu, al, mc, ae⟩ := cfg
  simp only [delCfgSafe, Bool.and_eq_true, Bool.or_eq_true, decide_eq_true_eq, Bool.not_eq_true'] at hs
  obtain ⟨⟨⟨⟨⟨h1, h2⟩, h3⟩, h4⟩, h5⟩, h6⟩ := hs
  cases assign with
  | true =>
    cases exit <;> simp [aggrRun, deleteAt_assign_notAssignGuard _ _ h1, deleteAt_assign_notAssignGuard _ _ h2,
      deleteAt_assign_notAssignGuard _ _ h3, deleteAt_assign_notAssignGuard _ _ h4, Except.bind, OwnOut.isOk]
  | false =>
    -- all guards are `none` or `ifNotAssign`; enumerate them
    rcases h1 with rfl | rfl <;> rcases h2 with rfl | rfl <;> rcases h3 with rfl | rfl <;> rcases h4 with rfl | rfl <;>
      simp at h5 h6 <;> cases exit <;> cases scratch <;>
      simp [aggrRun, afterElems, deleteAt, guardApplies, deleteItem, Except.bind, OwnOut.isOk]

end StepModel.P21Safe

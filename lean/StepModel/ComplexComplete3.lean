import StepModel.ComplexComplete2
/-! Completeness on distinct leaves, phase 1: `matchNonORs` on an alive fresh list makes every SimpleList outside the
waiting OrLists hold its name, gives the list `viable ≥ MATCHSOME` once it is known, and records MATCHALL where the last
mark was placed. -/
namespace StepModel.Complex.Match
open StepModel.Generated StepModel.Complex

mutual
  theorem alive_sat (N : List Name) : ∀ (T : Tree), AliveT N T → satO N T = true
    | .simple n, h => by simp only [AliveT] at h; simpa [satO] using h
    | .and cs, h => by simp only [AliveT] at h; simp only [satO]; exact aliveAll_sat N cs h
    | .andor cs, h => by simp only [AliveT] at h; simp only [satO]; exact aliveAny_sat N cs h.2
    | .or cs, h => by simp only [AliveT] at h; simp only [satO]; exact aliveOne_sat N cs h
  theorem aliveAll_sat (N : List Name) : ∀ (cs : List Tree), AliveAll N cs → satOAll N cs = true
    | [], _ => rfl
    | c :: cs, h => by
      simp only [AliveAll] at h
      simp only [satOAll, Bool.and_eq_true]
      exact ⟨alive_sat N c h.1, aliveAll_sat N cs h.2⟩
  theorem aliveAny_sat (N : List Name) : ∀ (cs : List Tree), AliveAny N cs → satOAny N cs = true
    | [], h => by simp [AliveAny] at h
    | c :: cs, h => by
      simp only [AliveAny] at h
      simp only [satOAny, Bool.or_eq_true]
      rcases h with e | e
      · exact Or.inl (alive_sat N c e)
      · exact Or.inr (aliveAny_sat N cs e)
  theorem aliveOne_sat (N : List Name) : ∀ (cs : List Tree), AliveOne N cs → satOAny N cs = true
    | [], h => by simp [AliveOne] at h
    | c :: cs, h => by
      simp only [AliveOne] at h
      simp only [satOAny, Bool.or_eq_true]
      rcases h with e | e
      · exact Or.inl (alive_sat N c e.1)
      · exact Or.inr (aliveOne_sat N cs e.2)
end

mutual
  theorem dead_unsat (N : List Name) : ∀ (T : Tree), treeWF T = true → DeadT N T → satO N T = false
    | .simple n, _, h => by
      have : n ∉ N := h n (by simp [leaves])
      simpa [satO] using this
    | .and cs, hw, h => by
      simp only [treeWF, Bool.and_eq_true, Bool.not_eq_true', List.isEmpty_eq_false_iff] at hw
      simp only [satO]
      cases cs with
      | nil => exact absurd rfl hw.1
      | cons c rest =>
        simp only [treeWFL, Bool.and_eq_true] at hw
        have hd : DeadT N c := fun x hx => h x (by simp [leaves, leavesL, hx])
        simp only [satOAll, dead_unsat N c hw.2.1 hd, Bool.false_and]
    | .andor cs, hw, h => by
      simp only [treeWF, Bool.and_eq_true] at hw
      simp only [satO]
      exact deadL_unsat N cs hw.2 (fun x hx => h x (by simpa [leaves] using hx))
    | .or cs, hw, h => by
      simp only [treeWF, Bool.and_eq_true] at hw
      simp only [satO]
      exact deadL_unsat N cs hw.2 (fun x hx => h x (by simpa [leaves] using hx))
  theorem deadL_unsat (N : List Name) : ∀ (cs : List Tree), treeWFL cs = true → DeadL N cs → satOAny N cs = false
    | [], _, _ => rfl
    | c :: cs, hw, h => by
      simp only [treeWFL, Bool.and_eq_true] at hw
      obtain ⟨h1, h2⟩ := deadL_cons.mp h
      simp only [satOAny, dead_unsat N c hw.1 h1, deadL_unsat N cs hw.2 h2, Bool.or_false]
end

theorem dl_known {t : ST} (h : t.viable ≠ .unknown) : dl t = lvS t := by
  cases t with
  | simple => rfl
  | mult j v c c1 k cs => simp only [ST.viable] at h; simp [dl, lvS, h]

theorem dlL_known : ∀ (cs : List ST), (∀ c ∈ cs, c.viable ≠ .unknown) → dlL cs = lvSL cs
  | [], _ => rfl
  | c :: cs, h => by
    simp only [dlL, lvSL, dl_known (h c (by simp)), dlL_known cs (fun x hx => h x (List.mem_cons_of_mem _ hx))]

mutual
  theorem lvS_fresh : ∀ (T : Tree), lvS (fresh T) = leaves T
    | .simple _ => rfl
    | .and cs => by simp only [fresh, lvS, leaves, lvSL_fresh cs]
    | .or cs => by simp only [fresh, lvS, leaves, lvSL_fresh cs]
    | .andor cs => by simp only [fresh, lvS, leaves, lvSL_fresh cs]
  theorem lvSL_fresh : ∀ (cs : List Tree), lvSL (freshL cs) = leavesL cs
    | [] => rfl
    | c :: cs => by simp only [freshL, lvSL, leavesL, lvS_fresh c, lvSL_fresh cs]
end

theorem dl_fresh_or (ts : List Tree) : dl (fresh (.or ts)) = [] := by simp [fresh, dl]

structure HT (N : List Name) (T : Tree) (o : Name → Nat) (es : Ents) : Prop where
  wf : treeWF T = true
  nd : (leaves T).Nodup
  out : ∀ n ∈ leaves T, o n = 0
  f0 : Fr0 o es
  nm : names es = N

structure HTL (N : List Name) (Ts : List Tree) (o : Name → Nat) (es : Ents) : Prop where
  wf : treeWFL Ts = true
  nd : (leavesL Ts).Nodup
  out : ∀ n ∈ leavesL Ts, o n = 0
  f0 : Fr0 o es
  nm : names es = N

theorem HTL.head {N : List Name} {c : Tree} {rest : List Tree} {o : Name → Nat} {es : Ents} (h : HTL N (c :: rest) o es) :
    HT N c o es := by
  have hw := h.wf; simp only [treeWFL, Bool.and_eq_true] at hw
  have hn := h.nd; simp only [leavesL] at hn
  exact ⟨hw.1, (nodup_append_disj hn).1, fun n hn' => h.out n (by simp [leavesL, hn']), h.f0, h.nm⟩

theorem HTL.tail_same {N : List Name} {c : Tree} {rest : List Tree} {o : Name → Nat} {es : Ents} (h : HTL N (c :: rest) o es) :
    HTL N rest o es := by
  have hw := h.wf; simp only [treeWFL, Bool.and_eq_true] at hw
  have hn := h.nd; simp only [leavesL] at hn
  exact ⟨hw.2, (nodup_append_disj hn).2.1, fun n hn' => h.out n (by simp [leavesL, hn']), h.f0, h.nm⟩

/-- after the first child has been processed into `ch'` (tree `c`), the frame for the rest -/
theorem HTL.tail_after {N : List Name} {c : Tree} {rest : List Tree} {o : Name → Nat} {es es1 : Ents} {ch' : ST}
    (h : HTL N (c :: rest) o es) (hlv : lvS ch' = leaves c) (hfr : Fr o ch' es1) (hn1 : names es1 = N) :
    HTL N rest (fun n => o n + cnt n ch') es1 := by
  have hw := h.wf; simp only [treeWFL, Bool.and_eq_true] at hw
  have hn := h.nd; simp only [leavesL] at hn
  obtain ⟨_, n2, dj⟩ := nodup_append_disj hn
  refine ⟨hw.2, n2, fun n hn' => ?_, fun x => hfr.1 x, hn1⟩
  have h0 : o n = 0 := h.out n (by simp [leavesL, hn'])
  have hc0 : cnt n ch' = 0 := by
    apply List.count_eq_zero_of_not_mem
    intro hh
    have := holds_sub ch' n hh
    rw [hlv] at this
    exact dj n this hn'
  show o n + cnt n ch' = 0
  omega

/-- no leaf in the request -/
def DeadS (N : List Name) (t : ST) : Prop := ∀ x ∈ lvS t, x ∉ N

mutual
  /-- a finished alive list: every list on the chosen path has `viable ≥ MATCHSOME`, an AndOrList's other children are
  dead and do not count, an OrList's `choice` is its alive alternative -/
  def PA (N : List Name) : ST → Prop
    | .simple n v _ => n ∈ N ∧ MT.rank .some_ ≤ v.rank
    | .mult .and v _ _ _ cs => MT.rank .some_ ≤ v.rank ∧ cs ≠ [] ∧ PAall N cs
    | .mult .andor v _ _ _ cs => MT.rank .some_ ≤ v.rank ∧ PAsome N cs ∧ PAany N cs
    | .mult .or v c _ _ cs => MT.rank .some_ ≤ v.rank ∧ c ≠ listEnd ∧ inRange c cs.length = some c.toNat ∧ PAone N cs c.toNat
  def PAall (N : List Name) : List ST → Prop
    | [] => True
    | c :: cs => PA N c ∧ PAall N cs
  def PAsome (N : List Name) : List ST → Prop
    | [] => True
    | c :: cs => (PA N c ∨ (DeadS N c ∧ c.atLeastSome = false)) ∧ PAsome N cs
  def PAany (N : List Name) : List ST → Prop
    | [] => False
    | c :: cs => PA N c ∨ PAany N cs
  def PAone (N : List Name) : List ST → Nat → Prop
    | [], _ => False
    | c :: cs, 0 => PA N c ∧ ∀ x ∈ lvSL cs, x ∉ N
    | c :: cs, i + 1 => DeadS N c ∧ PAone N cs i
end

mutual
  /-- an alive list still waiting for `matchORs` -/
  def PP (N : List Name) : ST → Prop
    | .simple .. => False
    | .mult .or v c c1 k cs => ∃ ts, ST.mult .or v c c1 k cs = fresh (.or ts) ∧ AliveOne N ts
    | .mult .and v _ _ _ cs => v = .unknown ∧ PPall N cs
    | .mult .andor v _ _ _ cs => v = .unknown ∧ PPsome N cs ∧ PPany N cs
  def PPall (N : List Name) : List ST → Prop
    | [] => True
    | c :: cs => ((c.viable ≠ .unknown ∧ PA N c) ∨ PP N c) ∧ PPall N cs
  def PPsome (N : List Name) : List ST → Prop
    | [] => True
    | c :: cs => ((c.viable ≠ .unknown ∧ PA N c) ∨ PP N c ∨ (DeadS N c ∧ c.atLeastSome = false)) ∧ PPsome N cs
  def PPany (N : List Name) : List ST → Prop
    | [] => False
    | c :: cs => ((c.viable ≠ .unknown ∧ PA N c) ∨ PP N c) ∨ PPany N cs
end

/-- the processed form of an alive list -/
def AC (N : List Name) (x : ST) : Prop := (x.viable ≠ .unknown → PA N x) ∧ (x.viable = .unknown → PP N x)
/-- the processed form of a dead list -/
def DC (N : List Name) (x : ST) : Prop := DeadS N x ∧ x.atLeastSome = false

theorem AC_or {N : List Name} {x : ST} (h : AC N x) : (x.viable ≠ .unknown ∧ PA N x) ∨ PP N x := by
  by_cases hu : x.viable = .unknown
  · exact Or.inr (h.2 hu)
  · exact Or.inl ⟨hu, h.1 hu⟩

theorem PAall_of {N : List Name} : ∀ (cs : List ST), (∀ x ∈ cs, AC N x) → (∀ x ∈ cs, x.viable ≠ .unknown) → PAall N cs
  | [], _, _ => trivial
  | c :: cs, h, hk => ⟨(h c (by simp)).1 (hk c (by simp)),
      PAall_of cs (fun x hx => h x (List.mem_cons_of_mem _ hx)) (fun x hx => hk x (List.mem_cons_of_mem _ hx))⟩

theorem PPall_of {N : List Name} : ∀ (cs : List ST), (∀ x ∈ cs, AC N x) → PPall N cs
  | [], _ => trivial
  | c :: cs, h => ⟨AC_or (h c (by simp)), PPall_of cs (fun x hx => h x (List.mem_cons_of_mem _ hx))⟩

theorem PAsome_of {N : List Name} : ∀ (cs : List ST), (∀ x ∈ cs, AC N x ∨ DC N x) → (∀ x ∈ cs, AC N x → x.viable ≠ .unknown) → PAsome N cs
  | [], _, _ => trivial
  | c :: cs, h, hk => by
    refine ⟨?_, PAsome_of cs (fun x hx => h x (List.mem_cons_of_mem _ hx)) (fun x hx => hk x (List.mem_cons_of_mem _ hx))⟩
    rcases h c (by simp) with e | e
    · exact Or.inl (e.1 (hk c (by simp) e))
    · exact Or.inr e

theorem PPsome_of {N : List Name} : ∀ (cs : List ST), (∀ x ∈ cs, AC N x ∨ DC N x) → PPsome N cs
  | [], _ => trivial
  | c :: cs, h => by
    refine ⟨?_, PPsome_of cs (fun x hx => h x (List.mem_cons_of_mem _ hx))⟩
    rcases h c (by simp) with e | e
    · rcases AC_or e with e' | e'
      · exact Or.inl e'
      · exact Or.inr (Or.inl e')
    · exact Or.inr (Or.inr e)

theorem PAany_of {N : List Name} : ∀ (cs : List ST), (∃ x ∈ cs, PA N x) → PAany N cs
  | [], h => by obtain ⟨_, hx, _⟩ := h; cases hx
  | c :: cs, h => by
    obtain ⟨x, hx, hp⟩ := h
    rcases List.mem_cons.mp hx with e | e
    · subst e; exact Or.inl hp
    · exact Or.inr (PAany_of cs ⟨x, e, hp⟩)

theorem PPany_of {N : List Name} : ∀ (cs : List ST), (∃ x ∈ cs, AC N x) → PPany N cs
  | [], h => by obtain ⟨_, hx, _⟩ := h; cases hx
  | c :: cs, h => by
    obtain ⟨x, hx, hp⟩ := h
    rcases List.mem_cons.mp hx with e | e
    · subst e; exact Or.inl (AC_or hp)
    · exact Or.inr (PPany_of cs ⟨x, e, hp⟩)

structure P1 (N : List Name) (W : Prop) (es' : Ents) (t' : ST) : Prop where
  cov : Cov N t'
  als : t'.viable ≠ .unknown → t'.atLeastSome = true
  ac : AC N t'
  has : allMarked es' = true → W ∨ HasAll t'

theorem simple_pos (N : List Name) (hN : N.Pairwise (· < ·)) (n : Name) (es : Ents) (o : Name → Nat) (W : Prop)
    (hnm : names es = N) (hf : Fr0 o es) (hon : o n = 0) (hn : n ∈ N) :
    P1 N W (simpleMatchNonORs n .no es).2.1 (simpleMatchNonORs n .no es).1 := by
  have hnd : (names es).Nodup := by rw [hnm]; exact nodup_of_sorted hN
  have hman : markAt es n = .no := by
    have := hf n; rw [hon] at this
    apply Classical.byContradiction; intro hne; simp [hne] at this
  obtain ⟨j, e, hj, he, hen⟩ := findEq_sorted n es 0 (by rw [hnm]; exact hN) (by rw [hnm]; exact hn)
  simp only [Nat.zero_add] at hj
  have hem : e.mark = .no := by rw [← hman, ← hen]; exact (markAt_get es j e hnd he).symm
  unfold simpleMatchNonORs
  simp only [hj, he, hem]
  simp only [ne_eq, reduceCtorEq, not_false_eq_true, if_true]
  split
  · rename_i ham
    refine ⟨fun x _ hx => ?_, fun _ => by simp [ST.atLeastSome, ST.viable, MT.rank],
      ⟨fun _ => ⟨hn, by simp [MT.rank]⟩, fun h' => by simp [ST.viable] at h'⟩, fun _ => Or.inr rfl⟩
    simpa [dl, holds] using hx
  · refine ⟨fun x _ hx => ?_, fun _ => by simp [ST.atLeastSome, ST.viable, MT.rank],
      ⟨fun _ => ⟨hn, by simp [MT.rank]⟩, fun h' => by simp [ST.viable] at h'⟩, fun h' => ?_⟩
    · simpa [dl, holds] using hx
    · rename_i hna; exact absurd h' hna

end StepModel.Complex.Match

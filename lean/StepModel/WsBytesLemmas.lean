import StepModel.WsBytes
import StepModel.P21.ReaderLemmas3
/-!
Lemmas about the byte-level working-session layer (`StepModel/WsBytes.lean`), built on the per-record lemmas of the C01/C03
reader (`createInstance_rec`, `readInstance_rec`, the separator / end-of-section lemmas of `P21/ReaderLemmas*.lean`).
The statements of C16 that rest on them are in `Props/C16.lean`.
-/
namespace StepModel.WsBytes
open StepModel StepModel.IStream StepModel.P21 StepModel.P21.Lemmas StepModel.P21.Grammar StepModel.P21.RLemmas

variable {F : Type}

/-- entries of a working-session DATA section: state letter, `#`, record, the layout behind its `;` -/
def wsRender : List (Letter × Rec F × List Byte) → List Byte → List Byte
  | [], fin => fin
  | (L, r, g) :: rs, fin => L.byte :: 35 :: r.text (g ++ wsRender rs fin)

theorem letter_facts (L : Letter) :
    isSpace L.byte = false ∧ L.byte ≠ 47 ∧ L.byte ≠ 92 ∧ L.byte ≠ 69 ∧ L.byte ≠ 35 ∧ letterOf L.byte = some L := by
  cases L <;> decide

theorem wsRender_head (rs : List (Letter × Rec F × List Byte)) (sp tail : List Byte) :
    ∃ c k, wsRender rs (endsec sp tail) = c :: k ∧ isSpace c = false ∧ c ≠ 47 ∧ c ≠ 92 := by
  cases rs with
  | nil => exact ⟨69, _, rfl, by decide, by decide, by decide⟩
  | cons x rs =>
    obtain ⟨L, r, g⟩ := x
    obtain ⟨h1, h2, h3, _, _, _⟩ := letter_facts L
    exact ⟨L.byte, _, rfl, h1, h2, h3⟩

/-- `FoundEndSecKywd` after an entry and its layout -/
theorem foundEndSec_wsgap (g : List Byte) (hg : Seps g) (rs : List (Letter × Rec F × List Byte)) (sp tail : List Byte)
    (hsp : sp.all isSpace = true) (l : List Byte) (sk : Bool) :
    (rs = [] ∧ ∃ l', foundEndSec (G l (g ++ wsRender rs (endsec sp tail)) sk) = (true, G l' tail sk)) ∨
    (∃ l' t, Seps t ∧ foundEndSec (G l (g ++ wsRender rs (endsec sp tail)) sk) = (false, G l' (t ++ wsRender rs (endsec sp tail)) sk)) := by
  obtain ⟨sp0, t, hgt, hsp0, ht, htc⟩ := hg.split
  rcases htc with rfl | ⟨u, rfl⟩
  · cases rs with
    | nil =>
      left
      refine ⟨rfl, ?_⟩
      rw [hgt]
      simpa [wsRender] using foundEndSec_yes l sp0 sp tail sk hsp0 hsp
    | cons x rs =>
      right
      obtain ⟨L, r, g'⟩ := x
      obtain ⟨h1, _, _, h69, _, _⟩ := letter_facts L
      refine ⟨sp0.reverse ++ l, [], Seps.blanks [] (by simp), ?_⟩
      rw [hgt]
      simpa [wsRender] using foundEndSec_no l sp0 L.byte _ sk hsp0 h1 h69
  · right
    refine ⟨sp0.reverse ++ l, 47 :: u, ht, ?_⟩
    rw [hgt]
    simpa using foundEndSec_no l sp0 47 (u ++ wsRender rs (endsec sp tail)) sk hsp0 (by decide) (by decide)

/-- the prefix step on `L#…` -/
theorem prefixStep_letter (L : Letter) (l t : List Byte) (sk : Bool) :
    prefixStep L.byte (G (L.byte :: l) (35 :: t) sk) = (some L, 35, G (35 :: L.byte :: l) t sk) := by
  obtain ⟨_, _, _, _, _, hl⟩ := letter_facts L
  unfold prefixStep
  rw [hl]
  simp only [readTokenSeparator_none (L.byte :: l) 35 t sk (by decide) (by decide) (by decide),
    shiftInto_good L.byte _ 35 t sk (by decide)]

theorem prefixStep_E (s : IStream) : prefixStep 69 s = (none, 69, s) := by
  unfold prefixStep
  have : letterOf 69 = none := by decide
  rw [this]

/-! ### pass 1 -/

theorem wsData1Loop_end (cfg : RWCfg) (d : Dict) (st : P1 F) (g0 l sp tail : List Byte) (hg0 : Seps g0)
    (hsp : sp.all isSpace = true) (hs : st.s = G l (g0 ++ endsec sp tail) false) (fuel : Nat) (hf : 2 ≤ fuel) :
    ∃ l', wsData1Loop cfg d fuel st false = .ok { st with s := G l' tail false } := by
  match fuel, hf with
  | n + 2, _ =>
    obtain ⟨l', hfe⟩ := foundEndSec_yes (g0.reverse ++ l) [] sp tail false (by simp) hsp
    simp only [List.nil_append] at hfe
    refine ⟨l', ?_⟩
    unfold wsData1Loop
    rw [hs]
    simp only [G_good, Bool.not_false, Bool.and_self, if_true, bind, Except.bind]
    rw [show g0 ++ endsec sp tail = g0 ++ 69 :: (78 :: 68 :: 83 :: 69 :: 67 :: (sp ++ 59 :: tail)) from rfl,
      readTokenSeparator_seps g0 hg0 l 69 _ false (by decide) (by decide), shiftInto_ns]
    simp only [prefixStep_E]
    have e : ((69 : Byte) != 35) = true := by decide
    simp only [e, if_true, putback_good]
    simp only [resync, e, G_good, Bool.and_self, if_true]
    rw [show (69 : Byte) :: 78 :: 68 :: 83 :: 69 :: 67 :: (sp ++ 59 :: tail) = endsec sp tail from rfl, hfe]
    simp only [if_true, pure, Except.pure]
    unfold wsData1Loop
    simp
    rfl

/-- the instance pass 1 appends for an entry -/
def wsMkInst (d : Dict) (x : Letter × Rec F × List Byte) : MInst F := { mkInst d x.2 with state := x.1.state }

theorem wsData1Loop_recs (cfg : RWCfg) (hcfg : cfg.skipInstanceSkipsComments = true) (d : Dict) (sp tail : List Byte)
    (hsp : sp.all isSpace = true) :
    ∀ (rs : List (Letter × Rec F × List Byte)) (st : P1 F) (g0 l : List Byte) (fuel : Nat),
      Seps g0 → st.s = G l (g0 ++ wsRender rs (endsec sp tail)) false → rs.length + 2 ≤ fuel →
      (∀ x ∈ rs, x.1 ≠ .D ∧ Rec1OK d x.2) → (rs.map (·.2.1.id)).Nodup → (∀ i ∈ st.mgr.insts, ∀ x ∈ rs, i.id ≠ x.2.1.id) →
      ∃ l', wsData1Loop cfg d fuel st false =
        .ok { mgr := { insts := st.mgr.insts ++ rs.map (wsMkInst d) }, count := st.count + rs.length,
              notCreated := st.notCreated, s := G l' tail false } := by
  intro rs
  induction rs with
  | nil =>
    intro st g0 l fuel hg0 hs hf _ _ _
    obtain ⟨l', h⟩ := wsData1Loop_end cfg d st g0 l sp tail hg0 hsp hs fuel (by simpa using hf)
    exact ⟨l', by simpa using h⟩
  | cons x rs ih =>
    intro st g0 l fuel hg0 hs hf hok hnd hfresh
    obtain ⟨L, r, g⟩ := x
    obtain ⟨hLD, hlex, hg, hscan, e, hent, habs⟩ := hok (L, r, g) (by simp)
    obtain ⟨hLs, hL47, hL92, _, _, _⟩ := letter_facts L
    match fuel, hf with
    | n + 1, hf =>
      obtain ⟨c, k, hKe, hcs1, hcs2, hcs3⟩ := wsRender_head rs sp tail
      have hnone : st.mgr.find? r.id = none := find?_none st.mgr r.id (fun i hi => hfresh i hi (L, r, g) (by simp))
      obtain ⟨l1, hci⟩ := createInstance_rec cfg hcfg d st.mgr r hlex hscan hnone e hent habs
        (35 :: L.byte :: (g0.reverse ++ l)) g hg c k hcs1 hcs2 hcs3
      rw [← hKe] at hci
      have hmk : ({ id := r.id, parts := [{ name := r.name, vals := defaults e.attrs }] } : MInst F) = mkInst d (r, g) := by
        simp [mkInst, hent]
      rw [hmk] at hci
      unfold wsData1Loop
      rw [hs]
      simp only [G_good, Bool.not_false, Bool.and_self, if_true, bind, Except.bind, wsRender]
      simp only [readTokenSeparator_seps g0 hg0 l L.byte _ false hLs hL47 hL92, shiftInto_ns, prefixStep_letter,
        bne_self_eq_false, Bool.false_eq_true, if_false, pure, Except.pure, Option.getD_some, hLD, hci]
      have hnd' : (rs.map (·.2.1.id)).Nodup := (List.nodup_cons.mp hnd).2
      have hrid : ∀ x ∈ rs, r.id ≠ x.2.1.id := by
        intro x hx heq
        exact (List.nodup_cons.mp hnd).1 (by
          show r.id ∈ _; rw [heq]; exact List.mem_map_of_mem (f := fun x : Letter × Rec F × List Byte => x.2.1.id) hx)
      rcases foundEndSec_wsgap [] (Seps.blanks [] (by simp)) rs sp tail hsp l1 false with ⟨hnil, l2, hfe⟩ | ⟨l2, t, ht, hfe⟩
      · simp only [List.nil_append] at hfe
        rw [hfe]
        subst hnil
        refine ⟨l2, ?_⟩
        obtain ⟨m, rfl⟩ : ∃ m, n = m + 1 := ⟨n - 1, by simp only [List.length_cons] at hf; omega⟩
        unfold wsData1Loop
        simp [wsMkInst]
        rfl
      · simp only [List.nil_append] at hfe
        rw [hfe]
        simp only
        obtain ⟨l3, hih⟩ := ih (⟨⟨st.mgr.insts ++ [wsMkInst d (L, r, g)]⟩, st.count + 1, st.notCreated,
            G l2 (t ++ wsRender rs (endsec sp tail)) false⟩ : P1 F) t l2 n ht rfl
          (by simp only [List.length_cons] at hf; omega) (fun x hx => hok x (by simp [hx])) hnd'
          (by
            intro i hi x hx
            simp only [List.mem_append, List.mem_singleton] at hi
            rcases hi with hi | rfl
            · exact hfresh i hi x (by simp [hx])
            · exact hrid x hx)
        refine ⟨l3, ?_⟩
        have hw : ({ mkInst d (r, g) with state := L.state } : MInst F) = wsMkInst d (L, r, g) := rfl
        simp only [hw]
        rw [hih]
        simp [Nat.add_assoc, Nat.add_comm 1]

/-! ### pass 2 -/

theorem find?_map_state (insts : List (MInst F)) (id : Int) (f : MInst F → MInst F) (hf : ∀ i, (f i).id = i.id) :
    (insts.map f).find? (fun x => x.id == id) = (insts.find? (fun x => x.id == id)).map f := by
  induction insts with
  | nil => rfl
  | cons i is ih =>
    simp only [List.map_cons, List.find?_cons, hf]
    cases (i.id == id) <;> simp [ih]

theorem find?_viewNew (m : Mgr F) (id : Int) :
    (viewNew m).find? id = (m.find? id).map (fun i => { i with state := .new }) := by
  unfold viewNew Mgr.find?
  exact find?_map_state m.insts id _ (fun _ => rfl)

theorem lookup_viewNew (d : Dict) (m : Mgr F) : Mgr.lookup d (viewNew m) = Mgr.lookup d m := by
  apply lookup_congr
  simp [viewNew, keyOf, Function.comp_def]

/-- the instance as pass 2 leaves it: the values of the record, the state of the letter -/
def wsFinInst (x : Letter × Rec F × List Byte) : MInst F := { finInst x.2 with state := x.1.state }

/-- `ReadInstance` on one entry of a working-session file -/
theorem wsReadInstance_rec (ops : FloatOps F) (lex : LexCfg) (cfg : RWCfg) (d : Dict) (strict : Bool) (st : P2 F)
    (L : Letter) (r : Rec F) (g : List Byte) (hlex : r.Lex) (l rest : List Byte) (sk : Bool) (hs : st.s = G l (r.text rest) sk)
    (hfind : st.mgr.find? r.id = some (wsMkInst d (L, r, g))) (e : EntityD) (hent : d.entity? r.name = some e)
    (hattrs : e.attrs = r.ps.map (·.a))
    (hok : ∀ q ∈ r.ps, ParamOK { ops := ops, lex := lex, cfg := cfg, dict := d, lookup := Mgr.lookup d st.mgr } strict q) :
    ∃ l' sk', wsReadInstance ops lex cfg d strict st =
      .ok { s := G l' rest sk', inst := some (wsFinInst (L, r, g)), reported := some .null, left := some .null } := by
  have hfv : (viewNew st.mgr).find? r.id = some (mkInst d (r, g)) := by
    rw [find?_viewNew, hfind]; rfl
  obtain ⟨l', sk', h⟩ := readInstance_rec ops lex cfg d strict { st with mgr := viewNew st.mgr } r hlex l rest sk hs
    (mkInst d (r, g)) hfv rfl rfl
    { name := r.name, vals := match d.entity? r.name with | some e => defaults e.attrs | none => [] } rfl e hent hattrs
    (by
      intro q hq
      show ParamOK { ops := ops, lex := lex, cfg := cfg, dict := d, lookup := Mgr.lookup d (viewNew st.mgr) } strict q
      rw [lookup_viewNew]; exact hok q hq)
  refine ⟨l', sk', ?_⟩
  unfold wsReadInstance
  simp only [bind, Except.bind, h, pure, Except.pure, Option.map_some]
  have hid : (mkInst d (r, g)).id = r.id := rfl
  rw [hid, hfind]
  rfl

theorem wsData2Loop_end (ops : FloatOps F) (lex : LexCfg) (cfg : RWCfg) (d : Dict) (strict : Bool) (st : P2 F)
    (g0 l sp tail : List Byte) (sk del : Bool) (hg0 : Seps g0)
    (hsp : sp.all isSpace = true) (hs : st.s = G l (g0 ++ endsec sp tail) sk) (fuel : Nat) (hf : 2 ≤ fuel) :
    ∃ l', wsData2Loop ops lex cfg d strict fuel st del false = .ok { st with s := G l' tail sk } := by
  match fuel, hf with
  | n + 2, _ =>
    obtain ⟨l', hfe⟩ := foundEndSec_yes (g0.reverse ++ l) [] sp tail sk (by simp) hsp
    simp only [List.nil_append] at hfe
    refine ⟨l', ?_⟩
    unfold wsData2Loop
    rw [hs]
    simp only [G_good, Bool.not_false, Bool.and_self, if_true, bind, Except.bind]
    rw [show g0 ++ endsec sp tail = g0 ++ 69 :: (78 :: 68 :: 83 :: 69 :: 67 :: (sp ++ 59 :: tail)) from rfl]
    simp only [readTokenSeparator_seps g0 hg0 l 69 _ sk (by decide) (by decide), shiftInto_good 0 _ 69 _ sk (by decide),
      prefixStep_E]
    have e : ((69 : Byte) != 35) = true := by decide
    simp only [e, if_true, putback_good]
    simp only [resync, e, G_good, Bool.and_self, if_true]
    rw [show (69 : Byte) :: 78 :: 68 :: 83 :: 69 :: 67 :: (sp ++ 59 :: tail) = endsec sp tail from rfl, hfe]
    simp only [if_true, pure, Except.pure]
    unfold wsData2Loop
    simp
    rfl

theorem wsData2Loop_recs (ops : FloatOps F) (lex : LexCfg) (cfg : RWCfg) (d : Dict) (strict : Bool) (lk : Lookup)
    (sp tail : List Byte) (hsp : sp.all isSpace = true) :
    ∀ (rs : List (Letter × Rec F × List Byte)) (st : P2 F) (pre : List (MInst F)) (g0 l : List Byte) (sk del : Bool) (fuel : Nat),
      Seps g0 → st.s = G l (g0 ++ wsRender rs (endsec sp tail)) sk → rs.length + 2 ≤ fuel →
      st.mgr.insts = pre ++ rs.map (wsMkInst d) → (∀ i ∈ pre, ∀ x ∈ rs, i.id ≠ x.2.1.id) → (rs.map (·.2.1.id)).Nodup →
      Mgr.lookup d st.mgr = lk →
      (∀ x ∈ rs, x.1 ≠ .D ∧ Rec2OK { ops := ops, lex := lex, cfg := cfg, dict := d, lookup := lk } strict x.2) →
      ∃ st', wsData2Loop ops lex cfg d strict fuel st del false = .ok st' ∧
        P2Done st st' (pre ++ rs.map wsFinInst) rs.length tail := by
  intro rs
  induction rs with
  | nil =>
    intro st pre g0 l sk del fuel hg0 hs hf hm _ _ _ _
    obtain ⟨l', h⟩ := wsData2Loop_end ops lex cfg d strict st g0 l sp tail sk del hg0 hsp hs fuel (by simpa using hf)
    exact ⟨_, h, ⟨by simpa using hm, rfl, rfl, rfl, rfl, rfl, ⟨l', sk, rfl⟩, fun x hx => Or.inr hx⟩⟩
  | cons x rs ih =>
    intro st pre g0 l sk del fuel hg0 hs hf hm hfresh hnd hlk hok
    obtain ⟨L, r, g⟩ := x
    obtain ⟨hLD, hlex, hg, e, hent, hattrs, hpar⟩ := hok (L, r, g) (by simp)
    obtain ⟨hLs, hL47, hL92, _, _, _⟩ := letter_facts L
    have hLD' : decide (L = Letter.D) = false := by simpa using hLD
    have hnd' : (rs.map (·.2.1.id)).Nodup := (List.nodup_cons.mp hnd).2
    have hrid : ∀ x ∈ rs, r.id ≠ x.2.1.id := by
      intro x hx heq
      exact (List.nodup_cons.mp hnd).1 (by
        show r.id ∈ _; rw [heq]; exact List.mem_map_of_mem (f := fun x : Letter × Rec F × List Byte => x.2.1.id) hx)
    have hmgr : st.mgr = { insts := pre ++ wsMkInst d (L, r, g) :: rs.map (wsMkInst d) } := Mgr.eq_of_insts _ _ hm
    have hpre : ∀ i ∈ pre, i.id ≠ (wsMkInst d (L, r, g)).id := fun i hi => hfresh i hi (L, r, g) (by simp)
    have hpost : ∀ i ∈ rs.map (wsMkInst d), i.id ≠ (wsMkInst d (L, r, g)).id := by
      intro i hi
      obtain ⟨x, hx, rfl⟩ := List.mem_map.mp hi
      exact fun h => hrid x hx h.symm
    match fuel, hf with
    | n + 1, hf =>
      obtain ⟨l1, sk1, hri⟩ := wsReadInstance_rec ops lex cfg d strict
        { st with s := G (35 :: L.byte :: (g0.reverse ++ l)) (r.text (g ++ wsRender rs (endsec sp tail))) sk } L r g hlex _ _ sk rfl
        (by show st.mgr.find? _ = _; rw [hmgr]; exact find?_mid pre _ (wsMkInst d (L, r, g)) hpre) e hent hattrs
        (by
          intro q hq
          show ParamOK { ops := ops, lex := lex, cfg := cfg, dict := d, lookup := Mgr.lookup d st.mgr } strict q
          rw [hlk]; exact hpar q hq)
      have hupd : st.mgr.update (wsFinInst (L, r, g)) = { insts := pre ++ wsFinInst (L, r, g) :: rs.map (wsMkInst d) } := by
        rw [hmgr]; exact update_mid pre _ (wsMkInst d (L, r, g)) (wsFinInst (L, r, g)) rfl hpre hpost
      unfold wsData2Loop
      rw [hs]
      simp only [G_good, Bool.not_false, Bool.and_self, if_true, bind, Except.bind, wsRender]
      simp only [readTokenSeparator_seps g0 hg0 l L.byte _ sk hLs hL47 hL92, shiftInto_good 0 _ L.byte _ sk hLs,
        prefixStep_letter, bne_self_eq_false, Bool.false_eq_true, if_false, pure, Except.pure, hLD', hri]
      have hap : applyOutcome st
          { s := G l1 (g ++ wsRender rs (endsec sp tail)) sk1, inst := some (wsFinInst (L, r, g)),
            reported := some .null, left := some .null } =
          { st with mgr := st.mgr.update (wsFinInst (L, r, g)), reported := .null :: st.reported,
                    s := G l1 (g ++ wsRender rs (endsec sp tail)) sk1, total := st.total + 1, valid := st.valid + 1 } := rfl
      rw [hap, hupd]
      rcases foundEndSec_wsgap g hg rs sp tail hsp l1 sk1 with ⟨hnil, l2, hfe⟩ | ⟨l2, t, ht, hfe⟩
      · simp only [hfe]
        subst hnil
        obtain ⟨m, rfl⟩ : ∃ m, n = m + 1 := ⟨n - 1, by simp only [List.length_cons] at hf; omega⟩
        unfold wsData2Loop
        simp only [G_good, Bool.not_true, Bool.and_false, Bool.false_eq_true, if_false, pure, Except.pure]
        refine ⟨_, rfl, ⟨by simp, rfl, rfl, rfl, rfl, rfl, ⟨l2, sk1, rfl⟩, ?_⟩⟩
        intro x hx
        simp only [List.mem_cons] at hx
        exact hx
      · simp only [hfe]
        obtain ⟨st', hrun, hdone⟩ := ih
          ({ st with mgr := { insts := pre ++ wsFinInst (L, r, g) :: rs.map (wsMkInst d) }, reported := .null :: st.reported,
                     s := G l2 (t ++ wsRender rs (endsec sp tail)) sk1, total := st.total + 1, valid := st.valid + 1 } : P2 F)
          (pre ++ [wsFinInst (L, r, g)]) t l2 sk1 false n ht rfl (by simp only [List.length_cons] at hf; omega) (by simp)
          (by
            intro i hi x hx
            simp only [List.mem_append, List.mem_singleton] at hi
            rcases hi with hi | rfl
            · exact hfresh i hi x (by simp [hx])
            · exact hrid x hx)
          hnd'
          (by
            rw [← hlk, hmgr]
            apply lookup_congr
            simp [keyOf, wsFinInst, finInst, wsMkInst, mkInst])
          (fun x hx => hok x (by simp [hx]))
        refine ⟨st', hrun, ⟨?_, ?_, ?_, ?_, ?_, ?_, hdone.s, ?_⟩⟩
        · rw [hdone.mgr]; simp
        · rw [hdone.err]
        · rw [hdone.total]; simp only [List.length_cons]; omega
        · rw [hdone.valid]; simp only [List.length_cons]; omega
        · rw [hdone.invalid]
        · rw [hdone.incomplete]
        · intro x hx
          rcases hdone.rep x hx with h | h
          · exact Or.inl h
          · simp only [List.mem_cons] at h
            exact h

/-! ### both passes -/

theorem wsRender_length (rs : List (Letter × Rec F × List Byte)) (fin : List Byte) : rs.length ≤ (wsRender rs fin).length := by
  induction rs with
  | nil => simp
  | cons x rs ih =>
    obtain ⟨L, r, g⟩ := x
    have := Rec.text_length r (g ++ wsRender rs fin)
    simp only [wsRender, List.length_cons, List.length_append] at this ⊢
    omega

theorem wsData1_recs (cfg : RWCfg) (hcfg : cfg.skipInstanceSkipsComments = true) (d : Dict) (sp tail : List Byte)
    (hsp : sp.all isSpace = true) (rs : List (Letter × Rec F × List Byte)) (g0 : List Byte) (hg0 : Seps g0)
    (hok : ∀ x ∈ rs, x.1 ≠ .D ∧ Rec1OK d x.2) (hnd : (rs.map (·.2.1.id)).Nodup) :
    ∃ l', wsData1 (F := F) cfg d { right := g0 ++ wsRender rs (endsec sp tail), skipws := false } =
      .ok { mgr := { insts := rs.map (wsMkInst d) }, count := rs.length, notCreated := 0, s := G l' tail false } := by
  unfold wsData1
  rcases foundEndSec_wsgap g0 hg0 rs sp tail hsp [] false with ⟨hnil, l2, hfe⟩ | ⟨l2, t, ht, hfe⟩
  · have hfe' : foundEndSec { right := g0 ++ wsRender rs (endsec sp tail), skipws := false } = (true, G l2 tail false) := hfe
    rw [hfe']
    subst hnil
    refine ⟨l2, ?_⟩
    simp only
    unfold wsData1Loop
    simp
    rfl
  · have hfe' : foundEndSec { right := g0 ++ wsRender rs (endsec sp tail), skipws := false } =
        (false, G l2 (t ++ wsRender rs (endsec sp tail)) false) := hfe
    rw [hfe']
    simp only
    obtain ⟨l3, h⟩ := wsData1Loop_recs cfg hcfg d sp tail hsp rs
      (⟨{}, 0, 0, G l2 (t ++ wsRender rs (endsec sp tail)) false⟩ : P1 F) t l2
      ((t ++ wsRender rs (endsec sp tail)).length + 3) ht rfl
      (by have := wsRender_length rs (endsec sp tail); simp only [List.length_append]; omega) hok hnd
      (by intro i hi; simp at hi)
    refine ⟨l3, ?_⟩
    simpa using h

/-- **the two passes of a working-session read over the TEXT of its DATA section**: entries `L#id=NAME(parameters);` with
    `L` one of C, I, N, records of the fragment the C01 reader theorems cover, pairwise different ids, any layout between
    tokens and between entries: pass 1 creates one instance per entry with the state of its letter, pass 2 reads every
    parameter to the value its token denotes and leaves the state alone; nothing is reported, every instance is counted valid -/
theorem wsReadData_recs (ops : FloatOps F) (lex : LexCfg) (cfg : RWCfg) (hcfg : cfg.skipInstanceSkipsComments = true)
    (d : Dict) (strict : Bool) (sp tail : List Byte) (hsp : sp.all isSpace = true)
    (rs : List (Letter × Rec F × List Byte)) (g0 : List Byte) (hg0 : Seps g0)
    (h1 : ∀ x ∈ rs, x.1 ≠ .D ∧ Rec1OK d x.2) (hnd : (rs.map (·.2.1.id)).Nodup)
    (h2 : ∀ x ∈ rs, Rec2OK { ops := ops, lex := lex, cfg := cfg, dict := d,
                              lookup := Mgr.lookup d ({ insts := rs.map (wsMkInst d) } : Mgr F) } strict x.2) :
    ∃ p1 p2, wsReadData ops lex cfg d strict (g0 ++ wsRender rs (endsec sp tail)) = .ok (p1, p2) ∧
      p2.mgr.insts = rs.map wsFinInst ∧ p1.count = rs.length ∧ p1.notCreated = 0 ∧ p2.fileErr = .null ∧
      p2.valid = rs.length ∧ p2.invalid = 0 ∧ p2.incomplete = 0 ∧ (∃ l' sk', p2.s = G l' tail sk') ∧
      ∀ x ∈ p2.reported, x = .null := by
  obtain ⟨l1, hp1⟩ := wsData1_recs cfg hcfg d sp tail hsp rs g0 hg0 h1 hnd
  unfold wsReadData
  simp only [bind, Except.bind, hp1, Nat.lt_irrefl, gt_iff_lt, if_false, pure, Except.pure]
  have key : ∃ st', wsData2Loop ops lex cfg d strict
      ((foundEndSec { right := g0 ++ wsRender rs (endsec sp tail), skipws := false }).2.right.length + 3)
      { mgr := { insts := rs.map (wsMkInst d) }, fileErr := .null, total := 0, valid := 0, invalid := 0, incomplete := 0,
        warnings := 0, s := (foundEndSec { right := g0 ++ wsRender rs (endsec sp tail), skipws := false }).2 } false
      (foundEndSec { right := g0 ++ wsRender rs (endsec sp tail), skipws := false }).1 = .ok st' ∧
      st'.mgr.insts = rs.map wsFinInst ∧ st'.fileErr = .null ∧ st'.valid = rs.length ∧ st'.invalid = 0 ∧
      st'.incomplete = 0 ∧ (∃ l' sk', st'.s = G l' tail sk') ∧ ∀ x ∈ st'.reported, x = .null := by
    rcases foundEndSec_wsgap g0 hg0 rs sp tail hsp [] false with ⟨hnil, l2, hfe⟩ | ⟨l2, t, ht, hfe⟩
    · have hfe' : foundEndSec { right := g0 ++ wsRender rs (endsec sp tail), skipws := false } = (true, G l2 tail false) := hfe
      rw [hfe']
      subst hnil
      refine ⟨({ mgr := { insts := [] }, fileErr := .null, total := 0, valid := 0, invalid := 0, incomplete := 0,
                 warnings := 0, s := G l2 tail false } : P2 F), ?_, ?_⟩
      · simp only
        unfold wsData2Loop
        simp only [G_good, Bool.not_true, Bool.and_false, Bool.false_eq_true, if_false, pure, Except.pure]
        rfl
      · exact ⟨rfl, rfl, rfl, rfl, rfl, ⟨l2, false, rfl⟩, fun x hx => by simp at hx⟩
    · have hfe' : foundEndSec { right := g0 ++ wsRender rs (endsec sp tail), skipws := false } =
          (false, G l2 (t ++ wsRender rs (endsec sp tail)) false) := hfe
      rw [hfe']
      obtain ⟨st', hrun, hdone⟩ := wsData2Loop_recs ops lex cfg d strict
        (Mgr.lookup d ({ insts := rs.map (wsMkInst d) } : Mgr F)) sp tail hsp rs
        ({ mgr := { insts := rs.map (wsMkInst d) }, fileErr := .null, total := 0, valid := 0, invalid := 0, incomplete := 0,
           warnings := 0, s := G l2 (t ++ wsRender rs (endsec sp tail)) false } : P2 F) [] t l2 false false
        ((t ++ wsRender rs (endsec sp tail)).length + 3) ht rfl
        (by have := wsRender_length rs (endsec sp tail); simp only [List.length_append]; omega)
        (by simp) (by intro i hi; simp at hi) hnd rfl (fun x hx => ⟨(h1 x hx).1, h2 x hx⟩)
      refine ⟨st', hrun, ?_, hdone.err, ?_, hdone.invalid, hdone.incomplete, hdone.s, ?_⟩
      · simpa using hdone.mgr
      · simpa using hdone.valid
      · intro x hx
        rcases hdone.rep x hx with h | h
        · exact h
        · simp at h
  obtain ⟨st', hrun, hm, herr, hv, hinv, hinc, hs, hrep⟩ := key
  rw [hrun]
  exact ⟨_, _, rfl, hm, rfl, rfl, herr, hv, hinv, hinc, hs, hrep⟩

end StepModel.WsBytes

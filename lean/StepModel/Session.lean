import StepModel.Sev
import StepModel.P21.Val
import StepModel.Generated.StepFileGen
import StepModel.Generated.InstMgrGen
import StepModel.Generated.ThreadingGen
/-!
A STEPfile session at the level C14 and C16 talk about: the instance manager as the list of (instance, state) in
insertion order plus `maxFileId`, and the two-pass reader of `STEPfile::AppendFile` (src/cleditor/STEPfile.cc):

* `SetFileIdIncrement` (`Generated.fileIdIncrOf`, regenerated from STEPfile.inline.cc) once per file,
* pass 1 (`ReadData1`/`CreateInstance`): `id + incr`, skip when the id exists, `InstMgr::Append` with state `newSE`
  (exchange) or the state of the prefix letter (working session; `D` entries skipped),
* pass 2 (`ReadData2`/`ReadInstance`): look the node up by `id + incr`, read the values with `addFileId = incr`
  handed down to every `ReadEntityRef` (plain attribute, aggregate element, select, complex part): `#r` becomes the
  instance with id `r + incr` if the manager has one, else null + SEVERITY_WARNING; the state is then set from the
  severity (exchange) or left alone (working session),
* `WriteWorkingData` / `WriteData`.

Literal values are opaque tokens.  What the attribute-level reader does to a top-level value (the lenient-mode
substitution of property C15) and the severity it reports for an instance are parameters of the reader
(`fill : Inst → Inst`, the identity in strict mode, and `asev : Inst → Sev`, `.null` on conforming instances); the
drivers instantiate them with the C15 model (`StepModel.AttrNull`).
-/
namespace StepModel.Session
open StepModel StepModel.P21 StepModel.Generated

structure Node where
  inst : Inst
  state : NodeState
  deriving DecidableEq, Repr, Inhabited

/-- `InstMgr`: master list in insertion order and `maxFileId` -/
structure Sess where
  nodes : List Node
  maxId : Int
  deriving Repr, Inhabited

def ids (ns : List Node) : List Int := ns.map (·.inst.id)

/-- `InstMgr::ClearInstances()` -/
def cleared : Sess := ⟨[], clearMaxFileId⟩

/-- `InstMgr::FindFileId` -/
def find (ns : List Node) (id : Int) : Option Node := ns.find? (fun n => n.inst.id == id)

/-- `InstMgr::Append( se, state )` -/
def append (s : Sess) (i : Inst) (st : NodeState) : Sess :=
  let (id, m) := if i.id = unassignedFileId then (nextFileIdVal s.maxId, nextFileIdVal s.maxId) else (i.id, s.maxId)
  let (id, m) := if (find s.nodes id).isSome then (nextFileIdVal m, nextFileIdVal m) else (id, m)
  let m := if id > m then id else m
  ⟨s.nodes ++ [⟨{ i with id := id }, st⟩], m⟩

/-- what pass 1 creates: id and entity type(s), no values yet -/
def stub (k : Int) (i : Inst) : Inst :=
  { id := incrementFileId k i.id, parts := i.parts.map (fun p => { p with vals := [] }) }

/-- one file entry: optional working-session state letter and the instance text -/
structure Entry where
  letter : Option Char
  inst : Inst
  deriving DecidableEq, Repr, Inhabited

inductive FileType where | exchange | working
  deriving DecidableEq, Repr

/-- state decided by the prefix of an entry (`ReadData1`) -/
def entryState (ft : FileType) (e : Entry) : NodeState :=
  match ft with
  | .exchange => exchangePass1State
  | .working =>
    match e.letter with
    | some c => if wfLetters.contains c then entityWfState c else wfDefaultState
    | none => wfDefaultState

def skipped (ft : FileType) (e : Entry) : Bool := ft = .working && entryState ft e = .delete

/-- `ReadData1` step -/
def pass1Step (ft : FileType) (k : Int) (s : Sess) (e : Entry) : Sess :=
  if skipped ft e then s
  else if (find s.nodes (incrementFileId k e.inst.id)).isSome then s     -- "instance #n already exists. Data lost"
  else append s (stub k e.inst) (entryState ft e)

/-- does the record count as "yielded no instance" (`++_entsNotCreated`)?  A record whose id exists already does; a skipped
    `D` entry does iff `Generated.deletedCountsAsFailure` -/
def failsPass1 (ft : FileType) (k : Int) (s : Sess) (e : Entry) : Bool :=
  if skipped ft e then deletedCountsAsFailure else (find s.nodes (incrementFileId k e.inst.id)).isSome

/-- `ReadData1` with its abort rule: after each record, `if( _entsNotCreated > _maxErrorCount )` the pass is abandoned
    (`nc` = records that yielded no instance so far) -/
def pass1Go (ft : FileType) (k : Int) : Nat → Sess → List Entry → Sess
  | _, s, [] => s
  | nc, s, e :: es =>
    let nc' := if failsPass1 ft k s e then nc + 1 else nc
    let s' := pass1Step ft k s e
    if nc' > maxErrorCount then s' else pass1Go ft k nc' s' es

def pass1 (ft : FileType) (k : Int) (s : Sess) (es : List Entry) : Sess := pass1Go ft k 0 s es

/-- where a value stands while it is read -/
inductive Ctx where
  | top        -- directly in the attribute
  | inAggr     -- element of an aggregate
  | inSelect   -- value of a select (`SDAI_Select::STEPread`, library code)
  | inTyped    -- content of a typed select value (`STEPread_content`, emitted by exp2cxx for every select type)
  deriving DecidableEq, Repr

/-- the increment after a call site that hands it on (`b`) or does not -/
def thr (b : Bool) (k : Int) : Int := if b then k else 0

/-- the way of the file id increment from the attribute down to `ReadEntityRef`, site by site (`T`; the code's is
    `Generated.threading`, regenerated from the source): value and "every reference resolved" -/
def resolveValT (T : Threading) (ns : List Node) : Ctx → Int → Val → Val × Bool
  | _, _, .null => (.null, true)
  | _, _, .derived => (.derived, true)
  | _, _, .tok s => (.tok s, true)
  | c, k, .ref r =>
    let k1 := thr (match c with
                   | .top => T.attrRef | .inAggr => T.aggrEntityElem | .inSelect => T.selectRef
                   | .inTyped => T.genSelectRef) k
    let k2 := thr T.refAdd k1
    if (find ns (r + k2)).isSome then (.ref (r + k2), true) else (.null, false)
  | _, k, .typed n v => let (v', ok) := resolveValT T ns .inTyped (thr T.selectContent k) v; (.typed n v', ok)
  | .inAggr, k, .aggr e =>
    -- an aggregate that is an ELEMENT of an aggregate: exp2cxx maps the outer one to GenericAggregate, whose elements are
    -- kept as text (`GenericAggrNode`, read by `STEPaggregate::ReadValue`): nothing inside is looked up; the references in
    -- the text get the increment iff the reader applies it to the text (`aggrNested`)
    (.aggr (e.mapRefs (· + thr T.aggrNested k)), true)
  | c, k, .aggr e =>
    let (e', ok) := resolveValT T ns .inAggr
      (match c with | .top => thr T.attrAggr k | .inTyped => thr T.genSelectAggr k | _ => k) e
    (.aggr e', ok)
  | _, _, .nil => (.nil, true)
  | c, k, .cons h t =>
    let (h', ok₁) := resolveValT T ns c k h
    let (t', ok₂) := resolveValT T ns c k t
    (.cons h' t', ok₁ && ok₂)
  | c, k, .via .select v =>
    let (v', ok) := resolveValT T ns .inSelect
      (thr (match c with | .inAggr => T.aggrSelectElem | _ => T.attrSelect) k) v
    (.via .select v', ok)
  | c, k, .via .redecl v => let (v', ok) := resolveValT T ns c (thr T.redef k) v; (.via .redecl v', ok)
  | _, k, .via .nested v =>
    -- the emitted STEPread_content hands the value to the member select (`genSelectNested`), whose STEPread hands it to its
    -- own STEPread_content (`selectContent`)
    let (v', ok) := resolveValT T ns .inTyped (thr T.selectContent (thr T.genSelectNested k)) v
    (.via .nested v', ok)

/-- no reference stands inside an aggregate that is an element of an aggregate (the text elements of a GenericAggregate),
    for a value standing in context `c` -/
def flatC : Ctx → Val → Bool
  | _, .null => true
  | _, .derived => true
  | _, .tok _ => true
  | _, .ref _ => true
  | _, .typed _ v => flatC .inTyped v
  | .inAggr, .aggr e => e.refs.isEmpty
  | _, .aggr e => flatC .inAggr e
  | _, .nil => true
  | c, .cons h t => flatC c h && flatC c t
  | _, .via .select v => flatC .inSelect v
  | c, .via .redecl v => flatC c v
  | _, .via .nested v => flatC .inTyped v

/-- … for every attribute value of every part of an instance -/
def FlatInst (i : Inst) : Prop := ∀ p ∈ i.parts, ∀ v ∈ p.vals, flatC .top v = true

def resolveValsT (T : Threading) (ns : List Node) (k : Int) : List Val → List Val × Bool
  | [] => ([], true)
  | v :: vs =>
    let (v', ok₁) := resolveValT T ns .top (thr T.instAttr k) v
    let (vs', ok₂) := resolveValsT T ns k vs
    (v' :: vs', ok₁ && ok₂)

/-- `cx`: the instance is complex, its parts are read through `STEPcomplex::STEPread` -/
def resolvePartsT (T : Threading) (ns : List Node) (cx : Bool) (k : Int) : List Part → List Part × Bool
  | [] => ([], true)
  | p :: ps =>
    let (vs, ok₁) := resolveValsT T ns (if cx then thr T.complexPart k else k) p.vals
    let (ps', ok₂) := resolvePartsT T ns cx k ps
    ({ p with vals := vs } :: ps', ok₁ && ok₂)

/-- the reader of the code at hand -/
def resolveVal (ns : List Node) (c : Ctx) (k : Int) (v : Val) : Val × Bool := resolveValT threading ns c k v
def resolveVals (ns : List Node) (k : Int) (vs : List Val) : List Val × Bool := resolveValsT threading ns k vs
def resolveParts (ns : List Node) (cx : Bool) (k : Int) (ps : List Part) : List Part × Bool := resolvePartsT threading ns cx k ps

/-- a reader of the class the code does NOT have (`Generated.readerState = []`): it remembers the reference resolved last,
    keyed on the number as written, and answers from that memo — kept as a model of what any such state does to the
    increment (the memo survives from one reference to the next and from one file to the next).
    Returns the instance id the reference is bound to and the memo afterwards. -/
def resolveRefMemo (ns : List Node) (k : Int) (memo : Option (Int × Int)) (r : Int) : Option Int × Option (Int × Int) :=
  match memo with
  | some (w, t) =>
    if w = r then (some t, memo)
    else if (find ns (r + k)).isSome then (some (r + k), some (r, r + k)) else (none, memo)
  | none => if (find ns (r + k)).isSome then (some (r + k), some (r, r + k)) else (none, memo)

def update (ns : List Node) (id : Int) (n' : Node) : List Node := ns.map (fun n => if n.inst.id = id then n' else n)

/-- the comment in front of an instance reaches `ReadInstance` (→ `AddP21Comment`); in a working-session file it stands
    after the state letter and is kept iff pass 2 collects it there -/
def keepComment (ft : FileType) : Bool := match ft with | .exchange => true | .working => wfLetterKeepsComment

/-- `ReadData2`/`ReadInstance` step; `fill` = what the attribute-level reader substitutes (C15), identity in strict mode -/
def pass2Step (ft : FileType) (fill : Inst → Inst) (asev : Inst → Sev) (k : Int) (s : Sess) (e : Entry) : Sess :=
  if skipped ft e then s else
  let fid := incrementFileId k e.inst.id
  match find s.nodes fid with
  | none => s                                            -- "in 2nd pass, instance #n not found"
  | some n =>
    if ft = .exchange && n.state ≠ exchangePass1State then s   -- "already exists - ignoring duplicate"
    else
      let (ps, ok) := resolveParts s.nodes (decide (1 < e.inst.parts.length)) k e.inst.parts
      let sev : Sev := Sev.greater (if ok then .null else .warning) (asev e.inst)
      let st := match ft with
        | .exchange => exchangeStateOf sev
        | .working => if workingReadKeepsState then n.state else exchangeStateOf sev
      let cm : String := if keepComment ft then e.inst.comment else ""
      { s with nodes := update s.nodes fid ⟨fill { id := fid, parts := ps, comment := cm }, st⟩ }

def pass2 (ft : FileType) (fill : Inst → Inst) (asev : Inst → Sev) (k : Int) (s : Sess) (es : List Entry) : Sess :=
  es.foldl (pass2Step ft fill asev k) s

/-- `STEPfile::AppendFile` on a well-formed file: offset from the manager as it is now, then the two passes -/
def appendFile (ft : FileType) (fill : Inst → Inst) (asev : Inst → Sev) (s : Sess) (es : List Entry) : Sess :=
  let k := fileIdIncrOf s.maxId
  pass2 ft fill asev k (pass1 ft k s es) es

def exchangeEntries (f : List Inst) : List Entry := f.map (fun i => ⟨none, i⟩)

/-- `ReadExchangeFile` / `AppendExchangeFile` / `ReadWorkingFile` -/
def readExchange (fill : Inst → Inst) (asev : Inst → Sev) (f : List Inst) : Sess :=
  appendFile .exchange fill asev cleared (exchangeEntries f)
def appendExchange (fill : Inst → Inst) (asev : Inst → Sev) (s : Sess) (f : List Inst) : Sess :=
  appendFile .exchange fill asev s (exchangeEntries f)
def readWorking (fill : Inst → Inst) (asev : Inst → Sev) (es : List Entry) : Sess := appendFile .working fill asev cleared es

/-- a reader that substitutes nothing and complains about nothing (conforming input, or strict mode on complete data) -/
def noSev : Inst → Sev := fun _ => .null

/-- `WriteData`: every node, in order -/
def writeExchange (s : Sess) : List Inst := s.nodes.map (·.inst)

/-- `WriteWorkingData`: letter + instance; nodes without state information are not written -/
def writeWorking (s : Sess) : List Entry :=
  s.nodes.filterMap (fun n => (writeLetterOf n.state).map (fun c => ⟨some c, n.inst⟩))

/-! ### the whole file: header section and `writeComments` -/

/-- a saved file: the header entities (opaque texts, FILE_NAME's time stamp left out) and the DATA entries -/
structure WFile where
  header : List String
  entries : List Entry
  deriving DecidableEq, Repr

/-- a STEPfile: its instance manager and its header instances -/
structure FSess where
  sess : Sess
  header : List String
  deriving Repr

/-- `STEPwrite( out, currSch, writeComments )`: the comment is written only when asked for -/
def stripComment (wc : Bool) (i : Inst) : Inst := if wc then i else { i with comment := "" }

/-- `STEPfile::HeaderMergeInstances` -/
def mergeHeader (old new : List String) : List String := if old.length < headerReplaceBelow then new else old

/-- `WriteWorkingFile( name, clearError, writeComments )` -/
def writeWorkingFile (wc : Bool) (s : FSess) : WFile :=
  ⟨s.header, (writeWorking s.sess).map (fun e => { e with inst := stripComment wc e.inst })⟩

/-- `ReadWorkingFile` into a STEPfile that may have read other files before -/
def readWorkingFile (fill : Inst → Inst) (asev : Inst → Sev) (prev : FSess) (f : WFile) : FSess :=
  ⟨readWorking fill asev f.entries, mergeHeader (if readWorkingClearsHeader then [] else prev.header) f.header⟩

end StepModel.Session

import StepModel.ComplexSatO
/-! `matchNonORs` and `matchORs` store truthful `viable` values (`SemV`), for every hierarchy — OrLists included. -/
namespace StepModel.Complex.Match
open StepModel.Generated StepModel.Complex

mutual
  theorem trV_fresh : ∀ (t : Tree), trV (skel (fresh t)) = t
    | .simple n => rfl
    | .and cs => by simp only [fresh, skel, trV, trVL_fresh cs]
    | .or cs => by simp only [fresh, skel, trV, trVL_fresh cs]
    | .andor cs => by simp only [fresh, skel, trV, trVL_fresh cs]
  theorem trVL_fresh : ∀ (cs : List Tree), trVL (skelL (freshL cs)) = cs
    | [] => rfl
    | c :: cs => by simp only [freshL, skelL, trVL, trV_fresh c, trVL_fresh cs]
end

theorem fresh_viable (t : Tree) : (fresh t).viable = .unknown := by cases t <;> rfl

theorem viable_skel' (t : ST) : (skel t).viable = t.viable := viable_skel t

mutual
  theorem fresh_SemV (N : List Name) : ∀ (t : Tree), treeWF t = true → SemV N (skel (fresh t))
    | .simple n, _ => ⟨fun h => (by cases h), fun h => absurd rfl (K_ne_unknown h), ⟨(by simp), (by simp)⟩⟩
    | .and cs, h => by
      simp only [treeWF, Bool.and_eq_true, Bool.not_eq_true', List.isEmpty_eq_false_iff] at h
      obtain ⟨a1, a2⟩ := freshL_SemV N cs h.2
      simp only [fresh, skel]
      refine ⟨?_, a1, fun h' => (by cases h'), fun h' => absurd rfl (K_ne_unknown h'), ⟨(by simp), (by simp)⟩, fun _ _ c hc => ?_⟩
      · intro he; have := congrArg List.length he; simp [skelL_length, freshL_length] at this; exact h.1 this
      · rw [a2 c hc]; simp
    | .andor cs, h => by
      simp only [treeWF, Bool.and_eq_true, Bool.not_eq_true', List.isEmpty_eq_false_iff] at h
      obtain ⟨a1, _⟩ := freshL_SemV N cs h.2
      simp only [fresh, skel]
      refine ⟨?_, a1, fun h' => (by cases h'), fun h' => absurd rfl (K_ne_unknown h'), ⟨(by simp), (by simp)⟩, fun h' => (by cases h')⟩
      intro he; have := congrArg List.length he; simp [skelL_length, freshL_length] at this; exact h.1 this
    | .or cs, h => by
      simp only [treeWF, Bool.and_eq_true, Bool.not_eq_true', List.isEmpty_eq_false_iff] at h
      obtain ⟨a1, _⟩ := freshL_SemV N cs h.2
      simp only [fresh, skel]
      refine ⟨?_, a1, fun h' => (by cases h'), fun h' => absurd rfl (K_ne_unknown h'), ⟨(by simp), (by simp)⟩, fun h' => (by cases h')⟩
      intro he; have := congrArg List.length he; simp [skelL_length, freshL_length] at this; exact h.1 this
  theorem freshL_SemV (N : List Name) : ∀ (cs : List Tree), treeWFL cs = true →
      SemVL N (skelL (freshL cs)) ∧ ∀ c ∈ skelL (freshL cs), c.viable = .unknown
    | [], _ => ⟨trivial, fun c hc => (by cases hc)⟩
    | c :: cs, h => by
      simp only [treeWFL, Bool.and_eq_true] at h
      obtain ⟨b1, b2⟩ := freshL_SemV N cs h.2
      refine ⟨⟨fresh_SemV N c h.1, b1⟩, fun x hx => ?_⟩
      simp only [freshL, skelL, List.mem_cons] at hx
      rcases hx with e | e
      · rw [e, viable_skel', fresh_viable]
      · exact b2 x e
end

mutual
  /-- a list that still waits for `matchORs`: an untouched OrList, or an AND/ANDOR with viable UNKNOWN whose children are
  known or wait in turn -/
  def Pend : ST → Prop
    | .simple .. => False
    | .mult .or v c c1 k cs => ∃ ts, ST.mult .or v c c1 k cs = fresh (.or ts) ∧ treeWF (.or ts) = true
    | .mult .and v _ _ _ cs => v = .unknown ∧ PendL cs
    | .mult .andor v _ _ _ cs => v = .unknown ∧ PendL cs
  def PendL : List ST → Prop
    | [] => True
    | c :: cs => (c.viable ≠ .unknown ∨ Pend c) ∧ PendL cs
end

theorem PendL_iff (cs : List ST) : PendL cs ↔ ∀ c ∈ cs, c.viable ≠ .unknown ∨ Pend c := by
  induction cs with
  | nil => simp [PendL]
  | cons c cs ih => simp [PendL, ih]

def isOrT : Tree → Bool
  | .or _ => true
  | _ => false

theorem isOr_fresh' (t : Tree) : (fresh t).isOr = isOrT t := by cases t <;> rfl

theorem satOAll_false_of_mem (N : List Name) : ∀ (cs : List Tree) (c : Tree), c ∈ cs → satO N c = false → satOAll N cs = false
  | [], _, h, _ => by cases h
  | a :: cs, c, h, hc => by
    simp only [satOAll, Bool.and_eq_false_iff]
    rcases List.mem_cons.mp h with e | e
    · subst e; exact Or.inl hc
    · exact Or.inr (satOAll_false_of_mem N cs c e hc)

theorem satOAll_true_of_all (N : List Name) : ∀ (cs : List Tree), (∀ c ∈ cs, satO N c = true) → satOAll N cs = true
  | [], _ => rfl
  | a :: cs, h => by
    simp only [satOAll, Bool.and_eq_true]
    exact ⟨h a (by simp), satOAll_true_of_all N cs (fun c hc => h c (List.mem_cons_of_mem _ hc))⟩

theorem satOAny_true_of_mem (N : List Name) : ∀ (cs : List Tree) (c : Tree), c ∈ cs → satO N c = true → satOAny N cs = true
  | [], _, h, _ => by cases h
  | a :: cs, c, h, hc => by
    simp only [satOAny, Bool.or_eq_true]
    rcases List.mem_cons.mp h with e | e
    · subst e; exact Or.inl hc
    · exact Or.inr (satOAny_true_of_mem N cs c e hc)

theorem satOAny_false_of_all (N : List Name) : ∀ (cs : List Tree), (∀ c ∈ cs, satO N c = false) → satOAny N cs = false
  | [], _ => rfl
  | a :: cs, h => by
    simp only [satOAny, Bool.or_eq_false_iff]
    exact ⟨h a (by simp), satOAny_false_of_all N cs (fun c hc => h c (List.mem_cons_of_mem _ hc))⟩

theorem trVL_mem {cs : List VT} {c : VT} (h : c ∈ cs) : trV c ∈ trVL cs := by
  induction cs with
  | nil => cases h
  | cons a cs ih =>
    simp only [trVL, List.mem_cons]
    rcases List.mem_cons.mp h with e | e
    · exact Or.inl (by rw [e])
    · exact Or.inr (ih e)

theorem trVL_mem_inv {cs : List VT} {t : Tree} (h : t ∈ trVL cs) : ∃ c ∈ cs, trV c = t := by
  induction cs with
  | nil => cases h
  | cons a cs ih =>
    simp only [trVL, List.mem_cons] at h
    rcases h with e | e
    · exact ⟨a, by simp, e.symm⟩
    · obtain ⟨c, hc, hct⟩ := ih e; exact ⟨c, List.mem_cons_of_mem _ hc, hct⟩

theorem trVL_append (a b : List VT) : trVL (a ++ b) = trVL a ++ trVL b := by
  induction a with
  | nil => rfl
  | cons x a ih => simp [trVL, ih]

theorem skelL_append (a b : List ST) : skelL (a ++ b) = skelL a ++ skelL b := by
  simp [skelL_eq_map]

theorem SemVL_append {N : List Name} {a b : List VT} (ha : SemVL N a) (hb : SemVL N b) : SemVL N (a ++ b) := by
  rw [SemVL_iff] at *
  intro c hc
  rcases List.mem_append.mp hc with h | h
  · exact ha c h
  · exact hb c h

/-- assembling the node of an AND/ANDOR list from its children -/
theorem SemV_join_node {N : List Name} {j : Join} {cs : List ST} (hj : j ≠ .or) (hne : cs ≠ []) (hs : SemVL N (skelL cs))
    (v : MT) (hv : Stored v)
    (hun : v = .unsat → satO N (trV (.mult j v (skelL cs))) = false)
    (hk : K v → satO N (trV (.mult j v (skelL cs))) = true)
    (hand : j = .and → v = .unknown → ∀ c ∈ skelL cs, c.viable ≠ .unsat) (c c1 : Int) (k : Nat) :
    SemV N (skel (.mult j v c c1 k cs)) := by
  simp only [skel]
  refine ⟨?_, hs, hun, hk, hv, hand⟩
  intro he; have := congrArg List.length he; simp [skelL_length] at this; exact hne this


end StepModel.Complex.Match

import StepModel.LazyScanFile
/-!
# White space **and comments** between the tokens of an instance

`Gap` = what Part 21 allows between two tokens: white space and any number of comments.  The repaired scanner
(`Generated.tokenComments`, `Generated.kwSpaceDelim`) skips a gap between the id and `=`, after `=`, between the keyword and `(`,
between `)` and `;` and before `ENDSEC`; before `#` it accepts white space and at most one comment.
-/
namespace StepModel.Lazy
open StepModel.Generated

/-- (white space before the comment, comment body) … then trailing white space -/
abbrev Gap := List (Bytes × Bytes)

def gapRender : Gap → Bytes → Bytes → Bytes
  | [], ws, rest => ws ++ rest
  | (w, b) :: t, ws, rest => w ++ ('/' :: '*' :: (b ++ ('*' :: '/' :: gapRender t ws rest)))

def gapOk (g : Gap) : Bool := g.all (fun p => p.1.all isSpace && cmtOk p.2)

theorem gapRender_length (g : Gap) (ws rest : Bytes) :
    (gapRender g ws rest).length = (gapRender g ws []).length + rest.length := by
  induction g with
  | nil => simp [gapRender]
  | cons p t ih => obtain ⟨w, b⟩ := p; simp [gapRender, ih]; omega

theorem space_ne (c : Char) (h : isSpace c = true) : c ≠ '*' ∧ c ≠ '/' ∧ c ≠ '#' ∧ c ≠ '\'' := by
  unfold isSpace at h
  simp only [Bool.or_eq_true, beq_iff_eq] at h
  rcases h with ((((h | h) | h) | h) | h) | h <;> (subst h; decide)

theorem space_ne2 (c : Char) (h : isSpace c = true) : c ≠ '(' ∧ c ≠ ')' ∧ c ≠ '=' := by
  unfold isSpace at h
  simp only [Bool.or_eq_true, beq_iff_eq] at h
  rcases h with ((((h | h) | h) | h) | h) | h <;> (subst h; decide)

theorem seqOk_other (c : Char) (l : List Tok) : seqOk (Tok.other c :: l) = seqOk l := by
  cases l <;> simp [seqOk]

theorem seqOk_cmt (b : Bytes) (l : List Tok) : seqOk (Tok.cmt b :: l) = seqOk l := by
  cases l <;> simp [seqOk]

/-- the first byte of a rendered gap is white space, `/`, or the byte that follows the gap -/
theorem gap_head (g : Gap) (hg : gapOk g = true) (ws : Bytes) (hws : ws.all isSpace = true) (c : Char) (r : Bytes) :
    ∃ x y, gapRender g ws (c :: r) = x :: y ∧ (isSpace x = true ∨ x = '/' ∨ x = c) := by
  cases g with
  | nil =>
    cases ws with
    | nil => exact ⟨c, r, rfl, Or.inr (Or.inr rfl)⟩
    | cons w t =>
      simp only [List.all_cons, Bool.and_eq_true] at hws
      exact ⟨w, t ++ c :: r, rfl, Or.inl hws.1⟩
  | cons p t =>
    obtain ⟨w, b⟩ := p
    simp only [gapOk, List.all_cons, Bool.and_eq_true] at hg
    cases w with
    | nil => exact ⟨'/', _, rfl, Or.inr (Or.inl rfl)⟩
    | cons w0 wt =>
      have := hg.1.1
      simp only [List.all_cons, Bool.and_eq_true] at this
      exact ⟨w0, _, rfl, Or.inl this.1⟩

theorem gap_head_ne (g : Gap) (hg : gapOk g = true) (ws : Bytes) (hws : ws.all isSpace = true) (c : Char) (r : Bytes)
    (z : Char) (hz1 : isSpace z = false) (hz2 : z ≠ '/') (hz3 : z ≠ c) :
    (gapRender g ws (c :: r)).head? ≠ some z := by
  obtain ⟨x, y, h, hx⟩ := gap_head g hg ws hws c r
  rw [h]; simp
  rcases hx with hx | hx | hx
  · intro e; rw [e, hz1] at hx; cases hx
  · rw [hx]; exact fun e => hz2 e.symm
  · rw [hx]; exact fun e => hz3 e.symm

theorem skipWS_idem (s : Bytes) : skipWS (skipWS s) = skipWS s := by
  induction s with
  | nil => rfl
  | cons c t ih =>
    by_cases h : isSpace c = true
    · simp [skipWS, h, ih]
    · have h' : isSpace c = false := by simpa using h
      simp [skipWS, h']

/-- after white space and comments the stream stands at the next token -/
theorem skipWS_gap_step (w b : Bytes) (hw : w.all isSpace = true) (X : Bytes) :
    skipWS (w ++ ('/' :: '*' :: X)) = '/' :: '*' :: X := skipWS_ws w hw '/' (by decide) ('*' :: X)

theorem skipWSC_gap (ws : Bytes) (hws : ws.all isSpace = true) (c : Char) (hc : isSpace c = false) (hc2 : c ≠ '/')
    (hc3 : c ≠ '*') (r : Bytes) :
    ∀ (g : Gap), gapOk g = true → ∀ f, (gapRender g ws (c :: r)).length + 2 ≤ f →
      skipWSC f (gapRender g ws (c :: r)) = .ok (c :: r) := by
  intro g
  induction g with
  | nil =>
    intro _ f hf
    obtain ⟨f0, rfl⟩ : ∃ j, f = j + 1 := ⟨f - 1, by omega⟩
    have hsk := skipWS_ws ws hws c hc r
    simp only [gapRender, skipWSC, hsk]
    split
    · rename_i h; injection h with h1 _; exact absurd h1 hc2
    · rfl
  | cons p t ih =>
    intro hg f hf
    obtain ⟨w, b⟩ := p
    have hg' := hg
    simp only [gapOk, List.all_cons, Bool.and_eq_true] at hg'
    have hgt : gapOk t = true := hg'.2
    obtain ⟨f0, rfl⟩ : ∃ j, f = j + 1 := ⟨f - 1, by omega⟩
    have hlen : (gapRender ((w, b) :: t) ws (c :: r)).length =
        w.length + b.length + 4 + (gapRender t ws (c :: r)).length := by simp [gapRender]; omega
    have hsk := skipWS_gap_step w b hg'.1.1 (b ++ ('*' :: '/' :: gapRender t ws (c :: r)))
    have hsc := skipComment_render b hg'.1.2 (gapRender t ws (c :: r))
      (gap_head_ne t hgt ws hws c r '*' (by decide) (by decide) (fun e => hc3 e.symm)) f0 (by omega)
    simp only [gapRender, skipWSC, hsk, hsc]
    exact ih hgt f0 (by omega)

theorem betweenTokens_gap (g : Gap) (hg : gapOk g = true) (ws : Bytes) (hws : ws.all isSpace = true) (c : Char)
    (hc : isSpace c = false) (hc2 : c ≠ '/') (hc3 : c ≠ '*') (r : Bytes) (f : Nat)
    (hf : (gapRender g ws (c :: r)).length + 2 ≤ f) :
    betweenTokens f (gapRender g ws (c :: r)) = .ok (c :: r) := by
  unfold betweenTokens
  have : tokenComments = true := rfl
  simp only [this, ↓reduceIte]
  exact skipWSC_gap ws hws c hc hc2 hc3 r g hg f hf

theorem kwChar_props (k : Char) (h : isKwChar k = true) : isSpace k = false ∧ k ≠ '/' ∧ k ≠ '*' ∧ k ≠ '\'' := by
  refine ⟨?_, ?_, ?_, ?_⟩
  · cases hsp : isSpace k with
    | false => rfl
    | true =>
      unfold isSpace at hsp
      simp only [Bool.or_eq_true, beq_iff_eq] at hsp
      rcases hsp with ((((e | e) | e) | e) | e) | e <;> (subst e; revert h; decide)
  all_goals (intro e; subst e; revert h; decide)

/-- the keyword loop: `acc` non-empty or the stop byte not `/` -/
theorem kwLoop_kw' (kw : Bytes) (hk : kw.all isKwChar = true) (c : Char) (t : Bytes)
    (hc : isKwChar c = false) (hb : c ≠ '!') :
    ∀ (f : Nat) (acc : Bytes), (c ≠ '/' ∨ acc ≠ [] ∨ kw ≠ []) → kw.length + 1 ≤ f →
      kwLoop f acc (kw ++ c :: t) = .ok (acc.reverse ++ kw, c :: t) := by
  induction kw with
  | nil =>
    intro f acc hs hf
    obtain ⟨f0, rfl⟩ : ∃ j, f = j + 1 := ⟨f - 1, by simp at hf; omega⟩
    have h1 : (c == '!') = false := by simp; exact hb
    have h3 : (c == '/' && t.head? == some '*' && acc.isEmpty) = false := by
      rcases hs with h | h | h
      · have : (c == '/') = false := by simp; exact h
        simp [this]
      · cases acc with
        | nil => exact absurd rfl h
        | cons a b => simp
      · exact absurd rfl h
    simp only [List.nil_append, kwLoop, hc, h1, Bool.false_and, Bool.or_self, Bool.false_eq_true, ↓reduceIte, h3,
      List.append_nil]
  | cons k ks ih =>
    intro f acc _ hf
    obtain ⟨f0, rfl⟩ : ∃ j, f = j + 1 := ⟨f - 1, by simp at hf; omega⟩
    simp only [List.all_cons, Bool.and_eq_true] at hk
    simp only [List.cons_append, kwLoop, hk.1, Bool.true_or, ↓reduceIte]
    rw [ih hk.2 f0 (k :: acc) (Or.inr (Or.inl (by simp))) (by simp at hf; omega)]
    simp

/-- the keyword after a gap (comments are skipped while nothing of the keyword has been read) -/
theorem kwLoop_gap (ws : Bytes) (hws : ws.all isSpace = true) (kw : Bytes) (hk : kw.all isKwChar = true) (c : Char) (t : Bytes)
    (hc : isKwChar c = false) (hb : c ≠ '!') (hsp : kw = [] → (isSpace c = false ∧ c ≠ '/' ∧ c ≠ '*')) :
    ∀ (g : Gap), gapOk g = true → ∀ f, (gapRender g ws (kw ++ c :: t)).length + 2 ≤ f →
      kwLoop f [] (skipWS (gapRender g ws (kw ++ c :: t))) = .ok (kw, c :: t) := by
  -- the first byte after the gap
  obtain ⟨k0, kt, hK, hk0⟩ : ∃ k0 kt, kw ++ c :: t = k0 :: kt ∧ isSpace k0 = false ∧ k0 ≠ '/' ∧ k0 ≠ '*' := by
    cases kw with
    | nil => exact ⟨c, t, rfl, hsp rfl⟩
    | cons k ks =>
      simp only [List.all_cons, Bool.and_eq_true] at hk
      have := kwChar_props k hk.1
      exact ⟨k, ks ++ c :: t, rfl, this.1, this.2.1, this.2.2.1⟩
  intro g
  induction g with
  | nil =>
    intro _ f hf
    have hsk : skipWS (gapRender [] ws (kw ++ c :: t)) = kw ++ c :: t := by
      simp only [gapRender]; rw [hK]; exact skipWS_ws ws hws k0 hk0.1 kt
    rw [hsk]
    have := kwLoop_kw' kw hk c t hc hb f [] (by
      cases kw with
      | nil => exact Or.inl (hsp rfl).2.1
      | cons a b => exact Or.inr (Or.inr (by simp))) (by simp [gapRender] at hf; omega)
    simpa using this
  | cons p tl ih =>
    intro hg f hf
    obtain ⟨w, b⟩ := p
    have hg' := hg
    simp only [gapOk, List.all_cons, Bool.and_eq_true] at hg'
    have hgt : gapOk tl = true := hg'.2
    obtain ⟨f0, rfl⟩ : ∃ j, f = j + 1 := ⟨f - 1, by omega⟩
    have hlen : (gapRender ((w, b) :: tl) ws (kw ++ c :: t)).length =
        w.length + b.length + 4 + (gapRender tl ws (kw ++ c :: t)).length := by simp [gapRender]; omega
    have hsk := skipWS_gap_step w b hg'.1.1 (b ++ ('*' :: '/' :: gapRender tl ws (kw ++ c :: t)))
    have hne : (gapRender tl ws (kw ++ c :: t)).head? ≠ some '*' := by
      rw [hK]; exact gap_head_ne tl hgt ws hws k0 kt '*' (by decide) (by decide) (fun e => hk0.2.2 e.symm)
    have hsc := skipComment_render b hg'.1.2 (gapRender tl ws (kw ++ c :: t)) hne f0 (by omega)
    have e1 : isKwChar '/' = false := by decide
    simp only [gapRender, hsk, kwLoop, e1, Bool.false_or, List.head?_cons, beq_self_eq_true, Bool.true_and, List.isEmpty_nil,
      Bool.and_true, Bool.false_eq_true, ↓reduceIte]
    have e2 : ('/' == '!') = false := by decide
    simp only [e2, Bool.false_and, Bool.false_eq_true, ↓reduceIte, hsc]
    exact ih hgt f0 (by omega)

/-! ### the written instance with gaps -/

/-- the optional comment (and white space after it) that may stand before `#` -/
def leadRender : Option (Bytes × Bytes) → Bytes → Bytes
  | none, X => X
  | some (b, wl), X => '/' :: '*' :: (b ++ ('*' :: '/' :: (wl ++ X)))

structure RInstC where
  ws0 : Bytes
  lead : Option (Bytes × Bytes)
  ws1 : Bytes
  ds : Bytes
  g2 : Gap
  ws2 : Bytes
  g3 : Gap
  ws3 : Bytes
  kw : Bytes
  pre : List Tok
  ts : List Tok
  g4 : Gap
  ws4 : Bytes

def RInstC.render (i : RInstC) (rest : Bytes) : Bytes :=
  i.ws0 ++ leadRender i.lead ('#' :: (i.ws1 ++ (i.ds ++ gapRender i.g2 i.ws2 ('=' :: gapRender i.g3 i.ws3 (i.kw ++
    (renderToks (i.pre ++ Tok.popen :: i.ts) ++ (')' :: gapRender i.g4 i.ws4 (';' :: rest))))))))

/-- between the keyword and `(`: white space and comments -/
def preOk (pre : List Tok) : Bool :=
  pre.all (fun t => match t with | .other c => isSpace c | .cmt b => cmtOk b | _ => false)

structure RInstC.Ok (i : RInstC) : Prop where
  w0 : i.ws0.all isSpace = true
  lead : (match i.lead with | none => true | some (b, wl) => cmtOk b && wl.all isSpace) = true
  w1 : i.ws1.all isSpace = true
  w2 : i.ws2.all isSpace = true
  w3 : i.ws3.all isSpace = true
  w4 : i.ws4.all isSpace = true
  g2 : gapOk i.g2 = true
  g3 : gapOk i.g3 = true
  g4 : gapOk i.g4 = true
  dne : i.ds ≠ []
  dd : i.ds.all isDigit = true
  dlen : idLen i.ds ≤ instanceIdDigits
  dpos : 0 < digitsVal i.ds
  dmax : digitsVal i.ds ≤ instanceIdMax
  kwc : i.kw.all isKwChar = true
  kwsp : i.kw = [] → i.pre = []
  pre : preOk i.pre = true
  tok : ∀ t ∈ i.ts, t.ok = true
  seq : seqOk i.ts = true
  inner : innerOk 1 i.ts = true
  depth : depthAfter 1 i.ts = 1

def RInstC.entry (i : RInstC) : Entry := { id := digitsVal i.ds, kw := i.kw, refs := refsOfToks i.ts }

theorem pre_facts : ∀ (pre : List Tok), preOk pre = true → ∀ (ts : List Tok),
    (∀ t ∈ pre, t.ok = true) ∧
    (∀ d, innerOk d (pre ++ Tok.popen :: ts) = innerOk (d + 1) ts) ∧
    (∀ d, depthAfter d (pre ++ Tok.popen :: ts) = depthAfter (d + 1) ts) ∧
    refsOfToks (pre ++ Tok.popen :: ts) = refsOfToks ts ∧
    seqOk (pre ++ Tok.popen :: ts) = seqOk ts := by
  intro pre
  induction pre with
  | nil =>
    intro _ ts
    refine ⟨fun t h => (by cases h), fun d => (by simp [innerOk]), fun d => (by simp [depthAfter]), (by simp [refsOfToks]), ?_⟩
    cases ts <;> simp [seqOk]
  | cons x xs ih =>
    intro hp ts
    simp only [preOk, List.all_cons, Bool.and_eq_true] at hp
    have ih' := ih (by simpa [preOk] using hp.2) ts
    cases x with
    | other c =>
      have hsp : isSpace c = true := by simpa using hp.1
      have hne := space_ne c hsp
      have hok : (Tok.other c).ok = true := by
        have := space_ne2 c hsp
        simp [Tok.ok, this.1, this.2.1, this.2.2, hne.2.1, hne.2.2.1, hne.2.2.2]
      refine ⟨fun t h => ?_, fun d => by simp [innerOk, ih'.2.1], fun d => by simp [depthAfter, ih'.2.2.1],
        by simp [refsOfToks, ih'.2.2.2.1], ?_⟩
      · rcases List.mem_cons.mp h with h | h
        · rw [h]; exact hok
        · exact ih'.1 t h
      · simp only [List.cons_append]
        rw [seqOk_other, ih'.2.2.2.2]
    | cmt b =>
      have hb : cmtOk b = true := by simpa using hp.1
      refine ⟨fun t h => ?_, fun d => by simp [innerOk, ih'.2.1], fun d => by simp [depthAfter, ih'.2.2.1],
        by simp [refsOfToks, ih'.2.2.2.1], ?_⟩
      · rcases List.mem_cons.mp h with h | h
        · rw [h]; simpa [Tok.ok] using hb
        · exact ih'.1 t h
      · simp only [List.cons_append]
        rw [seqOk_cmt, ih'.2.2.2.2]
    | ref _ => simp at hp
    | str _ => simp at hp
    | popen => simp at hp
    | pclose => simp at hp

/-- `seekInstanceEnd` from depth 0, ending with a gap before `;` -/
theorem seekEnd_body0_gap (ts : List Tok) (hall : ∀ t ∈ ts, t.ok = true) (hseq : seqOk ts = true)
    (hin : innerOk 0 ts = true) (hd : depthAfter 0 ts = 1)
    (g : Gap) (hg : gapOk g = true) (ws : Bytes) (hws : ws.all isSpace = true) (rest : Bytes) (f : Nat)
    (hf : (renderToks ts).length + (gapRender g ws (';' :: rest)).length + 4 ≤ f) :
    seekEnd f 0 [] (renderToks ts ++ ')' :: gapRender g ws (';' :: rest)) = .ok (refsOfToks ts, rest) := by
  obtain ⟨f', hk, he⟩ := seekEnd_toks ((gapRender g ws (';' :: rest)).length + 4) (by omega) ts hall hseq 0 []
    (')' :: gapRender g ws (';' :: rest)) f hin (fun c hc => by simp at hc; subst hc; decide) (by simp) (by omega)
  obtain ⟨f2, rfl⟩ : ∃ j, f' = j + 1 := ⟨f' - 1, by omega⟩
  rw [he, hd]
  have hbt := betweenTokens_gap g hg ws hws ';' (by decide) (by decide) (by decide) rest f2 (by omega)
  simp (config := { decide := true }) [seekEnd, hbt]

/-- `#` digits gap `=` with an optional comment before `#` -/
theorem readInstanceNumber_gap (ws0 : Bytes) (lead : Option (Bytes × Bytes)) (ws1 ds : Bytes) (g2 : Gap) (ws2 : Bytes)
    (h0 : ws0.all isSpace = true) (hl : ∀ b wl, lead = some (b, wl) → cmtOk b = true ∧ wl.all isSpace = true)
    (h1 : ws1.all isSpace = true) (hg : gapOk g2 = true)
    (h2 : ws2.all isSpace = true) (dne : ds ≠ []) (dd : ds.all isDigit = true) (dlen : idLen ds ≤ instanceIdDigits)
    (dpos : 0 < digitsVal ds) (dmax : digitsVal ds ≤ instanceIdMax) (u : Bytes) (f : Nat)
    (hf : (ws0 ++ leadRender lead ('#' :: (ws1 ++ (ds ++ gapRender g2 ws2 ('=' :: u))))).length + 2 ≤ f) :
    readInstanceNumber f (ws0 ++ leadRender lead ('#' :: (ws1 ++ (ds ++ gapRender g2 ws2 ('=' :: u))))) =
      .ok (digitsVal ds, u) := by
  obtain ⟨d0, dt, rfl⟩ : ∃ d0 dt, ds = d0 :: dt := by
    cases ds with
    | nil => exact absurd rfl dne
    | cons a b => exact ⟨a, b, rfl⟩
  have hd0 : isDigit d0 = true := by simp at dd; exact dd.1
  -- what stands after `#`
  let X : Bytes := '#' :: (ws1 ++ ((d0 :: dt) ++ gapRender g2 ws2 ('=' :: u)))
  have sX : skipWS X = X := skipWS_nonspace _ _ (by decide)
  have s1 : skipWS (ws1 ++ ((d0 :: dt) ++ gapRender g2 ws2 ('=' :: u))) = (d0 :: dt) ++ gapRender g2 ws2 ('=' :: u) :=
    skipWS_ws ws1 h1 d0 (isDigit_not_space d0 hd0) (dt ++ gapRender g2 ws2 ('=' :: u))
  have htd : takeDigits ((d0 :: dt) ++ gapRender g2 ws2 ('=' :: u)) = (d0 :: dt, gapRender g2 ws2 ('=' :: u)) :=
    takeDigits_append (d0 :: dt) dd _ (by
      intro c hc
      obtain ⟨x, y, hxy, hx⟩ := gap_head g2 hg ws2 h2 '=' u
      rw [hxy] at hc
      have hcx : x = c := by simpa using hc
      rw [← hcx]
      cases hdg : isDigit x with
      | false => rfl
      | true =>
        rcases hx with hx | hx | hx
        · have := isDigit_not_space x hdg; rw [hx] at this; cases this
        · rw [hx] at hdg; revert hdg; decide
        · rw [hx] at hdg; revert hdg; decide)
  have hbt := betweenTokens_gap g2 hg ws2 h2 '=' (by decide) (by decide) (by decide) u f (by
    have := gapRender_length g2 ws2 ('=' :: u)
    cases lead with
    | none => simp [leadRender] at hf ⊢; omega
    | some p => obtain ⟨b, wl⟩ := p; simp [leadRender] at hf ⊢; omega)
  have hl1 : ¬ idLen (d0 :: dt) > instanceIdDigits := by omega
  have hz : ((d0 :: dt).length == 0) = false := by simp
  have hv : (digitsVal (d0 :: dt) == 0) = false := by simp; omega
  -- up to `#`
  have hhead : ∃ fx, beforeHash f (ws0 ++ leadRender lead X) = .ok fx ∧ skipWS fx = X := by
    unfold beforeHash
    split
    · -- any number of comments: the lead is a gap
      refine ⟨X, ?_, sX⟩
      cases lead with
      | none =>
        exact skipWSC_gap ws0 h0 '#' (by decide) (by decide) (by decide) _ [] rfl f (by simpa [gapRender, leadRender] using hf)
      | some p =>
        obtain ⟨b, wl⟩ := p
        have hbw := hl b wl rfl
        have hgo : gapOk [(ws0, b)] = true := by simp [gapOk, h0, hbw.1]
        exact skipWSC_gap wl hbw.2 '#' (by decide) (by decide) (by decide) _ [(ws0, b)] hgo f
          (by simpa [gapRender, leadRender] using hf)
    · cases lead with
      | none =>
        have s0 : skipWS (ws0 ++ X) = X := skipWS_ws ws0 h0 '#' (by decide) _
        refine ⟨X, ?_, sX⟩
        simp only [leadRender, s0]
        unfold leadComment
        simp only [X]
        split
        · rename_i h; injection h with h1 _; exact absurd h1 (by decide)
        · rfl
      | some p =>
        obtain ⟨b, wl⟩ := p
        have hbw := hl b wl rfl
        have s0 : skipWS (ws0 ++ leadRender (some (b, wl)) X) = '/' :: '*' :: (b ++ ('*' :: '/' :: (wl ++ X))) :=
          skipWS_ws ws0 h0 '/' (by decide) _
        have hne : (wl ++ X).head? ≠ some '*' := by
          cases wl with
          | nil => simp [X]
          | cons w t =>
            have := hbw.2; simp only [List.all_cons, Bool.and_eq_true] at this
            simp; exact (space_ne w this.1).1
        have hsc := skipComment_render b hbw.1 (wl ++ X) hne f (by simp [leadRender] at hf; omega)
        refine ⟨wl ++ X, ?_, skipWS_ws wl hbw.2 '#' (by decide) _⟩
        rw [s0]
        simp only [leadComment, hsc]
  obtain ⟨fx, hlc, hfx⟩ := hhead
  simp only [readInstanceNumber, hlc, hfx, X, s1, htd, hbt, hl1, hz, hv, ↓reduceIte, Bool.false_eq_true, Nat.min_eq_left dmax]

theorem renderToks_pre_head (pre ts : List Tok) (hp : preOk pre = true) :
    ∃ c t, renderToks (pre ++ Tok.popen :: ts) = c :: t ∧ (c = '(' ∧ pre = [] ∨ isSpace c = true ∨ c = '/') := by
  cases pre with
  | nil => exact ⟨'(', renderToks ts, by simp [renderToks, Tok.render], Or.inl ⟨rfl, rfl⟩⟩
  | cons x xs =>
    simp only [preOk, List.all_cons, Bool.and_eq_true] at hp
    cases x with
    | other c => exact ⟨c, renderToks (xs ++ Tok.popen :: ts), by simp [renderToks, Tok.render], Or.inr (Or.inl (by simpa using hp.1))⟩
    | cmt b => exact ⟨'/', '*' :: (b ++ '*' :: '/' :: ' ' :: renderToks (xs ++ Tok.popen :: ts)), by simp [renderToks, Tok.render], Or.inr (Or.inr rfl)⟩
    | ref _ => simp at hp
    | str _ => simp at hp
    | popen => simp at hp
    | pclose => simp at hp

theorem renderC_length (i : RInstC) (rest : Bytes) : (i.render rest).length = (i.render []).length + rest.length := by
  have h4 := gapRender_length i.g4 i.ws4 (';' :: rest)
  have h4' := gapRender_length i.g4 i.ws4 [';']
  have h3 := gapRender_length i.g3 i.ws3 (i.kw ++ (renderToks (i.pre ++ Tok.popen :: i.ts) ++ (')' :: gapRender i.g4 i.ws4 (';' :: rest))))
  have h3' := gapRender_length i.g3 i.ws3 (i.kw ++ (renderToks (i.pre ++ Tok.popen :: i.ts) ++ (')' :: gapRender i.g4 i.ws4 [';'])))
  have h2 := gapRender_length i.g2 i.ws2 ('=' :: gapRender i.g3 i.ws3 (i.kw ++ (renderToks (i.pre ++ Tok.popen :: i.ts) ++ (')' :: gapRender i.g4 i.ws4 (';' :: rest)))))
  have h2' := gapRender_length i.g2 i.ws2 ('=' :: gapRender i.g3 i.ws3 (i.kw ++ (renderToks (i.pre ++ Tok.popen :: i.ts) ++ (')' :: gapRender i.g4 i.ws4 [';']))))
  simp only [List.length_append, List.length_cons, List.length_nil] at h2 h2' h3 h3' h4 h4'
  unfold RInstC.render
  cases hl : i.lead with
  | none =>
    simp only [leadRender, List.length_append, List.length_cons, List.length_nil]
    omega
  | some p =>
    obtain ⟨b, wl⟩ := p
    simp only [leadRender, List.length_append, List.length_cons, List.length_nil]
    omega


theorem nextInstance_gap (i : RInstC) (h : i.Ok) (rest : Bytes) (f : Nat) (hf : (i.render rest).length + 6 ≤ f) :
    nextInstance f (i.render rest) = .ok (some (i.entry, rest)) := by
  have hpf := pre_facts i.pre h.pre i.ts
  -- the pieces of the rendering, innermost first
  obtain ⟨B, hB⟩ : ∃ B, B = renderToks (i.pre ++ Tok.popen :: i.ts) ++ (')' :: gapRender i.g4 i.ws4 (';' :: rest)) := ⟨_, rfl⟩
  obtain ⟨K, hK⟩ : ∃ K, K = gapRender i.g3 i.ws3 (i.kw ++ B) := ⟨_, rfl⟩
  have hrender : i.render rest = i.ws0 ++ leadRender i.lead ('#' :: (i.ws1 ++ (i.ds ++ gapRender i.g2 i.ws2 ('=' :: K)))) := by
    rw [hK, hB]; rfl
  have hlenK : K.length + i.ds.length + 2 ≤ (i.render rest).length := by
    rw [hrender]
    have := gapRender_length i.g2 i.ws2 ('=' :: K)
    cases hl : i.lead with
    | none => simp only [leadRender, List.length_append, List.length_cons] at this ⊢; omega
    | some p => obtain ⟨b, wl⟩ := p; simp only [leadRender, List.length_append, List.length_cons] at this ⊢; omega
  have hlenB : i.kw.length + B.length ≤ K.length := by
    have := gapRender_length i.g3 i.ws3 (i.kw ++ B)
    rw [hK]; simp only [List.length_append] at this ⊢; omega
  have hlenT : (renderToks (i.pre ++ Tok.popen :: i.ts)).length + (gapRender i.g4 i.ws4 (';' :: rest)).length + 1 = B.length := by
    rw [hB]; simp only [List.length_append, List.length_cons]; omega
  have hrn := readInstanceNumber_gap i.ws0 i.lead i.ws1 i.ds i.g2 i.ws2 h.w0 (fun b wl e => by have := h.lead; rw [e] at this; simpa using this) h.w1 h.g2 h.w2 h.dne h.dd h.dlen h.dpos h.dmax
    K f (by rw [← hrender]; omega)
  obtain ⟨c, t, htl, hc⟩ := renderToks_pre_head i.pre i.ts h.pre
  have hBc : B = c :: (t ++ (')' :: gapRender i.g4 i.ws4 (';' :: rest))) := by rw [hB, htl]; rfl
  have hcp : isKwChar c = false ∧ c ≠ '!' ∧ (keywordDelims.contains c || (kwSpaceDelim && isSpace c)) = true := by
    rcases hc with ⟨h1, _⟩ | h1 | h1
    · subst h1; decide
    · refine ⟨?_, ?_, ?_⟩
      · cases hk : isKwChar c with
        | false => rfl
        | true => have := (kwChar_props c hk).1; rw [h1] at this; cases this
      · intro e; subst e; revert h1; decide
      · have : kwSpaceDelim = true := rfl
        simp [this, h1]
    · subst h1; decide
  have hkl := kwLoop_gap i.ws3 h.w3 i.kw h.kwc c (t ++ (')' :: gapRender i.g4 i.ws4 (';' :: rest))) hcp.1 hcp.2.1
    (by
      intro hk0
      have hp0 := h.kwsp hk0
      have hcc : c = '(' := by
        rw [hp0] at htl; simp [renderToks, Tok.render] at htl; exact htl.1.symm
      subst hcc; decide)
    i.g3 h.g3 f (by rw [← hBc, ← hK]; omega)
  have hall : ∀ x ∈ i.pre ++ Tok.popen :: i.ts, x.ok = true := by
    intro x hx
    rcases List.mem_append.mp hx with h1 | h1
    · exact hpf.1 x h1
    · rcases List.mem_cons.mp h1 with h2 | h2
      · subst h2; rfl
      · exact h.tok x h2
  have hse := seekEnd_body0_gap (i.pre ++ Tok.popen :: i.ts) hall (by rw [hpf.2.2.2.2]; exact h.seq)
    (by rw [hpf.2.1]; exact h.inner) (by rw [hpf.2.2.1]; exact h.depth) i.g4 h.g4 i.ws4 h.w4 rest f (by omega)
  rw [← hB] at hse
  have hid : (digitsVal i.ds == 0) = false := by simp; have := h.dpos; omega
  have hgk : getDelimitedKeyword f keywordDelims (skipWS K) = .ok (i.kw, B) := by
    unfold getDelimitedKeyword
    rw [skipWS_idem, hK, hBc, hkl]
    simp only [hcp.2.2, ↓reduceIte]
  unfold nextInstance
  rw [hrender, hrn]
  simp only [hid, Bool.false_eq_true, ↓reduceIte, hgk, hse, hpf.2.2.2.1]
  rfl

/-- the scan loop over any sequence of pieces each of which `nextInstance` reads as one entry (given fuel for what is left) -/
theorem scanLoop_pieces (fuel : Nat) (tail : Bytes) (htail : nextInstance fuel tail = .ok none) :
    ∀ (ps : List ((Bytes → Bytes) × Entry)),
      (∀ p ∈ ps, ∀ rest, (p.1 rest).length + 6 ≤ fuel → nextInstance fuel (p.1 rest) = .ok (some (p.2, rest))) →
      (∀ p ∈ ps, ∀ rest, rest.length ≤ (p.1 rest).length) →
      (ps.foldr (fun p r => p.1 r) tail).length + 6 ≤ fuel →
      ∀ (n : Nat), ps.length < n → ∀ acc : List Entry,
        scanLoop n fuel (ps.foldr (fun p r => p.1 r) tail) acc = .ok (acc.reverse ++ ps.map (·.2), sectionEnd fuel tail) := by
  intro ps
  induction ps with
  | nil =>
    intro _ _ _ n hn acc
    obtain ⟨n0, rfl⟩ : ∃ j, n = j + 1 := ⟨n - 1, by simp at hn; omega⟩
    simp [scanLoop, htail]
  | cons p t ih =>
    intro hok hmono hlen n hn acc
    obtain ⟨n0, rfl⟩ : ∃ j, n = j + 1 := ⟨n - 1, by simp at hn; omega⟩
    simp only [List.foldr_cons] at hlen
    have h1 := hok p (by simp) (t.foldr (fun p r => p.1 r) tail) hlen
    have hm := hmono p (by simp) (t.foldr (fun p r => p.1 r) tail)
    simp only [List.foldr_cons, scanLoop, h1]
    rw [ih (fun q hq => hok q (List.mem_cons_of_mem _ hq)) (fun q hq => hmono q (List.mem_cons_of_mem _ hq)) (by omega) n0
      (by simp at hn; omega) (p.2 :: acc)]
    simp

def renderAllC (is : List RInstC) (tail : Bytes) : Bytes := is.foldr (fun i r => i.render r) tail

theorem renderAllC_length (is : List RInstC) (r : Bytes) :
    (renderAllC is r).length = ((is.map (fun i => (i.render []).length)).sum) + r.length := by
  induction is with
  | nil => simp [renderAllC]
  | cons i t ih =>
    simp only [renderAllC, List.foldr_cons, List.map_cons, List.sum_cons] at ih ⊢
    rw [renderC_length, ih]; omega

/-- `ENDSEC` white space `;` and whatever follows -/
def endsecBytes (ws' rest : Bytes) : Bytes := 'E' :: 'N' :: 'D' :: 'S' :: 'E' :: 'C' :: (ws' ++ (';' :: rest))

/-- the end of the section after a gap: white space and comments, `ENDSEC`, white space, `;` -/
def endsecG (g : Gap) (ws ws' rest : Bytes) : Bytes := gapRender g ws (endsecBytes ws' rest)

theorem leadComment_E (f : Nat) (r : Bytes) : leadComment f ('E' :: r) = .ok ('E' :: r) := by
  unfold leadComment; split
  · rename_i h; injection h with h1 _; exact absurd h1 (by decide)
  · rfl

/-- before `ENDSEC` (either shape of the code) the scanner ends up at a byte that is not `#` -/
theorem beforeHash_tail (g : Gap) (hg : gapOk g = true) (ws : Bytes) (hws : ws.all isSpace = true) (e1 : Bytes) (f : Nat)
    (hf : (gapRender g ws ('E' :: e1)).length + 2 ≤ f) :
    ∃ fx, beforeHash f (gapRender g ws ('E' :: e1)) = .ok fx ∧ ∀ r, skipWS fx ≠ '#' :: r := by
  unfold beforeHash
  split
  · refine ⟨'E' :: e1, skipWSC_gap ws hws 'E' (by decide) (by decide) (by decide) e1 g hg f hf, ?_⟩
    intro r hr
    rw [skipWS_nonspace 'E' e1 (by decide)] at hr
    injection hr with h1 _; exact absurd h1 (by decide)
  · cases g with
    | nil =>
      have s0 : skipWS (ws ++ 'E' :: e1) = 'E' :: e1 := skipWS_ws ws hws 'E' (by decide) e1
      refine ⟨'E' :: e1, by simp only [gapRender, s0]; exact leadComment_E f e1, ?_⟩
      intro r hr
      rw [skipWS_nonspace 'E' e1 (by decide)] at hr
      injection hr with h1 _; exact absurd h1 (by decide)
    | cons p t =>
      obtain ⟨w, b⟩ := p
      have hg' := hg
      simp only [gapOk, List.all_cons, Bool.and_eq_true] at hg'
      have hsk := skipWS_gap_step w b hg'.1.1 (b ++ ('*' :: '/' :: gapRender t ws ('E' :: e1)))
      have hne : (gapRender t ws ('E' :: e1)).head? ≠ some '*' :=
        gap_head_ne t hg'.2 ws hws 'E' e1 '*' (by decide) (by decide) (by decide)
      have hsc := skipComment_render b hg'.1.2 (gapRender t ws ('E' :: e1)) hne f (by
        simp only [gapRender, List.length_append, List.length_cons] at hf; omega)
      refine ⟨gapRender t ws ('E' :: e1), by simp only [gapRender, hsk, leadComment, hsc], ?_⟩
      intro r hr
      have : ∃ x2 y2, skipWS (gapRender t ws ('E' :: e1)) = x2 :: y2 ∧ (x2 = '/' ∨ x2 = 'E') := by
        cases t with
        | nil => exact ⟨'E', e1, skipWS_ws ws hws 'E' (by decide) e1, Or.inr rfl⟩
        | cons q tt =>
          obtain ⟨w2, b2⟩ := q
          have hq := hg'.2
          simp only [gapOk, List.all_cons, Bool.and_eq_true] at hq
          exact ⟨'/', _, skipWS_gap_step w2 b2 hq.1.1 _, Or.inl rfl⟩
      obtain ⟨x2, y2, h2, hx2⟩ := this
      rw [h2] at hr
      injection hr with h3 _
      rcases hx2 with e | e <;> (rw [e] at h3; revert h3; decide)

theorem nextInstance_endsecG (g : Gap) (hg : gapOk g = true) (ws ws' rest : Bytes) (hws : ws.all isSpace = true) (f : Nat)
    (hf : (endsecG g ws ws' rest).length + 2 ≤ f) :
    nextInstance f (endsecG g ws ws' rest) = .ok none := by
  obtain ⟨fx, hbh, hnh⟩ := beforeHash_tail g hg ws hws ('N' :: 'D' :: 'S' :: 'E' :: 'C' :: (ws' ++ (';' :: rest))) f hf
  have hrn : readInstanceNumber f (endsecG g ws ws' rest) = .ok (0, skipWS fx) := by
    unfold readInstanceNumber endsecG endsecBytes
    rw [hbh]
    -- `simp` discharges the `#` alternative of the match with `hnh`
    simp only
  unfold nextInstance
  rw [hrn]
  simp

theorem sectionEnd_endsecG (g : Gap) (hg : gapOk g = true) (ws ws' rest : Bytes) (hws : ws.all isSpace = true)
    (hws' : ws'.all isSpace = true) (f : Nat) (hf : (endsecG g ws ws' rest).length + 2 ≤ f) :
    sectionEnd f (endsecG g ws ws' rest) = true := by
  have hbt := betweenTokens_gap g hg ws hws 'E' (by decide) (by decide) (by decide)
    ('N' :: 'D' :: 'S' :: 'E' :: 'C' :: (ws' ++ (';' :: rest))) f hf
  have s1 := skipWS_ws ws' hws' ';' (by decide) rest
  unfold sectionEnd endsecG endsecBytes
  rw [hbt]
  simp [s1]

end StepModel.Lazy

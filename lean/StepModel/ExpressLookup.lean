import StepModel.ExpressWF
/-!
# `Express.Resolve` — the unmarked attribute look-up against reachability (proof file)

`ENTITYget_named_attribute` (behind `SELF.a` and unqualified UNIQUE references) recurses through the supertypes without marks; the
model's `namedAttr` answers `none` when the recursion is deeper than the fuel (cyclic supertypes).  Whenever it DOES answer, the answer is
exactly reachability: `some true` ⇔ the entity or an entity reachable from it through `SUBTYPE OF` declares the attribute.
-/
namespace StepModel.Express.Resolve
open StepModel.Generated

theorem reach_first_edge {g : String → List String} {a c : String} (h : Reach g a c) : ∃ b ∈ g a, ReachRefl g b c := by
  cases h with
  | step h1 => exact ⟨c, h1, Or.inl rfl⟩
  | trans h1 h2 => exact ⟨_, h1, Or.inr h2⟩

theorem namedAttr_foldl_false (s : Schema) (an : String) (fuel : Nat) : ∀ (l : List String) (acc : Option Bool),
    l.foldl (fun acc sup => match acc with
      | none => none
      | some true => some true
      | some false => namedAttr s an fuel sup) acc = some false →
    acc = some false ∧ ∀ sup ∈ l, namedAttr s an fuel sup = some false
  | [], acc, h => ⟨by simpa using h, by simp⟩
  | x :: xs, acc, h => by
    simp only [List.foldl_cons] at h
    obtain ⟨h1, h2⟩ := namedAttr_foldl_false s an fuel xs _ h
    cases acc with
    | none => simp at h1
    | some b =>
      cases b with
      | true => simp at h1
      | false =>
        refine ⟨rfl, ?_⟩
        intro sup hs
        rcases List.mem_cons.mp hs with rfl | hs
        · simpa using h1
        · exact h2 sup hs

/-- when the look-up answers "no", nothing reachable declares the attribute -/
theorem namedAttr_false_complete (s : Schema) (an : String) : ∀ (fuel : Nat) (en : String), namedAttr s an fuel en = some false →
    ¬ ∃ x, ReachRefl (superGraph s) en x ∧ ownsAttr s an x = true
  | 0, _, h => by simp [namedAttr] at h
  | fuel + 1, en, h => by
    simp only [namedAttr] at h
    rintro ⟨x, hr, ho⟩
    cases hf : findEntity s en with
    | none =>
      rcases hr with rfl | hr
      · simp [ownsAttr, hf] at ho
      · obtain ⟨b, hb, _⟩ := reach_first_edge hr
        simp [superGraph, hf] at hb
    | some e =>
      rw [hf] at h
      simp only at h
      by_cases hown : e.attrs.any (fun a => a.name = an) = true
      · simp [hown] at h
      · simp only [hown, Bool.false_eq_true, if_false] at h
        obtain ⟨_, hall⟩ := namedAttr_foldl_false s an fuel _ _ h
        rcases hr with rfl | hr
        · simp [ownsAttr, hf] at ho; exact hown (by simpa using ho)
        · obtain ⟨b, hb, hbx⟩ := reach_first_edge hr
          have hb' : b ∈ supersOf s e := by simpa [superGraph, hf] using hb
          exact namedAttr_false_complete s an fuel b (hall b hb') ⟨x, hbx, ho⟩

/-- **whenever `ENTITYget_named_attribute` answers (the recursion stays within the fuel), its answer is reachability** -/
theorem namedAttr_answer_iff (s : Schema) (an : String) (fuel : Nat) (en : String) (b : Bool)
    (h : namedAttr s an fuel en = some b) :
    b = true ↔ ∃ x, ReachRefl (superGraph s) en x ∧ ownsAttr s an x = true := by
  cases b with
  | true => simp only [true_iff]; exact namedAttr_sound s an fuel en h
  | false =>
    simp only [Bool.false_eq_true, false_iff]
    exact namedAttr_false_complete s an fuel en h

/-! ### … and it does answer unless the supertypes are cyclic -/

/-- `l` is a path in `g` that starts with an edge out of `a` -/
def IsPath (g : String → List String) : String → List String → Prop
  | _, [] => True
  | a, b :: rest => b ∈ g a ∧ IsPath g b rest

theorem isPath_reach {g : String → List String} : ∀ (l : List String) (a x : String), IsPath g a l → x ∈ l → Reach g a x
  | [], _, _, _, h => by simp at h
  | b :: rest, a, x, hp, hx => by
    obtain ⟨hb, hr⟩ := hp
    rcases List.mem_cons.mp hx with rfl | hx
    · exact .step hb
    · exact .trans hb (isPath_reach rest b x hr hx)

theorem isPath_suffix {g : String → List String} : ∀ (l1 : List String) (a y : String) (l2 : List String),
    IsPath g a (l1 ++ y :: l2) → IsPath g y l2
  | [], _, _, _, h => h.2
  | _ :: l1, _, y, l2, h => isPath_suffix l1 _ y l2 h.2

theorem exists_dup_of_not_nodup : ∀ (l : List String), ¬ l.Nodup → ∃ l1 y l2, l = l1 ++ y :: l2 ∧ y ∈ l2
  | [], h => absurd List.nodup_nil h
  | x :: xs, h => by
    by_cases hx : x ∈ xs
    · exact ⟨[], x, xs, rfl, hx⟩
    · have : ¬ xs.Nodup := fun hn => h (List.nodup_cons.mpr ⟨hx, hn⟩)
      obtain ⟨l1, y, l2, he, hy⟩ := exists_dup_of_not_nodup xs this
      exact ⟨x :: l1, y, l2, by rw [he]; rfl, hy⟩

theorem namedAttr_foldl_none (s : Schema) (an : String) (fuel : Nat) : ∀ (l : List String) (acc : Option Bool),
    l.foldl (fun acc sup => match acc with
      | none => none
      | some true => some true
      | some false => namedAttr s an fuel sup) acc = none →
    acc = none ∨ ∃ sup ∈ l, namedAttr s an fuel sup = none
  | [], acc, h => Or.inl (by simpa using h)
  | x :: xs, acc, h => by
    simp only [List.foldl_cons] at h
    rcases namedAttr_foldl_none s an fuel xs _ h with h1 | ⟨sup, hs, hv⟩
    · cases acc with
      | none => exact Or.inl rfl
      | some b =>
        cases b with
        | true => simp at h1
        | false => exact Or.inr ⟨x, List.mem_cons_self .., by simpa using h1⟩
    · exact Or.inr ⟨sup, List.mem_cons_of_mem _ hs, hv⟩

/-- running out of fuel means a chain of `fuel` supertype edges below the entity -/
theorem namedAttr_none_path (s : Schema) (an : String) : ∀ (fuel : Nat) (en : String), namedAttr s an fuel en = none →
    ∃ l, l.length = fuel ∧ IsPath (superGraph s) en l
  | 0, _, _ => ⟨[], rfl, trivial⟩
  | fuel + 1, en, h => by
    simp only [namedAttr] at h
    cases hf : findEntity s en with
    | none => rw [hf] at h; simp at h
    | some e =>
      rw [hf] at h
      simp only at h
      by_cases hown : e.attrs.any (fun a => a.name = an) = true
      · simp [hown] at h
      · simp only [hown, Bool.false_eq_true, if_false] at h
        rcases namedAttr_foldl_none s an fuel _ _ h with h1 | ⟨sup, hs, hv⟩
        · cases h1
        · obtain ⟨l, hl, hp⟩ := namedAttr_none_path s an fuel sup hv
          exact ⟨sup :: l, by simp [hl], by simpa [IsPath, superGraph, hf] using ⟨hs, hp⟩⟩

theorem isPath_entities (s : Schema) : ∀ (l : List String) (a : String), IsPath (superGraph s) a l →
    ∀ x ∈ l, x ∈ s.entities.map (·.name)
  | [], _, _, x, hx => by simp at hx
  | b :: rest, a, hp, x, hx => by
    rcases List.mem_cons.mp hx with rfl | hx
    · exact superGraph_entities s a x hp.1
    · exact isPath_entities s rest b hp.2 x hx

/-- **`ENTITYget_named_attribute` answers unless the supertypes below the entity are cyclic**: with more fuel than there are entities
    (the passes give declarations + 1), `none` implies an entity that is reachable from `en` and is its own ancestor -/
theorem namedAttr_none_cycle (s : Schema) (an : String) (fuel : Nat) (en : String) (hf : s.entities.length < fuel)
    (h : namedAttr s an fuel en = none) : ∃ y, Reach (superGraph s) en y ∧ Reach (superGraph s) y y := by
  obtain ⟨l, hl, hp⟩ := namedAttr_none_path s an fuel en h
  have hnd : ¬ l.Nodup := by
    intro hn
    have := nodup_length_le l (s.entities.map (·.name)) hn (isPath_entities s l en hp)
    simp only [List.length_map] at this
    omega
  obtain ⟨l1, y, l2, he, hy⟩ := exists_dup_of_not_nodup l hnd
  subst he
  exact ⟨y, isPath_reach _ en y hp (by simp), isPath_reach l2 y y (isPath_suffix l1 en y l2 hp) hy⟩

/-! ### `ENTITYfind_inherited_entity( e, name, 0 )` (the qualifier of `SELF\name.attr`) against paths of supertype edges -/

theorem isAncestor_iff_path (s : Schema) (name : String) : ∀ (fuel : Nat) (en : String),
    isAncestor s name fuel en = true ↔
      ∃ l, l ≠ [] ∧ l.length ≤ fuel ∧ IsPath (superGraph s) en l ∧ l.getLast? = some name
  | 0, en => by
    simp only [isAncestor, Bool.false_eq_true, false_iff]
    rintro ⟨l, hne, hl, _, _⟩
    cases l with
    | nil => exact hne rfl
    | cons a as => simp at hl
  | fuel + 1, en => by
    simp only [isAncestor]
    cases hf : findEntity s en with
    | none =>
      simp only [Bool.false_eq_true, false_iff]
      rintro ⟨l, hne, _, hp, _⟩
      cases l with
      | nil => exact hne rfl
      | cons a as => simp [IsPath, superGraph, hf] at hp
    | some e =>
      simp only [List.any_eq_true, Bool.or_eq_true, decide_eq_true_eq]
      constructor
      · rintro ⟨sup, hs, h | h⟩
        · subst h
          exact ⟨[sup], by simp, by simp, by simp [IsPath, superGraph, hf, hs], rfl⟩
        · obtain ⟨l, hne, hl, hp, hlast⟩ := (isAncestor_iff_path s name fuel sup).mp h
          refine ⟨sup :: l, by simp, by simp; omega, by simp [IsPath, superGraph, hf, hs, hp], ?_⟩
          cases l with
          | nil => exact absurd rfl hne
          | cons a as => simpa [List.getLast?_cons_cons] using hlast
      · rintro ⟨l, hne, hl, hp, hlast⟩
        cases l with
        | nil => exact absurd rfl hne
        | cons b rest =>
          have hb : b ∈ supersOf s e := by simpa [IsPath, superGraph, hf] using hp.1
          refine ⟨b, hb, ?_⟩
          cases rest with
          | nil => left; simpa using hlast
          | cons c cs =>
            right
            apply (isAncestor_iff_path s name fuel b).mpr
            exact ⟨c :: cs, by simp, by simp at hl ⊢; omega, hp.2, by simpa [List.getLast?_cons_cons] using hlast⟩

/-- what the qualifier look-up finds is a proper ancestor -/
theorem isAncestor_sound (s : Schema) (name : String) (fuel : Nat) (en : String) (h : isAncestor s name fuel en = true) :
    Reach (superGraph s) en name := by
  obtain ⟨l, hne, _, hp, hlast⟩ := (isAncestor_iff_path s name fuel en).mp h
  exact isPath_reach l en name hp (List.mem_of_getLast? hlast)

theorem isPath_split {g : String → List String} : ∀ (l1 : List String) (a y : String) (r : List String),
    IsPath g a (l1 ++ y :: r) ↔ IsPath g a (l1 ++ [y]) ∧ IsPath g y r
  | [], a, y, r => by simp [IsPath]
  | x :: l1, a, y, r => by
    simp only [List.cons_append, IsPath]
    rw [isPath_split l1 x y r]
    exact ⟨fun ⟨h1, h2, h3⟩ => ⟨⟨h1, h2⟩, h3⟩, fun ⟨⟨h1, h2⟩, h3⟩ => ⟨h1, h2, h3⟩⟩

theorem getLast?_append_cons (l1 : List String) (y : String) (r : List String) :
    (l1 ++ y :: r).getLast? = (y :: r).getLast? := by
  induction l1 with
  | nil => rfl
  | cons x xs ih =>
    cases hx : xs ++ y :: r with
    | nil => simp at hx
    | cons b bs => rw [List.cons_append, hx, List.getLast?_cons_cons, ← hx, ih]

/-- a path can be shortened to one without a repeated node -/
theorem exists_nodup_path {g : String → List String} (a c : String) : ∀ (n : Nat) (l : List String), l.length = n →
    IsPath g a l → l.getLast? = some c → ∃ l', l'.Nodup ∧ IsPath g a l' ∧ l'.getLast? = some c := by
  intro n
  induction n using Nat.strongRecOn with
  | ind n ih =>
    intro l hl hp hlast
    by_cases hnd : l.Nodup
    · exact ⟨l, hnd, hp, hlast⟩
    · obtain ⟨l1, y, l2, he, hy⟩ := exists_dup_of_not_nodup l hnd
      obtain ⟨m1, m2, hm⟩ := List.append_of_mem hy
      subst he; subst hm
      have hp1 := (isPath_split l1 a y _).mp hp
      have hp2 : IsPath g y m2 := isPath_suffix m1 y y m2 hp1.2
      have hp' : IsPath g a (l1 ++ y :: m2) := (isPath_split l1 a y m2).mpr ⟨hp1.1, hp2⟩
      have hlast' : (l1 ++ y :: m2).getLast? = some c := by
        rw [getLast?_append_cons] at hlast ⊢
        have : (y :: (m1 ++ y :: m2)).getLast? = (y :: m2).getLast? := by
          have := getLast?_append_cons (y :: m1) y m2
          simpa using this
        rw [this] at hlast; exact hlast
      refine ih (l1 ++ y :: m2).length ?_ _ rfl hp' hlast'
      subst hl
      simp only [List.length_append, List.length_cons]
      omega

/-- **every proper ancestor is found with the fuel the passes use**: `isAncestor … (declarations + 1)` ⇔ `name` is reachable from the entity
    through one or more `SUBTYPE OF` edges -/
theorem isAncestor_iff_reach (s : Schema) (name en : String) :
    isAncestor s name (s.decls.length + 1) en = true ↔ Reach (superGraph s) en name := by
  constructor
  · exact isAncestor_sound s name _ en
  · intro hr
    -- a path, then a path without repetition, whose nodes are entity names: its length is at most the number of entities
    have hpath : ∃ l, IsPath (superGraph s) en l ∧ l.getLast? = some name := by
      induction hr with
      | step h => exact ⟨[_], by simp [IsPath, h], rfl⟩
      | @trans a b c h _ ih =>
        obtain ⟨l, hp, hl⟩ := ih
        refine ⟨b :: l, ⟨h, hp⟩, ?_⟩
        cases l with
        | nil => simp at hl
        | cons x xs => simpa [List.getLast?_cons_cons] using hl
    obtain ⟨l, hp, hl⟩ := hpath
    obtain ⟨l', hnd, hp', hl'⟩ := exists_nodup_path en name l.length l rfl hp hl
    have hlen := nodup_length_le l' (s.entities.map (·.name)) hnd (isPath_entities s l' en hp')
    simp only [List.length_map] at hlen
    have : s.entities.length ≤ s.decls.length := List.length_filterMap_le _ _
    apply (isAncestor_iff_path s name _ en).mpr
    refine ⟨l', ?_, by omega, hp', hl'⟩
    intro h; rw [h] at hl'; simp at hl'

end StepModel.Express.Resolve

import StepModel.ExpressWF
/-!
# `Express.Resolve` — the unmarked attribute look-up against reachability (proof file)

`ENTITYget_named_attribute` (behind `SELF.a` and unqualified UNIQUE references) recurses through the supertypes without marks; the
model's `namedAttr` answers `none` when the recursion is deeper than the fuel (cyclic supertypes).  Whenever it DOES answer, the answer is
exactly reachability: `some true` ⇔ the entity or an entity reachable from it through `SUBTYPE OF` declares the attribute.
-/
namespace StepModel.Express.Resolve
open StepModel.Generated

theorem reach_first_edge {g : String → List String} {a c : String} (h : Reach g a c) : ∃ b ∈ g a, ReachRefl g b c := by
  cases h with
  | step h1 => exact ⟨c, h1, Or.inl rfl⟩
  | trans h1 h2 => exact ⟨_, h1, Or.inr h2⟩

theorem namedAttr_foldl_false (s : Schema) (an : String) (fuel : Nat) : ∀ (l : List String) (acc : Option Bool),
    l.foldl (fun acc sup => match acc with
      | none => none
      | some true => some true
      | some false => namedAttr s an fuel sup) acc = some false →
    acc = some false ∧ ∀ sup ∈ l, namedAttr s an fuel sup = some false
  | [], acc, h => ⟨by simpa using h, by simp⟩
  | x :: xs, acc, h => by
    simp only [List.foldl_cons] at h
    obtain ⟨h1, h2⟩ := namedAttr_foldl_false s an fuel xs _ h
    cases acc with
    | none => simp at h1
    | some b =>
      cases b with
      | true => simp at h1
      | false =>
        refine ⟨rfl, ?_⟩
        intro sup hs
        rcases List.mem_cons.mp hs with rfl | hs
        · simpa using h1
        · exact h2 sup hs

/-- when the look-up answers "no", nothing reachable declares the attribute -/
theorem namedAttr_false_complete (s : Schema) (an : String) : ∀ (fuel : Nat) (en : String), namedAttr s an fuel en = some false →
    ¬ ∃ x, ReachRefl (superGraph s) en x ∧ ownsAttr s an x = true
  | 0, _, h => by simp [namedAttr] at h
  | fuel + 1, en, h => by
    simp only [namedAttr] at h
    rintro ⟨x, hr, ho⟩
    cases hf : findEntity s en with
    | none =>
      rcases hr with rfl | hr
      · simp [ownsAttr, hf] at ho
      · obtain ⟨b, hb, _⟩ := reach_first_edge hr
        simp [superGraph, hf] at hb
    | some e =>
      rw [hf] at h
      simp only at h
      by_cases hown : e.attrs.any (fun a => a.name = an) = true
      · simp [hown] at h
      · simp only [hown, Bool.false_eq_true, if_false] at h
        obtain ⟨_, hall⟩ := namedAttr_foldl_false s an fuel _ _ h
        rcases hr with rfl | hr
        · simp [ownsAttr, hf] at ho; exact hown (by simpa using ho)
        · obtain ⟨b, hb, hbx⟩ := reach_first_edge hr
          have hb' : b ∈ supersOf s e := by simpa [superGraph, hf] using hb
          exact namedAttr_false_complete s an fuel b (hall b hb') ⟨x, hbx, ho⟩

/-- **whenever `ENTITYget_named_attribute` answers (the recursion stays within the fuel), its answer is reachability** -/
theorem namedAttr_answer_iff (s : Schema) (an : String) (fuel : Nat) (en : String) (b : Bool)
    (h : namedAttr s an fuel en = some b) :
    b = true ↔ ∃ x, ReachRefl (superGraph s) en x ∧ ownsAttr s an x = true := by
  cases b with
  | true => simp only [true_iff]; exact namedAttr_sound s an fuel en h
  | false =>
    simp only [Bool.false_eq_true, false_iff]
    exact namedAttr_false_complete s an fuel en h

end StepModel.Express.Resolve

import StepModel.ComplexComplete9
/-! What `ComplexList::matches` leaves behind: `head->reset(); ents->unmarkAll();` put the shared hierarchy and the request
list back into the state every call starts from. -/
namespace StepModel.Complex.Match
open StepModel.Generated StepModel.Complex

mutual
  /-- the start state of a hierarchy up to the fields that are never read before they are written: `choice1` of an OrList
  (constructor −1, `reset()` −2) and the three counters an AND/ANDOR list does not have -/
  def StartLike : ST → ST → Prop
    | .simple n v im, .simple n' v' im' => n = n' ∧ v = v' ∧ im = im'
    | .mult .or v c _ k cs, .mult .or v' c' _ k' cs' => v = v' ∧ c = c' ∧ k = k' ∧ StartLikeL cs cs'
    | .mult .and v _ _ _ cs, .mult .and v' _ _ _ cs' => v = v' ∧ StartLikeL cs cs'
    | .mult .andor v _ _ _ cs, .mult .andor v' _ _ _ cs' => v = v' ∧ StartLikeL cs cs'
    | _, _ => False
  def StartLikeL : List ST → List ST → Prop
    | [], [] => True
    | c :: cs, c' :: cs' => StartLike c c' ∧ StartLikeL cs cs'
    | _, _ => False
end

mutual
  theorem reset_startLike : ∀ (t : ST), StartLike (resetST t) (fresh (trV (skel t)))
    | .simple n v im => by simp [resetST, skel, trV, fresh, StartLike]
    | .mult .and v c c1 k cs => by
      simp only [resetST, skel, trV, fresh, StartLike]; exact ⟨trivial, resetL_startLike cs⟩
    | .mult .andor v c c1 k cs => by
      simp only [resetST, skel, trV, fresh, StartLike]; exact ⟨trivial, resetL_startLike cs⟩
    | .mult .or v c c1 k cs => by
      simp only [resetST, skel, trV, fresh, StartLike]
      exact ⟨trivial, by decide, by decide, resetL_startLike cs⟩
  theorem resetL_startLike : ∀ (cs : List ST), StartLikeL (resetL cs) (freshL (trVL (skelL cs)))
    | [] => trivial
    | c :: cs => by
      simp only [resetL, skelL, trVL, freshL, StartLikeL]
      exact ⟨reset_startLike c, resetL_startLike cs⟩
end

mutual
  theorem reset_holds : ∀ (t : ST), holds (resetST t) = []
    | .simple _ _ _ => by simp [resetST, holds]
    | .mult .and _ _ _ _ cs => by simp only [resetST, holds]; exact resetL_holds cs
    | .mult .andor _ _ _ _ cs => by simp only [resetST, holds]; exact resetL_holds cs
    | .mult .or _ _ _ _ cs => by simp only [resetST, holds]; exact resetL_holds cs
  theorem resetL_holds : ∀ (cs : List ST), holdsL (resetL cs) = []
    | [] => rfl
    | c :: cs => by simp only [resetL, holdsL, reset_holds c, resetL_holds cs, List.append_nil]
end

theorem unmarkEnts_names (es : Ents) : names (unmarkEnts es) = names es := by
  simp [unmarkEnts, names, List.map_map, Function.comp_def]

theorem unmarkEnts_markAt (es : Ents) (n : Name) : markAt (unmarkEnts es) n = .no := by
  unfold unmarkEnts
  induction es with
  | nil => rfl
  | cons a l ih =>
    simp only [List.map_cons, markAt]
    split
    · rfl
    · exact ih

theorem unmarkEnts_mult (es : Ents) : (unmarkEnts es).map (·.mult) = es.map (·.mult) := by
  simp [unmarkEnts, List.map_map, Function.comp_def]

end StepModel.Complex.Match

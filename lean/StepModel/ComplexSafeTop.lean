import StepModel.ComplexSafe
import StepModel.ComplexLemmas
/-!
# No crash, top level: `ComplexList::matches`, the combo list of `ComplexCollect::supports`, `supports`

Well-formedness of what exp2cxx emits (checked on every emitted tree by `checks/c08.py` through `m_c08 wf`):
`treeWF` — every AND/OR/ANDOR list has at least one child; `headWF` — a ComplexList head is `AND(SimpleList, sublist)`.
-/
namespace StepModel.Complex.Match
open StepModel.Generated StepModel.Complex

mutual
  def treeWF : Tree → Bool
    | .simple _ => true
    | .and cs => !cs.isEmpty && treeWFL cs
    | .or cs => !cs.isEmpty && treeWFL cs
    | .andor cs => !cs.isEmpty && treeWFL cs
  def treeWFL : List Tree → Bool
    | [] => true
    | c :: cs => treeWF c && treeWFL cs
end

/-- a ComplexList head as exp2cxx writes it: the supertype AND one sub-list -/
def headWF : Tree → Bool
  | .and [.simple _, t] => treeWF t
  | _ => false

theorem orInit_eq : orInitChoice = -1 := by decide

mutual
  theorem fresh_inv (N : List Name) : ∀ t : Tree, treeWF t = true → WFv N (skel (fresh t)) ∧ Ch (fresh t)
    | .simple n, _ => ⟨by simp [fresh, skel, WFv, MT.rank], trivial⟩
    | .and cs, h => by
      simp only [treeWF, Bool.and_eq_true, Bool.not_eq_true', List.isEmpty_eq_false_iff] at h
      obtain ⟨h1, h2, h3⟩ := freshL_inv N cs h.2
      have hne : freshL cs ≠ [] := ne_nil_of_length h3 (List.length_pos_iff.mpr h.1)
      simp only [fresh]
      exact ⟨WFv_mult_intro hne ((WFs_iff N _).mp h1), ⟨h2, fun hj => by cases hj⟩⟩
    | .andor cs, h => by
      simp only [treeWF, Bool.and_eq_true, Bool.not_eq_true', List.isEmpty_eq_false_iff] at h
      obtain ⟨h1, h2, h3⟩ := freshL_inv N cs h.2
      have hne : freshL cs ≠ [] := ne_nil_of_length h3 (List.length_pos_iff.mpr h.1)
      simp only [fresh]
      exact ⟨WFv_mult_intro hne ((WFs_iff N _).mp h1), ⟨h2, fun hj => by cases hj⟩⟩
    | .or cs, h => by
      simp only [treeWF, Bool.and_eq_true, Bool.not_eq_true', List.isEmpty_eq_false_iff] at h
      obtain ⟨h1, h2, h3⟩ := freshL_inv N cs h.2
      have hne : freshL cs ≠ [] := ne_nil_of_length h3 (List.length_pos_iff.mpr h.1)
      simp only [fresh]
      refine ⟨WFv_mult_intro hne ((WFs_iff N _).mp h1), ⟨h2, fun _ => ⟨fun _ => orInit_eq, fun hv => ?_⟩⟩⟩
      simp [MT.rank] at hv
  theorem freshL_inv (N : List Name) : ∀ cs : List Tree, treeWFL cs = true →
      WFvL N (skelL (freshL cs)) ∧ ChL (freshL cs) ∧ (freshL cs).length = cs.length
    | [], _ => ⟨trivial, trivial, rfl⟩
    | c :: cs, h => by
      simp only [treeWFL, Bool.and_eq_true] at h
      obtain ⟨a1, a2⟩ := fresh_inv N c h.1
      obtain ⟨b1, b2, b3⟩ := freshL_inv N cs h.2
      simp only [freshL, skelL, WFvL, ChL, List.length_cons]
      exact ⟨⟨a1, b1⟩, ⟨a2, b2⟩, by rw [b3]⟩
end

-- ------------------------------------------------------------------ retry and matches
theorem retry_spec (N : List Name) (combo : Bool) : ∀ (f : Nat) (head : ST) (es : Ents),
    WFv N (skel head) → Ch head → names es = N → head.isSimple = false → head.isOr = false →
    Good (retry f combo head es) (fun _ => True) := by
  intro f
  induction f with
  | zero => intro _ _ _ _ _ _ _; simp [retry, Good]
  | succ f ih =>
    intro head es hw hc hn hs ho
    simp only [retry]
    refine Good.bind ((trynext_spec N f).1 head es hw hc hn hs (fun h => by rw [ho] at h; cases h)) ?_
    rintro ⟨head', es', r⟩ ⟨hsk, hc', hn'⟩
    have hw' : WFv N (skel head') := by rw [hsk]; exact hw
    have hs' : head'.isSimple = false := by rw [isSimple_of_skel hsk]; exact hs
    have ho' : head'.isOr = false := by rw [isOr_of_skel hsk]; exact ho
    dsimp only
    split
    · split
      · trivial
      · exact ih head' es' hw' hc' hn' hs' ho'
    · split
      · exact ih head' es' hw' hc' hn' hs' ho'
      · trivial

theorem matchesList_spec (fuel : Nat) (combo : Bool) (n : Name) (rest : List Tree) (es : Ents)
    (hwf : treeWF (.and (.simple n :: rest)) = true) :
    Good (matchesList fuel combo (.and (.simple n :: rest)) es) (fun _ => True) := by
  obtain ⟨hw, hc⟩ := fresh_inv (names es) _ hwf
  simp only [matchesList, buildList]
  split
  · trivial
  · refine Good.bind ((nonors_spec (names es) fuel).1 _ es hw hc rfl) ?_
    rintro ⟨h1, es1, r1⟩ hp
    have hs1 : h1.isSimple = false := by have := hp.simp_eq; simpa [fresh, ST.isSimple] using this
    have ho1 : h1.isOr = false := by have := hp.or_eq; simpa [fresh, ST.isOr] using this
    have hr1 : r1 = h1.viable := hp.res (by simp [fresh, ST.isOr])
    dsimp only
    split
    · trivial
    · split
      · trivial
      · rename_i hnn hu
        have hu' : r1 = .unknown := by simpa using hu
        refine Good.bind ((ors_spec (names es) fuel).1 h1 es1 hp.wf hp.ch hp.nm hp.rd hs1 (by rw [← hr1]; exact hu')) ?_
        rintro ⟨h2, es2, r2⟩ hq
        have hs2 : h2.isSimple = false := by rw [hq.simp_eq]; exact hs1
        have ho2 : h2.isOr = false := by rw [hq.or_eq]; exact ho1
        dsimp only
        split
        · trivial
        · split
          · exact retry_spec (names es) combo fuel h2 es2 hq.wf hq.ch hq.nm hs2 ho2
          · trivial


-- ------------------------------------------------------------------ the combo list
/-- supertype, sub-list, supertype, sub-list, … -/
def pairs : List Tree → Bool
  | [] => true
  | .simple _ :: t :: rest => treeWF t && pairs rest
  | _ => false

theorem pairs_append : ∀ (a b : List Tree), pairs a = true → pairs b = true → pairs (a ++ b) = true
  | [], b, _, hb => by simpa using hb
  | .simple n :: t :: rest, b, ha, hb => by
    simp only [pairs, Bool.and_eq_true] at ha
    simp only [List.cons_append, pairs, Bool.and_eq_true]
    exact ⟨ha.1, pairs_append rest b ha.2 hb⟩
  | [.simple _], _, ha, _ => by simp [pairs] at ha
  | .and _ :: _, _, ha, _ => by simp [pairs] at ha
  | .or _ :: _, _, ha, _ => by simp [pairs] at ha
  | .andor _ :: _, _, ha, _ => by simp [pairs] at ha

theorem pairs_even : ∀ (a : List Tree), pairs a = true → a.length % 2 = 0
  | [], _ => rfl
  | .simple n :: t :: rest, ha => by
    simp only [pairs, Bool.and_eq_true] at ha
    have := pairs_even rest ha.2
    simp only [List.length_cons]; omega
  | [.simple _], ha => by simp [pairs] at ha
  | .and _ :: _, ha => by simp [pairs] at ha
  | .or _ :: _, ha => by simp [pairs] at ha
  | .andor _ :: _, ha => by simp [pairs] at ha

theorem pairs_treeWFL : ∀ (a : List Tree), pairs a = true → treeWFL a = true
  | [], _ => rfl
  | .simple n :: t :: rest, ha => by
    simp only [pairs, Bool.and_eq_true] at ha
    simp only [treeWFL, treeWF, Bool.true_and, Bool.and_eq_true]
    exact ⟨ha.1, pairs_treeWFL rest ha.2⟩
  | [.simple _], ha => by simp [pairs] at ha
  | .and _ :: _, ha => by simp [pairs] at ha
  | .or _ :: _, ha => by simp [pairs] at ha
  | .andor _ :: _, ha => by simp [pairs] at ha

theorem toplevel_pairs (nm : Name) : ∀ (a : List Tree), pairs a = true →
    ∃ b, toplevel a nm = .ok b ∧ (b = true → a ≠ [])
  | [], _ => ⟨false, rfl, fun h => by cases h⟩
  | .simple n :: t :: rest, ha => by
    simp only [pairs, Bool.and_eq_true] at ha
    simp only [toplevel]
    split
    · exact ⟨true, rfl, fun _ => by simp⟩
    · obtain ⟨b, hb, _⟩ := toplevel_pairs nm rest ha.2
      exact ⟨b, hb, fun _ => by simp⟩
  | [.simple _], ha => by simp [pairs] at ha
  | .and _ :: _, ha => by simp [pairs] at ha
  | .or _ :: _, ha => by simp [pairs] at ha
  | .andor _ :: _, ha => by simp [pairs] at ha

theorem headWF_shape {h : Tree} (hw : headWF h = true) : ∃ n t, h = .and [.simple n, t] ∧ treeWF t = true := by
  unfold headWF at hw
  split at hw
  · rename_i n t; exact ⟨_, t, rfl, hw⟩
  · cases hw

/-- one step of the joining loop -/
def joinStep (node : ENode) (acc' : List Tree) (h : Tree) : Outcome (List Tree) :=
  match buildList h, superOf h with
  | some list, some sup =>
    if containsWalk list [node.name] then do
      let already ← toplevel acc' sup
      pure (if already then acc' else acc' ++ h.children)
    else pure acc'
  | _, _ => Outcome.crash .badHead

theorem joinLists_eq (c : Collect) (es : Ents) :
    joinLists c es = es.foldlM (fun acc node => if !node.mult then pure acc else c.foldlM (joinStep node) acc) [] := rfl

theorem Good.foldlM {α β : Type} {I : β → Prop} {f : β → α → Outcome β} :
    ∀ (l : List α) (init : β), I init → (∀ acc x, x ∈ l → I acc → Good (f acc x) I) → Good (l.foldlM f init) I
  | [], init, hi, _ => by simp only [List.foldlM]; exact Good.pure' hi
  | x :: xs, init, hi, hf => by
    simp only [List.foldlM_cons]
    refine Good.bind (hf init x (by simp) hi) ?_
    intro a ha
    exact Good.foldlM xs a ha (fun acc y hy => hf acc y (List.mem_cons_of_mem _ hy))

theorem joinStep_good (node : ENode) (acc : List Tree) (h : Tree) (ha : pairs acc = true) (hh : headWF h = true) :
    Good (joinStep node acc h) (fun r => pairs r = true) := by
  obtain ⟨n, t, rfl, ht⟩ := headWF_shape hh
  simp only [joinStep, buildList, superOf]
  split
  · obtain ⟨b, hb, _⟩ := toplevel_pairs n acc ha
    rw [hb]
    show pairs (if b = true then acc else acc ++ _) = true
    split
    · exact ha
    · exact pairs_append _ _ ha (by simp [Tree.children, pairs, ht])
  · exact ha

theorem joinLists_good (c : Collect) (es : Ents) (hc : ∀ h ∈ c, headWF h = true) :
    Good (joinLists c es) (fun r => pairs r = true) := by
  rw [joinLists_eq]
  refine Good.foldlM es [] rfl ?_
  intro acc node _ hacc
  split
  · exact hacc
  · exact Good.foldlM c acc hacc (fun acc' h hh ha' => joinStep_good node acc' h ha' (hc h hh))

/-- a fold whose steps never empty a non-empty accumulator ends non-empty once some step produces a non-empty one -/
theorem foldlM_nonempty {α : Type} {f : List Tree → α → Outcome (List Tree)}
    (hmono : ∀ acc x r, f acc x = .ok r → acc ≠ [] → r ≠ []) :
    ∀ (l : List α) (init r : List Tree), l.foldlM f init = .ok r →
      (init ≠ [] ∨ ∃ x ∈ l, ∀ acc r', f acc x = .ok r' → r' ≠ []) → r ≠ []
  | [], init, r, h, hor => by
    simp only [List.foldlM] at h
    have : init = r := by cases h; rfl
    rcases hor with h1 | ⟨x, hx, _⟩
    · rw [← this]; exact h1
    · cases hx
  | x :: xs, init, r, h, hor => by
    simp only [List.foldlM_cons] at h
    cases hfx : f init x with
    | ok a =>
      rw [hfx] at h
      refine foldlM_nonempty hmono xs a r h ?_
      rcases hor with h1 | ⟨y, hy, hyp⟩
      · exact Or.inl (hmono init x a hfx h1)
      · rcases List.mem_cons.mp hy with e | e
        · subst e; exact Or.inl (hyp init a hfx)
        · exact Or.inr ⟨y, e, hyp⟩
    | crash c => rw [hfx] at h; cases h
    | outOfFuel => rw [hfx] at h; cases h

theorem bind_ok {α β : Type} {x : Outcome α} {f : α → Outcome β} {r : β} (h : (x >>= f) = .ok r) :
    ∃ a, x = .ok a ∧ f a = .ok r := by
  cases x with
  | ok a => exact ⟨a, rfl, h⟩
  | crash c => cases h
  | outOfFuel => cases h

theorem joinStep_mono (node : ENode) (acc : List Tree) (h : Tree) (r : List Tree)
    (hr : joinStep node acc h = .ok r) (hne : acc ≠ []) : r ≠ [] := by
  unfold joinStep at hr
  split at hr
  · split at hr
    · obtain ⟨b, _, hb⟩ := bind_ok hr
      have : r = if b = true then acc else acc ++ h.children := by cases hb; rfl
      rw [this]; split
      · exact hne
      · intro he; exact hne (List.append_eq_nil_iff.mp he).1
    · cases hr; exact hne
  · cases hr

theorem joinStep_cover (node : ENode) (h : Tree) (hh : headWF h = true)
    (hcov : ∃ list, buildList h = some list ∧ containsWalk list [node.name] = true) :
    ∀ acc r, joinStep node acc h = .ok r → r ≠ [] := by
  intro acc r hr
  obtain ⟨n, t, rfl, ht⟩ := headWF_shape hh
  obtain ⟨list, hl, hcw⟩ := hcov
  simp only [joinStep, superOf] at hr
  rw [hl] at hr
  simp only [hcw, if_true] at hr
  obtain ⟨b, hb, hb'⟩ := bind_ok hr
  have : r = if b = true then acc else acc ++ (Tree.and [.simple n, t]).children := by cases hb'; rfl
  rw [this]; split
  · rename_i hbt
    intro he; subst he; subst hbt
    simp [toplevel] at hb
  · simp [Tree.children]

theorem joinLists_nonempty (c : Collect) (es : Ents) (hc : ∀ h ∈ c, headWF h = true) (joined : List Tree)
    (hj : joinLists c es = .ok joined)
    (hcov : ∃ node ∈ es, node.mult = true ∧ ∃ h ∈ c, ∃ list, buildList h = some list ∧ containsWalk list [node.name] = true) :
    joined ≠ [] := by
  rw [joinLists_eq] at hj
  have hmono : ∀ acc (node : ENode) r,
      (if (!node.mult) = true then (pure acc : Outcome (List Tree)) else c.foldlM (joinStep node) acc) = .ok r →
      acc ≠ [] → r ≠ [] := by
    intro acc node r hr hne
    split at hr
    · cases hr; exact hne
    · exact foldlM_nonempty (fun a x r' => joinStep_mono node a x r') c acc r hr (Or.inl hne)
  refine foldlM_nonempty hmono es [] joined hj (Or.inr ?_)
  obtain ⟨node, hn, hm, h, hh, hl⟩ := hcov
  refine ⟨node, hn, fun acc r' hr => ?_⟩
  simp only [hm, Bool.not_true, Bool.false_eq_true, if_false] at hr
  exact foldlM_nonempty (fun a x r'' => joinStep_mono node a x r'') c acc r' hr
    (Or.inr ⟨h, hh, joinStep_cover node h (hc h hh) hl⟩)

-- ------------------------------------------------------------------ `contains` on ascending lists
theorem containsWalk_of_mem (x : Nat) : ∀ (l : List Nat), l.Pairwise (· < ·) → x ∈ l → containsWalk l [x] = true
  | [], _, h => by cases h
  | o :: ours, hs, h => by
    have hp := List.pairwise_cons.mp hs
    simp only [containsWalk]
    rcases List.mem_cons.mp h with e | e
    · subst e; simp [containsWalk]
    · have hlt : o < x := hp.1 x e
      simp only [hlt, if_true]
      exact containsWalk_of_mem x ours hp.2 e

theorem buildList_mem (n : Name) (rest : List Tree) (x : Name) (hx : x ∈ leaves (.and (.simple n :: rest))) :
    ∃ list, buildList (.and (.simple n :: rest)) = some list ∧ containsWalk list [x] = true := by
  refine ⟨_, rfl, ?_⟩
  have hs : (insAll [n] (leavesL rest)).Pairwise (· < ·) := sorted_insAll _ _ (by simp)
  have hm : x ∈ insAll [n] (leavesL rest) := by
    rw [mem_insAll]
    simp only [leaves, leavesL, List.mem_cons, List.mem_append] at hx
    rcases hx with (h | h) | h
    · exact Or.inl (by simp [h])
    · cases h
    · exact Or.inr h
  exact containsWalk_of_mem x _ hs hm

-- ------------------------------------------------------------------ supports
theorem supportsEnts_good (fuel : Nat) (c : Collect) (es : Ents) (hc : ∀ h ∈ c, headWF h = true)
    (hcov : ∀ node ∈ es, node.mult = true → ∃ h ∈ c, node.name ∈ leaves h) :
    Good (supportsEnts fuel c es) (fun _ => True) := by
  unfold supportsEnts
  split
  · rename_i hany
    cases hj : joinLists c es with
    | crash k => exact absurd hj (Good.not_crash (joinLists_good c es hc) k)
    | outOfFuel => trivial
    | ok joined =>
      have hp : pairs joined = true := by have := joinLists_good c es hc; rw [hj] at this; exact this
      have hne : joined ≠ [] := by
        refine joinLists_nonempty c es hc joined hj ?_
        obtain ⟨node, hn, hm⟩ := List.any_eq_true.mp hany
        obtain ⟨h, hh, hl⟩ := hcov node hn hm
        obtain ⟨n, t, rfl, _⟩ := headWF_shape (hc h hh)
        exact ⟨node, hn, hm, _, hh, buildList_mem n [t] node.name hl⟩
      show Good (if joined.isEmpty = true then _ else _) _
      have he : joined.isEmpty = false := by cases joined with | nil => exact absurd rfl hne | cons => rfl
      simp only [he, Bool.false_eq_true, if_false]
      have hev := pairs_even joined hp
      have : ¬ joined.length % 2 = 1 := by omega
      simp only [this, if_false]
      cases joined with
      | nil => exact absurd rfl hne
      | cons a rest =>
        cases a with
        | simple n =>
          refine matchesList_spec fuel true n rest es ?_
          have := pairs_treeWFL _ hp
          simp only [treeWF, List.isEmpty_cons, Bool.not_false, Bool.true_and]
          exact this
        | and => simp [pairs] at hp
        | or => simp [pairs] at hp
        | andor => simp [pairs] at hp
  · refine Good.mono (Good.foldlM (I := fun _ => True) c false trivial ?_) (fun _ _ => trivial)
    intro acc h hh _
    split
    · trivial
    · obtain ⟨n, t, rfl, ht⟩ := headWF_shape (hc h hh)
      refine Good.mono (matchesList_spec fuel false n [t] es ?_) (fun _ _ => trivial)
      simp [treeWF, treeWFL, ht]

/-- **No crash.**  On the trees exp2cxx emits (`headWF`), for every request whose multiply-inheriting members occur in
some list, the matcher model never reaches any of its crash sites — with the regenerated null guard of `tryNext`. -/
theorem supports_no_crash (c : Collect) (mult parts : List Name) (hc : ∀ h ∈ c, headWF h = true)
    (hcov : ∀ n ∈ parts, n ∈ mult → ∃ h ∈ c, n ∈ leaves h) (k : Crash) :
    supports c mult parts ≠ .crash k := by
  refine Good.not_crash (supportsEnts_good _ c _ hc ?_) k
  intro node hn hm
  simp only [mkEnts, List.mem_map] at hn
  obtain ⟨x, hx, rfl⟩ := hn
  simp only at hm ⊢
  exact hcov x ((mem_mkNames parts x).mp hx) (by simpa using hm)

end StepModel.Complex.Match

import StepModel.AlphaOrder
import StepModel.Generated.CxxCollectGen
/-!
# exp2cxx's `ComplexCollect`: the name-ordered list of `ComplexList`s (src/exp2cxx/collect.cc, expressbuild.cc)

`print_file` builds a `ComplexCollect` before anything is written; `compstructs.cc` is written from it.
The constructor makes one `ComplexList` per entity that has subtypes (recursively, sub-hierarchies first), `insert`s each into a
singly linked list kept in the order of the supertype NAMES (`strcmp`), and finally walks the list and `remove`s every list
whose entity has supertypes itself ("dependent").  Names are not unique: two schemas of one file may declare an entity of the
same name.  What is modelled: `insert`, `remove` with its walk (form regenerated from the source: `Generated.CxxCollect.removeScan`),
the pruning loop of the constructor with its `prev` / `cl` cursor — including that it does NOT advance when `remove` gave up —,
and the `// ComplexList with supertype "<name>":` lines of compstructs.cc.  Not modelled: the EntList trees inside a list.

`lt a b` stands for `strcmp(a, b) < 0`; a list is identified by `id` (its address).
-/
namespace StepModel.Collect
open StepModel.AlphaOrder (StrictTotal)
open StepModel.Generated.CxxCollect

structure CL where
  id : Nat
  name : String
  dependent : Bool
  deriving DecidableEq, Repr

variable (lt : String → String → Bool)

/-- `ComplexCollect::insert( c )`: walk while `*cl < *c`, link `c` in front of the element the walk stops at -/
def insert (c : CL) : List CL → List CL
  | [] => [c]
  | x :: r => if lt x.name c.name then x :: insert c r else c :: x :: r

/-- does the walk of `remove( c )` step over `x`? -/
def stepsOver (s : RemoveScan) (c x : CL) : Bool :=
  match s with
  | .whileLess => lt x.name c.name
  | .untilSelfWhileNotGreater => x.id != c.id && !(lt c.name x.name)

/-- `ComplexCollect::remove( c )`: walk, give up unless the walk stopped at `c` itself, otherwise unlink it -/
def remove (s : RemoveScan) (c : CL) : List CL → List CL
  | [] => []
  | x :: r => if stepsOver lt s c x then x :: remove s c r
              else if x.id = c.id then r else x :: r

/-- the loop at the end of `ComplexCollect::ComplexCollect`.  The cursor `cl` is the element at index `k` (`prev` the one before it):
    a dependent list is handed to `remove` and the cursor re-read as `prev->next` (or `clists`) — the same index of the new list;
    otherwise the cursor advances.  `none` = the fuel ran out. -/
def prune (s : RemoveScan) : Nat → List CL → Nat → Option (List CL)
  | 0, _, _ => none
  | fuel + 1, l, k =>
    match l[k]? with
    | none => some l
    | some c => if c.dependent then prune s fuel (remove lt s c l) k else prune s fuel l (k + 1)

/-- the constructor: the lists in the order they are inserted, then the pruning loop -/
def build (s : RemoveScan) (fuel : Nat) (inserted : List CL) : Option (List CL) :=
  prune lt s fuel (inserted.foldl (fun l c => insert lt c l) []) 0

/-- the `// ComplexList with supertype "…":` lines of compstructs.cc -/
def written (l : List CL) : List String := l.map (·.name)

/-- name-ordered, equal names allowed -/
def Ordered (l : List CL) : Prop := l.Pairwise (fun a b => lt b.name a.name = false)

/-- addresses are unique -/
def DistinctIds (l : List CL) : Prop := (l.map (·.id)).Nodup

end StepModel.Collect

import StepModel.P21SafeLoopLemmas
/-! Termination of the stream loops with nested sub-loops (`scanUntil` = SkipInstance / FindStartOfInstance,
`tokSepLoop` = ReadTokenSeparator, the outer `);` recovery loop, the export-list loop) — helper file for Props/C05.
Measure `IS.m`: 0 once failbit is set, else remaining bytes + 1. -/
namespace StepModel.P21Safe

/-- second measure: ignores eofbit (a stream with eofbit only has nothing left: every loop test stops on it) -/
def IS.m (s : IS) : Nat := if s.fail then 0 else s.rest.length + 1

theorem skipSpaces_len (pre rest : List Byte) : (IS.skipSpaces pre rest).2.length ≤ rest.length := by
  fun_induction IS.skipSpaces pre rest <;> simp_all <;> omega

theorem ws_m (s : IS) : s.ws.m ≤ s.m := by
  obtain ⟨pre, rest, eof, fail, sk⟩ := s
  have := skipSpaces_len pre rest
  cases eof <;> cases fail <;> simp [IS.ws, IS.good, IS.m] <;> omega

theorem peek_m (s : IS) : (s.peek).1.m ≤ s.m := by
  obtain ⟨pre, rest, eof, fail, sk⟩ := s
  cases eof <;> cases fail <;> cases rest <;> simp [IS.peek, IS.good, IS.m]

theorem get_m (s : IS) : (s.get).1.m + 1 ≤ s.m ∨ (s.get).1.m = 0 := by
  obtain ⟨pre, rest, eof, fail, sk⟩ := s
  cases eof <;> cases fail <;> cases rest <;> simp [IS.get, IS.good, IS.m]

theorem putback_m (s : IS) (c : Byte) : (s.putback c).m ≤ s.m + 1 := by
  obtain ⟨pre, rest, eof, fail, sk⟩ := s
  cases fail <;> cases pre <;> simp [IS.putback, IS.m]
  split <;> simp

theorem putback_m_zero (s : IS) (c : Byte) (h : s.m = 0) : (s.putback c).m = 0 := by
  obtain ⟨pre, rest, eof, fail, sk⟩ := s
  cases fail <;> simp_all [IS.putback, IS.m]

theorem extract_m (s : IS) : (s.extract).1.m + 1 ≤ s.m ∨ (s.extract).1.m = 0 := by
  obtain ⟨pre, rest, eof, fail, sk⟩ := s
  have := skipSpaces_len pre rest
  cases eof <;> cases fail <;> cases sk <;> simp [IS.extract, IS.good, IS.m]
  all_goals (try (split <;> simp_all <;> omega))
  all_goals (cases rest <;> simp)


theorem m_le_of_zero {a b : IS} (h : a.m = 0) : a.m ≤ b.m := by omega

/-- a successful `>> c`: the stream is still good, `c` is the byte before the get pointer, one byte less remains -/
theorem extract_some {s s1 : IS} {c : Byte} (h : s.extract = (s1, some c)) :
    s1.fail = false ∧ s1.eof = false ∧ (∃ ps, s1.pre = c :: ps) ∧ s1.m + 1 ≤ s.m := by
  obtain ⟨pre, rest, eof, fail, sk⟩ := s
  have hl := skipSpaces_len pre rest
  cases eof <;> cases fail <;> simp [IS.extract, IS.good] at h
  cases sk <;> simp at h
  · cases rest with
    | nil => simp at h
    | cons x r => simp at h; obtain ⟨rfl, rfl⟩ := h; simp [IS.m]
  · generalize IS.skipSpaces pre rest = sp at h hl
    obtain ⟨p, r⟩ := sp
    cases r with
    | nil => simp at h
    | cons x r' => simp at h hl; obtain ⟨rfl, rfl⟩ := h; simp [IS.m]; omega

theorem extract_none {s s1 : IS} (h : s.extract = (s1, none)) : s1.m = 0 := by
  obtain ⟨pre, rest, eof, fail, sk⟩ := s
  cases eof <;> cases fail <;> simp [IS.extract, IS.good] at h
  all_goals (try (subst h; simp [IS.m]))
  cases sk <;> simp at h
  · cases rest with
    | nil => simp at h; subst h; simp [IS.m]
    | cons x r => simp at h
  · generalize IS.skipSpaces pre rest = sp at h
    obtain ⟨p, r⟩ := sp
    cases r with
    | nil => simp at h; subst h; simp [IS.m]
    | cons x r' => simp at h

theorem peek_some {s s2 : IS} {x : Byte} (h : s.peek = (s2, some x)) :
    s2 = s ∧ s.fail = false ∧ s.eof = false ∧ ∃ r0, s.rest = x :: r0 := by
  obtain ⟨pre, rest, eof, fail, sk⟩ := s
  cases eof <;> cases fail <;> cases rest <;> simp [IS.peek, IS.good] at h
  obtain ⟨rfl, rfl⟩ := h
  simp

theorem putback_restore {s : IS} {c : Byte} {ps : List Byte} (hf : s.fail = false) (hp : s.pre = c :: ps) :
    s.putback c = { s with pre := ps, rest := c :: s.rest, eof := false } := by
  obtain ⟨pre, rest, eof, fail, sk⟩ := s
  simp at hf hp; subst hf; subst hp
  simp [IS.putback]

theorem litLoop_len (r acc : List Byte) (esc : Bool) : (litLoop r acc esc).2.1.length ≤ r.length := by
  fun_induction litLoop r acc esc <;> simp_all <;> omega

theorem getLiteralStr_m (s : IS) : (getLiteralStr s).1.m ≤ s.m := by
  have hw := ws_m s
  unfold getLiteralStr
  simp only []
  split
  · exact hw
  · rename_i hg
    generalize s.ws = w at hw hg ⊢
    obtain ⟨pre, rest, eof, fail, sk⟩ := w
    cases rest with
    | nil => simp [IS.m] at hw ⊢; exact hw
    | cons c r =>
      simp only []
      split
      · have := litLoop_len r [c] true
        generalize litLoop r [c] true = ll at this
        obtain ⟨acc, r', he, e2⟩ := ll
        simp [IS.m] at hw this ⊢
        split at hw <;> simp_all <;> omega
      · exact hw

theorem sdaiStringRead_m (s : IS) : (sdaiStringRead s).1.m ≤ s.m := by
  unfold sdaiStringRead
  have := getLiteralStr_m { s with skipws := false }
  generalize getLiteralStr { s with skipws := false } = g at this
  obtain ⟨s', str⟩ := g
  simp only []
  split <;> simpa [IS.m] using this

/-- on a stream that starts with a quote the string reader consumes at least the quote -/
theorem sdaiStringRead_quote {s : IS} {r : List Byte} (hf : s.fail = false) (he : s.eof = false)
    (hr : s.rest = chQuote :: r) : (sdaiStringRead s).1.m ≤ r.length + 1 := by
  obtain ⟨pre, rest, eof, fail, sk⟩ := s
  simp at hf he hr; subst hf; subst he; subst hr
  have hq : isSpace chQuote = false := by decide
  have := litLoop_len r [chQuote] true
  generalize hll : litLoop r [chQuote] true = ll at this
  obtain ⟨acc, r', hitEnd, e2⟩ := ll
  simp [sdaiStringRead, getLiteralStr, IS.ws, IS.good, IS.skipSpaces, hq, hll, IS.m] at this ⊢
  split <;> simp [IS.m] <;> omega


theorem get_m_le (s : IS) : (s.get).1.m ≤ s.m := by
  rcases get_m s with h | h <;> omega

theorem getc_m (s : IS) (c : Byte) :
    (match s.get with | (s', some c') => (s', c') | (s', none) => (s', c)).1.m + 1 ≤ s.m ∨
    (match s.get with | (s', some c') => (s', c') | (s', none) => (s', c)).1.m = 0 := by
  have := get_m s
  generalize s.get = g at this
  obtain ⟨s', o⟩ := g
  cases o <;> simpa using this

theorem m_zero_not_good {s : IS} (h : s.m = 0) : s.good = false := by
  obtain ⟨pre, rest, eof, fail, sk⟩ := s
  cases fail <;> simp_all [IS.m, IS.good]

theorem left_le {left limit : Nat} (g : Bool) (h : left ≤ limit) : (if (left - 1 = 0 && g) = true then limit else left - 1) ≤ limit := by
  split <;> omega

theorem left_dead {left limit : Nat} {g : Bool} (hl : left ≠ 0) (hg : g = false) :
    (if (left - 1 = 0 && g) = true then limit else left - 1) + 1 ≤ left := by
  subst hg; simp; omega

/-- the comment loop ends (fuel: the bytes left, plus the limit once the stream has failed) and never un-reads -/
theorem commentLoop_m (limit : Nat) : ∀ (fuel left : Nat) (s : IS) (c : Byte) (len steps : Nat), left ≤ limit →
    s.m + (if s.m = 0 then left else limit + 1) + 1 ≤ fuel →
    ∃ o s' c' len' st', commentLoop limit fuel left s c len steps = .ok (o, s', c', len', st') ∧ s'.m ≤ s.m := by
  intro fuel
  induction fuel with
  | zero => intro left s c len steps _ h; omega
  | succ f ih =>
    intro left s c len steps hle h
    unfold commentLoop
    by_cases hl0 : left = 0
    · simp only [hl0, if_true]
      exact ⟨_, _, _, _, _, rfl, Nat.le_refl _⟩
    · simp only [hl0, if_false]
      -- a continuation on `t`: reached by net consumption ≥ 1, or failed (then, if `s` had failed already, with one iteration less left)
      have cont : ∀ (t : IS) (c' : Byte) (l left' : Nat), left' ≤ limit →
          (t.m + 1 ≤ s.m ∨ (t.m = 0 ∧ (s.m = 0 → left' + 1 ≤ left))) →
          ∃ o s' c'' len' st', commentLoop limit f left' t c' l (steps + 1) = .ok (o, s', c'', len', st') ∧ s'.m ≤ s.m := by
        intro t c' l left' hl' ht
        have hf : t.m + (if t.m = 0 then left' else limit + 1) + 1 ≤ f := by
          by_cases hs : s.m = 0
          · simp only [hs, if_true] at h
            rcases ht with ht | ⟨ht0, hd⟩
            · omega
            · have := hd hs
              simp only [ht0, if_true]; omega
          · simp only [hs, if_false] at h
            rcases ht with ht | ⟨ht0, _⟩
            · by_cases ht0 : t.m = 0
              · simp only [ht0, if_true]; omega
              · simp only [ht0, if_false]; omega
            · simp only [ht0, if_true]; omega
        obtain ⟨o, s', c'', l', st', he, hm⟩ := ih left' t c' l (steps + 1) hl' hf
        exact ⟨o, s', c'', l', st', he, by rcases ht with ht | ⟨ht0, _⟩ <;> omega⟩
      have h1 := get_m s
      split
      · have h2 := get_m (s.get).1
        split
        · exact ⟨_, _, _, _, _, rfl, by rcases h1 with h1 | h1 <;> rcases h2 with h2 | h2 <;> omega⟩
        · have hp := putback_m ((s.get).1.get).1 (((s.get).1.get).2.getD chStar)
          apply cont _ _ _ _ (left_le _ hle)
          by_cases hz : (((s.get).1.get).1.putback (((s.get).1.get).2.getD chStar)).m = 0
          · right
            refine ⟨hz, fun _ => left_dead hl0 (m_zero_not_good hz)⟩
          · left
            rcases h2 with h2 | h2
            · rcases h1 with h1 | h1
              · omega
              · exfalso; omega
            · exfalso; exact hz (putback_m_zero _ _ h2)
      · apply cont _ _ _ _ (left_le _ hle)
        rcases h1 with h1 | h1
        · left; exact h1
        · right; exact ⟨h1, fun _ => left_dead hl0 (m_zero_not_good h1)⟩

theorem readCommentWith_comment (skip : IS → Out LoopRes) (iters : Nat) {s : IS} {r0 : List Byte}
    (hf : s.fail = false) (he : s.eof = false) (hr : s.rest = chSlash :: chStar :: r0)
    (hskip : ∀ s', s'.m ≤ r0.length + 1 → ∃ r, skip s' = .ok r ∧ r.s.m ≤ s'.m) :
    ∃ r, readCommentWith skip iters s = .ok r ∧ r.s.m ≤ r0.length + 1 := by
  obtain ⟨pre, rest, eof, fail, sk⟩ := s
  simp at hf he hr; subst hf; subst he; subst hr
  have h1 : isSpace chSlash = false := by decide
  have h2 : chStar ≠ chSlash := by decide
  have hsp := skipSpaces_len (chStar :: chSlash :: pre) r0
  generalize hg : IS.skipSpaces (chStar :: chSlash :: pre) r0 = sp at hsp
  obtain ⟨p, r⟩ := sp
  have hm2 : (⟨p, r, r.isEmpty, false, sk⟩ : IS).m = r.length + 1 := by simp [IS.m]
  obtain ⟨o, s3, c3, len, steps, hc, hcl⟩ := commentLoop_m iters (r.length + iters + 3) iters ⟨p, r, r.isEmpty, false, sk⟩ chStar 0 0
    (Nat.le_refl _) (by rw [hm2]; simp; omega)
  have hs3 : s3.m ≤ r0.length + 1 := by simp [IS.m] at hcl hsp ⊢; omega
  cases sk <;> simp [readCommentWith, IS.ws, IS.good, IS.skipSpaces, h1, IS.extract, IS.get, hg, hc]
  all_goals (
    cases o with
    | some u => simpa using hs3
    | none =>
      obtain ⟨r', hr', hm'⟩ := hskip s3 hs3
      simp [hr']; omega)


theorem good_m_pos {s : IS} (h : s.good = true) : 1 ≤ s.m := by
  obtain ⟨pre, rest, eof, fail, sk⟩ := s
  cases eof <;> cases fail <;> simp_all [IS.good, IS.m]

/-- the part of one iteration after the extraction, given that the rest of the loop (`rec`) terminates on every
stream with measure `< fuel` -/
theorem scanAfter_ok (rec : IS → Byte → Nat → Nat → Out LoopRes) (stop : Byte) (pb cm : Bool) (iters fuel : Nat)
    (ih : ∀ (s : IS) (c : Byte) (len steps : Nat), s.m + 1 ≤ fuel → ∃ r, rec s c len steps = .ok r ∧ r.s.m ≤ s.m)
    (s s1 : IS) (c1 : Byte) (len steps : Nat) (h : s.m ≤ fuel) (hpos : 1 ≤ s.m)
    (hm : s1.m + 1 ≤ s.m ∨ s1.m = 0)
    (hshape : (∃ ps, s1.fail = false ∧ s1.eof = false ∧ s1.pre = c1 :: ps) ∨ s1.m = 0) :
    ∃ r, scanAfter rec stop pb cm iters s1 c1 len steps = .ok r ∧ r.s.m ≤ s.m := by
  have hs1 : s1.m ≤ s.m := by omega
  have hs1f : s1.m + 1 ≤ fuel := by omega
  unfold scanAfter
  split
  · refine ⟨_, rfl, ?_⟩
    simp only []
    split
    · rcases hm with hm | hm
      · have := putback_m s1 c1; omega
      · have := putback_m_zero s1 c1 hm; omega
    · exact hs1
  · split
    · rename_i hc1
      generalize hpk : s1.peek = pk
      obtain ⟨s2, p⟩ := pk
      simp only []
      split
      · rename_i hp
        subst hp
        obtain ⟨rfl, hf1, he1, r0, hr0⟩ := peek_some hpk
        have hc1' : c1 = chSlash := by simp at hc1; exact hc1.2
        rcases hshape with ⟨ps, _, _, hpre⟩ | hz
        · rw [putback_restore hf1 hpre]
          have hm1 : s2.m = r0.length + 2 := by simp [IS.m, hf1, hr0]
          obtain ⟨r, hr, hrm⟩ := readCommentWith_comment (fun s' => rec s' 0 0 0) iters
            (s := { s2 with pre := ps, rest := c1 :: s2.rest, eof := false }) (r0 := r0)
            (by simpa using hf1) rfl (by simp [hr0, hc1'])
            (fun s' hs' => ih s' 0 0 0 (by omega))
          rw [hr]
          simp only []
          obtain ⟨r2, hr2, hrm2⟩ := ih r.s c1 len (steps + 1 + r.steps) (by omega)
          exact ⟨r2, hr2, by omega⟩
        · exfalso; simp [IS.m, hf1] at hz
      · have hp2 : s2.m ≤ s1.m := by have := peek_m s1; rw [hpk] at this; exact this
        obtain ⟨r, hr, hrm⟩ := ih s2 c1 (len + 1) (steps + 1) (by omega)
        exact ⟨r, hr, by omega⟩
    · split
      · rename_i hq
        have hsr : (sdaiStringRead (s1.putback c1)).1.m + 1 ≤ s.m ∨ (sdaiStringRead (s1.putback c1)).1.m = 0 := by
          rcases hshape with ⟨ps, hf1, he1, hpre⟩ | hz
          · left
            rw [putback_restore hf1 hpre]
            have := sdaiStringRead_quote (s := { s1 with pre := ps, rest := c1 :: s1.rest, eof := false })
              (r := s1.rest) (by simpa using hf1) rfl (by simp [hq])
            have hm1 : s1.m = s1.rest.length + 1 := by simp [IS.m, hf1]
            rcases hm with hm | hm <;> omega
          · right
            have h0 := putback_m_zero s1 c1 hz
            have := sdaiStringRead_m (s1.putback c1)
            omega
        generalize sdaiStringRead (s1.putback c1) = sr at hsr
        obtain ⟨s2, str⟩ := sr
        simp only [] at hsr ⊢
        obtain ⟨r, hr, hrm⟩ := ih s2 c1 (len + (cstr str).length) (steps + 1 + str.length) (by omega)
        exact ⟨r, hr, by omega⟩
      · split
        · exact ⟨_, rfl, hs1⟩
        · obtain ⟨r, hr, hrm⟩ := ih s1 c1 (len + 1) (steps + 1) hs1f
          exact ⟨r, hr, by omega⟩

/-- `SkipInstance` / `FindStartOfInstance`: fuel `m + 1` (≤ remaining bytes + 2) is enough for every stream state,
and the stream never gets longer -/
theorem scanUntil_terminates (stop : Byte) (pb cm : Bool) (iters : Nat) :
    ∀ (fuel : Nat) (s : IS) (c : Byte) (len steps : Nat), s.m + 1 ≤ fuel →
      ∃ r, scanUntil stop pb cm iters fuel s c len steps = .ok r ∧ r.s.m ≤ s.m := by
  intro fuel
  induction fuel with
  | zero => intro s c len steps h; omega
  | succ fuel ih =>
    intro s c len steps h
    show ∃ r, scanStep (scanUntil stop pb cm iters fuel) stop pb cm iters s c len steps = .ok r ∧ r.s.m ≤ s.m
    unfold scanStep
    by_cases hg : s.good = true
    · simp only [hg, Bool.not_true, Bool.false_eq_true, if_false]
      have hpos := good_m_pos hg
      generalize hex : s.extract = ex
      obtain ⟨s', o⟩ := ex
      cases o with
      | none =>
        have hz := extract_none hex
        exact scanAfter_ok _ stop pb cm iters fuel ih s s' c len steps (by omega) hpos (Or.inr hz) (Or.inr hz)
      | some c' =>
        obtain ⟨hf1, he1, ⟨ps, hpre⟩, hlt⟩ := extract_some hex
        exact scanAfter_ok _ stop pb cm iters fuel ih s s' c' len steps (by omega) hpos (Or.inl hlt)
          (Or.inl ⟨ps, hf1, he1, hpre⟩)
    · simp at hg
      simp [hg]


/-! ### the outer loop of the `);` recovery scan -/

theorem ws_meas (s : IS) : s.ws.meas ≤ s.meas := by
  obtain ⟨pre, rest, eof, fail, sk⟩ := s
  have := skipSpaces_len pre rest
  cases eof <;> cases fail <;> simp [IS.ws, IS.good, IS.meas]
  split <;> simp_all <;> omega

theorem meas_pos_of_good {s : IS} (h : s.good = true) : 1 ≤ s.meas := by simp [IS.meas, h]
theorem meas_zero_of_not_good {s : IS} (h : ¬ s.good = true) : s.meas = 0 := by simp [IS.meas, h]

/-! ### ReadTokenSeparator -/

theorem ignore_m (s : IS) : s.ignore.m + 1 ≤ s.m ∨ s.ignore.m = 0 ∨ s.rest = [] := by
  obtain ⟨pre, rest, eof, fail, sk⟩ := s
  cases eof <;> cases fail <;> cases rest <;> simp [IS.ignore, IS.good, IS.m]

theorem readPcd_m (s : IS) : (readPcd s).m + 1 ≤ s.m ∨ (readPcd s).m = 0 := by
  unfold readPcd
  have h1 := get_m s
  generalize s.get = g1 at h1
  obtain ⟨s1, o1⟩ := g1
  have key1 : ∀ c1 : Byte, (if c1 = chBackslash then
        (match (match s1.get with | (s', some c') => (s', c') | (s', none) => (s', c1)) with
         | (s2, c2) => if (c2 = 70 || c2 = 78) = true then
              (match (match s2.get with | (s', some c') => (s', c') | (s', none) => (s', c2)) with
               | (s3, c3) => s3)
            else s2)
      else s1).m ≤ s1.m := by
    intro c1
    split
    · have h2 := get_m_le s1
      generalize s1.get = g2 at h2
      obtain ⟨s2, o2⟩ := g2
      have key2 : ∀ c2 : Byte, (if (c2 = 70 || c2 = 78) = true then
              (match (match s2.get with | (s', some c') => (s', c') | (s', none) => (s', c2)) with
               | (s3, c3) => s3)
            else s2).m ≤ s1.m := by
        intro c2
        simp only [] at h2
        split
        · have h3 := get_m_le s2
          generalize s2.get = g3 at h3
          obtain ⟨s3, o3⟩ := g3
          simp only [] at h3
          cases o3 <;> simp only [] <;> omega
        · exact h2
      cases o2 with
      | none => exact key2 c1
      | some c2 => exact key2 c2
    · exact Nat.le_refl _
  simp only [] at h1
  cases o1 with
  | none =>
    rcases h1 with h1 | h1
    · left; exact Nat.le_trans (Nat.succ_le_succ (key1 0)) h1
    · right; exact Nat.le_zero.mp (Nat.le_trans (key1 0) (Nat.le_of_eq h1))
  | some c1 =>
    rcases h1 with h1 | h1
    · left; exact Nat.le_trans (Nat.succ_le_succ (key1 c1)) h1
    · right; exact Nat.le_zero.mp (Nat.le_trans (key1 c1) (Nat.le_of_eq h1))

/-- `ReadComment` on a stream that starts with `/`: at least the slash is gone afterwards -/
theorem readCommentWith_slash (skip : IS → Out LoopRes) (iters : Nat) {s : IS} {r0 : List Byte}
    (hf : s.fail = false) (he : s.eof = false) (hr : s.rest = chSlash :: r0)
    (hskip : ∀ s', s'.m ≤ r0.length → ∃ r, skip s' = .ok r ∧ r.s.m ≤ s'.m) :
    ∃ r, readCommentWith skip iters s = .ok r ∧ r.s.m ≤ r0.length + 1 := by
  cases r0 with
  | nil =>
    obtain ⟨pre, rest, eof, fail, sk⟩ := s
    simp at hf he hr; subst hf; subst he; subst hr
    have h1 : isSpace chSlash = false := by decide
    have h2 : ¬ chSlash = chStar := by decide
    cases sk <;> simp [readCommentWith, IS.ws, IS.good, IS.skipSpaces, h1, h2, IS.extract, IS.get, IS.putback, IS.m]
  | cons x r1 =>
    by_cases hx : x = chStar
    · subst hx
      obtain ⟨r, hr', hm⟩ := readCommentWith_comment skip iters hf he hr
        (fun s' hs' => hskip s' (by simp; omega))
      exact ⟨r, hr', by simp; omega⟩
    · obtain ⟨pre, rest, eof, fail, sk⟩ := s
      simp at hf he hr; subst hf; subst he; subst hr
      have h1 : isSpace chSlash = false := by decide
      cases sk <;> simp [readCommentWith, IS.ws, IS.good, IS.skipSpaces, h1, IS.extract, IS.get, hx, IS.putback, IS.m]

theorem tokSepLoop_terminates (cm : Bool) (iters : Nat) : ∀ (fuel : Nat) (s : IS) (steps : Nat),
    s.m + 1 ≤ fuel → ∃ r, tokSepLoop cm iters fuel s steps = .ok r ∧ r.s.m ≤ s.m := by
  intro fuel
  induction fuel with
  | zero => intro s steps h; omega
  | succ fuel ih =>
    intro s steps h
    show ∃ r, tokSepStep (tokSepLoop cm iters fuel) (skipInstance cm iters (fuel + 1)) iters s steps = .ok r ∧ r.s.m ≤ s.m
    unfold tokSepStep
    by_cases hfl : s.fail = true
    · simp [hfl]
    · simp only [hfl, Bool.false_eq_true, if_false]
      have hw := ws_m s
      generalize s.ws = sw at hw ⊢
      generalize hpk : sw.peek = pk
      obtain ⟨s2, p⟩ := pk
      have hp2 : s2.m ≤ s.m := by have := peek_m sw; rw [hpk] at this; simp only [] at this; omega
      cases p with
      | none => exact ⟨_, rfl, hp2⟩
      | some c =>
        obtain ⟨rfl, hf1, he1, r0, hr0⟩ := peek_some hpk
        have hm2 : s2.m = r0.length + 2 := by simp [IS.m, hf1, hr0]
        simp only []
        split
        · rename_i hc
          subst hc
          obtain ⟨r, hr, hrm⟩ := readCommentWith_slash (skipInstance cm iters (fuel + 1)) iters hf1 he1 hr0
            (fun s' hs' => scanUntil_terminates chSemi false cm iters (fuel + 1) s' 0 0 0 (by omega))
          rw [hr]
          simp only []
          obtain ⟨r2, hr2, hrm2⟩ := ih r.s (steps + 1 + r.steps) (by omega)
          exact ⟨r2, hr2, by omega⟩
        · split
          · have := readPcd_m s2
            obtain ⟨r2, hr2, hrm2⟩ := ih (readPcd s2) (steps + 1) (by omega)
            exact ⟨r2, hr2, by omega⟩
          · split
            · have := ignore_m s2
              have hne : s2.rest ≠ [] := by simp [hr0]
              have hlt : s2.ignore.m + 1 ≤ s2.m ∨ s2.ignore.m = 0 := by
                rcases this with h1 | h1 | h1
                · exact Or.inl h1
                · exact Or.inr h1
                · exact absurd h1 hne
              obtain ⟨r2, hr2, hrm2⟩ := ih s2.ignore (steps + 1) (by omega)
              exact ⟨r2, hr2, by omega⟩
            · exact ⟨_, rfl, hp2⟩

theorem readTokenSeparator_terminates (cm : Bool) (iters : Nat) (fuel : Nat) (s : IS) (h : s.m + 1 ≤ fuel) :
    ∃ r, readTokenSeparator cm iters fuel s = .ok r ∧ r.s.m ≤ s.m := by
  unfold readTokenSeparator
  split
  · exact ⟨_, rfl, Nat.le_refl _⟩
  · exact tokSepLoop_terminates cm iters fuel s 0 h


/-! ### export list loop -/

theorem spanNum_len (pre rest : List Byte) (v n : Nat) : (IS.spanNum pre rest v n).2.1.length ≤ rest.length := by
  fun_induction IS.spanNum pre rest v n <;> simp_all <;> omega

theorem extractInt_rest_len (s : IS) : s.extractInt.rest.length ≤ s.rest.length := by
  obtain ⟨pre, rest, eof, fail, sk⟩ := s
  unfold IS.extractInt
  split
  · simp
  · have hsk := skipSpaces_len pre rest
    have hpr : (if sk = true then IS.skipSpaces pre rest else (pre, rest)).2.length ≤ rest.length := by
      cases sk <;> simp [hsk]
    generalize (if sk = true then IS.skipSpaces pre rest else (pre, rest)) = pr at hpr
    obtain ⟨p, r⟩ := pr
    simp only [] at hpr ⊢
    cases r with
    | nil => simp
    | cons c r' =>
      simp only []
      have fin : ∀ (p1 r1 : List Byte), r1.length ≤ (c :: r').length →
          (IS.spanNum p1 r1 0 0).2.1.length ≤ rest.length := by
        intro p1 r1 h1
        have := spanNum_len p1 r1 0 0
        omega
      by_cases h1 : c = chPlus
      · simp only [h1, if_true]
        exact fin _ _ (by simp)
      · by_cases h2 : c = chMinus
        · subst h2
          have h3 : ¬ chMinus = chPlus := by decide
          simp only [h3, if_true, if_false]
          exact fin _ _ (by simp)
        · simp only [h1, h2, if_false]
          exact fin _ _ (by simp)

theorem extractInt_m (s : IS) : s.extractInt.m ≤ s.m := by
  have h := extractInt_rest_len s
  by_cases hf : s.fail = true
  · have : s.extractInt.fail = true := by
      obtain ⟨pre, rest, eof, fail, sk⟩ := s
      simp at hf; subst hf
      simp [IS.extractInt, IS.good]
    simp [IS.m, this]
  · simp [IS.m, hf]
    split <;> omega


/-- with the stream state in the loop condition (`c == ',' && in.good()`) the export-list loop stops: fuel `m + 1` -/
theorem exportLoop_terminates (cm : Bool) (iters : Nat) : ∀ (fuel : Nat) (s : IS) (c : Byte) (steps : Nat),
    s.m + 1 ≤ fuel → ∃ r, exportLoop true cm iters fuel s c steps = .ok r := by
  intro fuel
  induction fuel with
  | zero => intro s c steps h; omega
  | succ fuel ih =>
    intro s c steps h
    show ∃ r, exportStep (exportLoop true cm iters fuel) (readTokenSeparator cm iters (fuel + 1)) true s c steps = .ok r
    unfold exportStep
    split
    · rename_i hcond
      have hg : s.good = true := by simp at hcond; exact hcond.2
      have hpos := good_m_pos hg
      obtain ⟨r1, hr1, hm1⟩ := readTokenSeparator_terminates cm iters (fuel + 1) s h
      rw [hr1]
      simp only []
      have hget := get_m r1.s
      have hint := extractInt_m (r1.s.get).1
      obtain ⟨r2, hr2, hm2⟩ := readTokenSeparator_terminates cm iters (fuel + 1) (r1.s.get).1.extractInt (by omega)
      rw [hr2]
      simp only []
      have hget2 := get_m_le r2.s
      have hfin : (r2.s.get).1.m + 1 ≤ fuel := by omega
      generalize r2.s.get = g at hfin
      obtain ⟨s4, o⟩ := g
      cases o <;> exact ih _ _ _ hfin
    · exact ⟨_, rfl⟩

/-- without it (the code before `fixes/C05-7`): at end of input `in.get( c )` leaves `c == ','` and the loop never ends -/
theorem exportLoop_unchecked_spins (cm : Bool) (iters : Nat) (pre : List Byte) (sk : Bool) :
    ∀ (fuel steps : Nat), exportLoop false cm iters fuel ⟨pre, [], true, true, sk⟩ chComma steps = .outOfFuel := by
  intro fuel
  induction fuel with
  | zero => intro steps; rfl
  | succ fuel ih =>
    intro steps
    show exportStep (exportLoop false cm iters fuel) (readTokenSeparator cm iters (fuel + 1)) false _ _ _ = _
    simp [exportStep, readTokenSeparator, IS.get, IS.good, IS.extractInt]
    exact ih _

end StepModel.P21Safe

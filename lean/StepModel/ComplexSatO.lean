import StepModel.ComplexTerm2
import StepModel.ComplexOrFreeSem
/-!
# What an acceptance implies on hierarchies *with* OrLists: the requirements of some derivation are met

`satO N t` — list `t` can be satisfied from the request `N`: every AND has all its children satisfiable, every
ANDOR/OR at least one (equivalently: some name list the tree derives lies inside `N`, `satO_iff`).
UNSATISFIED is independent of the marks: `matchNonORs`/`matchORs` store `viable = UNSATISFIED` exactly on lists that are
not `satO`, and a value ≥ SATISFIED only on lists that are (`SemV`).  An acceptance needs `viable ≥ MATCHSOME` at the
head, hence `satO`.
-/
namespace StepModel.Complex.Match
open StepModel.Generated StepModel.Complex

mutual
  def satO (N : List Name) : Tree → Bool
    | .simple n => N.contains n
    | .and cs => satOAll N cs
    | .andor cs => satOAny N cs
    | .or cs => satOAny N cs
  def satOAll (N : List Name) : List Tree → Bool
    | [] => true
    | c :: cs => satO N c && satOAll N cs
  def satOAny (N : List Name) : List Tree → Bool
    | [] => false
    | c :: cs => satO N c || satOAny N cs
end

mutual
  /-- the list without its matching state -/
  def trV : VT → Tree
    | .simple n _ => .simple n
    | .mult .and _ cs => .and (trVL cs)
    | .mult .or _ cs => .or (trVL cs)
    | .mult .andor _ cs => .andor (trVL cs)
  def trVL : List VT → List Tree
    | [] => []
    | c :: cs => trV c :: trVL cs
end

/-- SATISFIED, MATCHSOME or MATCHALL -/
def K (v : MT) : Prop := v = .sat ∨ v = .some_ ∨ v = .all
/-- a value `viable` can hold -/
def Stored (v : MT) : Prop := v ≠ .newchoice ∧ v ≠ .nomore

theorem K_stored {v : MT} (h : K v) : Stored v := by rcases h with h | h | h <;> subst h <;> exact ⟨by simp, by simp⟩
theorem K_ne_unknown {v : MT} (h : K v) : v ≠ .unknown := by rcases h with h | h | h <;> subst h <;> simp
theorem K_ne_unsat {v : MT} (h : K v) : v ≠ .unsat := by rcases h with h | h | h <;> subst h <;> simp

theorem stored_cases {v : MT} (h : Stored v) : v = .unknown ∨ v = .unsat ∨ K v := by
  cases v <;> simp [K, Stored] at h ⊢

mutual
  /-- stored `viable` values tell the truth about satisfiability -/
  def SemV (N : List Name) : VT → Prop
    | .simple n v => (v = .unsat → N.contains n = false) ∧ (K v → N.contains n = true) ∧ Stored v
    | .mult j v cs => cs ≠ [] ∧ SemVL N cs ∧ (v = .unsat → satO N (trV (.mult j v cs)) = false) ∧
        (K v → satO N (trV (.mult j v cs)) = true) ∧ Stored v ∧
        (j = .and → v = .unknown → ∀ c ∈ cs, c.viable ≠ .unsat)
  def SemVL (N : List Name) : List VT → Prop
    | [] => True
    | c :: cs => SemV N c ∧ SemVL N cs
end

theorem SemVL_iff (N : List Name) (cs : List VT) : SemVL N cs ↔ ∀ c ∈ cs, SemV N c := by
  induction cs with
  | nil => simp [SemVL]
  | cons c cs ih => simp [SemVL, ih]

theorem SemV_stored {N : List Name} {t : VT} (h : SemV N t) : Stored t.viable := by
  cases t with
  | simple n v => exact h.2.2
  | mult j v cs => exact h.2.2.2.2.1

theorem SemV_K {N : List Name} {t : VT} (h : SemV N t) (hk : K t.viable) : satO N (trV t) = true := by
  cases t with
  | simple n v => simpa [trV, satO] using h.2.1 hk
  | mult j v cs => exact h.2.2.2.1 hk

theorem SemV_unsat {N : List Name} {t : VT} (h : SemV N t) (hk : t.viable = .unsat) : satO N (trV t) = false := by
  cases t with
  | simple n v => simpa [trV, satO] using h.1 hk
  | mult j v cs => exact h.2.2.1 hk

-- ------------------------------------------------------------------ satisfiable = some derivation lies inside the request
mutual
  theorem satO_iff (N : List Name) : ∀ (t : Tree), satO N t = true ↔ ∃ Y ∈ denote t, ∀ y ∈ Y, y ∈ N
    | .simple n => by simp [satO, denote]
    | .and cs => by simp only [satO, denote]; exact satOAll_iff N cs
    | .andor cs => by simp only [satO, denote]; exact satOAny_sel N cs
    | .or cs => by simp only [satO, denote]; exact satOAny_flat N cs
  theorem satOAll_iff (N : List Name) : ∀ (cs : List Tree), satOAll N cs = true ↔ ∃ Y ∈ prodD (denoteL cs), ∀ y ∈ Y, y ∈ N
    | [] => by simp [satOAll, denoteL, prodD]
    | c :: cs => by
      simp only [satOAll, Bool.and_eq_true, denoteL]
      rw [satO_iff N c, satOAll_iff N cs]
      constructor
      · rintro ⟨⟨Y1, h1, s1⟩, ⟨Y2, h2, s2⟩⟩
        refine ⟨Y1 ++ Y2, mem_prodD_cons''.mpr ⟨Y1, h1, Y2, h2, rfl⟩, fun y hy => ?_⟩
        rcases List.mem_append.mp hy with h | h
        · exact s1 y h
        · exact s2 y h
      · rintro ⟨Y, hY, s⟩
        obtain ⟨Y1, h1, Y2, h2, rfl⟩ := mem_prodD_cons''.mp hY
        exact ⟨⟨Y1, h1, fun y hy => s y (List.mem_append.mpr (Or.inl hy))⟩,
          ⟨Y2, h2, fun y hy => s y (List.mem_append.mpr (Or.inr hy))⟩⟩
  theorem satOAny_sel (N : List Name) : ∀ (cs : List Tree), satOAny N cs = true ↔ ∃ Y ∈ selD (denoteL cs), ∀ y ∈ Y, y ∈ N
    | [] => by simp [satOAny, denoteL, selD]
    | c :: cs => by
      simp only [satOAny, Bool.or_eq_true, denoteL]
      rw [satO_iff N c, satOAny_sel N cs]
      constructor
      · rintro (⟨Y1, h1, s1⟩ | ⟨Y2, h2, s2⟩)
        · exact ⟨Y1, mem_selD_cons''.mpr (Or.inr (Or.inl h1)), s1⟩
        · exact ⟨Y2, mem_selD_cons''.mpr (Or.inl h2), s2⟩
      · rintro ⟨Y, hY, s⟩
        rcases mem_selD_cons''.mp hY with h | h | ⟨Y1, h1, Y2, h2, rfl⟩
        · exact Or.inr ⟨Y, h, s⟩
        · exact Or.inl ⟨Y, h, s⟩
        · exact Or.inl ⟨Y1, h1, fun y hy => s y (List.mem_append.mpr (Or.inl hy))⟩
  theorem satOAny_flat (N : List Name) : ∀ (cs : List Tree), satOAny N cs = true ↔ ∃ Y ∈ (denoteL cs).flatten, ∀ y ∈ Y, y ∈ N
    | [] => by simp [satOAny, denoteL]
    | c :: cs => by
      simp only [satOAny, Bool.or_eq_true, denoteL, List.flatten_cons, List.mem_append]
      rw [satO_iff N c, satOAny_flat N cs]
      constructor
      · rintro (⟨Y1, h1, s1⟩ | ⟨Y2, h2, s2⟩)
        · exact ⟨Y1, Or.inl h1, s1⟩
        · exact ⟨Y2, Or.inr h2, s2⟩
      · rintro ⟨Y, hY | hY, s⟩
        · exact Or.inl ⟨Y, hY, s⟩
        · exact Or.inr ⟨Y, hY, s⟩
end


-- ------------------------------------------------------------------ `setViableVal` is a maximum
theorem go_unknown_of_mem (es : Ents) : ∀ (cs : List ST) (v : MT), (∃ c ∈ cs, c.viable = .unknown) →
    setViableVal.go es v cs = .unknown
  | [], _, h => by obtain ⟨c, hc, _⟩ := h; cases hc
  | c :: cs, v, h => by
    simp only [setViableVal.go]
    by_cases hu : c.viable = .unknown
    · simp [hu]
    · simp only [hu, if_false]
      obtain ⟨c', hc', hv'⟩ := h
      rcases List.mem_cons.mp hc' with e | e
      · subst e; exact absurd hv' hu
      · exact go_unknown_of_mem es cs _ ⟨c', e, hv'⟩

theorem go_props (es : Ents) : ∀ (cs : List ST) (v0 : MT), Stored v0 →
    (∀ c ∈ cs, Stored c.viable ∧ c.viable ≠ .unknown) →
    Stored (setViableVal.go es v0 cs) ∧
    (K (setViableVal.go es v0 cs) ↔ K v0 ∨ ∃ c ∈ cs, K c.viable) ∧
    (setViableVal.go es v0 cs = .unknown ↔ v0 = .unknown ∧ cs = [])
  | [], v0, hs, _ => by
    simp only [setViableVal.go]
    by_cases h : (v0 = .all && !allMarked es) = true
    · simp only [h, if_true]
      simp only [Bool.and_eq_true, decide_eq_true_eq] at h
      refine ⟨⟨by simp, by simp⟩, ?_, ?_⟩
      · simp [K, h.1]
      · simp [h.1]
    · simp only [h, if_false]
      exact ⟨hs, by simp, by simp⟩
  | c :: cs, v0, hs, hc => by
    obtain ⟨hcs, hcu⟩ := hc c (by simp)
    simp only [setViableVal.go, hcu, if_false]
    have hrest : ∀ c' ∈ cs, Stored c'.viable ∧ c'.viable ≠ .unknown := fun c' h => hc c' (List.mem_cons_of_mem _ h)
    have hv1s : Stored (if v0.rank < c.viable.rank then c.viable else v0) := by split <;> assumption
    have hv1k : K (if v0.rank < c.viable.rank then c.viable else v0) ↔ K v0 ∨ K c.viable := by
      rcases stored_cases hs with h | h | h <;> rcases stored_cases hcs with h' | h' | h'
      all_goals first
        | exact absurd h' hcu
        | (rcases h with h | h | h <;> rcases h' with h' | h' | h' <;> subst h <;> rw [h'] <;> simp [MT.rank, K])
        | (rcases h' with h' | h' | h' <;> subst h <;> rw [h'] <;> simp [MT.rank, K])
        | (rcases h with h | h | h <;> subst h <;> rw [h'] <;> simp [MT.rank, K])
        | (subst h; rw [h']; simp [MT.rank, K])
    have hv1u : (if v0.rank < c.viable.rank then c.viable else v0) ≠ .unknown := by
      split
      · exact hcu
      · rename_i hlt
        intro h0; rw [h0] at hlt
        rcases stored_cases hcs with h' | h' | h'
        · exact hcu h'
        · rw [h'] at hlt; simp [MT.rank] at hlt
        · rcases h' with h' | h' | h' <;> rw [h'] at hlt <;> simp [MT.rank] at hlt
    obtain ⟨a1, a2, a3⟩ := go_props es cs _ hv1s hrest
    refine ⟨a1, ?_, ?_⟩
    · rw [a2, hv1k]
      simp only [List.mem_cons, exists_eq_or_imp]
      constructor
      · rintro ((h | h) | h)
        · exact Or.inl h
        · exact Or.inr (Or.inl h)
        · exact Or.inr (Or.inr h)
      · rintro (h | h | h)
        · exact Or.inl (Or.inl h)
        · exact Or.inl (Or.inr h)
        · exact Or.inr h
    · rw [a3]
      constructor
      · rintro ⟨h, _⟩; exact absurd h hv1u
      · rintro ⟨_, h⟩; cases h

/-- `setViableVal` on a non-empty list: UNKNOWN iff some child is UNKNOWN; otherwise ≥ SATISFIED iff some child is -/
theorem setViableVal_props (cs : List ST) (es : Ents) (hne : cs ≠ []) (hst : ∀ c ∈ cs, Stored c.viable) :
    Stored (setViableVal cs es) ∧
    (setViableVal cs es = .unknown ↔ ∃ c ∈ cs, c.viable = .unknown) ∧
    (setViableVal cs es ≠ .unknown → (K (setViableVal cs es) ↔ ∃ c ∈ cs, K c.viable)) := by
  by_cases hu : ∃ c ∈ cs, c.viable = .unknown
  · have := go_unknown_of_mem es cs .unknown hu
    simp only [setViableVal]
    rw [this]
    exact ⟨⟨by simp, by simp⟩, by simp [hu], fun h => absurd rfl h⟩
  · have hk : ∀ c ∈ cs, Stored c.viable ∧ c.viable ≠ .unknown := fun c hc => ⟨hst c hc, fun h => hu ⟨c, hc, h⟩⟩
    obtain ⟨a1, a2, a3⟩ := go_props es cs .unknown ⟨by simp, by simp⟩ hk
    simp only [setViableVal]
    refine ⟨a1, ?_, fun _ => ?_⟩
    · rw [a3]; constructor
      · rintro ⟨_, h⟩; exact absurd h hne
      · intro h; exact absurd h hu
    · rw [a2]; simp [K]

end StepModel.Complex.Match

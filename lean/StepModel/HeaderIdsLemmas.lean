import StepModel.HeaderIds
/-! Lemmas about the header id model (`StepModel/HeaderIds.lean`); the statements of C16 that rest on them are in `Props/C16`. -/
namespace StepModel.HeaderIds
open StepModel.Generated

/-- no two instances under one id, and `maxId` bounds every id -/
def Wf (m : HMgr) : Prop := m.ids.Nodup ∧ ∀ id ∈ m.ids, id ≤ m.maxId

theorem wf_empty : Wf {} := ⟨List.nodup_nil, by intro id h; cases h⟩

theorem has_iff (m : HMgr) (id : Nat) : m.has id = true ↔ id ∈ m.ids := by
  simp [HMgr.has]

theorem not_has_succ_max {m : HMgr} (h : Wf m) : m.has (m.maxId + 1) = false := by
  cases hh : m.has (m.maxId + 1) with
  | false => rfl
  | true => have := h.2 _ ((has_iff _ _).1 hh); omega

/-- what `InstMgr::Append` does, case by case -/
theorem append_eq (m : HMgr) (id : Nat) (e : HEnt) (h : Wf m) :
    (id ≠ 0 ∧ m.has id = false ∧ m.append id e = ⟨m.nodes ++ [(id, e)], if id > m.maxId then id else m.maxId⟩) ∨
    ((id = 0 ∨ m.has id = true) ∧ m.append id e = ⟨m.nodes ++ [(m.maxId + 1, e)], m.maxId + 1⟩) := by
  by_cases h0 : id = 0
  · right
    refine ⟨Or.inl h0, ?_⟩
    subst h0
    simp [HMgr.append, not_has_succ_max h]
  · cases hh : m.has id with
    | false => left; exact ⟨h0, rfl, by simp [HMgr.append, h0, hh]⟩
    | true => right; exact ⟨Or.inr rfl, by simp [HMgr.append, h0, hh]⟩

theorem append_ids (m : HMgr) (id : Nat) (e : HEnt) : ∃ id', (m.append id e).nodes = m.nodes ++ [(id', e)] := by
  unfold HMgr.append
  exact ⟨_, rfl⟩

theorem append_wf {m : HMgr} (h : Wf m) (id : Nat) (e : HEnt) : Wf (m.append id e) := by
  rcases append_eq m id e h with ⟨_, hn, heq⟩ | ⟨_, heq⟩
  · rw [heq]
    have hni : id ∉ m.ids := fun hc => by rw [(has_iff _ _).2 hc] at hn; cases hn
    refine ⟨?_, ?_⟩
    · simp only [HMgr.ids, List.map_append, List.map_cons, List.map_nil]
      exact List.nodup_append.2 ⟨h.1, by simp, by
        intro a ha b hb; simp at hb; subst hb; intro hab; subst hab; exact hni ha⟩
    · intro x hx
      simp only [HMgr.ids, List.map_append, List.map_cons, List.map_nil, List.mem_append, List.mem_singleton] at hx
      rcases hx with hx | hx
      · have := h.2 x hx; simp only; split <;> omega
      · subst hx; simp only; split <;> omega
  · rw [heq]
    have hni : m.maxId + 1 ∉ m.ids := fun hc => by have := h.2 _ hc; omega
    refine ⟨?_, ?_⟩
    · simp only [HMgr.ids, List.map_append, List.map_cons, List.map_nil]
      exact List.nodup_append.2 ⟨h.1, by simp, by
        intro a ha b hb; simp at hb; subst hb; intro hab; subst hab; exact hni ha⟩
    · intro x hx
      simp only [HMgr.ids, List.map_append, List.map_cons, List.map_nil, List.mem_append, List.mem_singleton] at hx
      rcases hx with hx | hx
      · have := h.2 x hx; simp only; omega
      · subst hx; simp only; omega

theorem readSection_wf : ∀ (es : List HEnt) (hid : Nat) (m : HMgr), Wf m → Wf (readSection hid m es).1
  | [], _, _, h => h
  | e :: es, hid, m, h => by
    simp only [readSection]
    exact readSection_wf es _ _ (append_wf h _ _)

theorem foldl_wf {α : Type} (l : List α) (f : HMgr → α → HMgr) (hf : ∀ m a, Wf m → Wf (f m a)) (m : HMgr) (h : Wf m) :
    Wf (l.foldl f m) := by
  induction l generalizing m with
  | nil => exact h
  | cons a l ih => exact ih _ (hf m a h)

theorem verify_wf {m : HMgr} (h : Wf m) : Wf (verify m) := by
  unfold verify
  apply foldl_wf _ _ _ _ h
  intro m id hm
  split
  · exact hm
  · exact append_wf hm _ _

theorem merge_wf {old new : HMgr} (ho : Wf old) (hn : Wf new) : Wf (merge old new) := by
  unfold merge
  split
  · exact hn
  · apply foldl_wf _ _ _ _ ho
    intro m id hm
    split
    · exact hm
    · split
      · exact append_wf hm _ _
      · exact hm

theorem readFileH_wf (f : Fn) {st : HState} (h : Wf st.mgr) (ents : List HEnt) : Wf (readFileH f st ents).mgr := by
  unfold readFileH
  simp only
  apply merge_wf
  · split
    · exact wf_empty
    · exact h
  · exact verify_wf (readSection_wf _ _ _ wf_empty)

/-! ### merging into a held header (the branch of `HeaderMergeInstances` that keeps the old one) -/

theorem has_append_mono {m : HMgr} (hw : Wf m) (id : Nat) (e : HEnt) {x : Nat} (h : m.has x = true) : (m.append id e).has x = true := by
  obtain ⟨id', hn⟩ := append_ids m id e
  rw [has_iff] at h ⊢
  simp only [HMgr.ids, hn, List.map_append, List.mem_append]
  exact Or.inl h

theorem has_append_self {m : HMgr} (hw : Wf m) {id : Nat} (h0 : id ≠ 0) (hn : m.has id = false) (e : HEnt) :
    (m.append id e).has id = true := by
  rcases append_eq m id e hw with ⟨_, _, heq⟩ | ⟨hc, _⟩
  · rw [heq, has_iff]; simp [HMgr.ids]
  · rcases hc with hc | hc
    · exact absurd hc h0
    · rw [hn] at hc; cases hc

theorem prefix_append (m : HMgr) (id : Nat) (e : HEnt) : m.nodes <+: (m.append id e).nodes := by
  obtain ⟨id', hn⟩ := append_ids m id e
  rw [hn]; exact List.prefix_append _ _

/-- one step of the merge loop -/
def mergeStep (new : HMgr) (o : HMgr) (id : Nat) : HMgr :=
  if o.has id then o else match new.find id with | some e => o.append id e | none => o

theorem mergeStep_wf (new : HMgr) {o : HMgr} (hw : Wf o) (id : Nat) : Wf (mergeStep new o id) := by
  unfold mergeStep; split
  · exact hw
  · split
    · exact append_wf hw _ _
    · exact hw

theorem mergeStep_prefix (new o : HMgr) (id : Nat) : o.nodes <+: (mergeStep new o id).nodes := by
  unfold mergeStep; split
  · exact List.prefix_refl _
  · split
    · exact prefix_append _ _ _
    · exact List.prefix_refl _

theorem mergeStep_mono (new : HMgr) {o : HMgr} (hw : Wf o) (id : Nat) {x : Nat} (h : o.has x = true) :
    (mergeStep new o id).has x = true := by
  unfold mergeStep; split
  · exact h
  · split
    · exact has_append_mono hw _ _ h
    · exact h

theorem mergeStep_fills (new : HMgr) {o : HMgr} (hw : Wf o) {id : Nat} (h0 : id ≠ 0)
    (h : o.has id = true ∨ (new.find id).isSome = true) : (mergeStep new o id).has id = true := by
  unfold mergeStep
  cases ho : o.has id with
  | true => simp [ho]
  | false =>
    simp only [ho, Bool.false_eq_true, if_false]
    rcases h with h | h
    · rw [ho] at h; cases h
    · cases hf : new.find id with
      | none => rw [hf] at h; cases h
      | some e => exact has_append_self hw h0 ho e

/-! ### a header in the order Part 21 prescribes: the three required instances first -/

/-- the three required instances are in the manager under their own ids, first in the list, and every other node has an id
    above 3 -/
structure Shape (m : HMgr) (fd fn fs : HEnt) (rest : List (Nat × HEnt)) : Prop where
  nodes : m.nodes = (1, fd) :: (2, fn) :: (3, fs) :: rest
  big : ∀ x ∈ rest, 4 ≤ x.1
  max : 3 ≤ m.maxId

def notFixed (name : String) : Prop := fixedHeaderIds.find? (·.1 == name) = none

theorem headerId_other (hid : Nat) {name : String} (h : notFixed name) : headerId hid name = (hid + 1, hid + 1) := by
  unfold headerId; rw [h]

theorem shape_append {m : HMgr} {fd fn fs rest} (hs : Shape m fd fn fs rest) (hw : Wf m) (id : Nat) (e : HEnt) :
    ∃ id', 4 ≤ id' ∧ Shape (m.append id e) fd fn fs (rest ++ [(id', e)]) := by
  have hids : m.ids = 1 :: 2 :: 3 :: rest.map (·.1) := by simp [HMgr.ids, hs.nodes]
  rcases append_eq m id e hw with ⟨h0, hn, heq⟩ | ⟨_, heq⟩
  · have hni : id ∉ m.ids := fun hc => by rw [(has_iff _ _).2 hc] at hn; cases hn
    have h4 : 4 ≤ id := by
      rw [hids] at hni
      simp only [List.mem_cons, not_or] at hni
      omega
    refine ⟨id, h4, ?_⟩
    rw [heq]
    exact ⟨by simp [hs.nodes], by
      intro x hx; simp only [List.mem_append, List.mem_singleton] at hx
      rcases hx with hx | hx
      · exact hs.big x hx
      · subst hx; exact h4, by have := hs.max; simp only; split <;> omega⟩
  · refine ⟨m.maxId + 1, by have := hs.max; omega, ?_⟩
    rw [heq]
    exact ⟨by simp [hs.nodes], by
      intro x hx; simp only [List.mem_append, List.mem_singleton] at hx
      rcases hx with hx | hx
      · exact hs.big x hx
      · subst hx; have := hs.max; simp only; omega, by have := hs.max; simp only; omega⟩

theorem readSection_shape : ∀ (opt : List HEnt) (hid : Nat) (m : HMgr) (fd fn fs : HEnt) (rest : List (Nat × HEnt)),
    Shape m fd fn fs rest → Wf m → (∀ e ∈ opt, notFixed e.name) →
    ∃ rest', Shape (readSection hid m opt).1 fd fn fs rest' ∧ rest'.map (·.2) = rest.map (·.2) ++ opt
  | [], _, _, _, _, _, _, hs, _, _ => ⟨_, hs, by simp⟩
  | e :: opt, hid, m, fd, fn, fs, rest, hs, hw, hopt => by
    simp only [readSection]
    obtain ⟨id', _, hs'⟩ := shape_append hs hw (headerId hid e.name).1 e
    obtain ⟨rest', h1, h2⟩ := readSection_shape opt (headerId hid e.name).2 _ fd fn fs _ hs' (append_wf hw _ _)
      (fun x hx => hopt x (by simp [hx]))
    exact ⟨rest', h1, by rw [h2]; simp⟩

end StepModel.HeaderIds

import StepModel.PyAggBase
/-!
# `Spec.Aggregate` — EXPRESS aggregate values and the operations EXPRESS allows on them

ISO 10303-11: 8.2.1 ARRAY, 8.2.2 LIST, 8.2.3 BAG, 8.2.4 SET, 12.6.1 aggregate indexing, 13.3.2 assignment to an
aggregate element, 15.10/15.11/15.16/15.17 HIBOUND HIINDEX LOBOUND LOINDEX, 15.24 SIZEOF, 15.29 VALUE_UNIQUE.

A value is
* ARRAY : a function from the indices `lo … hi` to an element or indeterminate (`none`);
* LIST  : a sequence, indexed `1 … SIZEOF`;  `l[SIZEOF+1] := x` is the list grown by one element (`l + [x]`);
* BAG   : a finite multiset, kept as the sorted sequence of its elements (canonical: order carries no information);
* SET   : a finite set, kept as the strictly sorted sequence of its elements.

`step` answers one operation: it is accepted exactly when `…Allowed` holds, and then yields the updated value; a
refused operation leaves the value as it was.  The lower bound of LIST/BAG/SET is a constraint on the finished value
(checked with the domain rules), not on the operations building it, so it does not appear in `…Allowed`.
-/
namespace StepModel.Spec.Aggregate
open StepModel.PyAgg

/-- the index range `lo … hi` of an ARRAY -/
def indices (lo hi : Int) : List Int := (List.range (hi - lo + 1).toNat).map (fun (k : Nat) => lo + (k : Int))

/-- total order on element values used only to keep BAG/SET values canonical -/
def kindIdx : Kind → Nat
  | .array => 0 | .list => 1 | .bag => 2 | .set => 3

/-- an injective numbering of types, only to order values -/
def tyCode : Ty → Nat
  | .simple t => 5 * t
  | .agg k b => 5 * tyCode b + 1 + kindIdx k

def Val.le (a b : Val) : Bool :=
  decide (tyCode a.ty < tyCode b.ty) || (decide (tyCode a.ty = tyCode b.ty) && decide (a.v ≤ b.v))

def insertSorted (x : Val) : List Val → List Val
  | [] => [x]
  | h :: t => if Val.le x h then x :: h :: t else h :: insertSorted x t

inductive Value
  | array (cells : Int → Option Val)
  | list (elems : List Val)
  | bag (elems : List Val)
  | set (elems : List Val)

/-- declarations EXPRESS accepts: ARRAY needs determinate bounds `lo ≤ hi`; LIST/BAG/SET need `0 ≤ lo` and
`lo ≤ hi` when `hi` is determinate -/
def legal (d : Decl) : Bool :=
  match d.kind, d.hi with
  | .array, none => false
  | .array, some h => decide (d.lo ≤ h)
  | _, none => decide (0 ≤ d.lo)
  | _, some h => decide (0 ≤ d.lo) && decide (d.lo ≤ h)

def initial (d : Decl) : Value :=
  match d.kind with
  | .array => .array (fun _ => none)
  | .list => .list []
  | .bag => .bag []
  | .set => .set []

/-- a LIST/BAG/SET value of `n` elements respects the declared upper bound -/
def withinUpper (d : Decl) (n : Nat) : Prop := ∀ h, d.hi = some h → (n : Int) ≤ h

instance (d : Decl) (n : Nat) : Decidable (withinUpper d n) := by
  unfold withinUpper
  cases d.hi with
  | none => exact isTrue (by intro h hh; cases hh)
  | some h0 =>
    by_cases hle : (n : Int) ≤ h0
    · exact isTrue (by intro h hh; cases hh; exact hle)
    · exact isFalse (by intro hall; exact hle (hall h0 rfl))

/-! ### what EXPRESS allows -/

/-- `a[i] := x` on an ARRAY: index within the declared bounds, element of the base type, and for UNIQUE no *other*
index holds the same value -/
def arraySetAllowed (d : Decl) (hi : Int) (a : Int → Option Val) (i : Int) (x : Val) : Prop :=
  d.lo ≤ i ∧ i ≤ hi ∧ conforms x.ty d.base = true ∧
    (d.unique = true → ∀ j ∈ indices d.lo hi, j ≠ i → (a j).map Val.key ≠ some x.key)

instance (d : Decl) (hi : Int) (a : Int → Option Val) (i : Int) (x : Val) : Decidable (arraySetAllowed d hi a i x) := by
  unfold arraySetAllowed; exact inferInstance

/-- `a[i]` on an ARRAY: index within bounds; an indeterminate element may be read only when OPTIONAL -/
def arrayGetAllowed (d : Decl) (hi : Int) (a : Int → Option Val) (i : Int) : Prop :=
  d.lo ≤ i ∧ i ≤ hi ∧ (d.optional = true ∨ a i ≠ none)

instance (d : Decl) (hi : Int) (a : Int → Option Val) (i : Int) : Decidable (arrayGetAllowed d hi a i) := by
  unfold arrayGetAllowed; exact inferInstance

/-- `l[i] := x` on a LIST: `1 ≤ i ≤ SIZEOF+1`; growing must respect the upper bound; base type; for UNIQUE no
*other* position holds the same value -/
def listSetAllowed (d : Decl) (l : List Val) (i : Int) (x : Val) : Prop :=
  1 ≤ i ∧ i ≤ (l.length : Int) + 1 ∧ (i = (l.length : Int) + 1 → withinUpper d (l.length + 1)) ∧
    conforms x.ty d.base = true ∧
    (d.unique = true → ∀ j, j < l.length → (j : Int) + 1 ≠ i → (l[j]?).map Val.key ≠ some x.key)

instance (d : Decl) (l : List Val) (i : Int) (x : Val) : Decidable (listSetAllowed d l i x) := by
  unfold listSetAllowed; exact inferInstance

def listGetAllowed (l : List Val) (i : Int) : Prop := 1 ≤ i ∧ i ≤ (l.length : Int)

instance (l : List Val) (i : Int) : Decidable (listGetAllowed l i) := by
  unfold listGetAllowed; exact inferInstance

/-- adding to a BAG: base type and no more elements than the upper bound -/
def bagAddAllowed (d : Decl) (b : List Val) (x : Val) : Prop :=
  conforms x.ty d.base = true ∧ withinUpper d (b.length + 1)

instance (d : Decl) (b : List Val) (x : Val) : Decidable (bagAddAllowed d b x) := by
  unfold bagAddAllowed; exact inferInstance

/-- adding to a SET: base type; a value already present leaves the set as it is, a new one must fit -/
def setAddAllowed (d : Decl) (s : List Val) (x : Val) : Prop :=
  conforms x.ty d.base = true ∧ (x.key ∈ s.map Val.key ∨ withinUpper d (s.length + 1))

instance (d : Decl) (s : List Val) (x : Val) : Decidable (setAddAllowed d s x) := by
  unfold setAddAllowed; exact inferInstance

/-! ### results -/

def arraySet (a : Int → Option Val) (i : Int) (x : Val) : Int → Option Val := fun j => if j = i then some x else a j

def listSet (l : List Val) (i : Int) (x : Val) : List Val :=
  if i = (l.length : Int) + 1 then l ++ [x] else l.set (i - 1).toNat x

def setAdd (s : List Val) (x : Val) : List Val := if x.key ∈ s.map Val.key then s else insertSorted x s

def ofOptBound : Option Int → Ans
  | none => .indet
  | some h => .int h

/-- VALUE_UNIQUE of an ARRAY: UNKNOWN when some element is indeterminate, else whether all elements differ -/
def arrayValueUnique (lo hi : Int) (a : Int → Option Val) : Logical :=
  if ∃ j ∈ indices lo hi, a j = none then .u
  else if (((indices lo hi).map a).map (Option.map Val.key)).Nodup then .t else .f

def seqValueUnique (l : List Val) : Logical := if (l.map Val.key).Nodup then .t else .f

/-- one operation on an aggregate value of declaration `d` -/
def step (d : Decl) : Value → Op → Value × Ans
  | .array a, op =>
    match d.hi with
    | none => (.array a, .refused)          -- not a legal ARRAY declaration
    | some hi =>
      match op with
      | .set i x => if arraySetAllowed d hi a i x then (.array (arraySet a i x), .ok) else (.array a, .refused)
      | .get i =>
        if arrayGetAllowed d hi a i then (.array a, match a i with | some x => .val x | none => .unset)
        else (.array a, .refused)
      | .add _ => (.array a, .refused)
      | .size => (.array a, .int (hi - d.lo + 1))
      | .hiindex => (.array a, .int hi)
      | .loindex => (.array a, .int d.lo)
      | .hibound => (.array a, .int hi)
      | .lobound => (.array a, .int d.lo)
      | .unique => (.array a, .logical (arrayValueUnique d.lo hi a))
  | .list l, op =>
    match op with
    | .set i x => if listSetAllowed d l i x then (.list (listSet l i x), .ok) else (.list l, .refused)
    | .get i =>
      if listGetAllowed l i then (.list l, match l[(i - 1).toNat]? with | some x => .val x | none => .refused)
      else (.list l, .refused)
    | .add _ => (.list l, .refused)
    | .size => (.list l, .int l.length)
    | .hiindex => (.list l, .int l.length)
    | .loindex => (.list l, .int 1)
    | .hibound => (.list l, ofOptBound d.hi)
    | .lobound => (.list l, .int d.lo)
    | .unique => (.list l, .logical (seqValueUnique l))
  | .bag b, op =>
    match op with
    | .add x => if bagAddAllowed d b x then (.bag (insertSorted x b), .ok) else (.bag b, .refused)
    | .set _ _ => (.bag b, .refused)
    | .get _ => (.bag b, .refused)
    | .size => (.bag b, .int b.length)
    | .hiindex => (.bag b, .int b.length)
    | .loindex => (.bag b, .int 1)
    | .hibound => (.bag b, ofOptBound d.hi)
    | .lobound => (.bag b, .int d.lo)
    | .unique => (.bag b, .logical (seqValueUnique b))
  | .set s, op =>
    match op with
    | .add x => if setAddAllowed d s x then (.set (setAdd s x), .ok) else (.set s, .refused)
    | .set _ _ => (.set s, .refused)
    | .get _ => (.set s, .refused)
    | .size => (.set s, .int s.length)
    | .hiindex => (.set s, .int s.length)
    | .loindex => (.set s, .int 1)
    | .hibound => (.set s, ofOptBound d.hi)
    | .lobound => (.set s, .int d.lo)
    | .unique => (.set s, .logical .t)

/-! ### element aggregates with their own bounds (ISO 10303-11 9.2.6 specialization, 13.3.2 assignment compatibility)

An element of an aggregate of aggregates is itself a container with declared bounds.  EXPRESS accepts it where the
declared element type is `KIND [lo:hi] OF base` when it is the same kind of aggregate, its base type is (recursively)
acceptable, and its bounds conform: identical for ARRAY; for LIST/BAG/SET the element's bounds lie within the declared
ones (an indeterminate upper bound only within an indeterminate one).  (EXPRESS also lets a SET stand for a BAG; the
runtime's classes are unrelated, this reading keeps "same kind".)  `Ty` above is a type *up to bounds*. -/
/-- `x` may stand where `e` is declared -/
def specializes : BTy → BTy → Bool
  | .simple t, .simple t' => decide (t = t')
  | .agg k lo hi b, .agg k' lo' hi' b' => decide (k = k') && boundsConform k lo hi lo' hi' && specializes b b'
  | _, _ => false

/-! ### specialization among the simple types (ISO 10303-11 9.2.6, 13.3.2)

EXPRESS lets a value of a specialization stand where the generalization is declared: INTEGER is a specialization of REAL,
REAL and INTEGER of NUMBER, BOOLEAN of LOGICAL.  `conforms` (PyAggBase.lean) is the *runtime's* reading — the value's own
class (`isinstance`), which covers NUMBER (a base class of INTEGER and REAL) but neither INTEGER-for-REAL nor
BOOLEAN-for-LOGICAL (SimpleDataTypes.py: "@TODO: note 9.2.6 tells that integer is a specialization of real").  The
container specification above uses `conforms`; `assignable` is EXPRESS's rule, compared with it in Props/C19.lean and
probed on the real code. -/
def assignable (t base : Ty) : Bool :=
  conforms t base ||
  (match t, base with
   | .simple 0, .simple 2 => true        -- an INTEGER value where REAL is declared
   | .simple 3, .simple 4 => true        -- a BOOLEAN value where LOGICAL is declared
   | _, _ => false)

/-- ISO 10303-11 12.2.3 `x IN agg`: some element of the aggregate value has the value of `x` (value equality; an
indeterminate ARRAY element equals nothing) -/
def member (d : Decl) : Value → Val → Bool
  | .array a, x => decide (some x.key ∈ ((indices d.lo (d.hi.getD d.lo)).map a).map (Option.map Val.key))
  | .list l, x => decide (x.key ∈ l.map Val.key)
  | .bag l, x => decide (x.key ∈ l.map Val.key)
  | .set l, x => decide (x.key ∈ l.map Val.key)

/-- The EXPRESS built-in functions over aggregates (ISO 10303-11 15.10 HIBOUND, 15.11 HIINDEX, 15.16 LOBOUND, 15.17
LOINDEX, 15.24 SIZEOF, 15.29 VALUE_UNIQUE) -/
inductive BuiltinFn | sizeof | hiindex | loindex | hibound | lobound | valueUnique
  deriving DecidableEq, Repr

/-- what the function returns for an aggregate value `v` of declaration `d` -/
def builtin (d : Decl) (v : Value) : BuiltinFn → Ans
  | .sizeof => (step d v .size).2             -- number of elements (ARRAY: hi - lo + 1)
  | .hiindex => (step d v .hiindex).2         -- ARRAY: declared upper index; BAG/LIST/SET: number of elements
  | .loindex => (step d v .loindex).2         -- ARRAY: declared lower index; BAG/LIST/SET: 1
  | .hibound => (step d v .hibound).2         -- ARRAY: declared upper index; else declared upper bound or indeterminate
  | .lobound => (step d v .lobound).2         -- ARRAY: declared lower index; else declared lower bound
  | .valueUnique => (step d v .unique).2      -- UNKNOWN with an indeterminate element, else whether all elements differ

/-- the answers EXPRESS gives to a history on a value of declaration `d` -/
def run (d : Decl) : Value → List Op → List Ans
  | _, [] => []
  | v, op :: ops => let (v', a) := step d v op; a :: run d v' ops

/-- construction followed by a history: `none` when the declaration itself is refused -/
def runDecl (d : Decl) (ops : List Op) : Option (List Ans) :=
  if legal d then some (run d (initial d) ops) else none

end StepModel.Spec.Aggregate

import StepModel.P21SafeData
import StepModel.P21SafeSteps
/-! `CreateSubSuperInstance` and its inner loops (`SkipSimpleRecord`, `PushPastImbedAggr`, `PushPastString`) are stages:
they end, never un-read, and their steps are paid by the potential (helper file for Props/C05). -/
namespace StepModel.P21Safe

/-- a stage of the reader: never un-reads, and its steps are paid by the potential up to a constant `c`
(on every stream with at most `B` bytes left) -/
def StageOk (R : Nat) (f : IS → Out LoopRes) (c B : Nat) : Prop :=
  ∀ s, s.m ≤ B → ∃ r, f s = .ok r ∧ r.s.m ≤ s.m ∧ r.steps + pot R r.s ≤ pot R s + c

theorem kwLoop_len (pre rest acc : List Byte) :
    (kwLoop pre rest acc).2.1.length + (kwLoop pre rest acc).2.2.1.length + (if (kwLoop pre rest acc).2.2.2.isSome then 1 else 0)
      = rest.length + acc.length ∧
    ((kwLoop pre rest acc).2.2.2 = none → (kwLoop pre rest acc).2.1 = []) ∧
    (∀ c, (kwLoop pre rest acc).2.2.2 = some c → ∃ ps, (kwLoop pre rest acc).1 = c :: ps) := by
  fun_induction kwLoop pre rest acc <;> simp_all <;> omega

/-- `ReadStdKeyword` never un-reads, and the keyword it returns is part of what it consumed -/
theorem readStdKeyword_m (s : IS) :
    (readStdKeyword s).1.m ≤ s.m ∧ (readStdKeyword s).1.m + (readStdKeyword s).2.length ≤ s.m ∧
      (readStdKeyword s).2.length ≤ s.m := by
  unfold readStdKeyword
  have hw := ws_m s
  generalize s.ws = w at hw ⊢
  simp only []
  split
  · simp [IS.m]
  · rename_i hg
    obtain ⟨pre, rest, eof, fail, sk⟩ := w
    simp [IS.good] at hg
    obtain ⟨rfl, rfl⟩ := hg
    have hk := kwLoop_len pre rest []
    generalize kwLoop pre rest [] = kl at hk
    obtain ⟨p', r', acc, o⟩ := kl
    simp only [] at hk ⊢
    cases o with
    | none =>
      simp [IS.m] at hw hk ⊢
      omega
    | some c =>
      obtain ⟨hlen, _, hpre⟩ := hk
      obtain ⟨ps, hps⟩ := hpre c rfl
      subst hps
      simp [IS.putback, IS.m] at hw hlen ⊢
      omega



/-- `GetLiteralStr` right after `in.putback( '\'' )`: whatever the put-back did, the literal is paid by what it consumed -/
theorem lit_after_putback (s : IS) :
    (getLiteralStr (s.putback chQuote)).1.m + (getLiteralStr (s.putback chQuote)).2.length ≤ s.m + 1 ∧
    (getLiteralStr (s.putback chQuote)).1.m ≤ s.m ∧
    ((getLiteralStr (s.putback chQuote)).1.m = 0 ∨ 1 ≤ (getLiteralStr (s.putback chQuote)).2.length) := by
  obtain ⟨pre, rest, eof, fail, sk⟩ := s
  have hq : isSpace chQuote = false := by decide
  cases fail
  · cases pre with
    | nil => simp [IS.putback, getLiteralStr, IS.ws, IS.good, IS.m]
    | cons p ps =>
      by_cases hp : p = chQuote
      · subst hp
        have ht := litLoop_total rest [chQuote] true
        have hg := litLoop_grows rest [chQuote] true
        generalize hll : litLoop rest [chQuote] true = ll at ht hg
        obtain ⟨acc, r', hitEnd, e2⟩ := ll
        simp [IS.putback, getLiteralStr, IS.ws, IS.good, IS.skipSpaces, hq, hll, IS.m] at ht hg ⊢
        omega
      · simp [IS.putback, hp, getLiteralStr, IS.ws, IS.good, IS.m]
  · simp [IS.putback, getLiteralStr, IS.ws, IS.good, IS.m]

theorem getD_get_m (s : IS) : ((s.get).1.m + 1 ≤ s.m ∨ (s.get).1.m = 0) := get_m s


/-- the cost of a literal read after a put-back, against the potential of the stream before the put-back
(which was alive): `1 + |literal|` steps, and the stream after the following `get` -/
theorem lit_pot (R : Nat) (s : IS) (hs : 1 ≤ s.m) (steps : Nat) :
    steps + 1 + (getLiteralStr (s.putback chQuote)).2.length + pot R (getLiteralStr (s.putback chQuote)).1 ≤ steps + pot R s + 2 ∧
    (getLiteralStr (s.putback chQuote)).1.m ≤ s.m ∧
    ((getLiteralStr (s.putback chQuote)).1.m = 0 → 1 + (getLiteralStr (s.putback chQuote)).2.length ≤ pot R s) := by
  obtain ⟨h1, h2, h3⟩ := lit_after_putback s
  refine ⟨?_, h2, by intro hz; rw [pot_pos hs]; omega⟩
  by_cases hz : (getLiteralStr (s.putback chQuote)).1.m = 0
  · rw [pot_zero hz, pot_pos hs]; omega
  · rw [pot_pos (by omega), pot_pos hs]; omega

def AggrOk (R : Nat) (rec : IS → Byte → Nat → Bool → Nat → Out (IS × Nat × Bool × Nat)) (fuel : Nat) : Prop :=
  ∀ (s : IS) (c : Byte) (depth : Nat) (bad : Bool) (steps : Nat), s.m + 1 ≤ fuel →
    ∃ s' d' b' st, rec s c depth bad steps = .ok (s', d', b', st) ∧ s'.m ≤ s.m + 1 ∧ st + pot R s' ≤ steps + pot R s + 5

theorem aggrLoop_ok (R : Nat) (stay : Bool) : ∀ fuel, AggrOk R (aggrLoop stay fuel) fuel := by
  intro fuel
  induction fuel with
  | zero => intro s c depth bad steps h; omega
  | succ fuel ih =>
    intro s c depth bad steps h
    show ∃ s' d' b' st, aggrStep (aggrLoop stay fuel) stay s c depth bad steps = _ ∧ _
    unfold aggrStep
    by_cases hg : s.good = true
    · simp only [hg, Bool.not_true, Bool.false_eq_true, if_false]
      have hpos := good_m_pos hg
      have hge := pot_ge (R := R) hpos
      -- continuing with `get` on the current stream
      have cont : ∀ (d : Nat) (b : Bool), ∃ s' d' b' st,
          aggrLoop stay fuel (s.get).1 ((s.get).2.getD c) d b (steps + 1) = .ok (s', d', b', st) ∧ s'.m ≤ s.m + 1 ∧
            st + pot R s' ≤ steps + pot R s + 5 := by
        intro d b
        have hgm := get_m s
        obtain ⟨s', d', b', st, h1, h2, h3⟩ := ih (s.get).1 ((s.get).2.getD c) d b (steps + 1) (by rcases hgm with h | h <;> omega)
        refine ⟨s', d', b', st, h1, by rcases hgm with h | h <;> omega, ?_⟩
        rcases hgm with hh | hh
        · have := pot_drop (R := R) hh (Nat.le_refl 1); omega
        · rw [pot_zero hh] at h3; omega
      split
      · exact cont _ _
      · split
        · rename_i hq
          subst hq
          obtain ⟨hl, hlm, hlz⟩ := lit_pot R s hpos steps
          have hgm := get_m (getLiteralStr (s.putback chQuote)).1
          obtain ⟨s', d', b', st, h1, h2, h3⟩ := ih ((getLiteralStr (s.putback chQuote)).1.get).1
            (((getLiteralStr (s.putback chQuote)).1.get).2.getD chQuote) depth (bad || litUnclosed (s.putback chQuote))
            (steps + 1 + (getLiteralStr (s.putback chQuote)).2.length) (by rcases hgm with hh | hh <;> omega)
          refine ⟨s', d', b', st, h1, by rcases hgm with hh | hh <;> omega, ?_⟩
          rcases hgm with hh | hh
          · have := pot_drop (R := R) hh (Nat.le_refl 1); omega
          · rw [pot_zero hh] at h3
            by_cases hz : (getLiteralStr (s.putback chQuote)).1.m = 0
            · have := hlz hz; omega
            · have := pot_ge (R := R) (b := (getLiteralStr (s.putback chQuote)).1) (by omega); omega
        · split
          · split
            · exact ⟨s, 0, bad, steps + 1, rfl, by omega, by omega⟩
            · exact cont _ _
          · split
            · obtain ⟨hp, hpm, _⟩ := pot_putback R s c
              exact ⟨_, depth, bad, steps + 1, rfl, hpm, by omega⟩
            · exact cont _ _
    · simp at hg
      simp only [hg, Bool.not_false, if_true]
      exact ⟨s, depth, bad, steps, rfl, by omega, by omega⟩


theorem get_some_shape_aux {s s1 : IS} {c : Byte} (h : s.get = (s1, some c)) :
    s1.fail = false ∧ (∃ ps, s1.pre = c :: ps) ∧ s1.m + 1 ≤ s.m ∧ 1 ≤ s.m := by
  obtain ⟨pre, rest, eof, fail, sk⟩ := s
  cases eof <;> cases fail <;> cases rest <;> simp [IS.get, IS.good] at h
  obtain ⟨rfl, rfl⟩ := h
  simp [IS.m]

theorem ws_get_failed {s : IS} (h : s.m = 0) : (s.ws.get).2 = none := by
  obtain ⟨pre, rest, eof, fail, sk⟩ := s
  cases fail <;> simp [IS.m] at h
  simp [IS.ws, IS.good, IS.get]

/-- `PushPastImbedAggr`: ends, consumes at least one byte (or the stream has failed), steps paid by the potential with
a margin of 2 when the stream was alive -/
theorem pushPastImbedAggr_ok (R : Nat) (stay : Bool) (fuel : Nat) (s : IS) (bad : Bool) (steps : Nat) (h : s.m + 1 ≤ fuel) :
    ∃ s' b' st, pushPastImbedAggr stay fuel s bad steps = .ok (s', b', st) ∧ (s'.m + 1 ≤ s.m ∨ s'.m = 0) ∧
      st + pot R s' ≤ steps + pot R s ∧ (1 ≤ s.m → st + pot R s' + 2 ≤ steps + pot R s) := by
  unfold pushPastImbedAggr
  dsimp only
  have hw := ws_m s
  have hg := get_m s.ws
  generalize hgeq : s.ws.get = g at hg ⊢
  obtain ⟨s1, o⟩ := g
  simp only [] at hg
  have hs1 : s1.m + 1 ≤ s.m ∨ s1.m = 0 := by rcases hg with hh | hh <;> omega
  have hp1 : pot R s1 ≤ pot R s := pot_mono (by omega)
  have hmargin : 1 ≤ s.m → pot R s1 + 4 ≤ pot R s := by
    intro hpos
    rcases hs1 with hh | hh
    · exact pot_drop hh (Nat.le_refl 1)
    · rw [pot_zero hh]; have := pot_ge (R := R) hpos; omega
  cases o with
  | none =>
    exact ⟨s1, bad, steps, rfl, hs1, by omega, fun hpos => by have := hmargin hpos; omega⟩
  | some c =>
    have hspos : 1 ≤ s.m := by
      by_cases hs0 : s.m = 0
      · have := ws_get_failed hs0; rw [hgeq] at this; cases this
      · omega
    have hm4 := hmargin hspos
    simp only []
    split
    · have hg2 := get_m s1
      obtain ⟨s2, d, b2, st, h1, h2, h3⟩ := aggrLoop_ok R stay fuel (s1.get).1 ((s1.get).2.getD c) 1 bad (steps + 1)
        (by rcases hg2 with hh | hh <;> rcases hs1 with h1 | h1 <;> omega)
      rw [h1]
      -- `s1` delivered a character, so it is alive: its potential is at least 4 + R
      obtain ⟨hf1, _, _, _⟩ := get_some_shape_aux hgeq
      have hs1pos : 1 ≤ s1.m := by simp [IS.m, hf1]
      have hge1 := pot_ge (R := R) hs1pos
      have hfin : st + pot R s2 + 2 ≤ steps + pot R s := by
        rcases hg2 with hh | hh
        · have := pot_drop (R := R) hh (Nat.le_refl 1); omega
        · rw [pot_zero hh] at h3
          omega
      exact ⟨s2, _, st, rfl, by rcases hg2 with hh | hh <;> rcases hs1 with h1 | h1 <;> omega, by omega, fun _ => hfin⟩
    · exact ⟨s1, bad, steps, rfl, hs1, by omega, fun _ => by omega⟩

theorem get_some_shape {s s1 : IS} {c : Byte} (h : s.get = (s1, some c)) :
    s1.fail = false ∧ (∃ ps, s1.pre = c :: ps) ∧ s1.m + 1 ≤ s.m ∧ 1 ≤ s.m := by
  obtain ⟨pre, rest, eof, fail, sk⟩ := s
  cases eof <;> cases fail <;> cases rest <;> simp [IS.get, IS.good] at h
  obtain ⟨rfl, rfl⟩ := h
  simp [IS.m]

theorem get_none_failed {s s1 : IS} (h : s.get = (s1, none)) : s1.m = 0 := by
  obtain ⟨pre, rest, eof, fail, sk⟩ := s
  cases eof <;> cases fail <;> cases rest <;> simp [IS.get, IS.good] at h <;> (subst h; simp [IS.m])

def RecordOk (R : Nat) (rec : IS → Bool → Nat → Out (IS × Bool × Nat)) (fuel : Nat) : Prop :=
  ∀ (s : IS) (bad : Bool) (steps : Nat), s.m + 1 ≤ fuel →
    ∃ s' b' st, rec s bad steps = .ok (s', b', st) ∧ s'.m ≤ s.m ∧ st + pot R s' ≤ steps + pot R s + 1

/-- the loop of `SkipSimpleRecord` around `PushPastString` / `PushPastImbedAggr` -/
theorem recordLoop_ok (R : Nat) (stay : Bool) (F : Nat) : ∀ fuel, fuel ≤ F → RecordOk R (recordLoop (pushPastImbedAggr stay F) fuel) fuel := by
  intro fuel
  induction fuel with
  | zero => intro _ s bad steps h; omega
  | succ fuel ih =>
    intro hF s bad steps h
    have ih := ih (by omega)
    show ∃ s' b' st, recordStep (recordLoop (pushPastImbedAggr stay F) fuel) (pushPastImbedAggr stay F) s bad steps = _ ∧ _
    unfold recordStep
    generalize hgeq : s.get = g
    obtain ⟨s1, o⟩ := g
    cases o with
    | none =>
      have hz := get_none_failed hgeq
      exact ⟨s1, bad, steps + 1, rfl, by omega, by rw [pot_zero hz]; omega⟩
    | some c =>
      obtain ⟨hf1, ⟨ps, hpre⟩, hlt, hpos⟩ := get_some_shape hgeq
      have hd := pot_drop (R := R) hlt (Nat.le_refl 1)
      simp only []
      split
      · exact ⟨s1, bad, steps + 1, rfl, by omega, by omega⟩
      · split
        · rename_i hq
          subst hq
          have hs1pos : 1 ≤ s1.m := by simp [IS.m, hf1]
          obtain ⟨hl, hlm, _⟩ := lit_pot R s1 hs1pos (steps)
          obtain ⟨s', b', st, h1, h2, h3⟩ := ih (getLiteralStr (s1.putback chQuote)).1 (bad || litUnclosed (s1.putback chQuote))
            (steps + 1 + (getLiteralStr (s1.putback chQuote)).2.length) (by omega)
          exact ⟨s', b', st, h1, by omega, by omega⟩
        · split
          · rename_i hlp
            subst hlp
            have hpb : (s1.putback chLParen).m ≤ s.m := by
              rw [putback_restore hf1 hpre]; simp [IS.m, hf1] at hlt ⊢; omega
            obtain ⟨s2, b2, st2, a, b, c2, c3⟩ := pushPastImbedAggr_ok R stay F (s1.putback chLParen) bad (steps + 1) (by omega)
            have hpbpos : 1 ≤ (s1.putback chLParen).m := by rw [putback_restore hf1 hpre]; simp [IS.m, hf1]
            have c3 := c3 hpbpos
            rw [a]
            simp only []
            have hppb := pot_mono (R := R) hpb
            obtain ⟨s', b', st, h1, h2, h3⟩ := ih s2 b2 st2 (by rcases b with hh | hh <;> omega)
            refine ⟨s', b', st, h1, by rcases b with hh | hh <;> omega, ?_⟩
            rcases b with hh | hh
            · have := pot_drop (R := R) (a := s2) (b := s1.putback chLParen) hh (Nat.le_refl 1); omega
            · rw [pot_zero hh] at h3 c2
              have := pot_ge (R := R) (b := s) hpos; omega
          · obtain ⟨s', b', st, h1, h2, h3⟩ := ih s1 bad (steps + 1) (by omega)
            exact ⟨s', b', st, h1, by omega, by omega⟩

/-- `SkipSimpleRecord` as a function of the stream (the shared `bad` flag threaded): ends, never un-reads, paid -/
theorem skipSimpleRecord_ok (R : Nat) (stay : Bool) (fuel : Nat) (s : IS) (bad : Bool) (steps : Nat) (h : s.m + 1 ≤ fuel) :
    ∃ s' b' st, skipSimpleRecord stay fuel s bad steps = .ok (s', b', st) ∧ s'.m ≤ s.m ∧ st + pot R s' ≤ steps + pot R s + 1 := by
  unfold skipSimpleRecord
  dsimp only
  have hw := ws_m s
  generalize hgeq : s.ws.get = g
  obtain ⟨s1, o⟩ := g
  cases o with
  | none =>
    have hz := get_none_failed hgeq
    have := putback_m_zero s1 0 hz
    exact ⟨_, bad, steps, rfl, by omega, by rw [pot_zero this]; omega⟩
  | some c =>
    obtain ⟨hf1, ⟨ps, hpre⟩, hlt, hpos⟩ := get_some_shape hgeq
    simp only []
    split
    · obtain ⟨s2, b2, st, a, b, c2⟩ := recordLoop_ok R stay fuel fuel (Nat.le_refl _) s1 bad steps (by omega)
      rw [a]
      have := pot_mono (R := R) (a := s1) (b := s) (by omega)
      exact ⟨s2, _, st, rfl, by omega, by omega⟩
    · have hpb : (s1.putback c).m ≤ s.m := by
        rw [putback_restore hf1 hpre]
        have : ({ s1 with pre := ps, rest := c :: s1.rest, eof := false } : IS).m = s1.m + 1 := by simp [IS.m, hf1]
        omega
      exact ⟨_, bad, steps, rfl, hpb, by have := pot_mono (R := R) hpb; omega⟩

/-- `c?` is what `peek` returned on `s` -/
def HeadInv (s : IS) (c? : Option Byte) : Prop := ∀ c, c? = some c → ∃ r0, s.rest = c :: r0

theorem headInv_peek (t : IS) : HeadInv (t.peek).1 (t.peek).2 := by
  intro c hc
  generalize hpk : t.peek = pk at hc
  obtain ⟨s2, p⟩ := pk
  simp only [] at hc
  subst hc
  obtain ⟨rfl, _, _, r0, hr0⟩ := peek_some hpk
  exact ⟨r0, hr0⟩

def GarbageOk (R : Nat) (rec : IS → Option Byte → Nat → Out (IS × Option Byte × Nat)) (fuel : Nat) : Prop :=
  ∀ (s : IS) (c? : Option Byte) (steps : Nat), s.m + 1 ≤ fuel → HeadInv s c? →
    ∃ s' c' st, rec s c? steps = .ok (s', c', st) ∧ s'.m ≤ s.m ∧ st + pot R s' ≤ steps + pot R s ∧
      (∀ c, c' = some c → s'.good = true → c = chRParen ∨ isAlpha c = true) ∧ HeadInv s' c' 

theorem garbageLoop_ok (R : Nat) : ∀ fuel, GarbageOk R (garbageLoop fuel) fuel := by
  intro fuel
  induction fuel with
  | zero => intro s c? steps h; omega
  | succ fuel ih =>
    intro s c? steps h hinv
    show ∃ s' c' st, garbageStep (garbageLoop fuel) s c? steps = _ ∧ _
    unfold garbageStep
    cases c? with
    | none => exact ⟨s, none, steps, rfl, Nat.le_refl _, Nat.le_refl _, (fun c hc => by cases hc), hinv⟩
    | some c =>
      simp only []
      split
      · rename_i hcond
        have hg : s.good = true := by simp at hcond; exact hcond.1.1
        have hpos := good_m_pos hg
        have hx := extract_m s
        have hp := peek_m (s.extract).1
        obtain ⟨s', c', st, h1, h2, h3, h4, h5⟩ := ih ((s.extract).1.peek).1 ((s.extract).1.peek).2 (steps + 1)
          (by rcases hx with hh | hh <;> omega) (headInv_peek _)
        refine ⟨s', c', st, h1, by rcases hx with hh | hh <;> omega, ?_, h4, h5⟩
        have hpp := pot_mono (R := R) hp
        rcases hx with hh | hh
        · have := pot_drop (R := R) hh (Nat.le_refl 1); omega
        · have hz : ((s.extract).1.peek).1.m = 0 := by omega
          rw [pot_zero hz] at h3
          have := pot_ge (R := R) (b := s) hpos
          have : pot R s' = 0 := pot_zero (by omega)
          omega
      · rename_i hcond
        refine ⟨s, some c, steps, rfl, Nat.le_refl _, Nat.le_refl _, ?_, hinv⟩
        intro c0 hc0 hg
        simp at hc0; subst hc0
        simp [hg] at hcond
        by_cases hc : c = chRParen
        · exact Or.inl hc
        · right; simpa using hcond hc


theorem not_good_of_m_zero' {s : IS} (h : s.m = 0) : s.good = false := by
  obtain ⟨pre, rest, eof, fail, sk⟩ := s
  cases fail <;> simp_all [IS.m, IS.good]

theorem alpha_facts (c : Byte) (h : isAlpha c = true) : isSpace c = false ∧ isAlnum c = true := by
  have e65 : (65 : UInt8).toNat = 65 := rfl
  have e90 : (90 : UInt8).toNat = 90 := rfl
  have e97 : (97 : UInt8).toNat = 97 := rfl
  have e122 : (122 : UInt8).toNat = 122 := rfl
  have e9 : (9 : UInt8).toNat = 9 := rfl
  have e13 : (13 : UInt8).toNat = 13 := rfl
  have e32 : (32 : UInt8).toNat = 32 := rfl
  refine ⟨?_, by simp [isAlnum, h]⟩
  simp only [isAlpha, isUpper, isLower, Bool.or_eq_true, Bool.and_eq_true, decide_eq_true_eq, UInt8.le_iff_toNat_le] at h
  have hne : c ≠ 32 := by intro hc; subst hc; omega
  simp only [isSpace, Bool.or_eq_false_iff, Bool.and_eq_false_iff, beq_eq_false_iff_ne, ne_eq, decide_eq_false_iff_not, UInt8.le_iff_toNat_le]
  exact ⟨hne, by rcases h with h | h <;> omega⟩

theorem kwLoop_grows (pre rest acc : List Byte) : acc.length ≤ (kwLoop pre rest acc).2.2.1.length := by
  fun_induction kwLoop pre rest acc <;> simp_all <;> omega

/-- a keyword that starts with a letter is not empty -/
theorem readStdKeyword_alpha {s : IS} {c : Byte} {r0 : List Byte} (hg : s.good = true) (hr : s.rest = c :: r0)
    (ha : isAlpha c = true) : 1 ≤ (readStdKeyword s).2.length := by
  obtain ⟨hsp, han⟩ := alpha_facts c ha
  obtain ⟨pre, rest, eof, fail, sk⟩ := s
  simp [IS.good] at hg
  obtain ⟨rfl, rfl⟩ := hg
  simp at hr; subst hr
  have hk := kwLoop_grows (c :: pre) r0 [c]
  simp [readStdKeyword, IS.ws, IS.good, IS.skipSpaces, hsp, kwLoop, han] at hk ⊢
  generalize kwLoop (c :: pre) r0 [c] = kl at hk ⊢
  obtain ⟨p', r', acc, o⟩ := kl
  simp only [] at hk ⊢
  cases o <;> simp <;> omega

def headFlag (s : IS) (c? : Option Byte) : Nat :=
  match c? with
  | some c => if s.good && c != chRParen && !isAlpha c then 1 else 0
  | none => 0

def PartOk (R : Nat) (rec : IS → Option Byte → Nat → Bool → Nat → Out (IS × Nat × Nat)) (fuel : Nat) : Prop :=
  ∀ (s : IS) (c? : Option Byte) (idx : Nat) (bad : Bool) (steps : Nat), HeadInv s c? → 2 * s.m + headFlag s c? + 1 ≤ fuel →
    ∃ s' n st, rec s c? idx bad steps = .ok (s', n, st) ∧ s'.m ≤ s.m ∧ st + pot R s' ≤ steps + pot R s + 1 + headFlag s c?

/-- the part loop of `CreateSubSuperInstance` -/
theorem partLoop_ok (R F : Nat) (stay : Bool) (guard : Option Nat) :
    ∀ fuel, fuel ≤ 2 * F → PartOk R (partLoop (skipSimpleRecord stay F) (garbageLoop F) guard fuel) fuel := by
  intro fuel
  induction fuel with
  | zero => intro _ s c? idx bad steps _ h; omega
  | succ fuel ih =>
    intro hF s c? idx bad steps hinv h
    have ih := ih (by omega)
    show ∃ s' n st, partStep (partLoop (skipSimpleRecord stay F) (garbageLoop F) guard fuel) (skipSimpleRecord stay F) (garbageLoop F) guard
      s c? idx bad steps = _ ∧ _
    unfold partStep
    cases c? with
    | none => exact ⟨s, idx, steps, rfl, Nat.le_refl _, by omega⟩
    | some c =>
      simp only []
      split
      · rename_i hcond
        have hg : s.good = true := by simp at hcond; exact hcond.1.1
        have hcr : c ≠ chRParen := by simp at hcond; exact hcond.1.2
        have hpos := good_m_pos hg
        have hge := pot_ge (R := R) hpos
        obtain ⟨r0, hr0⟩ := hinv c rfl
        obtain ⟨km1, km2, km3⟩ := readStdKeyword_m s
        have hsF : s.m + 1 ≤ F := by omega
        -- the continuation after the keyword (and its record)
        have cont : ∀ (s2 : IS) (idx2 : Nat) (bad2 : Bool) (st : Nat), s2.m ≤ s.m →
            (s2.m + 1 ≤ s.m ∨ s2.m = 0 ∨ headFlag s (some c) = 1) →
            st + pot R s2 + 1 ≤ steps + pot R s + 1 + headFlag s (some c) →
            ∃ s' n st', (match garbageLoop F (s2.ws.peek).1 (s2.ws.peek).2 st with
                | .ok (s3, c3?, st3) => partLoop (skipSimpleRecord stay F) (garbageLoop F) guard fuel s3 c3? idx2 bad2 st3
                | .overflow i k => .overflow i k
                | .outOfFuel => .outOfFuel) = .ok (s', n, st') ∧ s'.m ≤ s.m ∧
              st' + pot R s' ≤ steps + pot R s + 1 + headFlag s (some c) := by
          intro s2 idx2 bad2 st hm2 hprog hp2
          have hw := ws_m s2
          have hpk := peek_m s2.ws
          obtain ⟨s3, c3, st3, g1, g2, g3, g4, g5⟩ := garbageLoop_ok R F (s2.ws.peek).1 (s2.ws.peek).2 st (by omega) (headInv_peek _)
          rw [g1]
          simp only []
          have hf3 : headFlag s3 c3 = 0 := by
            cases c3 with
            | none => rfl
            | some x =>
              by_cases hg3 : s3.good = true
              · rcases g4 x rfl hg3 with hx | hx
                · subst hx; simp [headFlag]
                · simp [headFlag, hx]
              · simp at hg3; simp [headFlag, hg3]
          have hm3 : s3.m ≤ s2.m := by omega
          have hpm := pot_mono (R := R) (a := (s2.ws.peek).1) (b := s2) (by omega)
          obtain ⟨s', n, st', r1, r2, r3⟩ := ih s3 c3 idx2 bad2 st3 g5 (by
            rw [hf3]
            rcases hprog with hh | hh | hh
            · omega
            · omega
            · omega)
          rw [hf3] at r3
          exact ⟨s', n, st', r1, by omega, by omega⟩
        split
        · rename_i hemp
          -- no keyword: then the head character is not a letter, i.e. this is the flagged first iteration
          have hflag : headFlag s (some c) = 1 := by
            by_cases ha : isAlpha c = true
            · have := readStdKeyword_alpha hg hr0 ha
              simp [List.isEmpty_iff] at hemp
              rw [hemp] at this; simp at this
            · simp at ha
              simp [headFlag, hg, hcr, ha]
          have hpk := pot_mono (R := R) km1
          exact cont _ idx bad (steps + 1) km1 (Or.inr (Or.inr hflag)) (by omega)
        · rename_i hne
          have hlen : 1 ≤ (readStdKeyword s).2.length := by
            cases hk : (readStdKeyword s).2 with
            | nil => simp [hk] at hne
            | cons a t => simp
          obtain ⟨s2, b2, st2, a, b, c2⟩ := skipSimpleRecord_ok R stay F (readStdKeyword s).1 bad (steps + 1 + (readStdKeyword s).2.length) (by omega)
          rw [a]
          simp only []
          have hkp : pot R (readStdKeyword s).1 + 4 * (readStdKeyword s).2.length ≤ pot R s := by
            by_cases hz : (readStdKeyword s).1.m = 0
            · rw [pot_zero hz, pot_pos hpos]; omega
            · rw [pot_pos (by omega), pot_pos hpos]; omega
          exact cont s2 (idx + 1) b2 st2 (by omega) (by
            by_cases hz : s2.m = 0
            · exact Or.inr (Or.inl hz)
            · left; omega) (by omega)
      · exact ⟨s, idx, steps, rfl, Nat.le_refl _, by omega⟩

theorem headFlag_le (s : IS) (c? : Option Byte) : headFlag s c? ≤ 1 := by
  unfold headFlag; cases c? <;> simp only [] <;> (try split) <;> omega

theorem headFlag_failed {s : IS} (c? : Option Byte) (h : s.m = 0) : headFlag s c? = 0 := by
  have := not_good_of_m_zero' h
  cases c? <;> simp [headFlag, this]

/-- `CreateSubSuperInstance` is a stage with constant 3: it ends, never un-reads, and all its loops (part loop, garbage
loop, `SkipSimpleRecord`, `PushPastImbedAggr`, string literals) are paid by the potential -/
theorem createSubSuper_ok (R : Nat) (stay : Bool) (guard : Option Nat) (F : Nat) (hF : 1 ≤ F) : StageOk R (createSubSuper stay guard F) 3 (F - 1) := by
  intro s hB
  unfold createSubSuper
  dsimp only
  have hw := ws_m s
  have hg := get_m s.ws
  have hpk := peek_m (s.ws.get).1
  have hfl := headFlag_le ((s.ws.get).1.peek).1 ((s.ws.get).1.peek).2
  have hfuel : 2 * ((s.ws.get).1.peek).1.m + headFlag ((s.ws.get).1.peek).1 ((s.ws.get).1.peek).2 + 1 ≤ 2 * F := by
    rcases hg with hh | hh
    · omega
    · have hz : ((s.ws.get).1.peek).1.m = 0 := by omega
      rw [headFlag_failed _ hz]; omega
  obtain ⟨s', n, st, h1, h2, h3⟩ := partLoop_ok R F stay guard (2 * F) (Nat.le_refl _) ((s.ws.get).1.peek).1 ((s.ws.get).1.peek).2
    0 false 1 (headInv_peek _) hfuel
  rw [h1]
  refine ⟨⟨s', n, 0, st⟩, rfl, ?_, ?_⟩
  · show s'.m ≤ s.m
    rcases hg with hh | hh <;> omega
  have hpp := pot_mono (R := R) (a := ((s.ws.get).1.peek).1) (b := s) (by rcases hg with hh | hh <;> omega)
  show st + pot R s' ≤ pot R s + 3
  omega

end StepModel.P21Safe

import StepModel.PyAggBase
import StepModel.Generated.PyAggGen
/-!
# Model of the Python aggregates (src/exp2python/python/stepcode/AggregationDataTypes.py)

`ARRAY`, `LIST`, `BAG`, `SET` as state machines.  The state follows the Python objects (`_bound_1`, `_bound_2`,
`_unique`, `_optional`, the base type, `_container`); every method is a function `state → state × R` that follows the
statement order of the Python method, including *which* check comes first and Python's own list semantics:

* `pyIdx`        – `lst[k]` with Python's negative-index wrap-around; out of range is an explicit `Exc.pyIndex`
                   (Python would raise `IndexError` from inside the container), never a silent default;
* `pySliceTo/From` – `lst[:p]`, `lst[p:]` with Python's clamping;
* `pyRepeatNone` – `n*[None]` (empty for `n ≤ 0`);
* `distinctCount` – `len(set(lst))`;
* `pySetAdd`     – `set.add` on a duplicate-free list (iteration order of a Python set is not observable here).

`check_type(value, base)` for the simple base types is `isinstance`: the model's `Val.ty = base`.  `None` is never an
instance of a base type, so a stored element is never `None`; only ARRAY slots that were never assigned hold `none`.
(`LIST.get_size` still subtracts `_container.count(None)`; on a `List Val` container that count is 0 by typing.)

The arithmetic that the property hinges on – the number of preallocated ARRAY slots, what `ARRAY.get_size`
reports, the size at which `BAG.add`/`SET.add` refuse, the value of `get_loindex` – is *regenerated from the
Python source on every run* (`Generated/PyAggGen.lean`).
-/
namespace StepModel.PyAgg
open StepModel.Generated

/-- which exception the Python code raises -/
inductive Exc
  | index       -- `IndexError` raised by the aggregate's own bound check
  | type        -- `TypeError` (`check_type`, or a bound that is not an `int`)
  | assertion   -- `AssertionError`
  | pyIndex     -- `IndexError` raised by Python's list indexing itself (the code indexed outside `_container`)
  | noMethod    -- the class has no such method (`AttributeError` / `TypeError: does not support item assignment`)
  deriving DecidableEq, Repr

/-- result of one call as the model computes it -/
inductive R
  | ok
  | val (x : Val)
  | unset
  | int (n : Int)
  | indet
  | logical (l : Logical)
  | raised (e : Exc)
  deriving DecidableEq, Repr

def R.obs : R → Ans
  | .ok => .ok | .val x => .val x | .unset => .unset | .int n => .int n | .indet => .indet
  | .logical l => .logical l | .raised _ => .refused

/-! ### `check_type` (TypeChecker.py) -/

/-- the aggregate kinds erased: what a comparison sees that recurses through `get_type()` without looking at the class -/
def eraseKinds : Ty → Nat × Nat
  | .simple t => (0, t)
  | .agg _ b => let (d, t) := eraseKinds b; (d + 1, t)

/-- `instance.get_type() <cmp> expected_type.get_type()` for an element `x` with base type `b'` against the declared base
type `b`, in the three forms the extractor recognises (`Generated.elementBaseCmp`) -/
def baseTypesMatch (mode : BaseCmp) (x : Val) (b' b : Ty) : Bool :=
  match mode with
  | .identity =>
    match b with
    | .simple _ => decide (b' = b)                                   -- classes: `==`
    | .agg _ _ => decide (b' = b) && x.sharesDeclaredBase            -- aggregate objects: `==` is identity
  | .structural => decide (b' = b)
  | .structuralNoKind => decide (eraseKinds b' = eraseKinds b)

/-- `check_type(value, expected_type)` returns normally.  For an aggregate expected type: `isinstance(value,
type(expected_type))` and the base-type comparison above (bounds, UNIQUE, OPTIONAL of the element are not compared:
`@TODO: check aggregate bounds`); for a simple expected type: `isinstance(value, expected_type)`.
The function reads nothing but its two arguments. -/
def checkTypeWith (mode : BaseCmp) (x : Val) (expected : Ty) : Bool :=
  match expected with
  | .agg k b =>
    match x.ty with
    | .agg k' b' => if k' ≠ k then false else baseTypesMatch mode x b' b
    | .simple _ => false
  | .simple t => conforms x.ty (.simple t)          -- isinstance(instance, expected_type)

def checkType (x : Val) (expected : Ty) : Bool := checkTypeWith elementBaseCmp x expected

/-- `bounds_conform` applied at every level (`check_type` at the top, `same_base_type` below), when the source has it -/
def boundsFit : BTy → BTy → Bool
  | .agg k lo hi b, .agg _ lo' hi' b' => boundsConform k lo hi lo' hi' && boundsFit b b'
  | _, _ => true

/-- is an element aggregate with its own bounds stored where `e` is the declared element type?  The class and base-type
comparison of `check_type`, plus the bounds when the source compares them (`elementBoundsChecked`, regenerated) -/
def elementAccepted (x e : BTy) : Bool :=
  checkType ⟨eraseBounds x, 1⟩ (eraseBounds e) && (if elementBoundsChecked then boundsFit x e else true)

/-- the bounds every element aggregate and every declared element type carries in the refinement's value universe (the
harness builds them so: `ARRAY [1:2]`, `LIST / BAG / SET [0:?]` at every level) -/
def harnessBounds : Kind → Int × Option Int
  | .array => (1, some 2)
  | _ => (0, none)

/-- a type of the refinement (`Ty`, up to bounds) with those bounds put back -/
def canon : Ty → BTy
  | .simple t => .simple t
  | .agg k b => .agg k (harnessBounds k).1 (harnessBounds k).2 (canon b)

/-- `check_type` raises `TypeError` -/
def typeMismatch (x : Val) (expected : Ty) : Prop := ¬ (checkType x expected = true)

instance (x : Val) (expected : Ty) : Decidable (typeMismatch x expected) := by
  unfold typeMismatch; exact inferInstance

/-! ### Python list primitives -/

/-- `lst[k]`: the position Python accesses, `none` = `IndexError` -/
def pyIdx (len : Nat) (k : Int) : Option Nat :=
  if 0 ≤ k then (if k.toNat < len then some k.toNat else none)
  else if 0 ≤ k + (len : Int) then some (k + (len : Int)).toNat else none

/-- how Python clamps a slice bound -/
def pyClamp (len : Nat) (p : Int) : Nat :=
  if p < 0 then (p + (len : Int)).toNat else min p.toNat len

def pySliceTo {α} (l : List α) (p : Int) : List α := l.take (pyClamp l.length p)
def pySliceFrom {α} (l : List α) (p : Int) : List α := l.drop (pyClamp l.length p)

/-- `n*[None]` -/
def pyRepeatNone (n : Int) : List (Option Val) := List.replicate n.toNat none

/-- `len(set(lst))` -/
def distinctCount {α} [DecidableEq α] : List α → Nat
  | [] => 0
  | x :: xs => if x ∈ xs then distinctCount xs else distinctCount xs + 1

/-- `s.add(x)` for a Python `set` kept as a duplicate-free list; membership is python's (`Val.key`) -/
def pySetAdd (c : List Val) (x : Val) : List Val := if x.key ∈ c.map Val.key then c else c ++ [x]

/-! ### ARRAY -/

structure Arr where
  lo : Int
  hi : Int
  unique : Bool
  optional : Bool
  base : Ty
  cells : List (Option Val)
  deriving DecidableEq, Repr

/-- `ARRAY.__init__` -/
def Arr.new (lo : Int) (hi : Option Int) (base : Ty) (u o : Bool) : Except Exc Arr :=
  match hi with
  | none => .error .type                                   -- `not isinstance(bound_2, int)`
  | some hi =>
    if ¬ (lo ≤ hi) then .error .assertion
    else .ok { lo, hi, unique := u, optional := o, base, cells := pyRepeatNone (arrayAlloc lo hi) }

/-- `ARRAY.__setitem__` -/
def Arr.set (a : Arr) (i : Int) (x : Val) : Arr × R :=
  if i < a.lo then (a, .raised .index)
  else if i > a.hi then (a, .raised .index)
  else if typeMismatch x a.base then (a, .raised .type)            -- check_type(value, self.get_type())
  else
    let p := i - a.lo
    let ks := a.cells.map (Option.map Val.key)                      -- `value in lst`: python equality, `None` equals nothing
    if a.unique && (pySliceTo ks p ++ pySliceFrom ks (p + 1)).contains (some x.key) then
      (a, .raised .assertion)
    else match pyIdx a.cells.length p with
      | none => (a, .raised .pyIndex)
      | some k => ({ a with cells := a.cells.set k (some x) }, .ok)

/-- `ARRAY.__getitem__` -/
def Arr.get (a : Arr) (i : Int) : R :=
  if i < a.lo then .raised .index
  else if i > a.hi then .raised .index
  else match pyIdx a.cells.length (i - a.lo) with
    | none => .raised .pyIndex
    | some k => match a.cells[k]? with
      | none => .raised .pyIndex
      | some none => if a.optional then .unset else .raised .assertion
      | some (some x) => .val x

/-- `ARRAY.get_value_unique` -/
def Arr.valueUnique (a : Arr) : Logical :=
  if a.cells.contains none then .u
  else if arraySize a.lo a.hi - (distinctCount (a.cells.map (Option.map Val.key)) : Int) > 0 then .f else .t

def Arr.step (a : Arr) : Op → Arr × R
  | .set i x => a.set i x
  | .get i => (a, a.get i)
  | .add _ => (a, .raised .noMethod)
  | .size => (a, .int (arraySize a.lo a.hi))
  | .hiindex => (a, .int a.hi)
  | .loindex => (a, .int a.lo)
  | .hibound => (a, .int a.hi)
  | .lobound => (a, .int a.lo)
  | .unique => (a, .logical a.valueUnique)

/-! ### LIST -/

structure Lst where
  lo : Int
  hi : Option Int
  unique : Bool
  base : Ty
  cells : List Val
  deriving DecidableEq, Repr

/-- the bound validation shared by `LIST.__init__`, `BAG.__init__`, `SET.__init__` -/
def checkSizeBounds (lo : Int) (hi : Option Int) : Option Exc :=
  if ¬ (lo ≥ 0) then some .assertion
  else match hi with
    | some h => if ¬ (lo ≤ h) then some .assertion else none
    | none => none

/-- `LIST.__init__` -/
def Lst.new (lo : Int) (hi : Option Int) (base : Ty) (u : Bool) : Except Exc Lst :=
  match checkSizeBounds lo hi with
  | some e => .error e
  | none => .ok { lo, hi, unique := u, base, cells := [] }

/-- `LIST.__getitem__` -/
def Lst.get (l : Lst) (i : Int) : R :=
  if i < 1 ∨ i > (l.cells.length : Int) then .raised .index
  else match pyIdx l.cells.length (i - 1) with
    | none => .raised .pyIndex
    | some k => match l.cells[k]? with
      | none => .raised .pyIndex
      | some x => .val x

/-- `size >= self._bound_2` for a bounded list -/
def Lst.full (l : Lst) : Bool :=
  match l.hi with
  | none => false
  | some h => decide ((l.cells.length : Int) ≥ h)

/-- `LIST.__setitem__` -/
def Lst.set (l : Lst) (i : Int) (x : Val) : Lst × R :=
  let size : Int := l.cells.length
  if i < 1 ∨ i > size + 1 then (l, .raised .index)
  else if i = size + 1 ∧ l.full then (l, .raised .assertion)
  else if typeMismatch x l.base then (l, .raised .type)
  else if l.unique && (pySliceTo (l.cells.map Val.key) (i - 1) ++ pySliceFrom (l.cells.map Val.key) i).contains x.key then
    (l, .raised .assertion)
  else if i = size + 1 then ({ l with cells := l.cells ++ [x] }, .ok)
  else match pyIdx l.cells.length (i - 1) with
    | none => (l, .raised .pyIndex)
    | some k => ({ l with cells := l.cells.set k x }, .ok)

/-- `get_value_unique` of LIST and BAG (no `None` can be stored) -/
def listValueUnique (c : List Val) : Logical :=
  if (c.length : Int) - (distinctCount (c.map Val.key) : Int) > 0 then .f else .t

def hiBound : Option Int → R
  | none => .indet
  | some h => .int h

def Lst.step (l : Lst) : Op → Lst × R
  | .set i x => l.set i x
  | .get i => (l, l.get i)
  | .add _ => (l, .raised .noMethod)
  | .size => (l, .int l.cells.length)
  | .hiindex => (l, .int l.cells.length)
  | .loindex => (l, .int listLoIndex)
  | .hibound => (l, hiBound l.hi)
  | .lobound => (l, .int l.lo)
  | .unique => (l, .logical (listValueUnique l.cells))

/-! ### BAG and SET -/

structure Bag where
  lo : Int
  hi : Option Int
  base : Ty
  cells : List Val
  deriving DecidableEq, Repr

def Bag.new (lo : Int) (hi : Option Int) (base : Ty) : Except Exc Bag :=
  match checkSizeBounds lo hi with
  | some e => .error e
  | none => .ok { lo, hi, base, cells := [] }

/-- the capacity test of `add`: `len(self._container) == <expr>` (or `>=`) -/
def fullTest (ge : Bool) (len : Nat) (cap : Int) : Bool :=
  if ge then decide ((len : Int) ≥ cap) else decide ((len : Int) = cap)

/-- `BAG.add` -/
def Bag.add (b : Bag) (x : Val) : Bag × R :=
  match b.hi with
  | none =>
    if typeMismatch x b.base then (b, .raised .type) else ({ b with cells := b.cells ++ [x] }, .ok)
  | some h =>
    if fullTest bagFullGe b.cells.length (bagFullAt b.lo h) then (b, .raised .assertion)
    else if typeMismatch x b.base then (b, .raised .type)
    else ({ b with cells := b.cells ++ [x] }, .ok)

def Bag.step (b : Bag) : Op → Bag × R
  | .add x => b.add x
  | .set _ _ => (b, .raised .noMethod)
  | .get _ => (b, .raised .noMethod)
  | .size => (b, .int b.cells.length)
  | .hiindex => (b, .int b.cells.length)
  | .loindex => (b, .int bagLoIndex)
  | .hibound => (b, hiBound b.hi)
  | .lobound => (b, .int b.lo)
  | .unique => (b, .logical (listValueUnique b.cells))

/-- `SET`: `_container` is a Python `set` -/
structure PSet where
  lo : Int
  hi : Option Int
  base : Ty
  cells : List Val
  deriving DecidableEq, Repr

def PSet.new (lo : Int) (hi : Option Int) (base : Ty) : Except Exc PSet :=
  match checkSizeBounds lo hi with
  | some e => .error e
  | none => .ok { lo, hi, base, cells := [] }

/-- `SET.add` with the membership shortcut of a full set taken *before* the type check (the code before fixes/C19-6).
`∈` is python's `in`: equality crosses EXPRESS types (`INTEGER(1) == REAL(1.0) == True`), which this model's structural
equality on `Val` does not show — the branch is kept only so that the model follows such a source (`setAddChecksTypeFirst
= false`), where the theorems no longer build and the oracle supplies the replay. -/
def PSet.addMembershipFirst (s : PSet) (x : Val) : PSet × R :=
  match s.hi with
  | none =>
    if typeMismatch x s.base then (s, .raised .type) else ({ s with cells := pySetAdd s.cells x }, .ok)
  | some h =>
    if fullTest setFullGe s.cells.length (setFullAt s.lo h) then
      (if ¬ (x.key ∈ s.cells.map Val.key) then (s, .raised .assertion) else (s, .ok))
    else if typeMismatch x s.base then (s, .raised .type)
    else ({ s with cells := pySetAdd s.cells x }, .ok)

/-- `SET.add`: `check_type(value, self.get_type())` first, then the capacity test (a value the full set already holds
leaves it unchanged), then `set.add` -/
def PSet.addTypeCheckFirst (s : PSet) (x : Val) : PSet × R :=
  if typeMismatch x s.base then (s, .raised .type)
  else match s.hi with
    | none => ({ s with cells := pySetAdd s.cells x }, .ok)
    | some h =>
      if fullTest setFullGe s.cells.length (setFullAt s.lo h) then
        (if ¬ (x.key ∈ s.cells.map Val.key) then (s, .raised .assertion) else (s, .ok))
      else ({ s with cells := pySetAdd s.cells x }, .ok)

/-- `SET.add`, in the statement order the source has (`setAddChecksTypeFirst`, regenerated) -/
def PSet.add (s : PSet) (x : Val) : PSet × R :=
  if setAddChecksTypeFirst then s.addTypeCheckFirst x else s.addMembershipFirst x

def PSet.step (s : PSet) : Op → PSet × R
  | .add x => s.add x
  | .set _ _ => (s, .raised .noMethod)
  | .get _ => (s, .raised .noMethod)
  | .size => (s, .int s.cells.length)
  | .hiindex => (s, .int s.cells.length)
  | .loindex => (s, .int setLoIndex)
  | .hibound => (s, hiBound s.hi)
  | .lobound => (s, .int s.lo)
  | .unique => (s, .logical .t)

/-! ### any aggregate -/

inductive Agg
  | arr (a : Arr) | lst (l : Lst) | bag (b : Bag) | set (s : PSet)
  deriving DecidableEq, Repr

def Agg.new (d : Decl) : Except Exc Agg :=
  match d.kind with
  | .array => (Arr.new d.lo d.hi d.base d.unique d.optional).map .arr
  | .list => (Lst.new d.lo d.hi d.base d.unique).map .lst
  | .bag => (Bag.new d.lo d.hi d.base).map .bag
  | .set => (PSet.new d.lo d.hi d.base).map .set

def Agg.step : Agg → Op → Agg × R
  | .arr a, op => let (a', r) := a.step op; (.arr a', r)
  | .lst l, op => let (l', r) := l.step op; (.lst l', r)
  | .bag b, op => let (b', r) := b.step op; (.bag b', r)
  | .set s, op => let (s', r) := s.step op; (.set s', r)

/-- `x in container` (`__contains__`: `value is not None and value in self._container`): python's membership test on
the stored elements — `==`, i.e. equal keys; an unset ARRAY slot (`None`) matches nothing.  Meaningful for the runtime
only when the regenerated `membershipDefined` holds. -/
def Agg.contains : Agg → Val → Bool
  | .arr a, x => decide (some x.key ∈ a.cells.map (Option.map Val.key))
  | .lst l, x => decide (x.key ∈ l.cells.map Val.key)
  | .bag b, x => decide (x.key ∈ b.cells.map Val.key)
  | .set s, x => decide (x.key ∈ s.cells.map Val.key)

/-- run a history; the answers in order -/
def Agg.run : Agg → List Op → List Ans
  | _, [] => []
  | a, op :: ops => let (a', r) := a.step op; r.obs :: Agg.run a' ops

/-! ### the EXPRESS built-in functions over aggregates (Builtin.py) -/

def queryOp : Query → Op
  | .size => .size | .hiindex => .hiindex | .loindex => .loindex
  | .hibound => .hibound | .lobound => .lobound | .unique => .unique

/-- the argument of a built-in function: a container, or something that is not an aggregate -/
inductive BArg
  | container (a : Agg)
  | other (x : Val)

/-- `SIZEOF(V)`, `HIINDEX(V)`, …: `TypeError` unless `V` is an aggregate, else the container method the function returns
(`Generated.builtinMethod`, regenerated from Builtin.py) -/
def Builtin.call (f : BFn) : BArg → R
  | .other _ => .raised .type
  | .container a => (a.step (queryOp (builtinMethod f))).2

/-! ### several containers in one interpreter

The Python objects share nothing: every method reads and writes `self` only, and `check_type` reads its two arguments
only.  A world is the list of live containers; an operation addresses one of them. -/

def World.step (w : List Agg) (i : Nat) (op : Op) : List Agg × Option R :=
  match w[i]? with
  | none => (w, none)                                   -- no such container
  | some a => let (a', r) := a.step op; (w.set i a', some r)

/-- an interleaved history over several containers; the answers, tagged with the container addressed -/
def World.run : List Agg → List (Nat × Op) → List (Nat × Option Ans)
  | _, [] => []
  | w, (i, op) :: rest => let (w', r) := World.step w i op; (i, r.map R.obs) :: World.run w' rest

end StepModel.PyAgg

import StepModel.GenPy
/-!
# Order in which the entity classes are written (`SCOPEget_entities_superclass_order`, src/express/scope.c)

`SCOPEPrint` writes the entities in the order of `SCOPEget_entities_superclass_order`: for every entity of the symbol
table (dictionary = hash order, here *any* order of roots) `SCOPE_dfs` marks the entity, recurses into its supertypes
that are defined in the scope, then appends the entity.  "Marked" = already appended or still on the recursion stack.
The recursion depth is explicit fuel; running out of it is an explicit outcome (`none`), not a silent default.
-/
namespace StepModel.GenPy.EntityOrder

/-- `SCOPE_dfs( symbols, root, result )`; `out` is oldest first -/
def dfs (es : List Entity) : Nat → List String → List String → String → Option (List String)
  | 0, _, _, _ => none
  | f + 1, stack, out, n =>
    if n ∈ out ∨ n ∈ stack then some out                       -- ENTITYget_mark( root ) == ENTITY_MARK
    else match find es n with
      | none => some out                                        -- not defined in this scope: chopped
      | some e =>
        (e.supers.foldlM (fun o p => dfs es f (n :: stack) o p) out).map (fun o => o ++ [n])

/-- the whole list: one `SCOPE_dfs` per symbol-table entry, in the order `roots` -/
def order (es : List Entity) (fuel : Nat) (roots : List String) : Option (List String) :=
  roots.foldlM (fun o r => dfs es fuel [] o r) []

end StepModel.GenPy.EntityOrder

import StepModel.InstMgrLemmas
/-! The representation invariant of `InstMgr` and its preservation by every operation. -/
namespace StepModel.InstMgr
open StepModel.Generated

/-- What ties `master`, `sortedMaster`, the cached indices and the counter together. -/
structure Inv (s : State) : Prop where
  /-- every node caches its own position -/
  idx : ∀ i (h : i < s.nodes.length), (s.nodes[i]).arrayIndex = (i : Int)
  nidLt : ∀ n ∈ s.nodes, n.nid < s.nextNid
  nidNodup : (s.nodes.map (·.nid)).Nodup
  /-- one node per instance -/
  instNodup : (s.nodes.map (·.inst)).Nodup
  /-- no node points to a deleted instance -/
  alive : ∀ n ∈ s.nodes, (s.heap n.inst).isSome
  keysNodup : (s.sorted.map (·.1)).Nodup
  /-- the map holds exactly (current id of the node's instance ↦ node) for the nodes in the array -/
  sortedIff : ∀ k nid, (k, nid) ∈ s.sorted ↔ ∃ n ∈ s.nodes, n.nid = nid ∧ idOf s n.inst = some k
  maxGe : ∀ n ∈ s.nodes, ∀ k, idOf s n.inst = some k → k ≤ s.maxFileId
  /-- no instance in the manager carries the "unassigned" id -/
  nonzero : ∀ n ∈ s.nodes, idOf s n.inst ≠ some unassignedFileId
  cap : s.nodes.length ≤ s.bufsize

theorem inv_init : Inv init := by
  constructor <;> simp [init]

/-! ### consequences used everywhere -/
theorem Inv.node_eq_of_nid {s : State} (I : Inv s) {a b : Node} (ha : a ∈ s.nodes) (hb : b ∈ s.nodes)
    (h : a.nid = b.nid) : a = b := by
  have := I.nidNodup
  rcases List.getElem_of_mem ha with ⟨i, hi, rfl⟩
  rcases List.getElem_of_mem hb with ⟨j, hj, rfl⟩
  have hij : i = j := by
    have h1 : (s.nodes.map (·.nid))[i]'(by simpa using hi) = (s.nodes.map (·.nid))[j]'(by simpa using hj) := by
      simpa using h
    exact (List.getElem_inj this).mp h1
  subst hij; rfl

theorem Inv.node_eq_of_inst {s : State} (I : Inv s) {a b : Node} (ha : a ∈ s.nodes) (hb : b ∈ s.nodes)
    (h : a.inst = b.inst) : a = b := by
  have := I.instNodup
  rcases List.getElem_of_mem ha with ⟨i, hi, rfl⟩
  rcases List.getElem_of_mem hb with ⟨j, hj, rfl⟩
  have hij : i = j := by
    have h1 : (s.nodes.map (·.inst))[i]'(by simpa using hi) = (s.nodes.map (·.inst))[j]'(by simpa using hj) := by
      simpa using h
    exact (List.getElem_inj this).mp h1
  subst hij; rfl

/-- two nodes in the manager never carry the same file id -/
theorem Inv.node_eq_of_id {s : State} (I : Inv s) {a b : Node} (ha : a ∈ s.nodes) (hb : b ∈ s.nodes)
    {k : Int} (h1 : idOf s a.inst = some k) (h2 : idOf s b.inst = some k) : a = b := by
  have m1 : (k, a.nid) ∈ s.sorted := (I.sortedIff k a.nid).mpr ⟨a, ha, rfl, h1⟩
  have m2 : (k, b.nid) ∈ s.sorted := (I.sortedIff k b.nid).mpr ⟨b, hb, rfl, h2⟩
  have f1 := mapFind_of_mem I.keysNodup m1
  have f2 := mapFind_of_mem I.keysNodup m2
  rw [f1] at f2
  exact I.node_eq_of_nid ha hb (by simpa using f2)

theorem nodeById_of_mem {s : State} (I : Inv s) {n : Node} (hn : n ∈ s.nodes) :
    nodeById s.nodes n.nid = some n := by
  unfold nodeById
  cases hf : s.nodes.find? (fun m => m.nid == n.nid) with
  | none =>
    rw [List.find?_eq_none] at hf
    have := hf n hn
    simp at this
  | some m =>
    have hm := List.mem_of_find?_eq_some hf
    have hk := List.find?_some hf
    simp at hk
    rw [I.node_eq_of_nid hm hn hk]

/-- `FindFileId` under the invariant: exactly the node whose instance carries the id, else nothing -/
theorem findFileId_spec {s : State} (I : Inv s) (k : Int) :
    (∃ n ∈ s.nodes, idOf s n.inst = some k ∧ findFileId s k = .node n) ∨
    ((∀ n ∈ s.nodes, idOf s n.inst ≠ some k) ∧ findFileId s k = .none) := by
  unfold findFileId
  cases hf : mapFind s.sorted k with
  | none =>
    right
    refine ⟨?_, rfl⟩
    intro n hn hid
    have hm : (k, n.nid) ∈ s.sorted := (I.sortedIff k n.nid).mpr ⟨n, hn, rfl, hid⟩
    exact (mapFind_eq_none.mp hf) _ hm rfl
  | some nid =>
    left
    have hm := mapFind_some_mem hf
    rcases (I.sortedIff k nid).mp hm with ⟨n, hn, hnid, hid⟩
    refine ⟨n, hn, hid, ?_⟩
    subst hnid
    simp [nodeById_of_mem I hn]


/-! ### `pushNode` -/
theorem pushNode_nodes (s : State) (h : Nat) (st : St) (k : Int) :
    (pushNode s h st k).nodes = s.nodes ++ [⟨s.nextNid, h, st, (s.nodes.length : Int)⟩] := by
  unfold pushNode arrayAppend; split <;> rfl
theorem pushNode_heap (s : State) (h : Nat) (st : St) (k : Int) : (pushNode s h st k).heap = s.heap := by
  unfold pushNode arrayAppend; split <;> rfl
theorem pushNode_sorted (s : State) (h : Nat) (st : St) (k : Int) :
    (pushNode s h st k).sorted = mapSet s.sorted k s.nextNid := by
  unfold pushNode arrayAppend; split <;> rfl
theorem pushNode_nextNid (s : State) (h : Nat) (st : St) (k : Int) :
    (pushNode s h st k).nextNid = s.nextNid + 1 := by
  unfold pushNode arrayAppend; split <;> rfl
theorem pushNode_bufsize (s : State) (h : Nat) (st : St) (k : Int) :
    (pushNode s h st k).bufsize = checkCap s.bufsize s.nodes.length := by
  unfold pushNode arrayAppend; split <;> rfl
theorem pushNode_max (s : State) (h : Nat) (st : St) (k : Int) :
    (pushNode s h st k).maxFileId = if k > s.maxFileId then k else s.maxFileId := by
  unfold pushNode arrayAppend; split <;> rfl

theorem idOf_pushNode (s : State) (h : Nat) (st : St) (k : Int) (x : Nat) :
    idOf (pushNode s h st k) x = idOf s x := by
  unfold idOf; rw [pushNode_heap]

theorem inv_pushNode {s : State} (I : Inv s) {h : Nat} {st : St} {k : Int}
    (hh : idOf s h = some k) (hz : k ≠ unassignedFileId)
    (hfresh : ∀ n ∈ s.nodes, n.inst ≠ h) (hid : ∀ n ∈ s.nodes, idOf s n.inst ≠ some k) :
    Inv (pushNode s h st k) := by
  have hN := pushNode_nodes s h st k
  constructor
  · intro i hi
    simp only [hN] at hi ⊢
    by_cases hlt : i < s.nodes.length
    · rw [List.getElem_append_left hlt]; exact I.idx i hlt
    · have : i = s.nodes.length := by simp at hi; omega
      subst this
      simp
  · intro n hn
    rw [pushNode_nextNid]
    rw [hN] at hn
    rcases List.mem_append.mp hn with hn | hn
    · have := I.nidLt n hn; omega
    · simp at hn; subst hn; simp
  · rw [hN]
    simp only [List.map_append, List.map_cons, List.map_nil]
    rw [List.nodup_append]
    refine ⟨I.nidNodup, by simp, ?_⟩
    intro a ha b hb
    simp at hb; subst hb
    rcases List.mem_map.mp ha with ⟨n, hn, rfl⟩
    have := I.nidLt n hn; omega
  · rw [hN]
    simp only [List.map_append, List.map_cons, List.map_nil]
    rw [List.nodup_append]
    refine ⟨I.instNodup, by simp, ?_⟩
    intro a ha b hb
    simp at hb; subst hb
    rcases List.mem_map.mp ha with ⟨n, hn, rfl⟩
    exact hfresh n hn
  · intro n hn
    rw [pushNode_heap]
    rw [hN] at hn
    rcases List.mem_append.mp hn with hn | hn
    · exact I.alive n hn
    · simp at hn; subst hn
      unfold idOf at hh
      cases hx : s.heap h with
      | none => simp [hx] at hh
      | some _ => simp
  · rw [pushNode_sorted]; exact keys_mapSet_nodup I.keysNodup
  · intro k' nid
    rw [pushNode_sorted, mem_mapSet, hN]
    constructor
    · rintro (he | ⟨hm, hne⟩)
      · simp only [Prod.mk.injEq] at he
        refine ⟨⟨s.nextNid, h, st, (s.nodes.length : Int)⟩, by simp, he.2.symm, ?_⟩
        rw [idOf_pushNode, he.1]; exact hh
      · rcases (I.sortedIff k' nid).mp hm with ⟨n, hn, h1, h2⟩
        exact ⟨n, by simp [hn], h1, by rw [idOf_pushNode]; exact h2⟩
    · rintro ⟨n, hn, h1, h2⟩
      rw [idOf_pushNode] at h2
      rcases List.mem_append.mp hn with hn | hn
      · right
        refine ⟨(I.sortedIff k' nid).mpr ⟨n, hn, h1, h2⟩, ?_⟩
        intro hk; simp at hk; subst hk
        exact hid n hn h2
      · left
        simp at hn; subst hn
        simp at h1 h2
        rw [hh] at h2
        simp at h2
        simp [h1, h2]
  · intro n hn k' hk'
    rw [idOf_pushNode] at hk'
    rw [pushNode_max]
    rw [hN] at hn
    rcases List.mem_append.mp hn with hn | hn
    · have := I.maxGe n hn k' hk'
      split <;> omega
    · simp at hn; subst hn
      simp at hk'
      rw [hh] at hk'
      simp at hk'; subst hk'
      split <;> omega
  · intro n hn
    rw [idOf_pushNode]
    rw [hN] at hn
    rcases List.mem_append.mp hn with hn | hn
    · exact I.nonzero n hn
    · simp at hn; subst hn
      simp
      rw [hh]; simp; exact hz
  · rw [pushNode_bufsize, hN]
    have := I.cap
    have hg : s.nodes.length < growTo s.nodes.length := by unfold growTo; omega
    simp [checkCap]
    split <;> omega

/-! ### changing an instance's id / the counter while the instance is not in the manager -/
theorem idOf_setId_ne (s : State) (h : Nat) (v : Int) {x : Nat} (hx : x ≠ h) :
    idOf (setId s h v) x = idOf s x := by
  simp [idOf, setId, hx]

theorem idOf_setId_self (s : State) (h : Nat) (v : Int) (ha : (s.heap h).isSome) :
    idOf (setId s h v) h = some v := by
  unfold idOf setId
  cases hx : s.heap h with
  | none => simp [hx] at ha
  | some i => simp

theorem inv_setId_notin {s : State} (I : Inv s) {h : Nat} (v : Int)
    (hfresh : ∀ n ∈ s.nodes, n.inst ≠ h) : Inv (setId s h v) := by
  have e : ∀ n ∈ s.nodes, idOf (setId s h v) n.inst = idOf s n.inst :=
    fun n hn => idOf_setId_ne s h v (hfresh n hn)
  constructor
  · exact I.idx
  · exact I.nidLt
  · exact I.nidNodup
  · exact I.instNodup
  · intro n hn
    have := I.alive n hn
    simp [setId, hfresh n hn, this]
  · exact I.keysNodup
  · intro k nid
    rw [show (setId s h v).sorted = s.sorted from rfl, I.sortedIff k nid]
    constructor
    · rintro ⟨n, hn, h1, h2⟩; exact ⟨n, hn, h1, by rw [e n hn]; exact h2⟩
    · rintro ⟨n, hn, h1, h2⟩; exact ⟨n, hn, h1, by rw [← e n hn]; exact h2⟩
  · intro n hn k hk
    rw [e n hn] at hk
    exact I.maxGe n hn k hk
  · intro n hn
    rw [e n hn]; exact I.nonzero n hn
  · exact I.cap

theorem inv_bumpMax {s : State} (I : Inv s) {m : Int} (hm : s.maxFileId ≤ m) :
    Inv { s with maxFileId := m } := by
  constructor
  · exact I.idx
  · exact I.nidLt
  · exact I.nidNodup
  · exact I.instNodup
  · exact I.alive
  · exact I.keysNodup
  · exact I.sortedIff
  · intro n hn k hk
    have := I.maxGe n hn k hk
    show k ≤ m
    omega
  · exact I.nonzero
  · exact I.cap

/-- `se->StepFileId( NextFileId() )` for an instance that is not in the manager -/
theorem inv_renumber {s : State} (I : Inv s) {h : Nat} (hfresh : ∀ n ∈ s.nodes, n.inst ≠ h) :
    Inv (renumber s h).1 := by
  unfold renumber nextFileId
  simp only
  exact inv_setId_notin (s := { s with maxFileId := nextFileIdVal s.maxFileId })
    (inv_bumpMax I (Int.le_of_lt (nextFileIdVal_gt _))) _ hfresh

theorem renumber_snd (s : State) (h : Nat) : (renumber s h).2 = nextFileIdVal s.maxFileId := rfl
theorem renumber_nodes (s : State) (h : Nat) : (renumber s h).1.nodes = s.nodes := rfl
theorem renumber_max (s : State) (h : Nat) : (renumber s h).1.maxFileId = nextFileIdVal s.maxFileId := rfl
theorem renumber_idOf_self (s : State) (h : Nat) (ha : (s.heap h).isSome) :
    idOf (renumber s h).1 h = some (nextFileIdVal s.maxFileId) := by
  unfold renumber nextFileId
  exact idOf_setId_self _ h _ ha


theorem renumber_idOf_ne (s : State) (h : Nat) {x : Nat} (hx : x ≠ h) : idOf (renumber s h).1 x = idOf s x := by
  unfold renumber nextFileId
  exact idOf_setId_ne _ h _ hx

theorem isSome_of_idOf {s : State} {h : Nat} {k : Int} (hk : idOf s h = some k) : (s.heap h).isSome := by
  unfold idOf at hk
  cases hx : s.heap h with
  | none => simp [hx] at hk
  | some _ => simp

/-! ### `Append` -/
theorem inv_appendFind {s1 : State} (I1 : Inv s1) {h : Nat} {id1 : Int} (st : St)
    (hid1 : idOf s1 h = some id1) (hz : id1 ≠ unassignedFileId) :
    Inv (appendFind s1 id1 h st).1 ∧ (appendFind s1 id1 h st).2 ≠ .crash := by
  unfold appendFind
  rcases findFileId_spec I1 id1 with ⟨n, hn, hnid, hf⟩ | ⟨hall, hf⟩
  · rw [hf]
    by_cases hnh : n.inst = h
    · simp [hnh]; exact I1
    · simp only [hnh, if_false]
      have hfresh : ∀ n' ∈ s1.nodes, n'.inst ≠ h := by
        intro n' hn' he
        have : idOf s1 n'.inst = some id1 := by rw [he]; exact hid1
        have := I1.node_eq_of_id hn' hn this hnid
        subst this; exact hnh he
      have I2 := inv_renumber I1 hfresh
      refine ⟨?_, by simp⟩
      apply inv_pushNode I2
      · rw [renumber_snd]; exact renumber_idOf_self s1 h (isSome_of_idOf hid1)
      · rw [renumber_snd]; exact nextFileIdVal_ne_unassigned _
      · exact hfresh
      · intro n' hn' he
        rw [renumber_nodes] at hn'
        rw [renumber_idOf_ne s1 h (hfresh n' hn'), renumber_snd] at he
        have := I1.maxGe n' hn' _ he
        have := nextFileIdVal_gt s1.maxFileId
        omega
  · rw [hf]
    refine ⟨?_, by simp⟩
    have hfresh : ∀ n' ∈ s1.nodes, n'.inst ≠ h := by
      intro n' hn' he
      exact hall n' hn' (by rw [he]; exact hid1)
    exact inv_pushNode I1 hid1 hz hfresh hall

theorem inv_append {s : State} (I : Inv s) (h : Nat) (st : St) :
    Inv (append s h st).1 ∧ (append s h st).2 ≠ .crash := by
  unfold append
  cases hh : s.heap h with
  | none => simp; exact I
  | some i0 =>
    simp only
    by_cases hz : i0.fileId = unassignedFileId
    · simp only [hz, if_true]
      have hfresh : ∀ n ∈ s.nodes, n.inst ≠ h := by
        intro n hn he
        apply I.nonzero n hn
        simp [idOf, he, hh, hz]
      have I1 := inv_renumber I hfresh
      apply inv_appendFind I1 st
      · rw [renumber_snd]; exact renumber_idOf_self s h (by simp [hh])
      · rw [renumber_snd]; exact nextFileIdVal_ne_unassigned _
    · simp only [hz, if_false]
      exact inv_appendFind I st (by simp [idOf, hh]) hz


/-! ### `Delete` -/
theorem Inv.nodes_nodup {s : State} (I : Inv s) : s.nodes.Nodup := by
  have := I.nidNodup
  rw [List.nodup_iff_pairwise_ne] at this ⊢
  rw [List.pairwise_map] at this
  exact this.imp (fun h he => h (by rw [he]))

theorem mem_eraseIdx_nodup {α : Type} {l : List α} (nd : l.Nodup) {p : Nat} (hp : p < l.length) {a : α} :
    a ∈ l.eraseIdx p ↔ a ∈ l ∧ a ≠ l[p] := by
  rw [List.mem_eraseIdx_iff_getElem]
  constructor
  · rintro ⟨i, hi, hne, rfl⟩
    refine ⟨List.getElem_mem hi, ?_⟩
    intro he
    exact hne ((List.getElem_inj nd).mp he)
  · rintro ⟨ha, hne⟩
    rcases List.getElem_of_mem ha with ⟨i, hi, rfl⟩
    refine ⟨i, hi, ?_, rfl⟩
    intro he; subst he; exact hne rfl

def kill (s : State) (x : Nat) : Nat → Option Inst := fun k => if k = x then Option.none else s.heap k

theorem deleteNodeCore_eq {s : State} (I : Inv s) {n : Node} {p : Nat} (hp : p < s.nodes.length)
    (hn : s.nodes[p] = n) :
    ∃ i, s.heap n.inst = some i ∧
      deleteNodeCore s n = ({ s with sorted := mapErase s.sorted i.fileId, nodes := arrayRemove s.nodes p,
                                       heap := kill s n.inst }, .unit) := by
  have hmem : n ∈ s.nodes := by rw [← hn]; exact List.getElem_mem hp
  have ha := I.alive n hmem
  cases hx : s.heap n.inst with
  | none => simp [hx] at ha
  | some i =>
    refine ⟨i, rfl, ?_⟩
    have hidx : n.arrayIndex = (p : Int) := by rw [← hn]; exact I.idx p hp
    unfold deleteNodeCore
    simp only [hx, hidx]
    have : (0 : Int) ≤ (p : Int) ∧ (p : Int).toNat < s.nodes.length := by
      constructor
      · omega
      · simpa using hp
    simp only [this, and_self, if_true]
    rfl

theorem inv_delete_at {s : State} (I : Inv s) {p : Nat} (hp : p < s.nodes.length) {i : Inst}
    (hi : s.heap (s.nodes[p]).inst = some i) :
    Inv { s with sorted := mapErase s.sorted i.fileId, nodes := arrayRemove s.nodes p,
                 heap := kill s (s.nodes[p]).inst } := by
  let n := s.nodes[p]
  have hnmem : n ∈ s.nodes := List.getElem_mem hp
  have hidn : idOf s n.inst = some i.fileId := by simp [idOf, n, hi]
  -- every node of the new array comes from a different node of the old one
  have back : ∀ m ∈ arrayRemove s.nodes p,
      ∃ m' ∈ s.nodes, m' ≠ n ∧ m'.nid = m.nid ∧ m'.inst = m.inst ∧ m'.state = m.state := by
    intro m hm
    rcases mem_renumberFrom hm with ⟨m', hm', h⟩
    have := (mem_eraseIdx_nodup I.nodes_nodup hp).mp hm'
    exact ⟨m', this.1, this.2, h⟩
  have fwd : ∀ m' ∈ s.nodes, m' ≠ n →
      ∃ m ∈ arrayRemove s.nodes p, m'.nid = m.nid ∧ m'.inst = m.inst ∧ m'.state = m.state := by
    intro m' hm' hne
    have : m' ∈ s.nodes.eraseIdx p := (mem_eraseIdx_nodup I.nodes_nodup hp).mpr ⟨hm', hne⟩
    exact mem_of_renumberFrom this
  have idk : ∀ m' ∈ s.nodes, m' ≠ n → ∀ (S : State), S.heap = kill s n.inst → idOf S m'.inst = idOf s m'.inst := by
    intro m' hm' hne S hS
    have : m'.inst ≠ n.inst := fun he => hne (I.node_eq_of_inst hm' hnmem he)
    simp [idOf, hS, kill, this]
  constructor
  · intro j hj
    simp only [arrayRemove] at hj ⊢
    rw [renumberFrom_length] at hj
    rw [renumberFrom_getElem p 0 _ j hj]
    simp only [Nat.zero_add]
    split
    · rfl
    · rename_i hlt
      have hlt : j < p := by omega
      rw [List.getElem_eraseIdx_of_lt hj hlt]
      exact I.idx j (by omega)
  · intro m hm
    rcases back m hm with ⟨m', hm', _, h1, _⟩
    have := I.nidLt m' hm'
    show m.nid < s.nextNid
    omega
  · show ((arrayRemove s.nodes p).map (·.nid)).Nodup
    unfold arrayRemove
    rw [renumberFrom_map_nid]
    exact List.Nodup.sublist (List.Sublist.map _ (List.eraseIdx_sublist _ _)) I.nidNodup
  · show ((arrayRemove s.nodes p).map (·.inst)).Nodup
    unfold arrayRemove
    rw [renumberFrom_map_inst]
    exact List.Nodup.sublist (List.Sublist.map _ (List.eraseIdx_sublist _ _)) I.instNodup
  · intro m hm
    rcases back m hm with ⟨m', hm', hne, _, h2, _⟩
    have hi' : m'.inst ≠ n.inst := fun he => hne (I.node_eq_of_inst hm' hnmem he)
    have := I.alive m' hm'
    show (kill s n.inst m.inst).isSome
    rw [← h2]
    simp [kill, hi', this]
  · exact keys_mapErase_nodup I.keysNodup
  · intro k nid
    show (k, nid) ∈ mapErase s.sorted i.fileId ↔ _
    rw [mem_mapErase, I.sortedIff k nid]
    constructor
    · rintro ⟨⟨m', hm', h1, h2⟩, hne⟩
      have hmn : m' ≠ n := by
        intro he; subst he
        rw [hidn] at h2; simp at h2; exact hne h2.symm
      rcases fwd m' hm' hmn with ⟨m, hm, e1, e2, _⟩
      refine ⟨m, hm, by rw [← e1]; exact h1, ?_⟩
      rw [← e2, idk m' hm' hmn _ rfl]; exact h2
    · rintro ⟨m, hm, h1, h2⟩
      rcases back m hm with ⟨m', hm', hne, e1, e2, _⟩
      rw [← e2, idk m' hm' hne _ rfl] at h2
      refine ⟨⟨m', hm', by rw [e1]; exact h1, h2⟩, ?_⟩
      intro hk
      simp at hk; subst hk
      exact hne (I.node_eq_of_id hm' hnmem h2 hidn)
  · intro m hm k hk
    rcases back m hm with ⟨m', hm', hne, _, e2, _⟩
    rw [← e2, idk m' hm' hne _ rfl] at hk
    exact I.maxGe m' hm' k hk
  · intro m hm
    rcases back m hm with ⟨m', hm', hne, _, e2, _⟩
    rw [← e2, idk m' hm' hne _ rfl]
    exact I.nonzero m' hm'
  · show (arrayRemove s.nodes p).length ≤ s.bufsize
    unfold arrayRemove
    rw [renumberFrom_length, List.length_eraseIdx]
    have := I.cap
    split <;> omega

theorem inv_deleteNodeCore {s : State} (I : Inv s) {n : Node} (hn : n ∈ s.nodes) :
    Inv (deleteNodeCore s n).1 ∧ (deleteNodeCore s n).2 = .unit := by
  rcases List.getElem_of_mem hn with ⟨p, hp, hpn⟩
  rcases deleteNodeCore_eq I hp hpn with ⟨i, hi, he⟩
  rw [he]
  subst hpn
  exact ⟨inv_delete_at I hp hi, rfl⟩

theorem inv_deleteNode {s : State} (I : Inv s) (i : Nat) :
    Inv (deleteNode s i).1 ∧ (deleteNode s i).2 ≠ .crash := by
  unfold deleteNode
  cases hg : s.nodes[i]? with
  | none => simp; exact I
  | some n =>
    have hn : n ∈ s.nodes := List.mem_of_getElem? hg
    have := inv_deleteNodeCore I hn
    simp only
    exact ⟨this.1, by rw [this.2]; simp⟩

theorem inv_deleteInst {s : State} (I : Inv s) (h : Nat) :
    Inv (deleteInst s h).1 ∧ (deleteInst s h).2 ≠ .crash := by
  unfold deleteInst
  cases hh : s.heap h with
  | none => simp; exact I
  | some i =>
    simp only
    by_cases hany : s.nodes.any (fun n => n.inst == h) = true
    · simp only [hany, if_true]
      rcases List.any_eq_true.mp hany with ⟨n0, hn0, he⟩
      simp at he
      have hid0 : idOf s n0.inst = some i.fileId := by simp [idOf, he, hh]
      rcases findFileId_spec I i.fileId with ⟨n, hn, hnid, hf⟩ | ⟨hall, _⟩
      · rw [hf]
        have := inv_deleteNodeCore I hn
        simp only
        exact ⟨this.1, by rw [this.2]; simp⟩
      · exact absurd hid0 (hall n0 hn0)
    · simp only [hany]
      simp; exact I


/-! ### `ChangeState`, `ClearInstances`, `DeleteInstances`, creating an instance -/
theorem modify_state_map {β : Type} (g : Node → β) (st : St) (hg : ∀ n : Node, g { n with state := st } = g n)
    (l : List Node) (i : Nat) : (l.modify i (fun n => { n with state := st })).map g = l.map g := by
  induction l generalizing i with
  | nil => simp
  | cons a as ih =>
    cases i with
    | zero => simp [hg]
    | succ i => simp [ih]

theorem mem_modify_state {l : List Node} {i : Nat} {st : St} {m : Node}
    (hm : m ∈ l.modify i (fun n => { n with state := st })) :
    ∃ m' ∈ l, m'.nid = m.nid ∧ m'.inst = m.inst ∧ m'.arrayIndex = m.arrayIndex := by
  induction l generalizing i with
  | nil => simp at hm
  | cons a as ih =>
    cases i with
    | zero =>
      simp at hm
      rcases hm with hm | hm
      · exact ⟨a, by simp, by subst hm; simp⟩
      · exact ⟨m, by simp [hm], rfl, rfl, rfl⟩
    | succ i =>
      simp at hm
      rcases hm with hm | hm
      · exact ⟨a, by simp, by subst hm; simp⟩
      · rcases ih hm with ⟨m', h1, h2⟩
        exact ⟨m', by simp [h1], h2⟩

theorem mem_of_modify_state {l : List Node} {i : Nat} {st : St} {m' : Node} (hm : m' ∈ l) :
    ∃ m ∈ l.modify i (fun n => { n with state := st }), m'.nid = m.nid ∧ m'.inst = m.inst := by
  induction l generalizing i with
  | nil => simp at hm
  | cons a as ih =>
    simp only [List.mem_cons] at hm
    cases i with
    | zero =>
      rcases hm with hm | hm
      · subst hm; exact ⟨{ m' with state := st }, by simp, rfl, rfl⟩
      · exact ⟨m', by simp [hm], rfl, rfl⟩
    | succ i =>
      rcases hm with hm | hm
      · subst hm; exact ⟨m', by simp, rfl, rfl⟩
      · rcases ih (i := i) hm with ⟨m, h1, h2⟩
        exact ⟨m, by simp [h1], h2⟩

theorem inv_changeState {s : State} (I : Inv s) (i : Nat) (st : St) :
    Inv (changeState s i st).1 ∧ (changeState s i st).2 ≠ .crash := by
  unfold changeState
  cases hg : s.nodes[i]? with
  | none => simp; exact I
  | some n =>
    simp only
    by_cases hs : st = .noState
    · simp [hs]; exact I
    · simp only [hs, if_false]
      refine ⟨?_, by simp⟩
      constructor
      · intro j hj
        simp only [List.length_modify] at hj
        simp only [List.getElem_modify]
        split
        · exact I.idx j hj
        · exact I.idx j hj
      · intro m hm
        rcases mem_modify_state hm with ⟨m', hm', h1, _⟩
        have := I.nidLt m' hm'
        show m.nid < s.nextNid
        omega
      · show ((s.nodes.modify i _).map (·.nid)).Nodup
        rw [modify_state_map _ st (fun _ => rfl)]; exact I.nidNodup
      · show ((s.nodes.modify i _).map (·.inst)).Nodup
        rw [modify_state_map _ st (fun _ => rfl)]; exact I.instNodup
      · intro m hm
        rcases mem_modify_state hm with ⟨m', hm', _, h2, _⟩
        have := I.alive m' hm'
        show (s.heap m.inst).isSome
        rw [← h2]; exact this
      · exact I.keysNodup
      · intro k nid
        show (k, nid) ∈ s.sorted ↔ _
        rw [I.sortedIff k nid]
        constructor
        · rintro ⟨m', hm', h1, h2⟩
          rcases mem_of_modify_state (i := i) (st := st) hm' with ⟨m, hm, e1, e2⟩
          exact ⟨m, hm, by rw [← e1]; exact h1, by show idOf s m.inst = _; rw [← e2]; exact h2⟩
        · rintro ⟨m, hm, h1, h2⟩
          rcases mem_modify_state hm with ⟨m', hm', e1, e2, _⟩
          exact ⟨m', hm', by rw [e1]; exact h1, by rw [e2]; exact h2⟩
      · intro m hm k hk
        rcases mem_modify_state hm with ⟨m', hm', _, e2, _⟩
        exact I.maxGe m' hm' k (by rw [e2]; exact hk)
      · intro m hm
        rcases mem_modify_state hm with ⟨m', hm', _, e2, _⟩
        have := I.nonzero m' hm'
        show idOf s m.inst ≠ _
        rw [← e2]; exact this
      · show (s.nodes.modify i _).length ≤ s.bufsize
        rw [List.length_modify]; exact I.cap

theorem inv_empty (s : State) (heap : Nat → Option Inst) (m : Int) :
    Inv { s with heap := heap, nodes := [], sorted := [], maxFileId := m } := by
  constructor <;> simp

theorem inv_clear {s : State} (_I : Inv s) : Inv (clear s).1 ∧ (clear s).2 ≠ .crash :=
  ⟨inv_empty s s.heap _, by simp [clear]⟩

theorem freeAll_isSome (heap : Nat → Option Inst) (ns : List Node)
    (nd : (ns.map (·.inst)).Nodup) (al : ∀ n ∈ ns, (heap n.inst).isSome) : (freeAll heap ns).isSome := by
  induction ns generalizing heap with
  | nil => simp [freeAll]
  | cons a as ih =>
    simp only [List.map_cons, List.nodup_cons] at nd
    have ha := al a (by simp)
    unfold freeAll
    cases hx : heap a.inst with
    | none => simp [hx] at ha
    | some i =>
      simp only
      apply ih _ nd.2
      intro n hn
      have hne : n.inst ≠ a.inst := by
        intro he
        apply nd.1
        rw [← he]
        exact List.mem_map.mpr ⟨n, hn, rfl⟩
      simp [hne]
      exact al n (by simp [hn])

theorem inv_deleteAll {s : State} (I : Inv s) : Inv (deleteAll s).1 ∧ (deleteAll s).2 ≠ .crash := by
  unfold deleteAll
  have := freeAll_isSome s.heap s.nodes I.instNodup I.alive
  cases hf : freeAll s.heap s.nodes with
  | none => simp [hf] at this
  | some heap => exact ⟨inv_empty s heap _, by simp⟩

theorem inv_newInst {s : State} (I : Inv s) (h : Nat) (id : Int) (name : Nat) :
    Inv (newInst s h id name).1 ∧ (newInst s h id name).2 ≠ .crash := by
  unfold newInst
  cases hh : s.heap h with
  | some _ => simp; exact I
  | none =>
    refine ⟨?_, by simp⟩
    have hne : ∀ n ∈ s.nodes, n.inst ≠ h := by
      intro n hn he
      have := I.alive n hn
      rw [he, hh] at this
      simp at this
    have e : ∀ n ∈ s.nodes,
        idOf ({ s with heap := fun k => if k = h then some ⟨id, name⟩ else s.heap k } : State) n.inst
          = idOf s n.inst := by
      intro n hn
      simp [idOf, hne n hn]
    constructor
    · exact I.idx
    · exact I.nidLt
    · exact I.nidNodup
    · exact I.instNodup
    · intro n hn
      have := I.alive n hn
      simp [hne n hn, this]
    · exact I.keysNodup
    · intro k nid
      show (k, nid) ∈ s.sorted ↔ _
      rw [I.sortedIff k nid]
      constructor
      · rintro ⟨n, hn, h1, h2⟩; exact ⟨n, hn, h1, by rw [e n hn]; exact h2⟩
      · rintro ⟨n, hn, h1, h2⟩; exact ⟨n, hn, h1, by rw [← e n hn]; exact h2⟩
    · intro n hn k hk
      rw [e n hn] at hk
      exact I.maxGe n hn k hk
    · intro n hn
      rw [e n hn]; exact I.nonzero n hn
    · exact I.cap

theorem checkCap_ge (b i : Nat) : b ≤ checkCap b i := by
  unfold checkCap
  split
  · have : i < growTo i := by unfold growTo; omega
    omega
  · exact Nat.le_refl _

theorem inv_lookup {s : State} (I : Inv s) (i : Nat) : Inv (lookup s i).1 ∧ (lookup s i).2 ≠ .crash := by
  refine ⟨⟨I.idx, I.nidLt, I.nidNodup, I.instNodup, I.alive, I.keysNodup, I.sortedIff, I.maxGe, I.nonzero, ?_⟩, by simp [lookup]⟩
  exact Nat.le_trans I.cap (checkCap_ge _ _)

/-! ### every operation, every history -/
theorem inv_step {s : State} (I : Inv s) (op : Op) : Inv (step s op).1 ∧ (step s op).2 ≠ .crash := by
  cases op with
  | newInst h id name => exact inv_newInst I h id name
  | append h st => exact inv_append I h st
  | deleteNode i => exact inv_deleteNode I i
  | deleteInst h => exact inv_deleteInst I h
  | changeState i st => exact inv_changeState I i st
  | clear => exact inv_clear I
  | deleteAll => exact inv_deleteAll I
  | lookup i => exact inv_lookup I i

theorem inv_run {s : State} (I : Inv s) (ops : List Op) : Inv (run s ops) := by
  induction ops generalizing s with
  | nil => exact I
  | cons op ops ih => exact ih (inv_step I op).1

end StepModel.InstMgr

import StepModel.ComplexMarks3
/-! `matchNonORs` on a fresh hierarchy: MARKs are placed on unmarked members only, by SimpleLists that become MATCHSOME /
MATCHALL; an UNSATISFIED child of an AndOrList is unmarked again; MATCHALL is only reported when every member is marked. -/
namespace StepModel.Complex.Match
open StepModel.Generated StepModel.Complex

mutual
  theorem holds_fresh : ∀ (t : Tree), holds (fresh t) = []
    | .simple _ => by simp [fresh, holds]
    | .and cs => by simp only [fresh, holds]; exact holdsL_fresh cs
    | .or cs => by simp only [fresh, holds]; exact holdsL_fresh cs
    | .andor cs => by simp only [fresh, holds]; exact holdsL_fresh cs
  theorem holdsL_fresh : ∀ (cs : List Tree), holdsL (freshL cs) = []
    | [] => rfl
    | c :: cs => by simp only [freshL, holdsL, holds_fresh c, holdsL_fresh cs, List.append_nil]
end

theorem go_all (es : Ents) : ∀ (cs : List ST) (v : MT), setViableVal.go es v cs = .all → allMarked es = true
  | [], v, h => by
    simp only [setViableVal.go] at h
    split at h
    · cases h
    · rename_i hc
      subst h
      simp only [Bool.and_eq_true, decide_eq_true_eq, Bool.not_eq_true', not_and, true_and] at hc
      cases ham : allMarked es with
      | true => rfl
      | false => exact absurd ham (by simpa using hc)
  | c :: cs, v, h => by
    simp only [setViableVal.go] at h
    split at h
    · cases h
    · exact go_all es cs _ h

theorem setViableVal_all {cs : List ST} {es : Ents} (h : setViableVal cs es = .all) : allMarked es = true :=
  go_all es cs .unknown h

/-- the frame with nothing held inside -/
def Fr0 (o : Name → Nat) (es : Ents) : Prop := ∀ n, o n = if markAt es n = .no then 0 else 1

structure NMPost (o : Name → Nat) (es : Ents) (r : ST × Ents × MT) : Prop where
  fr : Fr o r.1 r.2.1
  same : SameOut o es r.2.1
  tidy : Tidy r.1
  all : r.2.2 = .all → allMarked r.2.1 = true

theorem Fr_of_H0 {o : Name → Nat} {t : ST} {es : Ents} (h0 : holds t = []) (hf : Fr0 o es) : Fr o t es :=
  ⟨fun n => by rw [cnt_zero_of_nil h0, Nat.add_zero]; exact hf n, Loc_of_H0 es t h0⟩

theorem FrL_of_H0 {o : Name → Nat} {cs : List ST} {es : Ents} (h0 : holdsL cs = []) (hf : Fr0 o es) : FrL o cs es :=
  ⟨fun n => by simp only [cntL, h0, List.count_nil, Nat.add_zero]; exact hf n, LocL_of_H0 es cs h0⟩

theorem simple_marks (N : List Name) (hN : N.Pairwise (· < ·)) (n : Name) (es : Ents) (o : Name → Nat)
    (hnm : names es = N) (hf : Fr0 o es) : NMPost o es (simpleMatchNonORs n .no es) := by
  have hnd : (names es).Nodup := by rw [hnm]; exact nodup_of_sorted hN
  have hsame : ∀ v, v ≠ .all → NMPost o es (.simple n v .no, es, v) := fun v hv =>
    ⟨Fr_of_H0 (by simp [holds]) hf, fun _ _ => rfl, trivial, fun h => absurd h hv⟩
  unfold simpleMatchNonORs
  cases hfe : findEq n es 0 with
  | none => exact hsame .unsat (by simp)
  | some i =>
    obtain ⟨_, e, he, hen⟩ := findEq_bound n es 0 i hfe
    simp only [Nat.sub_zero] at he
    simp only [he]
    split
    · split
      · rename_i _ hm
        have hman : markAt es n = .no := by rw [← hen, markAt_get es i e hnd he]; exact hm
        have hon : o n = 0 := by rw [hf n, hman]; rfl
        have key : ∀ v, MT.rank .some_ ≤ v.rank → (v = .all → allMarked (setMark es i .mk) = true) →
            NMPost o es (.simple n v .mk, setMark es i .mk, v) := by
          intro v hv hall
          refine ⟨⟨fun x => ?_, ?_⟩, fun x hx => ?_, trivial, hall⟩
          · rw [markAt_setMark hnd he, hen]
            by_cases hx : x = n
            · subst hx; simp [cnt, holds, hon]
            · simp only [hx, if_false]
              have h2 : cnt x (ST.simple n v .mk) = 0 := by
                simp only [cnt, holds]; exact List.count_eq_zero_of_not_mem (by simp [hx])
              rw [h2, Nat.add_zero]; exact hf x
          · simp only [Loc]
            intro _
            refine ⟨?_, hv⟩
            rw [markAt_setMark hnd he, hen]; simp
          · rw [markAt_setMark hnd he, hen]
            have : x ≠ n := by intro e'; rw [e', hon] at hx; exact Nat.lt_irrefl _ hx
            simp [this]
        split
        · rename_i ham; exact key .all (by decide) (fun _ => ham)
        · exact key .some_ (by decide) (fun h => by cases h)
      · exact hsame .some_ (by simp)
    · exact hsame .sat (by simp)

theorem stored_W {v : MT} (h : Stored v) : v = .unknown ∨ v = .unsat ∨ Kr v := by
  rcases stored_cases h with h' | h' | h'
  · exact Or.inl h'
  · exact Or.inr (Or.inl h')
  · right; right
    rcases h' with h' | h' | h' <;> subst h' <;> simp [Kr, MT.rank]

theorem nonors_marks (N : List Name) (hN : N.Pairwise (· < ·)) : ∀ f : Nat,
    (∀ t es r o, matchNonORs f (fresh t) es = .ok r → treeWF t = true → names es = N → Fr0 o es → NMPost o es r) ∧
    (∀ restT done es r o, andNonORs f done (freshL restT) es = .ok r → treeWFL restT = true → names es = N → Fr0 o es →
      ∃ tail, r.1 = done ++ tail ∧ FrL o tail r.2.1 ∧ SameOut o es r.2.1 ∧ TidyL tail) ∧
    (∀ restT done es r o, andorNonORs f done (freshL restT) es = .ok r → treeWFL restT = true → names es = N → Fr0 o es →
      ∃ tail, r.1 = done ++ tail ∧ FrL o tail r.2.1 ∧ SameOut o es r.2.1 ∧ TidyL tail ∧
        (∀ c ∈ tail, c.viable = .unsat → holds c = []) ∧
        (r.2.2 = true → allMarked r.2.1 = true ∧ (∀ d ∈ done, d.viable ≠ .unknown) ∧
          ∀ c ∈ tail, holds c = [] ∨ c.viable ≠ .unknown)) := by
  intro f
  induction f with
  | zero =>
    exact ⟨fun _ _ _ _ h => by simp [matchNonORs] at h, fun _ _ _ _ _ h => by simp [andNonORs] at h,
      fun _ _ _ _ _ h => by simp [andorNonORs] at h⟩
  | succ f ih =>
    obtain ⟨ih1, ih2, ih3⟩ := ih
    refine ⟨?_, ?_, ?_⟩
    · intro t es r o h hwf hnm hf
      have S := (nonors_sem N hN (f + 1)).1 t es r h hwf hnm
      cases t with
      | simple n =>
        simp only [fresh, matchNonORs] at h
        cases h
        exact simple_marks N hN n es o hnm hf
      | or ts =>
        simp only [fresh, matchNonORs] at h
        cases h
        exact ⟨Fr_of_H0 (holds_fresh (.or ts)) hf, fun _ _ => rfl, Tidy_of_H0 _ (holds_fresh (.or ts)), fun h' => by cases h'⟩
      | and ts =>
        have hwf0 := hwf
        simp only [treeWF, Bool.and_eq_true, Bool.not_eq_true', List.isEmpty_eq_false_iff] at hwf
        simp only [fresh, matchNonORs, freshL_isEmpty hwf.1, Bool.false_eq_true, if_false] at h
        obtain ⟨⟨cs', es', failed⟩, h1, h2⟩ := bind_ok' h
        obtain ⟨tail, htail, hfr, hsame, htidy⟩ := ih2 ts [] es _ o h1 hwf.2 hnm hf
        simp only [List.nil_append] at htail
        subst htail
        cases failed with
        | true =>
          simp only [if_true] at h2; cases h2
          refine ⟨⟨hfr.1, hfr.2⟩, hsame, ?_, fun h' => by cases h'⟩
          simp only [Tidy]
          exact ⟨htidy, fun hk => by simp [Kr, MT.rank] at hk, fun h' => absurd rfl h', fun h' => by cases h'⟩
        | false =>
          simp only [Bool.false_eq_true, if_false] at h2; cases h2
          refine ⟨⟨hfr.1, hfr.2⟩, hsame, ?_, fun h' => setViableVal_all h'⟩
          simp only [Tidy]
          refine ⟨htidy, fun hk ch hch => ?_, fun h' => absurd rfl h', fun h' => by cases h'⟩
          -- a list that counts has no UNKNOWN and (being an AND that did not fail) no UNSATISFIED child
          have hsem := S.sem
          simp only [skel] at hsem
          obtain ⟨hne0, hsl, _, _, _, handc⟩ := hsem
          have hne : cs' ≠ [] := by intro e; subst e; exact hne0 rfl
          have hst : ∀ c ∈ cs', Stored c.viable := fun c hc => by
            have := SemV_stored (SemV_child hsl hc); rwa [viable_skel'] at this
          obtain ⟨s1, s2, s3⟩ := setViableVal_props cs' es' hne hst
          have hnu : setViableVal cs' es' ≠ .unknown := by
            intro e; rw [e] at hk; simp [Kr, MT.rank] at hk
          have hcu : ch.viable ≠ .unknown := fun e => hnu (s2.mpr ⟨ch, hch, e⟩)
          rcases stored_W (hst ch hch) with h' | h' | h'
          · exact absurd h' hcu
          · -- an UNSATISFIED child makes `setViableVal` … the AND did not fail, so there is none: use the maximum
            exfalso
            have hK : K (setViableVal cs' es') := by
              rcases stored_cases s1 with a | a | a
              · exact absurd a hnu
              · rw [a] at hk; simp [Kr, MT.rank] at hk
              · exact a
            have := SemV_K S.sem (by rw [viable_skel']; exact hK)
            rw [S.trr] at this
            simp only [satO] at this
            have hall := (satOAll_all N ts).mp this
            have hcs := SemV_unsat (SemV_child hsl hch) (by rw [viable_skel']; exact h')
            have htr : trV (skel ch) ∈ ts := by
              have := S.trr
              simp only [skel, trV] at this
              injection this with this
              rw [← this]; exact trVL_mem (mem_skelL hch)
            rw [hall _ htr] at hcs; cases hcs
          · exact Or.inr h'
      | andor ts =>
        simp only [treeWF, Bool.and_eq_true, Bool.not_eq_true', List.isEmpty_eq_false_iff] at hwf
        simp only [fresh, matchNonORs, freshL_isEmpty hwf.1, Bool.false_eq_true, if_false] at h
        obtain ⟨⟨cs', es', early⟩, h1, h2⟩ := bind_ok' h
        obtain ⟨tail, htail, hfr, hsame, htidy, hun, hearly⟩ := ih3 ts [] es _ o h1 hwf.2 hnm hf
        simp only [List.nil_append] at htail
        subst htail
        have hsem := S.sem
        have hstored : ∀ c ∈ cs', Stored c.viable := by
          intro c hc
          cases early with
          | true =>
            simp only [if_true] at h2; cases h2
            simp only [skel] at hsem
            have := SemV_stored (SemV_child hsem.2.1 hc); rwa [viable_skel'] at this
          | false =>
            simp only [Bool.false_eq_true, if_false] at h2; cases h2
            simp only [skel] at hsem
            have := SemV_stored (SemV_child hsem.2.1 hc); rwa [viable_skel'] at this
        cases early with
        | true =>
          simp only [if_true] at h2; cases h2
          obtain ⟨e1, _, e3⟩ := hearly rfl
          refine ⟨⟨hfr.1, hfr.2⟩, hsame, ?_, fun _ => e1⟩
          simp only [Tidy]
          refine ⟨htidy, fun _ ch hch => ?_, fun _ => hun, fun h' => by cases h'⟩
          rcases e3 ch hch with h' | h'
          · exact Or.inl h'
          · rcases stored_W (hstored ch hch) with a | a | a
            · exact absurd a h'
            · exact Or.inl (hun ch hch a)
            · exact Or.inr a
        | false =>
          simp only [Bool.false_eq_true, if_false] at h2; cases h2
          refine ⟨⟨hfr.1, hfr.2⟩, hsame, ?_, fun h' => setViableVal_all h'⟩
          simp only [Tidy]
          refine ⟨htidy, fun hk ch hch => ?_, fun _ => hun, fun h' => by cases h'⟩
          have hne : cs' ≠ [] := by
            simp only [skel] at hsem
            intro e; subst e; exact hsem.1 rfl
          obtain ⟨s1, s2, s3⟩ := setViableVal_props cs' es' hne hstored
          have hnu : setViableVal cs' es' ≠ .unknown := by
            intro e; rw [e] at hk; simp [Kr, MT.rank] at hk
          have hcu : ch.viable ≠ .unknown := fun e => hnu (s2.mpr ⟨ch, hch, e⟩)
          rcases stored_W (hstored ch hch) with a | a | a
          · exact absurd a hcu
          · exact Or.inl (hun ch hch a)
          · exact Or.inr a
    -- ---------------------------------------------------------- loop of AndList::matchNonORs
    · intro restT done es r o h hwf hnm hf
      cases restT with
      | nil =>
        simp only [freshL, andNonORs] at h; cases h
        exact ⟨[], (by simp), FrL_of_H0 rfl hf, fun _ _ => rfl, trivial⟩
      | cons c rest =>
        simp only [treeWFL, Bool.and_eq_true] at hwf
        simp only [freshL, andNonORs] at h
        have hfresh0 : holds (fresh c) = [] := holds_fresh c
        split at h
        · obtain ⟨tail2, ht2, hfr2, hs2, htd2⟩ := ih2 rest (done ++ [fresh c]) es r o h hwf.2 hnm hf
          refine ⟨fresh c :: tail2, by rw [ht2]; simp, ⟨fun x => ?_, ?_⟩, hs2, ⟨Tidy_of_H0 _ hfresh0, htd2⟩⟩
          · rw [cntL_cons, cnt_zero_of_nil hfresh0, Nat.zero_add]; exact hfr2.1 x
          · exact ⟨Loc_of_H0 _ _ hfresh0, hfr2.2⟩
        · obtain ⟨⟨ch', es1, rc⟩, h1, h2⟩ := bind_ok' h
          have P := ih1 c es _ o h1 hwf.1 hnm hf
          have hn1 : names es1 = N := (nonors_sem N hN f).1 c es _ h1 hwf.1 hnm |>.nm
          simp only at h2
          split at h2
          · cases h2
            have hrest0 : holdsL (freshL rest) = [] := holdsL_fresh rest
            refine ⟨ch' :: freshL rest, rfl, ⟨fun x => ?_, ⟨P.fr.2, LocL_of_H0 _ _ hrest0⟩⟩, P.same,
              ⟨P.tidy, TidyL_of_H0 _ hrest0⟩⟩
            rw [cntL_cons]
            have : cntL x (freshL rest) = 0 := by simp [cntL, hrest0]
            rw [this, Nat.add_zero]; exact P.fr.1 x
          · have hf1 : Fr0 (fun n => o n + cnt n ch') es1 := fun x => P.fr.1 x
            obtain ⟨tail2, ht2, hfr2, hs2, htd2⟩ := ih2 rest (done ++ [ch']) es1 r _ h2 hwf.2 hn1 hf1
            refine ⟨ch' :: tail2, by rw [ht2]; simp, ⟨fun x => ?_, ?_⟩, fun x hx => ?_, ⟨P.tidy, htd2⟩⟩
            · have h' : o x + cnt x ch' + cntL x tail2 = (if markAt r.2.1 x = Mark.no then 0 else 1) := hfr2.1 x
              rw [cntL_cons]; omega
            · exact ⟨Loc_congr ch' (fun x hx => hs2 x (by show 0 < o x + cnt x ch'; omega)) P.fr.2, hfr2.2⟩
            · rw [hs2 x (by show 0 < o x + cnt x ch'; omega)]; exact P.same x hx
    -- ---------------------------------------------------------- loop of AndOrList::matchNonORs
    · intro restT done es r o h hwf hnm hf
      cases restT with
      | nil =>
        simp only [freshL, andorNonORs] at h; cases h
        exact ⟨[], (by simp), FrL_of_H0 rfl hf, fun _ _ => rfl, trivial, (fun c hc => by cases hc), (fun h' => by cases h')⟩
      | cons c rest =>
        simp only [treeWFL, Bool.and_eq_true] at hwf
        simp only [freshL, andorNonORs] at h
        have hfresh0 : holds (fresh c) = [] := holds_fresh c
        -- continuing after the child `x` (frame `o'`, request `es1`)
        have cont : ∀ (x : ST) (es1 : Ents) (hx : Fr o x es1) (hsx : SameOut o es es1) (htx : Tidy x) (hn1 : names es1 = N)
            (hux : x.viable = .unsat → holds x = []),
            andorNonORs f (done ++ [x]) (freshL rest) es1 = .ok r →
            ∃ tail, r.1 = done ++ tail ∧ FrL o tail r.2.1 ∧ SameOut o es r.2.1 ∧ TidyL tail ∧
              (∀ c ∈ tail, c.viable = .unsat → holds c = []) ∧
              (r.2.2 = true → allMarked r.2.1 = true ∧ (∀ d ∈ done, d.viable ≠ .unknown) ∧
                ∀ c ∈ tail, holds c = [] ∨ c.viable ≠ .unknown) := by
          intro x es1 hx hsx htx hn1 hux hrec
          have hf1 : Fr0 (fun n => o n + cnt n x) es1 := fun y => hx.1 y
          obtain ⟨tail2, ht2, hfr2, hs2, htd2, hun2, he2⟩ := ih3 rest (done ++ [x]) es1 r _ hrec hwf.2 hn1 hf1
          refine ⟨x :: tail2, by rw [ht2]; simp, ⟨fun y => ?_, ?_⟩, fun y hy => ?_, ⟨htx, htd2⟩, ?_, ?_⟩
          · have h' : o y + cnt y x + cntL y tail2 = (if markAt r.2.1 y = Mark.no then 0 else 1) := hfr2.1 y
            rw [cntL_cons]; omega
          · exact ⟨Loc_congr x (fun y hy => hs2 y (by show 0 < o y + cnt y x; omega)) hx.2, hfr2.2⟩
          · rw [hs2 y (by show 0 < o y + cnt y x; omega)]; exact hsx y hy
          · intro c0 hc0 hcu
            rcases List.mem_cons.mp hc0 with e | e
            · rw [e]; exact hux (by rw [← e]; exact hcu)
            · exact hun2 c0 e hcu
          · intro hflag
            obtain ⟨a1, a2, a3⟩ := he2 hflag
            refine ⟨a1, fun d hd => a2 d (List.mem_append.mpr (Or.inl hd)), fun c0 hc0 => ?_⟩
            rcases List.mem_cons.mp hc0 with e | e
            · rw [e]; exact Or.inr (a2 x (List.mem_append.mpr (Or.inr (by simp))))
            · exact a3 c0 e
        split at h
        · exact cont (fresh c) es (Fr_of_H0 hfresh0 hf) (fun _ _ => rfl) (Tidy_of_H0 _ hfresh0) hnm (fun _ => hfresh0) h
        · obtain ⟨⟨ch', es1, rc⟩, h1, h2⟩ := bind_ok' h
          have P := ih1 c es _ o h1 hwf.1 hnm hf
          have S := (nonors_sem N hN f).1 c es _ h1 hwf.1 hnm
          have hn1 : names es1 = N := S.nm
          have hnotor : isOrT c = false := by
            rename_i hor; rw [← isOr_fresh']; simpa using hor
          have hvia : ch'.viable = rc := S.via hnotor
          simp only at h2
          split at h2
          · rename_i hall
            split at h2
            · rename_i hdone
              cases h2
              have hrest0 : holdsL (freshL rest) = [] := holdsL_fresh rest
              refine ⟨ch' :: freshL rest, rfl, ⟨fun x => ?_, ⟨P.fr.2, LocL_of_H0 _ _ hrest0⟩⟩, P.same,
                ⟨P.tidy, TidyL_of_H0 _ hrest0⟩, ?_, fun _ => ⟨P.all hall, ?_, ?_⟩⟩
              · rw [cntL_cons]
                have : cntL x (freshL rest) = 0 := by simp [cntL, hrest0]
                rw [this, Nat.add_zero]; exact P.fr.1 x
              · intro c0 hc0 hcu
                rcases List.mem_cons.mp hc0 with e | e
                · rw [e, hvia, hall] at hcu; cases hcu
                · exact (holdsL_nil_iff _).mp hrest0 c0 e
              · intro d hd
                have := List.all_eq_true.mp hdone d hd
                simpa using this
              · intro c0 hc0
                rcases List.mem_cons.mp hc0 with e | e
                · right; rw [e, hvia, hall]; simp
                · exact Or.inl ((holdsL_nil_iff _).mp hrest0 c0 e)
            · exact cont ch' es1 P.fr P.same P.tidy hn1 (fun hu => by rw [hvia, hall] at hu; cases hu) h2
          · split at h2
            · rename_i hunsat
              obtain ⟨⟨ch2, es2⟩, h3, h4⟩ := bind_ok' h2
              have U := (unmark_marks N hN f).1 ch' es1 _ o h3 hn1 P.fr (OrT_of_Tidy _ P.tidy)
              have hn2 : names es2 = N := by rw [(unmark_names f).1 ch' es1 _ h3]; exact hn1
              refine cont ch2 es2 (Fr_of_H0 U.h0 U.fr) (fun y hy => by rw [U.same y hy]; exact P.same y hy)
                (Tidy_of_H0 _ U.h0) hn2 (fun _ => U.h0) h4
            · rename_i hnu
              exact cont ch' es1 P.fr P.same P.tidy hn1 (fun hu => by rw [hvia] at hu; exact absurd hu hnu) h2

end StepModel.Complex.Match

import StepModel.ComplexBuildWF
/-! `collectOf` succeeds (does not run out of fuel, finds every entity it looks up) on schemas whose subtype graph is
acyclic and resolvable, with two units of fuel per generation. -/
namespace StepModel.Complex
open StepModel.Generated Match

/-- what the construction needs of a schema: every subtype named is declared and lies strictly lower (`ht` = height
above the leaves: no cycles), and a supertype expression mentions subtypes only -/
structure BuildOK (s : Schema) (ht : Name → Nat) : Prop where
  subs_decl : ∀ e ∈ s, ∀ m ∈ e.subs, ∃ e', s.find m = some e' ∧ ht m < ht e.name
  expr_subs : ∀ e ∈ s, ∀ x, e.expr = some x → ∀ m ∈ x.ents, m ∈ e.subs

mutual
  theorem exprKids_some (T : Name → Option Tree) : ∀ (x : Expr) (p : Parent),
      (∀ m ∈ x.ents, ∃ t, T m = some t) → ∃ ts, exprKids T p x = some ts
    | .ent n, p, h => by
      obtain ⟨t, ht⟩ := h n (by simp [Expr.ents])
      exact ⟨[t], by simp [exprKids, ht]⟩
    | .and a b, p, h => by
      obtain ⟨l, hl⟩ := exprKids_some T a .andL (fun m hm => h m (by simp [Expr.ents, hm]))
      obtain ⟨r, hr⟩ := exprKids_some T b .andL (fun m hm => h m (by simp [Expr.ents, hm]))
      simp only [exprKids, hl, hr]
      split
      · exact ⟨_, rfl⟩
      · exact ⟨_, rfl⟩
    | .andor a b, p, h => by
      obtain ⟨l, hl⟩ := exprKids_some T a .andorL (fun m hm => h m (by simp [Expr.ents, hm]))
      obtain ⟨r, hr⟩ := exprKids_some T b .andorL (fun m hm => h m (by simp [Expr.ents, hm]))
      simp only [exprKids, hl, hr]
      split
      · exact ⟨_, rfl⟩
      · exact ⟨_, rfl⟩
    | .oneof es, p, h => by
      obtain ⟨cs, hcs⟩ := exprKidsL_some T es (fun m hm => h m (by simpa [Expr.ents] using hm))
      exact ⟨[.or cs], by simp [exprKids, hcs]⟩
  theorem exprKidsL_some (T : Name → Option Tree) : ∀ (xs : List Expr),
      (∀ m ∈ Expr.entsL xs, ∃ t, T m = some t) → ∃ ts, exprKidsL T xs = some ts
    | [], _ => ⟨[], rfl⟩
    | x :: xs, h => by
      obtain ⟨l, hl⟩ := exprKids_some T x .orL (fun m hm => h m (by simp [Expr.entsL, hm]))
      obtain ⟨r, hr⟩ := exprKidsL_some T xs (fun m hm => h m (by simp [Expr.entsL, hm]))
      exact ⟨l ++ r, by simp [exprKidsL, hl, hr]⟩
end

theorem mapOpt_some {α β : Type} (f : α → Option β) : ∀ (l : List α), (∀ a ∈ l, ∃ b, f a = some b) →
    ∃ bs, mapOpt f l = some bs
  | [], _ => ⟨[], rfl⟩
  | a :: as, h => by
    obtain ⟨b, hb⟩ := h a (by simp)
    obtain ⟨bs, hbs⟩ := mapOpt_some f as (fun x hx => h x (List.mem_cons_of_mem _ hx))
    exact ⟨b :: bs, by simp [mapOpt, hb, hbs]⟩

theorem build_some (s : Schema) (ht : Name → Nat) (B : BuildOK s ht) : ∀ f : Nat,
    (∀ n e, s.find n = some e → 2 * ht n + 1 ≤ f → ∃ t, entTree s f n = some t) ∧
    (∀ e, e ∈ s → 2 * ht e.name ≤ f → 1 ≤ f → ∃ h, headOf s f e = some h) := by
  intro f
  induction f with
  | zero => exact ⟨fun _ _ _ h => by omega, fun _ _ _ h => by omega⟩
  | succ f ih =>
    obtain ⟨ih1, ih2⟩ := ih
    refine ⟨?_, ?_⟩
    · intro n e hf hfu
      obtain ⟨hes, hen⟩ := find_some hf
      simp only [entTree, hf]
      split
      · exact ⟨_, rfl⟩
      · rename_i hsub
        have hsub' : e.subs ≠ [] := by
          intro e'; rw [e'] at hsub; simp at hsub
        obtain ⟨m, hm⟩ := List.exists_mem_of_ne_nil _ hsub'
        obtain ⟨_, _, hlt⟩ := B.subs_decl e hes m hm
        rw [hen] at hlt
        obtain ⟨h, hh⟩ := ih2 e hes (by rw [hen]; omega) (by omega)
        simp only [hh]
        split
        · exact ⟨_, rfl⟩
        · exact ⟨_, rfl⟩
    · intro e hes hfu h1
      have hsubT : ∀ m ∈ e.subs, ∃ t, entTree s f m = some t := by
        intro m hm
        obtain ⟨e', hf', hlt⟩ := B.subs_decl e hes m hm
        exact ih1 m e' hf' (by omega)
      have hrest : ∀ (b : List Tree) (known : List Name), ∃ h,
          (if (e.subs.filter (fun n => !known.contains n)).isEmpty = true then some (Tree.and (Tree.simple e.name :: b))
           else match mapOpt (fun n => entTree s f n) (e.subs.filter (fun n => !known.contains n)) with
             | none => none
             | some ts => some (Tree.and [Tree.simple e.name, Tree.andor (b ++ ts)])) = some h := by
        intro b known
        split
        · exact ⟨_, rfl⟩
        · obtain ⟨ts, hts⟩ := mapOpt_some (fun n => entTree s f n) (e.subs.filter (fun n => !known.contains n))
            (fun a ha => hsubT a (List.mem_filter.mp ha).1)
          simp only [hts]
          exact ⟨_, rfl⟩
      cases hx : e.expr with
      | none =>
        simp only [headOf, hx]
        exact hrest [] []
      | some x =>
        obtain ⟨b, hb⟩ := exprKids_some (fun n => entTree s f n) x .superHead
          (fun m hm => hsubT m (B.expr_subs e hes x hx m hm))
        simp only [headOf, hx, hb]
        exact hrest b (e.name :: leavesL b)

theorem foldl_opt_some {α β : Type} (g : Option β → α → Option β) (l : List α)
    (hstep : ∀ c x, x ∈ l → ∃ c', g (some c) x = some c') :
    ∀ c, ∃ c', l.foldl g (some c) = some c' := by
  induction l with
  | nil => intro c; exact ⟨c, rfl⟩
  | cons a l ih =>
    intro c
    obtain ⟨c1, h1⟩ := hstep c a (by simp)
    simp only [List.foldl_cons, h1]
    exact ih (fun c x hx => hstep c x (List.mem_cons_of_mem _ hx)) c1

/-- **`collectOf` succeeds** with two units of fuel per generation of the subtype graph -/
theorem collectOf_some (s : Schema) (ht : Name → Nat) (B : BuildOK s ht) (fuel : Nat)
    (hf : ∀ e ∈ s, 2 * ht e.name + 1 ≤ fuel) : ∃ c, collectOf s fuel = some c := by
  unfold collectOf
  refine foldl_opt_some _ s ?_ []
  intro c e he
  simp only
  split
  · exact ⟨_, rfl⟩
  · have h1 := hf e he
    obtain ⟨h, hh⟩ := (build_some s ht B fuel).2 e he (by omega) (by omega)
    simp only [hh]
    exact ⟨_, rfl⟩

end StepModel.Complex

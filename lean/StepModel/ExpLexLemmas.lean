import StepModel.ExpLex
/-! Lemmas about the scanner model: spellings, glue conditions, one token at a time, the `Lexes` relation. -/
namespace StepModel.Express
open StepModel.Generated

/-- the characters exppp writes for a token -/
def sp : Tok → List Char
  | .id s => s.toList
  | .int n => (toString n).toList
  | .real s => s
  | .str b => '\'' :: b ++ ['\'']
  | .estr s => '"' :: s.toList ++ ['"']
  | .bin s => '%' :: s.toList
  | .kw s => s.toList
  | .op o => o.text.toList
  | .not => "NOT".toList
  | .lp => ['('] | .rp => [')'] | .lb => ['['] | .rb => [']'] | .comma => [','] | .colon => [':']
  | .dot => ['.'] | .bslash => ['\\'] | .bar => ['|'] | .allIn => ['<', '*']

/-- may character `c` directly follow token `t` without changing how `t` is read -/
def nextOK (t : Tok) (c : Char) : Bool :=
  isWsC c ||
  match t with
  | .id _ | .kw _ | .not | .bin _ => !idChar c
  | .int _ => !idChar c && c != '.'
  | .real _ => !idChar c
  | .str _ => c != '\''
  | .estr _ => true
  | .op o =>
    if o.text.toList.all idChar then !idChar c
    else match o with
      | .lt => c != '=' && c != '>' && c != '*'
      | .gt => c != '='
      | .times | .exp => c != '*' && c != ')'
      | .minus => c != '-'
      | .concat => c != '|'
      | .instEq | .instNe => c != '=' && c != '<'
      | _ => true
  | .colon => c != '=' && c != '<'
  | .bar => c != '|'
  | .lp => c != '*'
  | .allIn => c != '*' && c != ')'
  | _ => true

def NoGlue (t : Tok) : List Char → Prop
  | [] => True
  | c :: _ => nextOK t c = true

/-- exponent part of a real literal's spelling: nothing, or `e`/`E`, an optional sign, digits -/
def ExpPart (ex : List Char) : Prop :=
  ex = [] ∨ ∃ e sg xs, ex = e :: (sg ++ xs) ∧ (e = 'e' ∨ e = 'E') ∧ (sg = [] ∨ sg = ['+'] ∨ sg = ['-']) ∧ xs ≠ []
    ∧ xs.all Char.isDigit = true

/-- spelling of a real literal: digits, a point, digits (possibly none), optional exponent — what `printf("%#.15g")` and
`real2exp` produce for a non-negative finite value -/
def RealSp (s : List Char) : Prop :=
  ∃ ds fs ex, s = ds ++ '.' :: (fs ++ ex) ∧ ds ≠ [] ∧ ds.all Char.isDigit = true ∧ fs.all Char.isDigit = true ∧ ExpPart ex

/-- tokens the printer can emit and the scanner reads back -/
def TokWF : Tok → Prop
  | .id s => (∃ c r, s.toList = c :: r ∧ c.isAlpha = true) ∧ s.toList.all idChar = true ∧ classify s.toList = some (.id s)
  | .kw s => s ∈ ["TRUE", "FALSE", "UNKNOWN", "PI", "CONST_E", "SELF", "QUERY", "?"]
  | .real s => RealSp s
  | .str b => ∃ s, b = escQ s
  | .estr s => s.toList.all (· ≠ '"') = true
  | .bin s => s.toList ≠ [] ∧ s.toList.all (fun x => x = '0' ∨ x = '1') = true
  | _ => True

theorem takeWhile_append_of {p : Char → Bool} (a r : List Char) (ha : a.all p = true) (hr : ∀ c r', r = c :: r' → p c = false) :
    (a ++ r).takeWhile p = a ∧ (a ++ r).dropWhile p = r := by
  induction a with
  | nil =>
    cases r with
    | nil => simp
    | cons c r' => simp [List.takeWhile, List.dropWhile, hr c r' rfl]
  | cons x a ih =>
    simp only [List.all_cons, Bool.and_eq_true] at ha
    simp [List.takeWhile, List.dropWhile, ha.1, ih ha.2]

theorem scanStr_esc (hq : ExpPrec.stringQuoteDoubled = true) (s : List Char) (r : List Char) (hr : ∀ r', r ≠ '\'' :: r') :
    scanStr (escQ s ++ '\'' :: r) = some (escQ s, r) := by
  simp only [escQ, hq, if_true]
  induction s with
  | nil =>
    cases r with
    | nil => simp [scanStr]
    | cons d r' =>
      have : d ≠ '\'' := fun h => hr r' (by rw [h])
      simp [scanStr, this]
  | cons c s ih =>
    by_cases hc : c = '\''
    · subst hc
      simp only [List.flatMap_cons, if_true, List.cons_append, List.nil_append]
      rw [scanStr]; simp [ih]
    · simp only [List.flatMap_cons, hc, if_false, List.cons_append, List.nil_append]
      generalize hx : (s.flatMap fun c => if c = '\'' then ['\'', '\''] else [c]) ++ '\'' :: r = x at ih ⊢
      cases x with
      | nil => simp at hx
      | cons d x' => rw [scanStr]; simp [hc, ih]

/-- the `Lexes` relation: white space, then one token, and so on -/
inductive Lexes : List Char → List Tok → Prop
  | done (w : List Char) : w.all isWsC = true → Lexes w []
  | tok (w cs : List Char) (t : Tok) (r : List Char) (ts : List Tok) :
      w.all isWsC = true → lexTok cs = some (t, r) → r.length < cs.length → Lexes r ts → Lexes (w ++ cs) (t :: ts)

theorem Lexes.ws_prepend {r : List Char} {ts : List Tok} (h : Lexes r ts) (w : List Char) (hw : w.all isWsC = true) :
    Lexes (w ++ r) ts := by
  cases h with
  | done w' hw' => exact Lexes.done _ (by simp [List.all_append, hw, hw'])
  | tok w' cs t r' ts' hw' hl hlen hr =>
    rw [← List.append_assoc]
    exact Lexes.tok _ cs t r' ts' (by simp [List.all_append, hw, hw']) hl hlen hr

def StartOK : Option Tok → List Char → Prop
  | none, _ => True
  | some t, rest => NoGlue t rest

/-- the text `T` is read as `TS`, whatever follows it (provided what follows does not glue onto the last token `lt`) -/
def LexInv (T : List Char) (TS : List Tok) (lt : Option Tok) : Prop :=
  ∀ rest ts, StartOK lt rest → Lexes rest ts → Lexes (T ++ rest) (TS ++ ts)

theorem LexInv.nil : LexInv [] [] none := fun _ _ _ h => by simpa using h

theorem LexInv.weaken {T TS} (h : LexInv T TS none) (lt : Option Tok) : LexInv T TS lt :=
  fun rest ts _ hl => h rest ts trivial hl

theorem nextOK_ws (t : Tok) (c : Char) (hc : isWsC c = true) : nextOK t c = true := by simp [nextOK, hc]

theorem LexInv.ws {T TS lt} (h : LexInv T TS lt) (W : List Char) (hW : W.all isWsC = true) (hne : W ≠ []) :
    LexInv (T ++ W) TS none := by
  intro rest ts _ hl
  rw [List.append_assoc]
  apply h (W ++ rest) ts _ (hl.ws_prepend W hW)
  cases lt with
  | none => trivial
  | some t =>
    cases W with
    | nil => exact absurd rfl hne
    | cons c W' =>
      simp only [List.all_cons, Bool.and_eq_true] at hW
      exact nextOK_ws t c hW.1

/-- one token read from the start of a text -/
def ReadsTok (t : Tok) : Prop := ∀ rest, NoGlue t rest → lexTok (sp t ++ rest) = some (t, rest)

theorem LexInv.tok {T TS lt} (h : LexInv T TS lt) (t : Tok) (hread : ReadsTok t) (hne : sp t ≠ [])
    (hadj : ∀ t0, lt = some t0 → ∀ rest, NoGlue t0 (sp t ++ rest)) : LexInv (T ++ sp t) (TS ++ [t]) (some t) := by
  intro rest ts hs hl
  rw [List.append_assoc, List.append_assoc]
  apply h (sp t ++ rest) (t :: ts)
  · cases lt with
    | none => trivial
    | some t0 => exact hadj t0 rfl rest
  · have hlen : rest.length < (sp t ++ rest).length := by
      cases hsp : sp t with
      | nil => exact absurd hsp hne
      | cons c r => simp; omega
    have := Lexes.tok [] (sp t ++ rest) t rest ts (by simp) (hread rest hs) hlen hl
    simpa using this

/-! ### every token the printer emits is read back (one token, any continuation that does not glue) -/

theorem reads_word (t : Tok) (w : List Char) (hsp : sp t = w) (c0 : Char) (w' : List Char) (hw : w = c0 :: w')
    (ha : c0.isAlpha = true) (hall : w.all idChar = true) (hc : classify w = some t)
    (hn : ∀ c, nextOK t c = true → isWsC c = true ∨ idChar c = false) (hws : ∀ c, isWsC c = true → idChar c = false) : ReadsTok t := by
  intro rest hg
  have hr : ∀ c r', rest = c :: r' → idChar c = false := by
    intro c r' h; subst h
    rcases hn c hg with h | h
    · exact hws c h
    · exact h
  obtain ⟨h1, h2⟩ := takeWhile_append_of w rest hall hr
  rw [hsp]
  subst hw
  simp only [List.cons_append] at h1 h2
  simp only [List.cons_append, lexTok, ha, if_true, h1, h2, hc]

theorem isWs_not_idChar (c : Char) (h : isWsC c = true) : idChar c = false := by
  simp [isWsC] at h
  rcases h with ((h | h) | h) | h <;> subst h <;> decide

theorem reads_id (s : String) (h : TokWF (.id s)) : ReadsTok (.id s) := by
  obtain ⟨⟨c, r, hs, ha⟩, hall, hc⟩ := h
  exact reads_word (.id s) s.toList rfl c r hs ha hall hc
    (fun c h => by
      simp only [nextOK, Bool.or_eq_true] at h
      rcases h with h | h
      · exact Or.inl h
      · exact Or.inr (by simpa using h)) isWs_not_idChar

/-- closing tactic for operator and punctuation tokens -/
macro "sym_reads" : tactic => `(tactic| (
  intro rest hg
  cases rest with
  | nil => decide
  | cons c r =>
    simp (decide := true) only [NoGlue, nextOK, Bool.or_eq_true, Bool.and_eq_true, bne_iff_ne, ne_eq, if_false, if_true] at hg
    simp only [sp, List.cons_append, List.nil_append, lexTok]
    simp (decide := true) only [if_false]
    first
      | (simp [lexSym]; done)
      | (rcases hg with hg | hg
         · simp only [isWsC, Bool.or_eq_true, beq_iff_eq] at hg
           rcases hg with ((hg | hg) | hg) | hg <;> subst hg <;> simp [lexSym]
         · simp_all [lexSym])))

theorem reads_lp : ReadsTok .lp := by sym_reads
theorem reads_rp : ReadsTok .rp := by sym_reads
theorem reads_lb : ReadsTok .lb := by sym_reads
theorem reads_rb : ReadsTok .rb := by sym_reads
theorem reads_comma : ReadsTok .comma := by sym_reads
theorem reads_colon : ReadsTok .colon := by sym_reads
theorem reads_dot : ReadsTok .dot := by sym_reads
theorem reads_bslash : ReadsTok .bslash := by sym_reads
theorem reads_bar : ReadsTok .bar := by sym_reads
theorem reads_allIn : ReadsTok .allIn := by sym_reads

theorem word_next (t : Tok) (h : ∀ c, nextOK t c = (isWsC c || !idChar c)) :
    ∀ c, nextOK t c = true → isWsC c = true ∨ idChar c = false := by
  intro c hc
  rw [h c] at hc
  simp only [Bool.or_eq_true, Bool.not_eq_true'] at hc
  exact hc

/-- closing tactic for word tokens (operators spelled as words, NOT, literal keywords) -/
macro "word_reads" w:term "," c0:term "," w':term : tactic => `(tactic|
  exact reads_word _ $w (by decide) $c0 $w' (by decide) (by decide) (by decide) (by decide)
    (word_next _ (fun c => by simp (decide := true) [nextOK])) isWs_not_idChar)

/-- the same for operators: their text comes from the regenerated tables -/
macro "op_reads" h:term : tactic => `(tactic| (
  intro rest hg
  have ht := $h
  cases rest with
  | nil => simp only [sp, ht]; decide
  | cons c r =>
    simp (decide := true) only [NoGlue, nextOK, ht, Bool.or_eq_true, Bool.and_eq_true, bne_iff_ne, ne_eq, if_false, if_true,
      List.all_cons, List.all_nil] at hg
    simp only [sp, ht, List.cons_append, List.nil_append, lexTok]
    simp (decide := true) only [if_false]
    first
      | (simp [lexSym]; done)
      | (rcases hg with hg | hg
         · simp only [isWsC, Bool.or_eq_true, beq_iff_eq] at hg
           rcases hg with ((hg | hg) | hg) | hg <;> subst hg <;> simp [lexSym]
         · simp_all [lexSym])))

theorem reads_not : ReadsTok .not := by word_reads "NOT".toList, 'N', ['O', 'T']

theorem reads_op (o : BinOp) : ReadsTok (.op o) := by
  cases o
  case and => word_reads "AND".toList, 'A', ['N', 'D']
  case or => word_reads "OR".toList, 'O', ['R']
  case xor => word_reads "XOR".toList, 'X', ['O', 'R']
  case in_ => word_reads "IN".toList, 'I', ['N']
  case like => word_reads "LIKE".toList, 'L', ['I', 'K', 'E']
  case div => word_reads "DIV".toList, 'D', ['I', 'V']
  case mod => word_reads "MOD".toList, 'M', ['O', 'D']
  case lt => op_reads (show BinOp.lt.text.toList = ['<'] by decide)
  case gt => op_reads (show BinOp.gt.text.toList = ['>'] by decide)
  case eq => op_reads (show BinOp.eq.text.toList = ['='] by decide)
  case le => op_reads (show BinOp.le.text.toList = ['<', '='] by decide)
  case ge => op_reads (show BinOp.ge.text.toList = ['>', '='] by decide)
  case ne => op_reads (show BinOp.ne.text.toList = ['<', '>'] by decide)
  case instEq => op_reads (show BinOp.instEq.text.toList = [':', '=', ':'] by decide)
  case instNe => op_reads (show BinOp.instNe.text.toList = [':', '<', '>', ':'] by decide)
  case concat => op_reads (show BinOp.concat.text.toList = ['|', '|'] by decide)
  case exp => op_reads (show BinOp.exp.text.toList = ['*', '*'] by decide)
  case times => op_reads (show BinOp.times.text.toList = ['*'] by decide)
  case realDiv => op_reads (show BinOp.realDiv.text.toList = ['/'] by decide)
  case plus => op_reads (show BinOp.plus.text.toList = ['+'] by decide)
  case minus => op_reads (show BinOp.minus.text.toList = ['-'] by decide)

theorem reads_kw (s : String) (h : TokWF (.kw s)) : ReadsTok (.kw s) := by
  simp only [TokWF, List.mem_cons, List.mem_nil_iff, or_false] at h
  rcases h with rfl | rfl | rfl | rfl | rfl | rfl | rfl | rfl
  · word_reads "TRUE".toList, 'T', ['R', 'U', 'E']
  · word_reads "FALSE".toList, 'F', ['A', 'L', 'S', 'E']
  · word_reads "UNKNOWN".toList, 'U', ['N', 'K', 'N', 'O', 'W', 'N']
  · word_reads "PI".toList, 'P', ['I']
  · word_reads "CONST_E".toList, 'C', ['O', 'N', 'S', 'T', '_', 'E']
  · word_reads "SELF".toList, 'S', ['E', 'L', 'F']
  · word_reads "QUERY".toList, 'Q', ['U', 'E', 'R', 'Y']
  · intro rest hg
    cases rest with
    | nil => decide
    | cons c r =>
      have hq : "?".toList = ['?'] := by decide
      simp only [sp, hq, List.cons_append, List.nil_append, lexTok]
      simp (decide := true) [lexSym]

theorem digit_not_alpha (c : Char) (h : c.isDigit = true) : c.isAlpha = false := by
  simp only [Char.isDigit, Char.isAlpha, Char.isUpper, Char.isLower, Bool.and_eq_true, Bool.or_eq_false_iff,
    Bool.and_eq_false_iff, decide_eq_true_eq, decide_eq_false_iff_not, UInt32.le_iff_toNat_le] at *
  obtain ⟨h1, h2⟩ := h
  simp at h1 h2 ⊢
  omega

theorem digit_idChar (c : Char) (h : c.isDigit = true) : idChar c = true := by
  simp [idChar, Char.isAlphanum, h]

theorem sp_int (n : Nat) : sp (.int n) = Nat.toDigits 10 n := by
  show (Nat.repr n).toList = _
  rw [Nat.repr_eq_ofList_toDigits, String.toList_ofList]

theorem reads_int (n : Nat) : ReadsTok (.int n) := by
  intro rest hg
  rw [sp_int]
  have hall : (Nat.toDigits 10 n).all Char.isDigit = true := by
    simp only [List.all_eq_true]; intro c hc; exact Nat.isDigit_of_mem_toDigits (by omega) (by omega) hc
  obtain ⟨c0, ds, hds⟩ : ∃ c0 ds, Nat.toDigits 10 n = c0 :: ds := by
    cases h : Nat.toDigits 10 n with
    | nil => exact absurd h Nat.toDigits_ne_nil
    | cons c0 ds => exact ⟨c0, ds, rfl⟩
  have hc0 : c0.isDigit = true := by
    have := hall; rw [hds] at this; simp only [List.all_cons, Bool.and_eq_true] at this; exact this.1
  have hr : ∀ c r', rest = c :: r' → Char.isDigit c = false := by
    intro c r' h; subst h
    simp only [NoGlue, nextOK, Bool.or_eq_true, Bool.and_eq_true] at hg
    rcases hg with hg | hg
    · cases hd : c.isDigit with
      | false => rfl
      | true => have := isWs_not_idChar c hg; rw [digit_idChar c hd] at this; cases this
    · cases hd : c.isDigit with
      | false => rfl
      | true => have := hg.1; rw [digit_idChar c hd] at this; cases this
  obtain ⟨h1, h2⟩ := takeWhile_append_of (Nat.toDigits 10 n) rest hall hr
  have hval : Nat.ofDigitChars 10 (Nat.toDigits 10 n) 0 = n := Nat.ofDigitChars_ten_toDigits
  rw [hds] at h1 h2 hval ⊢
  simp only [List.cons_append] at h1 h2 ⊢
  simp only [lexTok, digit_not_alpha c0 hc0, hc0, Bool.false_eq_true, if_false, if_true, h1, h2, hval]
  cases rest with
  | nil => rfl
  | cons c r' =>
    have hdot : c ≠ '.' := by
      simp only [NoGlue, nextOK, Bool.or_eq_true, Bool.and_eq_true, bne_iff_ne, ne_eq] at hg
      rcases hg with hg | hg
      · rintro rfl; simp [isWsC] at hg
      · exact hg.2
    split
    · next r1 heq => simp at heq; exact absurd heq.1 hdot
    · rfl

theorem reads_str (b : List Char) (h : TokWF (.str b)) : ReadsTok (.str b) := by
  obtain ⟨s, rfl⟩ := h
  intro rest hg
  have hr : ∀ r', rest ≠ '\'' :: r' := by
    intro r' h; subst h
    simp [NoGlue, nextOK, isWsC] at hg
  have := scanStr_esc rfl s rest hr
  simp only [sp, List.cons_append, List.append_assoc, List.nil_append, lexTok]
  simp (decide := true) only [if_false, if_true]
  rw [this]

theorem reads_estr (s : String) (h : TokWF (.estr s)) : ReadsTok (.estr s) := by
  intro rest _
  have hall : s.toList.all (· ≠ '"') = true := h
  obtain ⟨h1, h2⟩ := takeWhile_append_of (p := (· ≠ '"')) s.toList ('"' :: rest) hall (by intro c r' h; simp at h; simp [← h.1])
  simp only [sp, List.cons_append, List.append_assoc, List.nil_append, lexTok]
  simp (decide := true) only [if_false, if_true]
  rw [h2, h1, String.ofList_toList]

theorem reads_bin (s : String) (h : TokWF (.bin s)) : ReadsTok (.bin s) := by
  obtain ⟨hne, hall⟩ := h
  intro rest hg
  have hr : ∀ c r', rest = c :: r' → decide (c = '0' ∨ c = '1') = false := by
    intro c r' h; subst h
    simp only [NoGlue, nextOK, Bool.or_eq_true] at hg
    rcases hg with hg | hg
    · simp [isWsC] at hg; rcases hg with ((hg | hg) | hg) | hg <;> subst hg <;> decide
    · by_cases h01 : c = '0' ∨ c = '1'
      · rcases h01 with rfl | rfl <;> simp [idChar] at hg <;> exact absurd hg (by decide)
      · simp [h01]
  obtain ⟨h1, h2⟩ := takeWhile_append_of (p := fun x => decide (x = '0' ∨ x = '1')) s.toList rest hall hr
  simp only [sp, List.cons_append, lexTok]
  simp (decide := true) only [if_false, if_true]
  rw [h1, h2]
  cases hs : s.toList with
  | nil => exact absurd hs hne
  | cons c r => rw [← hs, String.ofList_toList]; simp [hs]

theorem idChar_e : idChar 'e' = true ∧ idChar 'E' = true := by decide

theorem takeWhile_digits (a r : List Char) (ha : a.all Char.isDigit = true) (hr : ∀ c r', r = c :: r' → Char.isDigit c = false) :
    (a ++ r).takeWhile Char.isDigit = a ∧ (a ++ r).dropWhile Char.isDigit = r :=
  takeWhile_append_of a r ha hr

theorem reads_real (s : List Char) (h : TokWF (.real s)) : ReadsTok (.real s) := by
  obtain ⟨ds, fs, ex, rfl, hne, hds, hfs, hex⟩ := h
  intro rest hg
  simp only [sp]
  -- what follows is no identifier character: no digit, no `e`
  have hrest : ∀ c r', rest = c :: r' → idChar c = false := by
    intro c r' hh; subst hh
    simp only [NoGlue, nextOK, Bool.or_eq_true] at hg
    rcases hg with hg | hg
    · exact isWs_not_idChar c hg
    · simpa using hg
  have hrestD : ∀ c r', rest = c :: r' → Char.isDigit c = false := by
    intro c r' hh
    cases hd : c.isDigit with
    | false => rfl
    | true => have := hrest c r' hh; rw [digit_idChar c hd] at this; cases this
  obtain ⟨c0, ds', rfl⟩ : ∃ c0 ds', ds = c0 :: ds' := by
    cases ds with
    | nil => exact absurd rfl hne
    | cons c0 ds' => exact ⟨c0, ds', rfl⟩
  have hc0 : c0.isDigit = true := by simp only [List.all_cons, Bool.and_eq_true] at hds; exact hds.1
  have h1 := takeWhile_digits (c0 :: ds') ('.' :: (fs ++ ex ++ rest)) hds (by intro c r' hh; cases hh; decide)
  have hexhead : ∀ c r', ex ++ rest = c :: r' → Char.isDigit c = false := by
    intro c r' hh
    rcases hex with rfl | ⟨e, sg, xs, rfl, he, _, _, _⟩
    · exact hrestD c r' (by simpa using hh)
    · simp only [List.cons_append] at hh; cases hh; rcases he with rfl | rfl <;> decide
  have h2 := takeWhile_digits fs (ex ++ rest) hfs hexhead
  have hassoc : (c0 :: ds' ++ '.' :: (fs ++ ex)) ++ rest = (c0 :: ds') ++ '.' :: (fs ++ ex ++ rest) := by simp [List.append_assoc]
  rw [hassoc]
  simp only [List.cons_append] at h1 ⊢
  simp only [lexTok, digit_not_alpha c0 hc0, hc0, Bool.false_eq_true, if_false, if_true, h1]
  simp only [List.append_assoc] at h2 ⊢
  simp only [h2]
  rcases hex with rfl | ⟨e, sg, xs, rfl, he, hsg, hxne, hxs⟩
  · simp only [List.nil_append, List.append_nil]
    cases rest with
    | nil => rfl
    | cons c r3 =>
      have hc := hrest c r3 rfl
      have hce : ¬ (c = 'e' ∨ c = 'E') := by
        rintro (rfl | rfl)
        · rw [idChar_e.1] at hc; cases hc
        · rw [idChar_e.2] at hc; cases hc
      simp [hce]
  · have hx := takeWhile_digits xs rest hxs hrestD
    obtain ⟨x0, xs', rfl⟩ : ∃ x0 xs', xs = x0 :: xs' := by
      cases xs with
      | nil => exact absurd rfl hxne
      | cons x0 xs' => exact ⟨x0, xs', rfl⟩
    have hx0 : x0.isDigit = true := by simp only [List.all_cons, Bool.and_eq_true] at hxs; exact hxs.1
    have hx0p : x0 ≠ '+' := by rintro rfl; revert hx0; decide
    have hx0m : x0 ≠ '-' := by rintro rfl; revert hx0; decide
    simp only [List.cons_append, List.append_assoc] at hx ⊢
    simp only [he, if_true]
    rcases hsg with rfl | rfl | rfl
    · simp only [List.nil_append, List.cons_append]
      split
      · next r4 heq => cases heq; exact absurd rfl hx0p
      · next r4 heq => cases heq; exact absurd rfl hx0m
      · simp [hx]
    · simp [hx]
    · simp [hx]

/-- **Every token the printer emits is read back by the scanner model**, whatever follows it, as long as the next
character cannot extend it (`NoGlue`) -/
theorem reads_of_wf (t : Tok) (h : TokWF t) : ReadsTok t := by
  cases t with
  | id s => exact reads_id s h
  | int n => exact reads_int n
  | real s => exact reads_real s h
  | str b => exact reads_str b h
  | estr s => exact reads_estr s h
  | bin s => exact reads_bin s h
  | kw s => exact reads_kw s h
  | op o => exact reads_op o
  | not => exact reads_not
  | lp => exact reads_lp
  | rp => exact reads_rp
  | lb => exact reads_lb
  | rb => exact reads_rb
  | comma => exact reads_comma
  | colon => exact reads_colon
  | dot => exact reads_dot
  | bslash => exact reads_bslash
  | bar => exact reads_bar
  | allIn => exact reads_allIn

/-! ### spellings begin and end with a character that is not white space -/

/-- first and last character exist and are not white space -/
def endsOK (l : List Char) : Bool :=
  match l.head?, l.getLast? with
  | some c, some d => !isWsC c && !isWsC d
  | _, _ => false

theorem endsOK_exists (l : List Char) (h : endsOK l = true) :
    ∃ c d r, l = c :: r ∧ isWsC c = false ∧ l.getLast? = some d ∧ isWsC d = false := by
  cases l with
  | nil => simp [endsOK] at h
  | cons c r =>
    cases hl : (c :: r).getLast? with
    | none => simp [endsOK, hl] at h
    | some d =>
      simp [endsOK, hl] at h
      exact ⟨c, d, r, rfl, h.1, rfl, h.2⟩

theorem op_text_ends (o : BinOp) : endsOK o.text.toList = true := by cases o <;> decide

theorem idChar_not_ws (c : Char) (h : idChar c = true) : isWsC c = false := by
  cases hw : isWsC c with
  | false => rfl
  | true => have := isWs_not_idChar c hw; rw [h] at this; cases this

theorem realSp_not_ws (s : List Char) (h : RealSp s) : ∀ c ∈ s, isWsC c = false := by
  obtain ⟨ds, fs, ex, rfl, _, hds, hfs, hex⟩ := h
  have dig : ∀ (l : List Char), l.all Char.isDigit = true → ∀ c ∈ l, isWsC c = false := by
    intro l hl c hc
    simp only [List.all_eq_true] at hl
    exact idChar_not_ws c (digit_idChar c (hl c hc))
  intro c hc
  simp only [List.mem_append, List.mem_cons] at hc
  rcases hc with hc | rfl | hc | hc
  · exact dig ds hds c hc
  · decide
  · exact dig fs hfs c hc
  · rcases hex with rfl | ⟨e, sg, xs, rfl, he, hsg, _, hxs⟩
    · cases hc
    · simp only [List.mem_cons, List.mem_append] at hc
      rcases hc with rfl | hc | hc
      · rcases he with rfl | rfl <;> decide
      · rcases hsg with rfl | rfl | rfl
        · cases hc
        · simp at hc; subst hc; decide
        · simp at hc; subst hc; decide
      · exact dig xs hxs c hc

theorem sp_ends (t : Tok) (h : TokWF t) :
    ∃ c d r, sp t = c :: r ∧ isWsC c = false ∧ (sp t).getLast? = some d ∧ isWsC d = false := by
  cases t with
  | id s =>
    obtain ⟨⟨c, r, hs, ha⟩, hall, _⟩ := h
    have hl : ∃ d, s.toList.getLast? = some d := by rw [hs]; exact ⟨_, (List.getLast?_eq_some_getLast (by simp))⟩
    obtain ⟨d, hd⟩ := hl
    have hdm : d ∈ s.toList := List.mem_of_getLast? hd
    have hcm : c ∈ s.toList := by rw [hs]; simp
    simp only [List.all_eq_true] at hall
    exact ⟨c, d, r, hs, idChar_not_ws c (hall c hcm), hd, idChar_not_ws d (hall d hdm)⟩
  | int n =>
    rw [sp_int]
    cases hd : Nat.toDigits 10 n with
    | nil => exact absurd hd Nat.toDigits_ne_nil
    | cons c r =>
      have hdig : ∀ x ∈ Nat.toDigits 10 n, x.isDigit = true := fun x hx => Nat.isDigit_of_mem_toDigits (by omega) (by omega) hx
      have hl : ∃ d, (c :: r).getLast? = some d := ⟨_, (List.getLast?_eq_some_getLast (by simp))⟩
      obtain ⟨d, hdl⟩ := hl
      refine ⟨c, d, r, rfl, idChar_not_ws c (digit_idChar c (hdig c (by rw [hd]; simp))), hdl, ?_⟩
      exact idChar_not_ws d (digit_idChar d (hdig d (by rw [hd]; exact List.mem_of_getLast? hdl)))
  | real s =>
    have hall := realSp_not_ws s h
    obtain ⟨ds, fs, ex, hs, hne, _, _, _⟩ := h
    cases hsl : s with
    | nil => rw [hs] at hsl; simp at hsl
    | cons c r =>
      have hl : ∃ d, (c :: r).getLast? = some d := ⟨_, (List.getLast?_eq_some_getLast (by simp))⟩
      obtain ⟨d, hdl⟩ := hl
      simp only [sp]
      exact ⟨c, d, r, rfl, hall c (by rw [hsl]; simp), hdl, hall d (by rw [hsl]; exact List.mem_of_getLast? hdl)⟩
  | str b => exact ⟨'\'', '\'', b ++ ['\''], rfl, by decide, by simp only [sp]; rw [List.getLast?_append]; simp, by decide⟩
  | estr s => exact ⟨'"', '"', s.toList ++ ['"'], rfl, by decide, by simp only [sp]; rw [List.getLast?_append]; simp, by decide⟩
  | bin s =>
    obtain ⟨hne, hall⟩ := h
    cases hs : s.toList with
    | nil => exact absurd hs hne
    | cons c r =>
      have hl : ∃ d, (c :: r).getLast? = some d := ⟨_, (List.getLast?_eq_some_getLast (by simp))⟩
      obtain ⟨d, hdl⟩ := hl
      have hdm : d ∈ s.toList := by rw [hs]; exact List.mem_of_getLast? hdl
      simp only [List.all_eq_true, decide_eq_true_eq] at hall
      refine ⟨'%', d, s.toList, rfl, by decide, ?_, ?_⟩
      · simp only [sp]; rw [hs, List.getLast?_cons_cons]; exact hdl
      · rcases hall d hdm with rfl | rfl <;> decide
  | kw s =>
    simp only [TokWF, List.mem_cons, List.mem_nil_iff, or_false] at h
    rcases h with rfl | rfl | rfl | rfl | rfl | rfl | rfl | rfl <;> exact endsOK_exists _ (by decide)
  | op o => exact endsOK_exists _ (op_text_ends o)
  | _ => exact endsOK_exists _ (by decide)

end StepModel.Express

import StepModel.Complex
import StepModel.Generated.ComplexGen
/-!
# The run-time matcher (`ComplexCollect::supports`), rendered functionally

Source: src/clstepcore/collect.cc, complexlist.cc, non-ors.cc, match-ors.cc, trynext.cc, orlist.cc, multlist.cc,
entlist.cc, entnode.cc; include/clstepcore/complexSupport.h.

The C++ keeps its state *in* the EntList objects and in the request's `EntNode` list:

* `EntNode::mark` (NOMARK < ORMARK < MARK), `EntNode::multSupers`;
* `EntList::viable` (UNKNOWN < UNSATISFIED < SATISFIED < MATCHSOME < MATCHALL < NEWCHOICE < NOMORE);
* `SimpleList::I_marked`; `OrList::choice`, `choice1`, `choiceCount`.

`ST` is an EntList with that state; every member function becomes a function returning the updated `ST`, the updated
`Ents` and the C++ return value.  Children are visited through `childList`/`next`/`prev` in the C++; here through list
positions (the harness checks that `prev` links and `numchildren` agree with the `next` chain for every emitted tree).

Every place where the C++ calls a member through, or dereferences, a pointer it has not tested has an explicit
`Outcome.crash` here:

* `firstCandidateNull`  — `MultList::tryNext`: `firstCandidate( child->prev )` when `child` is the first child,
                          then `child->lastNot( SIMPLE )` on the null pointer (present unless `tryNextNullSafe`);
* `unmarkPastEnd`       — `SimpleList::unmarkAll`: `eptr->mark` after the walk ran off the list;
* `orChoiceNull`        — `OrList::tryNext` / `matchORs`: `getChild( choice )->…` with `choice` out of range;
* `castSimple`          — `dynamic_cast< MultList * >( child )->matchORs` on a `SimpleList` whose viable is UNKNOWN;
* `emptyList`           — `childList->firstNot(…)`/`firstWanted(…)`/`getLast()` of a list without children;
* `badHead`             — `ComplexList` head that is not `AND(SimpleList, …)` (`supertype()`, `toplevel()` cast blindly);
* `sortNullChunk`       — `EntNode::sort`: `eptr2->next` when `lastSmaller` answered NULL for the chunk to move
                          (reachable only with equal names, i.e. after renaming; see `ComplexInit.lean`);
* `comboEmpty`/`comboOdd` — `supports`: the combo list for members with several supertypes is empty (`buildList`
                          reads `head->childList->next`) or has an odd number of children (the unlink loop).

Recursion is on `fuel` (decremented at every call) so that the kernel can evaluate the model; `outOfFuel` is its own
outcome.  `supports` computes a generous bound from the tree sizes; the only loop that is not bounded by the tree's size
is the retry loop of `ComplexList::matches` (one iteration per OR choice combination).
-/
namespace StepModel.Complex.Match
open StepModel.Generated StepModel.Complex

inductive Crash
  | firstCandidateNull | unmarkPastEnd | orChoiceNull | castSimple | emptyList | badHead | comboEmpty | comboOdd
  | sortNullChunk
  deriving DecidableEq, Repr

inductive Outcome (α : Type) where
  | ok (a : α)
  | crash (c : Crash)
  | outOfFuel
  deriving Repr, DecidableEq

instance : Monad Outcome where
  pure := .ok
  bind x f := match x with
    | .ok a => f a
    | .crash c => .crash c
    | .outOfFuel => .outOfFuel

inductive Mark | no | orm | mk
  deriving DecidableEq, Repr
def Mark.rank : Mark → Nat | .no => 0 | .orm => 1 | .mk => 2

inductive MT | unknown | unsat | sat | some_ | all | newchoice | nomore
  deriving DecidableEq, Repr
def MT.rank : MT → Nat
  | .unknown => 0 | .unsat => 1 | .sat => 2 | .some_ => 3 | .all => 4 | .newchoice => 5 | .nomore => 6

/-- the enumerator orders the ranks above assume; `Props/C08.lean` checks them against the regenerated header values -/
def assumedMarkNames : List String := ["NOMARK", "ORMARK", "MARK"]
def assumedMatchNames : List String :=
  ["UNKNOWN", "UNSATISFIED", "SATISFIED", "MATCHSOME", "MATCHALL", "NEWCHOICE", "NOMORE"]

structure ENode where
  name : Name
  mark : Mark
  mult : Bool
  deriving Repr

abbrev Ents := List ENode

inductive Join | and | or | andor
  deriving DecidableEq, Repr

inductive ST where
  | simple (n : Name) (viable : MT) (imarked : Mark)
  | mult (j : Join) (viable : MT) (choice choice1 : Int) (count : Nat) (cs : List ST)
  deriving Repr

def ST.viable : ST → MT
  | .simple _ v _ => v
  | .mult _ v _ _ _ _ => v
def ST.isSimple : ST → Bool
  | .simple .. => true
  | _ => false
def ST.isOr : ST → Bool
  | .mult .or .. => true
  | _ => false
def ST.atLeastSome (t : ST) : Bool := decide (MT.rank .some_ ≤ t.viable.rank)

mutual
  /-- a freshly constructed / `reset()` EntList hierarchy -/
  def fresh : Tree → ST
    | .simple n => .simple n .unknown .no
    | .and cs => .mult .and .unknown orInitChoice orInitChoice1 orInitCount (freshL cs)
    | .or cs => .mult .or .unknown orInitChoice orInitChoice1 orInitCount (freshL cs)
    | .andor cs => .mult .andor .unknown orInitChoice orInitChoice1 orInitCount (freshL cs)
  def freshL : List Tree → List ST
    | [] => []
    | c :: cs => fresh c :: freshL cs
end

def allMarked (es : Ents) : Bool := es.all (fun e => e.mark ≠ .no)

/-- index at which a `strcmp` walk over the (ascending) list stops with equality; the walk breaks at the first
greater name (`SimpleList::matchNonORs`, `acceptChoice`) -/
def findEq (n : Name) : Ents → Nat → Option Nat
  | [], _ => none
  | e :: es, i => if e.name = n then some i else if n < e.name then none else findEq n es (i + 1)

/-- index of the first node whose name is not smaller (`SimpleList::unmarkAll`) -/
def findGe (n : Name) : Ents → Nat → Option Nat
  | [], _ => none
  | e :: es, i => if e.name < n then findGe n es (i + 1) else some i

def setMark (es : Ents) (i : Nat) (m : Mark) : Ents :=
  match es[i]? with
  | some e => es.set i { e with mark := m }
  | none => es

/-- `SimpleList::matchNonORs` -/
def simpleMatchNonORs (n : Name) (im : Mark) (es : Ents) : ST × Ents × MT :=
  match findEq n es 0 with
  | none => (.simple n .unsat im, es, .unsat)
  | some i =>
    match es[i]? with
    | none => (.simple n .unsat im, es, .unsat)
    | some e =>
      if e.mark ≠ .mk then
        if e.mark = .no then
          let es' := setMark es i .mk
          if allMarked es' then (.simple n .all .mk, es', .all) else (.simple n .some_ .mk, es', .some_)
        else (.simple n .some_ im, es, .some_)
      else (.simple n .sat im, es, .sat)

/-- `SimpleList::unmarkAll` -/
def simpleUnmark (n : Name) (v : MT) (im : Mark) (es : Ents) : Outcome (ST × Ents) :=
  if v.rank < MT.rank .some_ then .ok (.simple n v im, es)
  else match findGe n es 0 with
    | none => .crash .unmarkPastEnd
    | some i =>
      match es[i]? with
      | none => .crash .unmarkPastEnd
      | some e =>
        let es' := if e.mark.rank ≤ im.rank then setMark es i .no else es
        .ok (.simple n v .no, es')

/-- `SimpleList::acceptChoice` -/
def simpleAccept (n : Name) (v : MT) (im : Mark) (es : Ents) : ST × Ents × Bool :=
  match findEq n es 0 with
  | none => (.simple n v im, es, false)
  | some i =>
    match es[i]? with
    | none => (.simple n v im, es, false)
    | some e =>
      if e.mark = .no then (.simple n v .orm, setMark es i .orm, true) else (.simple n v im, es, false)

/-- `JoinList::setViableVal` -/
def setViableVal (cs : List ST) (es : Ents) : MT :=
  let rec go (v : MT) : List ST → MT
    | [] => if v = .all && !allMarked es then .some_ else v
    | c :: rest =>
      if c.viable = .unknown then .unknown
      else go (if v.rank < c.viable.rank then c.viable else v) rest
  go .unknown cs

def inRange (i : Int) (n : Nat) : Option Nat :=
  if 0 ≤ i ∧ i < (n : Int) then some i.toNat else none

/-- last position `≤ start` holding a non-SIMPLE child with viable ≥ MATCHSOME (`firstCandidate`) -/
def firstCand (cs : List ST) : Nat → Option Nat
  | 0 => match cs[0]? with
    | some c => if !c.isSimple && c.atLeastSome then some 0 else none
    | none => none
  | k + 1 => match cs[k + 1]? with
    | some c => if !c.isSimple && c.atLeastSome then some (k + 1) else firstCand cs k
    | none => firstCand cs k

/-- positions `> i` holding a non-SIMPLE child with viable ≥ MATCHSOME, ascending (`nextCandidate` repeatedly) -/
def nextCands (cs : List ST) (i : Nat) : List Nat :=
  (List.range cs.length).filter (fun j => i < j && match cs[j]? with
    | some c => !c.isSimple && c.atLeastSome
    | none => false)

mutual
  /-- `EntList::unmarkAll` (virtual) -/
  def unmarkAll : Nat → ST → Ents → Outcome (ST × Ents)
    | 0, _, _ => .outOfFuel
    | _ + 1, .simple n v im, es => simpleUnmark n v im es
    | f + 1, .mult .or v c c1 k cs, es =>
      match inRange c cs.length with
      | none => .ok (.mult .or v c c1 k cs, es)
      | some i =>
        match cs[i]? with
        | none => .ok (.mult .or v c c1 k cs, es)
        | some ch => do
          let (ch', es') ← unmarkAll f ch es
          pure (.mult .or v c c1 k (cs.set i ch'), es')
    | f + 1, .mult j v c c1 k cs, es => do
      let (cs', es') ← unmarkList f cs es
      pure (.mult j v c c1 k cs', es')

  def unmarkList : Nat → List ST → Ents → Outcome (List ST × Ents)
    | 0, _, _ => .outOfFuel
    | _ + 1, [], es => .ok ([], es)
    | f + 1, ch :: rest, es => do
      let (ch', es') ← unmarkAll f ch es
      let (rest', es'') ← unmarkList f rest es'
      pure (ch' :: rest', es'')
end

mutual
  /-- `EntList::acceptChoice` (virtual): SimpleList, JoinList (AND/ANDOR), OrList -/
  def acceptChoice : Nat → ST → Ents → Outcome (ST × Ents × Bool)
    | 0, _, _ => .outOfFuel
    | _ + 1, .simple n v im, es => .ok (simpleAccept n v im es)
    | f + 1, .mult .or v c c1 k cs, es =>
      let c' := if c = listEnd then c1 else c
      match inRange c' cs.length with
      | none => .ok (.mult .or v listEnd c1 k cs, es, false)
      | some i => do
        let (cs', es', r) ← acceptOr f cs i es
        match r with
        | some j => pure (.mult .or v (j : Int) c1 k cs', es', true)
        | none => pure (.mult .or v listEnd c1 k cs', es', false)
    | f + 1, .mult j v c c1 k cs, es => do
      let (cs', es', r) ← acceptJoin f cs es
      pure (.mult j v c c1 k cs', es', r)

  /-- `JoinList::acceptChoice`: every child with viable ≥ MATCHSOME accepts -/
  def acceptJoin : Nat → List ST → Ents → Outcome (List ST × Ents × Bool)
    | 0, _, _ => .outOfFuel
    | _ + 1, [], es => .ok ([], es, false)
    | f + 1, ch :: rest, es => do
      let (ch', es', r) ← if ch.atLeastSome then acceptChoice f ch es else pure (ch, es, false)
      let (rest', es'', r') ← acceptJoin f rest es'
      pure (ch' :: rest', es'', r || r')

  /-- `OrList::acceptChoice`, the loop from position `i`: the first child with viable ≥ MATCHSOME whose
  `acceptChoice` marks something -/
  def acceptOr : Nat → List ST → Nat → Ents → Outcome (List ST × Ents × Option Nat)
    | 0, _, _, _ => .outOfFuel
    | f + 1, cs, i, es =>
      match cs[i]? with
      | none => .ok (cs, es, none)
      | some ch =>
        if ch.atLeastSome then do
          let (ch', es', r) ← acceptChoice f ch es
          if r then pure (cs.set i ch', es', some i) else acceptOr f (cs.set i ch') (i + 1) es'
        else acceptOr f cs (i + 1) es
end

mutual
  /-- `EntList::matchNonORs` (virtual; the `OrList` inherits the default that returns UNKNOWN) -/
  def matchNonORs : Nat → ST → Ents → Outcome (ST × Ents × MT)
    | 0, _, _ => .outOfFuel
    | _ + 1, .simple n _ im, es => .ok (simpleMatchNonORs n im es)
    | _ + 1, .mult .or v c c1 k cs, es => .ok (.mult .or v c c1 k cs, es, .unknown)
    | f + 1, .mult .andor _ c c1 k cs, es =>
      if cs.isEmpty then .crash .emptyList else do
        let (cs', es', early) ← andorNonORs f [] cs es
        if early then pure (.mult .andor .all c c1 k cs', es', .all)
        else
          let v := setViableVal cs' es'
          pure (.mult .andor v c c1 k cs', es', v)
    | f + 1, .mult .and _ c c1 k cs, es =>
      if cs.isEmpty then .crash .emptyList else do
        let (cs', es', failed) ← andNonORs f [] cs es
        if failed then pure (.mult .and .unsat c c1 k cs', es', .unsat)
        else
          let v := setViableVal cs' es'
          pure (.mult .and v c c1 k cs', es', v)

  /-- loop of `AndOrList::matchNonORs`; `true` = returned MATCHALL early (`prevKnown`) -/
  def andorNonORs : Nat → List ST → List ST → Ents → Outcome (List ST × Ents × Bool)
    | 0, _, _, _ => .outOfFuel
    | _ + 1, done, [], es => .ok (done, es, false)
    | f + 1, done, ch :: rest, es =>
      if ch.isOr then andorNonORs f (done ++ [ch]) rest es
      else do
        let (ch', es', r) ← matchNonORs f ch es
        if r = .all then
          if done.all (fun d => d.viable ≠ .unknown) then pure (done ++ ch' :: rest, es', true)
          else andorNonORs f (done ++ [ch']) rest es'
        else if r = .unsat then do
          let (ch'', es'') ← unmarkAll f ch' es'
          andorNonORs f (done ++ [ch'']) rest es''
        else andorNonORs f (done ++ [ch']) rest es'

  /-- loop of `AndList::matchNonORs`; `true` = a child was UNSATISFIED -/
  def andNonORs : Nat → List ST → List ST → Ents → Outcome (List ST × Ents × Bool)
    | 0, _, _, _ => .outOfFuel
    | _ + 1, done, [], es => .ok (done, es, false)
    | f + 1, done, ch :: rest, es =>
      if ch.isOr then andNonORs f (done ++ [ch]) rest es
      else do
        let (ch', es', r) ← matchNonORs f ch es
        if r = .unsat then pure (done ++ ch' :: rest, es', true)
        else andNonORs f (done ++ [ch']) rest es'
end

/-- `acceptChoice( ents )` whose boolean result is ignored (`OrList::matchORs`) -/
def acceptDrop (f : Nat) (node : ST) (es : Ents) : Outcome (ST × Ents) := do
  let (n', e', _) ← acceptChoice f node es
  pure (n', e')

mutual
  /-- `MultList::matchORs` (pure virtual; AND, ANDOR, OR) -/
  def matchORs : Nat → ST → Ents → Outcome (ST × Ents × MT)
    | 0, _, _ => .outOfFuel
    | _ + 1, .simple .., _ => .crash .castSimple
    | f + 1, .mult .andor _ c c1 k cs, es =>
      if cs.isEmpty then .crash .emptyList else do
        let (cs', es', _) ← joinORs f false [] cs es
        let v := setViableVal cs' es'
        pure (.mult .andor v c c1 k cs', es', v)
    | f + 1, .mult .and _ c c1 k cs, es =>
      if cs.isEmpty then .crash .emptyList else do
        let (cs', es', failed) ← joinORs f true [] cs es
        if failed then pure (.mult .and .unsat c c1 k cs', es', .unsat)
        else
          let v := setViableVal cs' es'
          pure (.mult .and v c c1 k cs', es', v)
    | f + 1, .mult .or v c c1 k cs, es => do
      let (cs', es', _, v', c', c1', k') ← orORs f 0 [] cs es .unknown v c c1 k
      let node := ST.mult .or v' c' c1' k' cs'
      let (node', es'') ← if MT.rank .some_ ≤ v'.rank then acceptDrop f node es' else pure (node, es')
      if v' = .all then
        match node' with
        | .mult _ _ _ c1'' _ cs'' =>
          match inRange c1'' cs''.length with
          | none => .crash .orChoiceNull
          | some i => match cs''[i]? with
            | none => .crash .orChoiceNull
            | some ch => pure (node', es'', ch.viable)
        | _ => .crash .orChoiceNull
      else pure (node', es'', v')

  /-- loops of `AndOrList::matchORs` (`isAnd = false`: an UNSATISFIED child is unmarked) and `AndList::matchORs`
  (`isAnd = true`: an UNSATISFIED child fails the list; result `true`) over the children whose viable is UNKNOWN -/
  def joinORs : Nat → Bool → List ST → List ST → Ents → Outcome (List ST × Ents × Bool)
    | 0, _, _, _, _ => .outOfFuel
    | _ + 1, _, done, [], es => .ok (done, es, false)
    | f + 1, isAnd, done, ch :: rest, es =>
      if ch.viable = .unknown then
        if ch.isSimple then .crash .castSimple
        else do
          let (ch', es', r) ← matchORs f ch es
          if r = .unsat then
            if isAnd then pure (done ++ ch' :: rest, es', true)
            else do
              let (ch'', es'') ← unmarkAll f ch' es'
              joinORs f isAnd (done ++ [ch'']) rest es''
          else joinORs f isAnd (done ++ [ch']) rest es'
      else joinORs f isAnd (done ++ [ch]) rest es

  /-- loop of `OrList::matchORs` over all children; carries `retval`, `viable`, `choice`, `choice1`, `choiceCount` -/
  def orORs : Nat → Nat → List ST → List ST → Ents → MT → MT → Int → Int → Nat →
      Outcome (List ST × Ents × MT × MT × Int × Int × Nat)
    | 0, _, _, _, _, _, _, _, _, _ => .outOfFuel
    | _ + 1, _, done, [], es, rv, v, c, c1, k => .ok (done, es, rv, v, c, c1, k)
    | f + 1, idx, done, ch :: rest, es, rv, v, c, c1, k => do
      let (ch1, es1, rv1) ← if !ch.isOr then matchNonORs f ch es else pure (ch, es, rv)
      let (ch2, es2, rv2) ← if ch1.viable = .unknown then
            (if ch1.isSimple then Outcome.crash .castSimple else matchORs f ch1 es1)
          else pure (ch1, es1, rv1)
      let isSome := decide (MT.rank .some_ ≤ rv2.rank)
      let c' := if isSome && c = -1 then (idx : Int) else c
      let c1' := if isSome && c = -1 then (idx : Int) else c1
      let k' := if isSome then k + 1 else k
      let v' := if v.rank < rv2.rank then rv2 else v
      let (ch3, es3) ← unmarkAll f ch2 es2
      orORs f (idx + 1) (done ++ [ch3]) rest es3 rv2 v' c' c1' k'
end

mutual
  /-- `MultList::tryNext` (virtual): AND/ANDOR use the base version, OR its own -/
  def tryNext : Nat → ST → Ents → Outcome (ST × Ents × MT)
    | 0, _, _ => .outOfFuel
    | _ + 1, .simple .., _ => .crash .castSimple
    | f + 1, .mult .or v c c1 k cs, es =>
      if c = listEnd then .ok (.mult .or v c c1 k cs, es, .nomore)
      else match inRange c cs.length with
        | none => .crash .orChoiceNull
        | some i =>
          match cs[i]? with
          | none => .crash .orChoiceNull
          | some ch => do
            let (ch1, es1, r) ← if !ch.isSimple then tryNext f ch es else pure (ch, es, MT.nomore)
            let cs1 := cs.set i ch1
            if !ch.isSimple && r = .all then pure (.mult .or v c c1 k cs1, es1, .all)
            else if !ch.isSimple && r = .newchoice then pure (.mult .or v c c1 k cs1, es1, .newchoice)
            else do
              let (ch2, es2) ← unmarkAll f ch1 es1
              let cs2 := cs1.set i ch2
              if k = 1 then pure (.mult .or v listEnd c1 k cs2, es2, .nomore)
              else do
                let (node, es3, b) ← acceptChoice f (.mult .or v (c + 1) c1 k cs2) es2
                if b then pure (node, es3, if allMarked es3 then .all else .newchoice)
                else pure (node, es3, .nomore)
    | f + 1, .mult j v c c1 k cs, es =>
      if cs.isEmpty then (if tryNextNullSafe then .ok (.mult j v c c1 k cs, es, .nomore) else .crash .firstCandidateNull)
      else do
        let (cs', es', r) ← tryBack f cs (cs.length - 1) es
        pure (.mult j v c c1 k cs', es', r)

  /-- backwards loop of `MultList::tryNext`, scanning for a candidate from position `start` -/
  def tryBack : Nat → List ST → Nat → Ents → Outcome (List ST × Ents × MT)
    | 0, _, _, _ => .outOfFuel
    | f + 1, cs, start, es =>
      match firstCand cs start with
      | none => .ok (cs, es, .nomore)
      | some i =>
        match cs[i]? with
        | none => .ok (cs, es, .nomore)
        | some ch => do
          let (ch', es', r) ← tryNext f ch es
          let cs' := cs.set i ch'
          if r = .all then pure (cs', es', .all)
          else if r = .newchoice then tryFwd f cs' (nextCands cs' i) es'
          else if i = 0 then
            (if tryNextNullSafe then pure (cs', es', .nomore) else Outcome.crash .firstCandidateNull)
          else tryBack f cs' (i - 1) es'

  /-- after a NEWCHOICE: every later candidate re-accepts its first choice -/
  def tryFwd : Nat → List ST → List Nat → Ents → Outcome (List ST × Ents × MT)
    | 0, _, _, _ => .outOfFuel
    | _ + 1, cs, [], es => .ok (cs, es, .newchoice)
    | f + 1, cs, j :: js, es =>
      match cs[j]? with
      | none => tryFwd f cs js es
      | some ch => do
        let (ch', es', b) ← acceptChoice f ch es
        let cs' := cs.set j ch'
        if b && allMarked es' then pure (cs', es', .all) else tryFwd f cs' js es'
end

-- ---------------------------------------------------------------- ComplexList

/-- sorted insertion without duplicates: `ComplexList::addChildren`, and `EntNode::EntNode( const char ** )` -/
def ins (n : Name) : List Name → List Name
  | [] => [n]
  | a :: as => if a < n then a :: ins n as else if a = n then a :: as else n :: a :: as

/-- `ComplexList::buildList`: supertype first, then every leaf of the siblings, inserted in order -/
def buildList (head : Tree) : Option (List Name) :=
  match head with
  | .and (.simple n :: rest) => some ((leavesL rest).foldl (fun acc x => ins x acc) [n])
  | _ => none

/-- `ComplexList::contains`: two-pointer walk over both ascending lists -/
def containsWalk : List Name → List Name → Bool
  | _, [] => true
  | [], _ :: _ => false
  | o :: ours, t :: theirs =>
    if o < t then containsWalk ours (t :: theirs)
    else if t < o then false
    else containsWalk ours theirs

mutual
  /-- `EntList::contains( char * )` -/
  def stContains : ST → Name → Bool
    | .simple n _ _, nm => n = nm
    | .mult _ _ _ _ _ cs, nm => stContainsL cs nm
  def stContainsL : List ST → Name → Bool
    | [], _ => false
    | c :: cs, nm => stContains c nm || stContainsL cs nm
end

mutual
  /-- `EntList::hit( char * )`: SimpleList compares names; MultList asks children whose viable > UNSATISFIED;
  OrList asks only the selected child when `choice` selects one -/
  def stHit : ST → Name → Bool
    | .simple n _ _, nm => n = nm
    | .mult .or _ c _ _ cs, nm =>
      match inRange c cs.length with
      | some i => stHitAt cs i nm
      | none => stHitAny cs nm
    | .mult _ _ _ _ _ cs, nm => stHitAny cs nm
  def stHitAny : List ST → Name → Bool
    | [], _ => false
    | c :: cs, nm => (decide (MT.rank .unsat < c.viable.rank) && stHit c nm) || stHitAny cs nm
  def stHitAt : List ST → Nat → Name → Bool
    | [], _, _ => false
    | c :: _, 0, nm => stHit c nm
    | _ :: cs, i + 1, nm => stHitAt cs i nm
end

/-- children at positions 1, 3, 5, … (`child = head->childList->next`, then two steps at a time) -/
def oddChildren : List ST → List ST
  | _ :: b :: rest => b :: oddChildren rest
  | _ => []

/-- `ComplexList::hitMultNodes` -/
def hitMultNodes (combo : Bool) (head : ST) (es : Ents) : Bool :=
  if !combo then true
  else match head with
    | .mult _ _ _ _ _ cs =>
      es.all (fun node => !node.mult ||
        (oddChildren cs).all (fun ch => !(stContains ch node.name) || stHit ch node.name))
    | _ => true

/-- the retry loop of `ComplexList::matches` -/
def retry : Nat → Bool → ST → Ents → Outcome Bool
  | 0, _, _, _ => .outOfFuel
  | f + 1, combo, head, es => do
    let (head', es', r) ← tryNext f head es
    if r = .all then
      if hitMultNodes combo head' es' then pure true else retry f combo head' es'
    else if r = .newchoice then retry f combo head' es'
    else pure false

/-- `ComplexList::matches` (the final `reset()`/`unmarkAll()` restore the fresh state every call starts from) -/
def matchesList (fuel : Nat) (combo : Bool) (head : Tree) (es : Ents) : Outcome Bool :=
  match buildList head with
  | none => .crash .badHead
  | some list =>
    if !containsWalk list (es.map (·.name)) then .ok false
    else do
      let (h1, es1, r1) ← matchNonORs fuel (fresh head) es
      if r1 = .all then pure true
      else if r1 ≠ .unknown then pure false
      else do
        let (h2, es2, r2) ← matchORs fuel h1 es1
        if r2 = .all && hitMultNodes combo h2 es2 then pure true
        else if MT.rank .some_ ≤ r2.rank then retry fuel combo h2 es2
        else pure false

mutual
  /-- `EntList::reset()` (virtual): `SimpleList` clears `viable` and `I_marked`; `MultList` sets `viable = UNKNOWN` and resets
  every child; `OrList` first puts back `choice`, `choice1`, `choiceCount` -/
  def resetST : ST → ST
    | .simple n _ _ => .simple n .unknown .no
    | .mult .or _ _ _ _ cs => .mult .or .unknown orResetChoice orResetChoice1 orResetCount (resetL cs)
    | .mult j _ c c1 k cs => .mult j .unknown c c1 k (resetL cs)
  def resetL : List ST → List ST
    | [] => []
    | c :: cs => resetST c :: resetL cs
end

/-- `EntNode::unmarkAll()`: every node of the request list back to NOMARK -/
def unmarkEnts (es : Ents) : Ents := es.map (fun e => { e with mark := .no })

/-- `ComplexList::matches` on the shared hierarchy in the state `h0` earlier calls left it in (`matchesList` is the case
`h0 = fresh head`: the state after construction) -/
def matchesAt (fuel : Nat) (combo : Bool) (head : Tree) (h0 : ST) (es : Ents) : Outcome Bool :=
  match buildList head with
  | none => .crash .badHead
  | some list =>
    if !containsWalk list (es.map (·.name)) then .ok false
    else do
      let (h1, es1, r1) ← matchNonORs fuel h0 es
      if r1 = .all then pure true
      else if r1 ≠ .unknown then pure false
      else do
        let (h2, es2, r2) ← matchORs fuel h1 es1
        if r2 = .all && hitMultNodes combo h2 es2 then pure true
        else if MT.rank .some_ ≤ r2.rank then retry fuel combo h2 es2
        else pure false

/-- `ComplexList::toplevel`: is `name` one of the supertypes (positions 0, 2, 4, …) already joined? -/
def toplevel : List Tree → Name → Outcome Bool
  | [], _ => .ok false
  | .simple n :: rest, nm => if n = nm then .ok true else
      match rest with
      | [] => .ok false
      | _ :: rest' => toplevel rest' nm
  | _ :: _, _ => .crash .badHead

/-- the joining loop of `ComplexCollect::supports`: for every member with several supertypes, every list that
mentions it and is not joined yet is appended (supertype, sublist, …) -/
def joinLists (c : Collect) (es : Ents) : Outcome (List Tree) :=
  es.foldlM (fun acc node =>
    if !node.mult then pure acc
    else c.foldlM (fun acc' h =>
      match buildList h, superOf h with
      | some list, some sup =>
        if containsWalk list [node.name] then do
          let already ← toplevel acc' sup
          pure (if already then acc' else acc' ++ h.children)
        else pure acc'
      | _, _ => Outcome.crash .badHead) acc) []

mutual
  def size : Tree → Nat
    | .simple _ => 1
    | .and cs => 1 + sizeL cs
    | .or cs => 1 + sizeL cs
    | .andor cs => 1 + sizeL cs
  def sizeL : List Tree → Nat
    | [] => 0
    | c :: cs => size c + sizeL cs
end

/-- `ComplexCollect::supports` on a request list `es` (already sorted by `EntNode`'s constructor) -/
def supportsEnts (fuel : Nat) (c : Collect) (es : Ents) : Outcome Bool :=
  if es.any (·.mult) then do
    let joined ← joinLists c es
    if joined.isEmpty then Outcome.crash .comboEmpty
    else if joined.length % 2 = 1 then Outcome.crash .comboOdd
    else matchesList fuel true (.and joined) es
  else
    c.foldlM (fun acc h => if acc then pure true else matchesList fuel false h es) false

/-- `EntNode::EntNode( const char ** )`: first name, then sorted insertion of the others (duplicates dropped) -/
def mkNames : List Name → List Name
  | [] => []
  | n :: ns => ns.foldl (fun acc x => ins x acc) [n]

def mkEnts (mult : List Name) (names : List Name) : Ents :=
  (mkNames names).map (fun n => { name := n, mark := .no, mult := mult.contains n })

/-- fuel that covers every tree-bounded recursion many times over plus a large number of retries -/
def defaultFuel (c : Collect) : Nat := 64 * (sizeL c + 4) + 4096

/-- what `STEPcomplex::Initialize` asks: parts in file order, `mult` = the entities with more than one supertype -/
def supports (c : Collect) (mult : List Name) (parts : List Name) : Outcome Bool :=
  supportsEnts (defaultFuel c) c (mkEnts mult parts)

end StepModel.Complex.Match

import StepModel.Generated.HeaderIdsGen
import StepModel.Generated.StepFileGen
/-!
How `STEPfile` numbers, keeps and writes the instances of the header section (model; the statements are in `Props/C16`).

`ReadHeader` gives every header instance an id — `HeaderId( keyword )`: 1 / 2 / 3 for FILE_DESCRIPTION / FILE_NAME /
FILE_SCHEMA, `++_headerId` for anything else —, appends it to a NEW instance manager (`InstMgr::Append` replaces an id that
is already taken by `maxFileId + 1`), completes the manager (`HeaderVerifyInstances`) and merges it into the STEPfile's
header instances (`HeaderMergeInstances`).  `_headerId` is a member of the STEPfile: only the constructor (0) and
`ReadExchangeFile` (5) assign it, so what a header instance is numbered depends on the history of the object.
`WriteHeader` writes the three required instances (found BY NAME) and then every instance whose ID is not 1, 2 or 3.
All constants and the order of the steps come from `Generated.HeaderIdsGen`.
-/
namespace StepModel.HeaderIds
open StepModel.Generated

/-- a header instance: entity keyword (upper case) and its parameter list as text (opaque) -/
structure HEnt where
  name : String
  text : String
  deriving DecidableEq, Repr, Inhabited

/-- an `InstMgr` holding header instances: (file id, instance) in list order; `maxId` 0 also stands for the -1 of an empty manager
    (ids are positive, so the two behave alike in every comparison made) -/
structure HMgr where
  nodes : List (Nat × HEnt) := []
  maxId : Nat := 0
  deriving DecidableEq, Repr, Inhabited

def HMgr.ids (m : HMgr) : List Nat := m.nodes.map (·.1)
def HMgr.has (m : HMgr) (id : Nat) : Bool := m.ids.contains id
def HMgr.find (m : HMgr) (id : Nat) : Option HEnt := (m.nodes.find? (·.1 == id)).map (·.2)
def HMgr.byName (m : HMgr) (name : String) : Option HEnt := (m.nodes.find? (·.2.name == name)).map (·.2)

/-- `InstMgr::Append( se, completeSE )` of an instance that is not in the list yet and carries file id `id` -/
def HMgr.append (m : HMgr) (id : Nat) (e : HEnt) : HMgr :=
  -- id 0 = "none assigned": NextFileId()
  let (id1, max1) := if id = 0 then (m.maxId + 1, m.maxId + 1) else (id, m.maxId)
  -- id already in the list: NextFileId()
  let (id2, max2) := if m.has id1 then (max1 + 1, max1 + 1) else (id1, max1)
  ⟨m.nodes ++ [(id2, e)], if id2 > max2 then id2 else max2⟩

/-- `STEPfile::HeaderId`: (id, new value of `_headerId`) -/
def headerId (hid : Nat) (name : String) : Nat × Nat :=
  match fixedHeaderIds.find? (·.1 == name) with
  | some (_, n) => (n, hid)
  | none => (hid + 1, hid + 1)

/-- the loop of `ReadHeader` over the instances of the section (all of entities the header registry knows) -/
def readSection : Nat → HMgr → List HEnt → HMgr × Nat
  | hid, m, [] => (m, hid)
  | hid, m, e :: es =>
    let (id, hid') := headerId hid e.name
    readSection hid' (m.append id e) es

/-- the instance `HeaderDefaultFileName` / `…FileDescription` / `…FileSchema` creates -/
def defaultEnt (id : Nat) : HEnt :=
  match fixedHeaderIds.find? (·.2 == id) with
  | some (n, _) => ⟨n, "<default>"⟩
  | none => ⟨"", "<default>"⟩

/-- `HeaderVerifyInstances` -/
def verify (m : HMgr) : HMgr :=
  headerVerifyOrder.foldl (fun m id => if m.has id then m else m.append id (defaultEnt id)) m

/-- `HeaderMergeInstances( im )` -/
def merge (old new : HMgr) : HMgr :=
  if old.nodes.length < headerReplaceBelow then new
  else headerMergeOrder.foldl (fun o id =>
    if o.has id then o else match new.find id with | some e => o.append id e | none => o) old

/-- `WriteHeader`: the instances written, in order -/
def writeHeader (m : HMgr) : List HEnt :=
  headerWriteFirst.map (fun n => match m.byName n with
    | some e => e
    | none => ⟨n, "<default>"⟩)
  ++ (m.nodes.filter (fun x => !headerWriteSkipIds.contains x.1)).map (·.2)

/-- the part of a STEPfile object the header depends on -/
structure HState where
  hid : Nat := headerIdCtor
  mgr : HMgr := {}
  deriving DecidableEq, Repr, Inhabited

inductive Fn where | readExchange | appendExchange | readWorking | appendWorking
  deriving DecidableEq, Repr

def Fn.key : Fn → String
  | .readExchange => "readExchange" | .appendExchange => "appendExchange"
  | .readWorking => "readWorking" | .appendWorking => "appendWorking"

def site (f : Fn) : Option Nat × Bool :=
  match headerIdSites.find? (·.1 == f.key) with
  | some (_, v, c) => (v, c)
  | none => (none, false)

/-- one of the four reading functions on a file whose header section holds `ents` -/
def readFileH (f : Fn) (st : HState) (ents : List HEnt) : HState :=
  let old : HMgr := if (site f).2 then {} else st.mgr
  let hid := match (site f).1 with | some n => n | none => st.hid
  let (im, hid') := readSection hid {} ents
  ⟨hid', merge old (verify im)⟩

end StepModel.HeaderIds

import StepModel.ExpPrint
/-!
# `Express.Parse` — tokens, token image of the expression printer, precedence parser (property C07)

`parseExpr` is a precedence-climbing parser equivalent, for the expression sub-language, to the lemon grammar of
`src/express/expparse.y`: two strata (`expression` operators bind weaker than every `simple_expression` operator), inside a
stratum the `%left/%right` levels; prefix `NOT`/`-`/`+` apply to a `unary_expression`, qualifiers bind tighter than prefix
operators; index qualifiers take a `simple_expression`.  Binding powers come from `Generated.ExpPrec`.
`toks` is what the scanner reads back from the fragments of `exprFrags` (same parenthesisation rule `binParen`).
-/
namespace StepModel.Express
open StepModel.Generated

inductive Tok
  | id (s : String) | int (n : Nat) | real (s : List Char) | str (raw : List Char) | estr (s : String) | bin (s : String)
  | kw (s : String)                 -- TRUE FALSE UNKNOWN PI CONST_E SELF ? QUERY
  | op (o : BinOp) | not
  | lp | rp | lb | rb | comma | colon | dot | bslash | bar | allIn
  deriving DecidableEq, Repr, Inhabited

/-- what the scanner does with the body of a simple string literal: `''` stands for one apostrophe -/
def unescQ : List Char → List Char
  | [] => []
  | [c] => [c]
  | c :: d :: r => if c = '\'' ∧ d = '\'' then '\'' :: unescQ r else c :: unescQ (d :: r)

/-- how the scanner reads the word exppp writes for a constant: the keyword, if the word is its spelling in the scanner's table -/
def constTok (text tok : String) : Tok :=
  if lookup2 text ExpPrec.scannerKeywords = some tok then .kw text else .id text

def litToks : Lit → List Tok
  | .int n => [.int n]
  | .real g =>
    let t := real2exp g
    -- a real token carries the value (the `%#.15g` text `g`); the scanner's strtod is not modelled
    if t.all Char.isDigit then [.int (t.foldl (fun a c => 10 * a + (c.toNat - '0'.toNat)) 0)] else [.real g]
  | .str s => [.str (escQ s)]
  | .estr s => [.estr s]
  | .bin s => [.bin (if ExpPrec.binaryPrintedFrom = ExpPrec.binaryStoredIn then s else "(null)")]
  | .ltrue => [.kw "TRUE"] | .lfalse => [.kw "FALSE"] | .lunknown => [.kw "UNKNOWN"]
  | .pi => [constTok ExpPrec.piText "TOK_PI"] | .e => [constTok ExpPrec.eText "TOK_E"] | .infinity => [.kw "?"] | .self => [.kw "SELF"]

/-- a count whose own type was overwritten with `Type_Repeat` is printed with "%d" from `u.integer` -/
def countTok : Expr → Tok
  | .lit (.int n) => .int n
  | .lit .infinity => .kw "?"
  | _ => .int 0

mutual
/-- token image of `exprFrags` -/
def toks (sh : Shared) : Expr → Bool → Option BinOp → List Tok
  | .lit l, _, _ => litToks l
  | .ident s, _, _ => [.id s]
  | .bin o a b, paren, prev =>
    (if binParen o paren prev then [.lp] else []) ++ toks sh a true (some o) ++ [.op o] ++ toks sh b true (rprev o)
      ++ (if binParen o paren prev then [.rp] else [])
  | .neg a, paren, _ => (if paren then [.lp] else []) ++ [.op .minus] ++ toks sh a true none ++ (if paren then [.rp] else [])
  | .not a, paren, _ => (if paren then [.lp] else []) ++ [.not] ++ toks sh a true none ++ (if paren then [.rp] else [])
  | .dot a f, _, _ => toks sh a true none ++ [.dot, .id f]
  | .group a f, _, _ => toks sh a true none ++ [.bslash, .id f]
  | .index a i, _, _ => toks sh a true none ++ [.lb] ++ toks sh i (indexParen i) none ++ [.rb]
  | .range a i j, _, _ => toks sh a true none ++ [.lb] ++ toks sh i (indexParen i) none ++ [.colon] ++ toks sh j (indexParen j) none ++ [.rb]
  | .query v s c, _, _ =>
    [.kw "QUERY", .lp, .id v, .allIn] ++ toks sh s true none ++ [.bar] ++ toks sh c true none ++ [.rp]
  | .call f args, _, _ => [.id f, .lp] ++ argToks sh args true ++ [.rp]
  | .aggr items, _, _ => [.lb] ++ itemToks sh items true ++ [.rb]
  | .nil, _, _ => []
  | .cons _ _, _, _ => []
  | .rep _ _ _, _, _ => []
def argToks (sh : Shared) : Expr → Bool → List Tok
  | .cons e t, first => (if first then [] else [.comma]) ++ toks sh e false none ++ argToks sh t false
  | _, _ => []
def itemToks (sh : Shared) : Expr → Bool → List Tok
  | .cons e t, first =>
    (if first then [] else [if sharedRep sh e then .colon else .comma]) ++ toks sh e false none ++ itemToks sh t false
  | .rep e c t, first =>
    (if first then [] else [if sharedRep sh e then .colon else .comma]) ++ toks sh e false none ++ [.colon]
      ++ (if ExpPrec.repeatOverwritesCountType then
            [countTok c]
          else toks sh c false none)
      ++ itemToks sh t false
  | _, _ => []
end

/-- smallest binding power of a `simple_expression` operator is above this -/
def simpleMin : Nat := 16

def kwLit : String → Option Lit
  | "TRUE" => some .ltrue | "FALSE" => some .lfalse | "UNKNOWN" => some .lunknown
  | "PI" => some .pi | "CONST_E" => some .e | "?" => some .infinity | "SELF" => some .self
  | _ => none

mutual
/-- `expression` restricted to operators of binding power ≥ `m` -/
def parseExpr : Nat → Nat → List Tok → Option (Expr × List Tok)
  | 0, _, _ => none
  | n + 1, m, ts =>
    match parseUnary n ts with
    | some (l, r) => parseLoop n m l r
    | none => none
def parseLoop : Nat → Nat → Expr → List Tok → Option (Expr × List Tok)
  | 0, _, _, _ => none
  | n + 1, m, l, ts =>
    match ts with
    | .op o :: r =>
      if m ≤ o.bp then
        match parseExpr n (if o.rightAssoc then o.bp else o.bp + 1) r with
        | some (x, r') => parseLoop n m (.bin o l x) r'
        | none => none
      else some (l, ts)
    | _ => some (l, ts)
/-- `unary_expression` -/
def parseUnary : Nat → List Tok → Option (Expr × List Tok)
  | 0, _ => none
  | n + 1, ts =>
    match ts with
    | .not :: r => match parseUnary n r with
      | some (x, r') => some (.not x, r')
      | none => none
    | .op .minus :: r => match parseUnary n r with
      | some (x, r') => some (.neg x, r')
      | none => none
    | .op .plus :: r => parseUnary n r
    | _ => match parsePrimary n ts with
      | some (p, r) => parsePostfix n p r
      | none => none
/-- qualifiers -/
def parsePostfix : Nat → Expr → List Tok → Option (Expr × List Tok)
  | 0, _, _ => none
  | n + 1, l, ts =>
    match ts with
    | .dot :: .id f :: r => parsePostfix n (.dot l f) r
    | .bslash :: .id f :: r => parsePostfix n (.group l f) r
    | .lb :: r =>
      match parseExpr n simpleMin r with
      | some (i, .rb :: r') => parsePostfix n (.index l i) r'
      | some (i, .colon :: r') =>
        match parseExpr n simpleMin r' with
        | some (j, .rb :: r'') => parsePostfix n (.range l i j) r''
        | _ => none
      | _ => none
    | _ => some (l, ts)
def parsePrimary : Nat → List Tok → Option (Expr × List Tok)
  | 0, _ => none
  | n + 1, ts =>
    match ts with
    | .int k :: r => some (.lit (.int k), r)
    | .real s :: r => some (.lit (.real s), r)
    | .str s :: r => some (.lit (.str (unescQ s)), r)
    | .estr s :: r => some (.lit (.estr s), r)
    | .bin s :: r => some (.lit (.bin s), r)
    | .kw "QUERY" :: .lp :: .id v :: .allIn :: r =>
      match parseExpr n 0 r with
      | some (s, .bar :: r') =>
        match parseExpr n 0 r' with
        | some (c, .rp :: r'') => some (.query v s c, r'')
        | _ => none
      | _ => none
    | .kw k :: r => match kwLit k with
      | some l => some (.lit l, r)
      | none => none
    | .id f :: .lp :: .rp :: r => some (.call f .nil, r)
    | .id f :: .lp :: r =>
      match parseArgs n r with
      | some (as, .rp :: r') => some (.call f as, r')
      | _ => none
    | .id s :: r => some (.ident s, r)
    | .lp :: r =>
      match parseExpr n 0 r with
      | some (e, .rp :: r') => some (e, r')
      | _ => none
    | .lb :: .rb :: r => some (.aggr .nil, r)
    | .lb :: r =>
      match parseItems n r with
      | some (is, .rb :: r') => some (.aggr is, r')
      | _ => none
    | _ => none
def parseArgs : Nat → List Tok → Option (Expr × List Tok)
  | 0, _ => none
  | n + 1, ts =>
    match parseExpr n 0 ts with
    | some (e, .comma :: r) =>
      match parseArgs n r with
      | some (t, r') => some (.cons e t, r')
      | none => none
    | some (e, r) => some (.cons e .nil, r)
    | none => none
def parseItems : Nat → List Tok → Option (Expr × List Tok)
  | 0, _ => none
  | n + 1, ts =>
    match parseExpr n 0 ts with
    | some (e, .colon :: r) =>
      match parseExpr n 0 r with
      | some (c, .comma :: r') =>
        match parseItems n r' with
        | some (t, r'') => some (.rep e c t, r'')
        | none => none
      | some (c, r') => some (.rep e c .nil, r')
      | none => none
    | some (e, .comma :: r) =>
      match parseItems n r with
      | some (t, r') => some (.cons e t, r')
      | none => none
    | some (e, r) => some (.cons e .nil, r)
    | none => none
end

/-- parse a complete expression -/
def parse (ts : List Tok) : Option Expr :=
  match parseExpr (8 * ts.length + 8) 0 ts with
  | some (e, []) => some e
  | _ => none

/-! ## normal form: what the parser reads back from the printed text -/

/-- `l o r` re-read from `l o r₁ o … o rₖ` when `r = (…(r₁ o r₂)… o rₖ)` was printed without parentheses -/
def attach (o : BinOp) (l : Expr) : Expr → Expr
  | .bin o' r1 r2 => if o' = o then .bin o (attach o l r1) r2 else .bin o l (.bin o' r1 r2)
  | r => .bin o l r

/-- re-association to the left of chains of one operator `o` with `f o` -/
def normWith (f : BinOp → Bool) : Expr → Expr
  | .bin o a b => if f o then attach o (normWith f a) (normWith f b) else .bin o (normWith f a) (normWith f b)
  | .neg a => .neg (normWith f a)
  | .not a => .not (normWith f a)
  | .dot a g => .dot (normWith f a) g
  | .group a g => .group (normWith f a) g
  | .index a i => .index (normWith f a) (normWith f i)
  | .range a i j => .range (normWith f a) (normWith f i) (normWith f j)
  | .query v s c => .query v (normWith f s) (normWith f c)
  | .call g args => .call g (normWith f args)
  | .aggr items => .aggr (normWith f items)
  | .cons e t => .cons (normWith f e) (normWith f t)
  | .rep e c t => .rep (normWith f e) (normWith f c) (normWith f t)
  | e => e

/-- what the parser reads back from exppp's text: a chain is regrouped to the left exactly where exppp omits the parentheses of a
RIGHT operand (`chainR`).  Where it does not (`rightOperandSeesParent = false`) this is the identity: no re-association is assumed
harmless — the operators are overloaded (`s + (a + b)` adds one element to the aggregate `s`, `(s + a) + b` two) and the printer
has no operand types. -/
def norm : Expr → Expr := normWith BinOp.chainR

/-- "up to the splitting of string literals": a sum of two simple string LITERALS — which is what `breakLongStr` makes of one
literal, piece by piece, left-nested — is the literal of the concatenation (both operands are strings, so `+` is concatenation).
Nothing else is joined: `(x + 'a') + 'b'` is not `x + 'ab'` (x may be an aggregate).  Applied to both sides by the oracle. -/
def joinStr : Expr → Expr
  | .bin o a b =>
    let a' := joinStr a
    let b' := joinStr b
    if o = .plus then
      match a', b' with
      | .lit (.str s1), .lit (.str s2) => .lit (.str (s1 ++ s2))
      | _, _ => .bin o a' b'
    else .bin o a' b'
  | .neg a => .neg (joinStr a)
  | .not a => .not (joinStr a)
  | .dot a g => .dot (joinStr a) g
  | .group a g => .group (joinStr a) g
  | .index a i => .index (joinStr a) (joinStr i)
  | .range a i j => .range (joinStr a) (joinStr i) (joinStr j)
  | .query v s c => .query v (joinStr s) (joinStr c)
  | .call g args => .call g (joinStr args)
  | .aggr items => .aggr (joinStr items)
  | .cons e t => .cons (joinStr e) (joinStr t)
  | .rep e c t => .rep (joinStr e) (joinStr c) (joinStr t)
  | e => e

end StepModel.Express

import StepModel.Generated.LibErrors
/-!
# `Express.Diag` — model of `src/express/error.c` (+ the option handling and exit gates of `fedex.c main`)

* the message table is the regenerated `Generated.LibErrors` (zero-filled holes included);
* a diagnostic is data: `(code, file, line, args, via)` where `via` is the reporting entry point;
* C variadic semantics are explicit: a conversion consumes the next argument *if there is one of the right kind*;
  otherwise it consumes an `Ambient` value (whatever happens to be in the register save area / on the stack).
  `ERRORreport_with_line` either hands its `va_list` on (arguments arrive) or passes the `va_list` object as the single
  variadic argument of `ERRORreport_with_symbol` (no argument arrives: every conversion reads `Ambient`) — which of
  the two is decided by the regenerated constant `withLineForwardsVaList`;
* `-w` and `-i`: `ERRORset_warning` / `ERRORset_all_warnings` over the whole table, with the `strcmp(NULL, …)` crash explicit;
* the buffering heap (`-B`) exactly as coded (binary heap keyed on the line number, messages concatenated);
* exit status: the three `ERRORoccurred` gates, `SEVERITY_EXIT` ⇒ `exit(EXPRESS_fail())`, `SEVERITY_DUMP` ⇒ `abort()`.
-/
namespace StepModel.Express.Diag
open StepModel.Generated
open StepModel.Generated.LibErrors (Entry)

/-! ## the table -/

/-- element `i` of `LibErrors[]`; indices without a designated initialiser are zero-filled -/
def zeroEntry (i : Nat) : Entry := ⟨i, "", 0, "", none, false⟩

def lookupIn : List Entry → Nat → Entry
  | [], i => zeroEntry i
  | e :: es, i => if e.code = i then e else lookupIn es i

def entry (i : Nat) : Entry := lookupIn LibErrors.entries i
def severityOf (i : Nat) : Nat := (entry i).severity
def classOf (i : Nat) : Option String := (entry i).cls
def formatOf (i : Nat) : List Char := (entry i).format.toList

/-! ## printf -/

/-- a value passed through `...` -/
inductive Arg
  | str (s : List Char)
  | chr (c : Nat)          -- a `char`/`int` printed with %c
  | int (i : Int)          -- %d / %x
  | real (shown : List Char)   -- %f; the rendering is supplied (libc's `%f` is not modelled)
  deriving Repr, DecidableEq

inductive Conv | s | ch | d | x | f
  deriving Repr, DecidableEq

inductive Piece
  | lit (c : Char)
  | conv (k : Conv)
  | bad                     -- a conversion the model does not know
  deriving Repr, DecidableEq

/-- split a printf format (only the conversions the table uses; `%%` is a literal percent) -/
def parseFmt : List Char → List Piece
  | [] => []
  | '%' :: 's' :: r => .conv .s :: parseFmt r
  | '%' :: 'c' :: r => .conv .ch :: parseFmt r
  | '%' :: 'd' :: r => .conv .d :: parseFmt r
  | '%' :: 'x' :: r => .conv .x :: parseFmt r
  | '%' :: 'f' :: r => .conv .f :: parseFmt r
  | '%' :: '%' :: r => .lit '%' :: parseFmt r
  | '%' :: _ :: r => .bad :: parseFmt r
  | ['%'] => [.bad]
  | c :: r => .lit c :: parseFmt r

/-- what a conversion reads when no (or a wrongly typed) argument was passed: register/stack contents -/
structure Ambient where
  str : Nat → List Char
  chr : Nat → Nat
  int : Nat → Int
  real : Nat → List Char

def natDigits (b n : Nat) : List Char := Nat.toDigits b n
def showInt (i : Int) : List Char := if i < 0 then '-' :: natDigits 10 i.natAbs else natDigits 10 i.natAbs
/-- `%x` of an `int` (two's complement, 32 bit) -/
def showHex (i : Int) : List Char := natDigits 16 (i % 4294967296).toNat
def byteChar (c : Nat) : Char := Char.ofNat (c % 256)

/-- the text a well-typed conversion produces -/
def convArg : Conv → Arg → Option (List Char)
  | .s, .str s => some s
  | .ch, .chr c => some [byteChar c]
  | .ch, .int i => some [byteChar (i % 256).toNat]
  | .d, .int i => some (showInt i)
  | .d, .chr c => some (showInt c)
  | .x, .int i => some (showHex i)
  | .x, .chr c => some (showHex c)
  | .f, .real t => some t
  | _, _ => none

def garbage (amb : Ambient) (k : Conv) (slot : Nat) : List Char :=
  match k with
  | .s => amb.str slot
  | .ch => [byteChar (amb.chr slot)]
  | .d => showInt (amb.int slot)
  | .x => showHex (amb.int slot)
  | .f => amb.real slot

/-- `vfprintf(fmt, ap)`; `slot` counts conversions already performed -/
def renderPieces (amb : Ambient) : List Piece → List Arg → Nat → List Char
  | [], _, _ => []
  | .lit c :: ps, as, k => c :: renderPieces amb ps as k
  | .bad :: ps, as, k => '%' :: '?' :: renderPieces amb ps as k
  | .conv c :: ps, [], k => garbage amb c k ++ renderPieces amb ps [] (k + 1)
  | .conv c :: ps, a :: as, k =>
    (match convArg c a with
     | some t => t
     | none => garbage amb c k) ++ renderPieces amb ps as (k + 1)

/-- the arguments are exactly what the format's conversions expect, in number and kind -/
def fits : List Piece → List Arg → Bool
  | [], [] => true
  | [], _ :: _ => true            -- surplus arguments are ignored by printf
  | .lit _ :: ps, as => fits ps as
  | .bad :: _, _ => false
  | .conv _ :: _, [] => false
  | .conv c :: ps, a :: as => (convArg c a).isSome && fits ps as

/-- substitution of the arguments into the format — the specification of a rendered message -/
def subst : List Piece → List Arg → List Char
  | [], _ => []
  | .lit c :: ps, as => c :: subst ps as
  | .bad :: ps, as => subst ps as
  | .conv _ :: ps, [] => subst ps []
  | .conv c :: ps, a :: as => ((convArg c a).getD []) ++ subst ps as

/-! ## diagnostics as data -/

/-- the entry point a diagnostic is reported through -/
inductive Via
  | plain          -- `ERRORreport( code, ... )`
  | symbol         -- `ERRORreport_with_symbol( code, sym, ... )`
  | line           -- `ERRORreport_with_line( code, line, ... )`
  deriving Repr, DecidableEq

structure Diag where
  code : Nat
  file : List Char
  line : Nat
  args : List Arg
  via : Via
  deriving Repr, DecidableEq

/-- the arguments that actually reach `vfprintf` -/
def arrivingArgs (fwd : Bool) (d : Diag) : List Arg :=
  match d.via with
  | .line => if fwd then d.args else []
  | _ => d.args

def pad3 (n : Nat) : List Char :=
  let ds := natDigits 10 n
  List.replicate (3 - ds.length) '0' ++ ds

/-- `"%s:%d: --ERROR PE%03d: "` / `"%s:%d: WARNING PW%03d: "` -/
def positionedPrefix (d : Diag) : List Char :=
  d.file ++ ':' :: natDigits 10 d.line ++ ":".toList ++
    (if severityOf d.code ≥ LibErrors.SEVERITY_ERROR then " --ERROR PE".toList else " WARNING PW".toList) ++
    pad3 d.code ++ ": ".toList

def plainPrefix (d : Diag) : List Char :=
  if severityOf d.code ≥ LibErrors.SEVERITY_ERROR then "ERROR PE".toList ++ pad3 d.code ++ ": ".toList
  else "WARNING PW".toList ++ pad3 d.code ++ ": ".toList ++
    (if LibErrors.plainWarningPrintsSeverity then natDigits 10 (severityOf d.code) else [])

/-- the message body as printed -/
def body (fwd : Bool) (amb : Ambient) (d : Diag) : List Char :=
  renderPieces amb (parseFmt (formatOf d.code)) (arrivingArgs fwd d) 0

/-- one complete message (without terminator) -/
def message (fwd : Bool) (amb : Ambient) (d : Diag) : List Char :=
  (match d.via with | .plain => plainPrefix d | _ => positionedPrefix d) ++ body fwd amb d

/-! ## `-w` / `-i` -/

inductive Sw | w | i
  deriving Repr, DecidableEq

structure Switch where
  opt : Sw
  name : String
  deriving Repr, DecidableEq

/-- the `override` column, indexed by code (only indices below `tableSize` are ever consulted) -/
abbrev Overrides := Nat → Bool

def initOverrides : Overrides := fun i => (entry i).override

def setAt (ov : Overrides) (i : Nat) (b : Bool) : Overrides := fun j => if j = i then b else ov j

inductive SetOutcome
  | ok (ov : Overrides) (found : Bool)
  | crash                     -- `strcmp( NULL, name )`

/-- may `ERRORset_warning` touch entry `j` (the severity test, when the code has one — regenerated) -/
def switchable (j : Nat) : Bool :=
  !LibErrors.setWarningSeverityGuard || decide (severityOf j ≤ LibErrors.SEVERITY_WARNING)

/-- the loop of `ERRORset_warning` from index `i` on, `n` iterations left -/
def setWarningLoop (guard : Bool) (name : String) (b : Bool) : Nat → Nat → Overrides → Bool → SetOutcome
  | 0, _, ov, found => .ok ov found
  | n + 1, i, ov, found =>
    if switchable i then
      match classOf i with
      | none => if guard then setWarningLoop guard name b n (i + 1) ov found else .crash
      | some c =>
        if c = name then setWarningLoop guard name b n (i + 1) (setAt ov i b) true
        else setWarningLoop guard name b n (i + 1) ov found
    else setWarningLoop guard name b n (i + 1) ov found

def setWarning (guard : Bool) (ov : Overrides) (name : String) (b : Bool) : SetOutcome :=
  setWarningLoop guard name b LibErrors.tableSize 0 ov false

def setAllWarnings (ov : Overrides) (b : Bool) : Overrides :=
  fun i => if severityOf i ≤ LibErrors.SEVERITY_WARNING then b else ov i

/-- result of option processing in `main` -/
inductive Config
  | ok (ov : Overrides)
  | crash                     -- SIGSEGV in strcmp → ERRORabort → abort()
  | usage                     -- "unknown warning", usage text, exit(2)

def applySwitches (guard : Bool) : List Switch → Overrides → Config
  | [], ov => .ok ov
  | s :: ss, ov =>
    match setWarning guard ov s.name (s.opt = (if LibErrors.overrideLetter = 'w' then Sw.w else Sw.i)) with
    | .crash => .crash
    | .ok _ false => .usage
    | .ok ov' true => applySwitches guard ss ov'

/-- the other form of the option loop (regenerated `switchResetsAll`): every `-w` or `-i` first does `ERRORset_all_warnings( 0 )` — all
    warning classes on again, whatever the earlier switches set — and then sets its own class -/
def applySwitchesReset (guard : Bool) : List Switch → Overrides → Config
  | [], ov => .ok ov
  | s :: ss, ov =>
    match setWarning guard (setAllWarnings ov false) s.name (s.opt = (if LibErrors.overrideLetter = 'w' then Sw.w else Sw.i)) with
    | .crash => .crash
    | .ok _ false => .usage
    | .ok ov' true => applySwitchesReset guard ss ov'

/-- `main`'s option processing: without a switch every warning is off (`ERRORset_all_warnings( defaultOverride )`); with switches
    each one sets its own class on a column that starts with every warning on — or, in the reset form, restarts that column -/
def configure (guard : Bool) (sws : List Switch) : Config :=
  match sws with
  | [] => .ok (setAllWarnings initOverrides LibErrors.defaultOverride)
  | _ => if LibErrors.switchResetsAll then applySwitchesReset guard sws initOverrides else applySwitches guard sws initOverrides

/-- `ERRORis_enabled` -/
def enabled (ov : Overrides) (code : Nat) : Bool := !(ov code)

/-! ## running a sequence of reports -/

inductive Halt
  | exit (rc : Int)
  | abort
  deriving Repr, DecidableEq

structure Run where
  printed : List (Nat × List Char)     -- (code, message) in print order
  occurred : Bool
  halt : Option Halt
  deriving Repr, DecidableEq

/-- unbuffered reporting of `ds` in order (stops at the first enabled EXIT/DUMP diagnostic) -/
def report (fwd : Bool) (amb : Ambient) (ov : Overrides) : List Diag → Run → Run
  | [], r => r
  | d :: ds, r =>
    if d.code = LibErrors.SUBORDINATE_FAILED ∨ !enabled ov d.code then report fwd amb ov ds r
    else
      let r' : Run := { r with printed := r.printed ++ [(d.code, message fwd amb d)],
                               occurred := r.occurred || decide (severityOf d.code ≥ LibErrors.SEVERITY_ERROR) }
      if severityOf d.code ≥ LibErrors.SEVERITY_DUMP then { r' with halt := some .abort }
      else if severityOf d.code ≥ LibErrors.SEVERITY_EXIT then { r' with halt := some (.exit LibErrors.failStatus) }
      else report fwd amb ov ds r'

def emptyRun : Run := ⟨[], false, none⟩

/-! ## the buffering heap (`-B`) -/

structure HeapEl where
  line : Nat
  msg : List Char
  deriving Repr, DecidableEq

/-- bubble-up of `ERRORreport_with_symbol`: `heap` is the array from index 1 (so index `k` here is C index `k+1`);
    `child` is a C index; returns the array with the hole filled -/
def heapInsertAt (heap : Array HeapEl) (el : HeapEl) : Nat → Nat → Array HeapEl
  | 0, child => heap.setIfInBounds (child - 1) el
  | fuel + 1, child =>
    let parent := child / 2
    if parent = 0 then heap.setIfInBounds (child - 1) el
    else
      let p := heap.getD (parent - 1) ⟨0, []⟩
      if el.line < p.line then heapInsertAt (heap.setIfInBounds (child - 1) p) el fuel parent
      else heap.setIfInBounds (child - 1) el

def heapInsert (heap : Array HeapEl) (el : HeapEl) : Array HeapEl :=
  let h := heap.push el
  heapInsertAt h el h.size h.size

/-- sift-down of `ERROR_flush_message_buffer` for `n` remaining elements (after the decrement), C indices -/
def heapSift (heap : Array HeapEl) (repl : HeapEl) (n : Nat) : Nat → Nat → Array HeapEl
  | 0, parent => heap.setIfInBounds (parent - 1) repl
  | fuel + 1, parent =>
    let child := 2 * parent
    if child > n then heap.setIfInBounds (parent - 1) repl
    else
      let child := if child + 1 ≤ n ∧ (heap.getD (child - 1) ⟨0, []⟩).line > (heap.getD child ⟨0, []⟩).line then child + 1 else child
      let c := heap.getD (child - 1) ⟨0, []⟩
      if repl.line ≤ c.line then heap.setIfInBounds (parent - 1) repl
      else heapSift (heap.setIfInBounds (parent - 1) c) repl n fuel child

/-- pop everything: the messages in the order `ERROR_flush_message_buffer` prints them -/
def heapFlush : Nat → Array HeapEl → Nat → List (List Char)
  | 0, _, _ => []
  | _, _, 0 => []
  | fuel + 1, heap, n + 1 =>
    let top := heap.getD 0 ⟨0, []⟩
    let repl := heap.getD n ⟨0, []⟩
    top.msg :: heapFlush fuel (heapSift heap repl n (n + 1) 1) n

/-- buffered reporting: positioned diagnostics go to the heap, `ERRORreport` ones straight to stderr -/
structure BufRun where
  out : List (List Char)          -- chunks written to stderr so far, in order
  heap : Array HeapEl
  used : Nat                      -- bytes of ERROR_string used
  occurred : Bool
  halt : Option Halt
  deriving Repr

def flushInto (r : BufRun) : BufRun :=
  { r with out := r.out ++ (heapFlush (r.heap.size + 1) r.heap r.heap.size).map
                    (fun m => if LibErrors.bufferedNewline then m ++ ['\n'] else m),
           heap := #[], used := 0 }

def reportBuffered (fwd : Bool) (amb : Ambient) (ov : Overrides) : List Diag → BufRun → BufRun
  | [], r => r
  | d :: ds, r =>
    if d.code = LibErrors.SUBORDINATE_FAILED ∨ !enabled ov d.code then reportBuffered fwd amb ov ds r
    else
      let isErr := decide (severityOf d.code ≥ LibErrors.SEVERITY_ERROR)
      let m := message fwd amb d
      match d.via with
      | .plain =>
        let r0 : BufRun := { r with out := r.out ++ [m ++ ['\n']], occurred := r.occurred || isErr }
        if severityOf d.code ≥ LibErrors.SEVERITY_EXIT then
          let r1 := flushInto r0
          { r1 with halt := some (if severityOf d.code ≥ LibErrors.SEVERITY_DUMP then .abort else .exit LibErrors.failStatus) }
        else reportBuffered fwd amb ov ds r0
      | _ =>
        -- vsnprintf truncates at the end of the 4000-byte area
        let room := LibErrors.ERROR_MAX_SPACE - r.used
        let stored := m.take (room - 1)
        let used' := min LibErrors.ERROR_MAX_SPACE (r.used + m.length) + (if r.used + m.length < LibErrors.ERROR_MAX_SPACE then 1 else 0)
        let r0 : BufRun := { r with heap := heapInsert r.heap ⟨d.line, stored⟩, used := used', occurred := r.occurred || isErr }
        let full := decide (used' + LibErrors.ERROR_MAX_STRLEN > LibErrors.ERROR_MAX_SPACE ∨ r0.heap.size = LibErrors.ERROR_MAX_ERRORS)
        if severityOf d.code ≥ LibErrors.SEVERITY_EXIT ∨ (LibErrors.bufferFullEndsRun ∧ full) then
          let r1 := flushInto r0
          { r1 with halt := some (if severityOf d.code ≥ LibErrors.SEVERITY_DUMP then .abort else .exit LibErrors.failStatus) }
        else if full then
          -- the buffer is full: print what it holds, sorted by line, and go on collecting
          reportBuffered fwd amb ov ds (flushInto r0)
        else reportBuffered fwd amb ov ds r0

/-- the end of a buffered run that was not cut short: `EXPRESS_fail` always flushes, `EXPRESS_succeed` when the code does
    (regenerated `succeedFlushes`; otherwise the buffered warnings of a run without errors are lost) -/
def finishBuffered (r : BufRun) : BufRun :=
  match r.halt with
  | some _ => r
  | none => if r.occurred || LibErrors.succeedFlushes then flushInto r else { r with heap := #[], used := 0 }

/-! ## `fedex.c main`: phases, gates, exit status -/

/-- what one tool run did, as far as the properties can observe -/
structure ToolResult where
  printed : List (Nat × List Char)
  banner : Option (List Char)     -- "Errors in input" / "No errors in input" (absent when a hook replaces it or on abort)
  status : Option Int             -- `none` = killed by SIGABRT
  backendRan : Bool
  deriving Repr, DecidableEq

inductive Tool | checkExpress | exppp | exp2cxx | exp2python
  deriving Repr, DecidableEq

def succeedStatusOf : Tool → Int
  | .exp2cxx => LibErrors.succeedStatusExp2cxx
  | .exp2python => LibErrors.succeedStatusExp2python
  | _ => LibErrors.succeedStatus

def hasBackend : Tool → Bool
  | .checkExpress => false
  | _ => true

def failResult (r : Run) (ran : Bool) : ToolResult :=
  ⟨r.printed, some LibErrors.failBanner.toList, some LibErrors.failStatus, ran⟩

def haltResult (r : Run) (h : Halt) (ran : Bool) : ToolResult :=
  match h with
  | .exit rc => ⟨r.printed, some LibErrors.failBanner.toList, some rc, ran⟩
  | .abort => ⟨r.printed, none, none, ran⟩

/-- `main` after option processing: parse-phase diagnostics, gate, resolve-phase diagnostics, gate, backend
    (its diagnostics), gate, succeed.  The diagnostics of each phase are inputs: they come from `Express.Lex` /
    `Express.Resolve`. -/
def runMain (tool : Tool) (fwd : Bool) (amb : Ambient) (ov : Overrides)
    (parseDiags resolveDiags backendDiags : List Diag) : ToolResult :=
  let r1 := report fwd amb ov parseDiags emptyRun
  match r1.halt with
  | some h => haltResult r1 h false
  | none =>
    if LibErrors.gateAfterParse ∧ r1.occurred then failResult r1 false
    else
      let r2 := report fwd amb ov resolveDiags r1
      match r2.halt with
      | some h => haltResult r2 h false
      | none =>
        if LibErrors.gateAfterResolve ∧ r2.occurred then failResult r2 false
        else
          let r3 := if hasBackend tool then report fwd amb ov backendDiags r2 else r2
          match r3.halt with
          | some h => haltResult r3 h (hasBackend tool)
          | none =>
            if LibErrors.gateAfterBackend ∧ r3.occurred then failResult r3 (hasBackend tool)
            else ⟨r3.printed,
                  (if tool = .checkExpress ∨ tool = .exppp then some LibErrors.succeedBanner.toList else none),
                  some (succeedStatusOf tool), hasBackend tool⟩

/-- the whole command: options, then `runMain` -/
inductive CmdResult
  | ran (r : ToolResult)
  | crashed                 -- abort in option processing
  | usage                   -- exit 2 after the usage text
  deriving Repr, DecidableEq

def runCmd (tool : Tool) (guard fwd : Bool) (amb : Ambient) (sws : List Switch)
    (parseDiags resolveDiags backendDiags : List Diag) : CmdResult :=
  match configure guard sws with
  | .crash => .crashed
  | .usage => .usage
  | .ok ov => .ran (runMain tool fwd amb ov parseDiags resolveDiags backendDiags)

end StepModel.Express.Diag

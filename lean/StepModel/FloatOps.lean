import StepModel.IStream
/-!
# `FloatOps` — reals without axioms

REAL/NUMBER values go through `strtod` (inside `istream >> double`) and `sprintf("%.15G")`.  The scanners in
`P21.Lex` are parameterised over a structure `FloatOps F`; whatever the theorems need to know about the
platform's conversions is passed as an explicit *hypothesis* (`FloatLaws`), never as an axiom.  The hypotheses are
validated against libc by `harness/h_literals.cc` (`fl g15`, `fl parse`) on every run.

Split of responsibilities:
* purely *lexical* facts are definitions of the model, not parameters: which texts `strtod` converts completely
  (`parseFloatText`, law L3 — validated by `fl parse`), and the decimal a text denotes (`Decimal`);
* *numeric* facts are the parameter: `ofDecimal` (correctly rounded decimal → double, `none` = overflow/HUGE_VAL),
  `fmtG15` (`%.15G`), `isRealNull` (bit-equal to `(double)FLT_MIN`, stepcode's in-band "unset").

`dblOps : FloatOps Nat` is the executable instance used by the driver: doubles as their 64-bit patterns,
conversions in exact `Nat` arithmetic (round-half-even), so model and libc can be compared bit for bit.
-/
namespace StepModel

/-- a decimal number `(-1)^neg * mant * 10^exp` -/
structure Decimal where
  neg : Bool
  mant : Nat
  exp : Int
deriving Repr, DecidableEq

/-- split a maximal run of digits off the front -/
def takeDigits : List Byte → List Byte × List Byte
  | [] => ([], [])
  | c :: r => if isDigit c then let p := takeDigits r; (c :: p.1, p.2) else ([], c :: r)

/-- optional sign: (collected, rest) -/
def optSign (r : List Byte) : List Byte × List Byte :=
  match r with
  | 43 :: t => ([43], t)
  | 45 :: t => ([45], t)
  | _ => ([], r)

/-- optional decimal point: (collected, rest) -/
def optDot (r : List Byte) : List Byte × List Byte :=
  match r with
  | 46 :: t => ([46], t)
  | _ => ([], r)

/-- The decimal denoted by a text of the shape `sign? digits* ('.' digits*)? ([eE] sign? digits+)?` with at least
    one mantissa digit — exactly the texts `strtod` converts *completely* (libstdc++ fails the extraction
    otherwise: `__sanity == __s || *__sanity != '\0'`).  `none` = the extraction fails with value 0. -/
def parseFloatText (t : List Byte) : Option Decimal :=
  let sg := optSign t
  let neg := sg.1 == [45]
  let ip := takeDigits sg.2
  let dot := optDot ip.2
  let fp : List Byte × List Byte := if dot.1.isEmpty then ([], ip.2) else takeDigits dot.2
  if ip.1.isEmpty && fp.1.isEmpty then none
  else
    let mant := digitsVal (ip.1 ++ fp.1) 0
    match fp.2 with
    | [] => some ⟨neg, mant, - (fp.1.length : Int)⟩
    | c :: r =>
      if c == 101 || c == 69 then
        let esg := optSign r
        let ed := takeDigits esg.2
        if ed.1.isEmpty || !ed.2.isEmpty then none
        else
          let e : Int := digitsVal ed.1 0
          some ⟨neg, mant, (if esg.1 == [45] then -e else e) - (fp.1.length : Int)⟩
      else none

/-- platform conversions (the parameter of the REAL/NUMBER scanners) -/
structure FloatOps (F : Type) where
  /-- correctly rounded decimal → double; `none` = magnitude too large (`strtod` returns ±HUGE_VAL, the stream fails) -/
  ofDecimal : Decimal → Option F
  /-- what `WriteReal`'s `sprintf` loop leaves in its buffer: `sprintf("%.15G", v)`, or — repaired `WriteReal`, `dblOpsRT` — the
      shortest of `%.15G`, `%.16G`, `%.17G` that converts back -/
  fmtG15 : F → List Byte
  /-- plain `%.15G` (`ostream << double` with `precision(15)` in `STEPattribute::asStr`), whatever `WriteReal` does -/
  fmtPlain15 : F → List Byte := fmtG15
  /-- bit-equal to `(double)FLT_MIN`, the in-band "unset" of REAL and NUMBER attributes -/
  isRealNull : F → Bool

/-- outcome of `in >> d` after the lexical stage -/
inductive FloatConv (F : Type) where
  | invalid            -- text not a complete number: value 0, failbit
  | overflow           -- ±HUGE_VAL: value ±DBL_MAX, failbit
  | ok (v : F)

def FloatOps.conv {F} (ops : FloatOps F) (text : List Byte) : FloatConv F :=
  match parseFloatText text with
  | none => .invalid
  | some d => match ops.ofDecimal d with
    | none => .overflow
    | some v => .ok v

/-! ## executable instance: IEEE-754 binary64 as bit patterns, exact arithmetic -/
namespace Dbl

/-- round-half-even of `n / d` (`d > 0`) -/
def roundDiv (n d : Nat) : Nat :=
  let q := n / d
  let r := n % d
  if 2 * r < d then q else if 2 * r > d then q + 1 else if q % 2 == 0 then q else q + 1

def pow2 (k : Nat) : Nat := 2 ^ k

/-- bits of the double nearest to `n/d` (positive), or `none` on overflow -/
def ofRatio (n d : Nat) : Option Nat :=
  if n == 0 then some 0 else
  -- k with 2^k ≤ n/d < 2^(k+1)
  let k0 : Int := (n.log2 : Int) - (d.log2 : Int)
  let ge (k : Int) : Bool := if k ≥ 0 then d * pow2 k.toNat ≤ n else d ≤ n * pow2 (-k).toNat   -- 2^k ≤ n/d
  let k : Int := if ge (k0 + 1) then k0 + 1 else if ge k0 then k0 else k0 - 1
  let e2 : Int := if k - 52 < -1074 then -1074 else k - 52
  let q : Nat := if e2 ≥ 0 then roundDiv n (d * pow2 e2.toNat) else roundDiv (n * pow2 (-e2).toNat) d
  let (q, e2) : Nat × Int := if q == pow2 53 then (pow2 52, e2 + 1) else (q, e2)
  if q < pow2 52 then some q               -- subnormal (e2 = -1074) or zero
  else if e2 + 1075 ≥ 2047 then none
  else some ((e2 + 1075).toNat * pow2 52 + (q - pow2 52))

def signBit : Nat := 2 ^ 63

def ofDecimal (x : Decimal) : Option Nat :=
  let sg := if x.neg then signBit else 0
  if x.mant == 0 then some sg
  else
    let nd := (Nat.toDigits 10 x.mant).length
    -- magnitude guards keep 10^|exp| small: value ≥ 10^exp, value < 10^(nd+exp)
    if x.exp > 310 then none
    else if (nd : Int) + x.exp < -330 then some sg
    else
      let r := if x.exp ≥ 0 then ofRatio (x.mant * 10 ^ x.exp.toNat) 1 else ofRatio x.mant (10 ^ (-x.exp).toNat)
      r.map (· + sg)

def ascii (s : String) : List Byte := s.toList.map Char.toNat

def dropTrailingZeros (ds : List Byte) : List Byte :=
  (ds.reverse.dropWhile (· == 48)).reverse

/-- the `%.<p>G` layout of the significant digits `ds` of a number `d.ddd… · 10^x`: scientific style for `x < -4` or `x ≥ p`
    (the precision), fixed style otherwise; trailing zeros and a bare decimal point are dropped -/
def fmtDigits (p : Nat) (sg ds : List Byte) (x : Int) : List Byte :=
  if x < -4 || x ≥ (p : Int) then
    let fracPart := dropTrailingZeros (ds.drop 1)
    let ex := x.natAbs
    let exd : List Byte := (Nat.toDigits 10 ex).map Char.toNat
    let exd := if exd.length < 2 then 48 :: exd else exd
    sg ++ ds.take 1 ++ (if fracPart.isEmpty then [] else 46 :: fracPart) ++ [69] ++ [if x < 0 then 45 else 43] ++ exd
  else if x ≥ 0 then
    let ip := ds.take (x.toNat + 1)
    let fracPart := dropTrailingZeros (ds.drop (x.toNat + 1))
    sg ++ ip ++ (if fracPart.isEmpty then [] else 46 :: fracPart)
  else
    let fracPart := dropTrailingZeros (List.replicate ((-x).toNat - 1) 48 ++ ds)
    sg ++ [48, 46] ++ fracPart

/-- `p` significant decimal digits of the positive rational `n/d`: `(q, x)` with `q = round(n/d / 10^(x-p+1))`, a `p`-digit
    number, and `10^x ≤ n/d < 10^(x+1)` (after the carry of a round-up to `10^p`) -/
def sigDigits (p : Nat) (n d : Nat) : Nat × Int :=
  -- X with 10^X ≤ n/d < 10^(X+1)
  let ge (x : Int) : Bool := if x ≥ 0 then d * 10 ^ x.toNat ≤ n else d ≤ n * 10 ^ (-x).toNat
  let x0 : Int := ((Nat.toDigits 10 n).length : Int) - ((Nat.toDigits 10 d).length : Int)
  let x : Int := if ge (x0 + 1) then x0 + 1 else if ge x0 then x0 else x0 - 1
  let sh : Int := x - ((p : Int) - 1)
  let q : Nat := if sh ≥ 0 then roundDiv n (d * 10 ^ sh.toNat) else roundDiv (n * 10 ^ (-sh).toNat) d
  if q == 10 ^ p then (10 ^ (p - 1), x + 1) else (q, x)

/-- the finite non-zero case of `%.<p>G`: sign, significand `m`, binary exponent `e2` -/
def fmtFinite (p : Nat) (sg : List Byte) (m : Nat) (e2 : Int) : List Byte :=
  let n : Nat := if e2 ≥ 0 then m * pow2 e2.toNat else m
  let d : Nat := if e2 ≥ 0 then 1 else pow2 (-e2).toNat
  let q := sigDigits p n d
  fmtDigits p sg ((Nat.toDigits 10 q.1).map Char.toNat) q.2     -- exactly p digits

/-- `sprintf("%.<p>G")` of a bit pattern (`p ≥ 1`) -/
def fmtG (p : Nat) (bits : Nat) : List Byte :=
  let neg := bits / signBit % 2 == 1
  let be := bits / pow2 52 % 2048
  let fr := bits % pow2 52
  let sg : List Byte := if neg then [45] else []
  if be == 2047 then sg ++ (if fr == 0 then ascii "INF" else ascii "NAN")
  else if be == 0 && fr == 0 then sg ++ [48]
  else fmtFinite p sg (if be == 0 then fr else fr + pow2 52) (if be == 0 then -1074 else (be : Int) - 1075)

/-- `sprintf("%.15G")` of a bit pattern -/
def fmtG15 (bits : Nat) : List Byte := fmtG 15 bits

/-- `(double)FLT_MIN` = 2^-126 -/
def realNullBits : Nat := (1023 - 126) * pow2 52

end Dbl

/-- the executable instance: doubles as 64-bit patterns -/
def dblOps : FloatOps Nat where
  ofDecimal := Dbl.ofDecimal
  fmtG15 := Dbl.fmtG15
  isRealNull := fun b => b == Dbl.realNullBits

namespace Dbl

/-- `strtod( text ) == val`: the text converts back to exactly this double -/
def readsBack (text : List Byte) (bits : Nat) : Bool :=
  match parseFloatText text with
  | some d => ofDecimal d == some bits
  | none => false

/-- the text the repaired `WriteReal` ends its loop with (fixes/C09-10): `%.15G`; when that does not convert back to the
    value, `%.16G`; when that does not either, `%.17G` -/
def fmtShortest (bits : Nat) : List Byte :=
  if readsBack (fmtG 15 bits) bits then fmtG 15 bits
  else if readsBack (fmtG 16 bits) bits then fmtG 16 bits
  else fmtG 17 bits

end Dbl

/-- the executable instance for the repaired `WriteReal`: the printed text is the shortest of `%.15G`, `%.16G`, `%.17G` that
    converts back (the field keeps its name: it is "what `WriteReal`'s `sprintf` leaves in the buffer") -/
def dblOpsRT : FloatOps Nat where
  ofDecimal := Dbl.ofDecimal
  fmtG15 := Dbl.fmtShortest
  fmtPlain15 := Dbl.fmtG15
  isRealNull := fun b => b == Dbl.realNullBits

/-- the instance that follows the source: `roundTrips` is regenerated from the shape of `WriteReal` -/
def dblOpsOf (roundTrips : Bool) : FloatOps Nat := if roundTrips then dblOpsRT else dblOps

end StepModel

import StepModel.ComplexForest
/-! The list of an entity means: the flat rooted legality of the entity with at least one direct subtype present. -/
namespace StepModel.Complex
open Classical

section
variable {s : Schema} {lvl : Name → Nat} (W : ForestWF s lvl)
include W

omit W in
theorem localOK_of_admits {e : Entity} {X S : List Name} (hS : S ∈ e.admits) (hne : S ≠ [])
    (hsame : SameSet S (present e X)) : localOK e X = true := by
  rw [localOK_eq]
  have hp : (present e X).isEmpty = false := by
    cases hpe : present e X with
    | nil =>
      cases S with
      | nil => exact absurd rfl hne
      | cons a _ => have := (hsame a).mp (by simp); rw [hpe] at this; cases this
    | cons => rfl
  simp only [hp, Bool.false_eq_true, if_false]
  exact List.any_eq_true.mpr ⟨S, hS, (sameSet_iff _ _).mpr hsame⟩

/-- **The list of an entity, flat form.**  `T` gives every direct subtype a tree whose meaning is the flat rooted
legality of that subtype (induction hypothesis). -/
theorem head_flat {e : Entity} (he : e ∈ s) (T : Name → Option Tree)
    (hT : ∀ m ∈ e.subs, ∃ t, T m = some t)
    (ih : ∀ m t Z, T m = some t → (Der (denote t) Z ↔ Flat s m Z)) (X : List Name) :
    PAnd (SameSet [e.name]) (AdmFam T e.admits) X ↔ Flat s e.name X ∧ present e X ≠ [] := by
  have hfe : s.find e.name = some e := find_of_mem W.nodup he
  have hsub : ∀ m, m ∈ e.subs → IsSub s e.name m := fun m hm => ⟨e, hfe, hm⟩
  have hW := entity_admits_within W he
  constructor
  · rintro ⟨Y0, Y, h0, ⟨S, hS, Zs, hfam, hZs⟩, hX⟩
    obtain ⟨hSsub, hSnd, hSne⟩ := hW S hS
    obtain ⟨l, hl1, hl2, hl3⟩ := hfam.pairs
    -- facts about the pairs
    have hflat : ∀ p ∈ l, Flat s p.1 p.2 := by
      intro p hp
      obtain ⟨t, ht, hd⟩ := hl3 p hp
      exact (ih p.1 t p.2 ht).mp hd
    have hpS : ∀ p ∈ l, p.1 ∈ S := fun p hp => by rw [← hl1]; exact List.mem_map_of_mem hp
    have hYmem : ∀ y, y ∈ Y ↔ ∃ p ∈ l, y ∈ p.2 := by
      intro y; rw [← hZs y, ← hl2]; exact mem_flatten_snd
    have hXmem : ∀ y, y ∈ X ↔ y = e.name ∨ y ∈ Y := by
      intro y; rw [← hX y, List.mem_append, ← h0 y]; simp
    have hnd : (l.map Prod.fst).Nodup := by rw [hl1]; exact hSnd
    have hin : ∀ p ∈ l, ∀ y ∈ p.2, y ∈ X := fun p hp y hy => (hXmem y).mpr (Or.inr ((hYmem y).mpr ⟨p, hp, hy⟩))
    have hlvl : ∀ p ∈ l, ∀ y ∈ p.2, lvl e.name < lvl y := by
      intro p hp y hy
      have h1 := IsSub.lvlLt W (hsub p.1 (hSsub _ (hpS p hp)))
      have h2 := Reach.lvl_le W ((hflat p hp).2.1 y hy)
      omega
    -- present = S
    have hpres : SameSet S (present e X) := by
      intro k
      rw [mem_present]
      constructor
      · intro hk
        refine ⟨hSsub k hk, ?_⟩
        rw [← hl1] at hk
        obtain ⟨p, hp, rfl⟩ := List.mem_map.mp hk
        exact hin p hp p.1 (hflat p hp).1
      · rintro ⟨hks, hkX⟩
        rcases (hXmem k).mp hkX with h | h
        · have := IsSub.lvlLt W (hsub k hks); rw [h] at this; omega
        · obtain ⟨p, hp, hkp⟩ := (hYmem k).mp h
          have := sub_below_sub W (hsub p.1 (hSsub _ (hpS p hp))) (hsub k hks) ((hflat p hp).2.1 k hkp)
          rw [this]; exact hpS p hp
    refine ⟨⟨(hXmem _).mpr (Or.inl rfl), ?_, ?_, ?_⟩, ?_⟩
    · intro y hy
      rcases (hXmem y).mp hy with h | h
      · rw [h]; exact Reach.refl _
      · obtain ⟨p, hp, hyp⟩ := (hYmem y).mp h
        exact Reach.step (hsub p.1 (hSsub _ (hpS p hp))) ((hflat p hp).2.1 y hyp)
    · intro y hy hne
      rcases (hXmem y).mp hy with h | h
      · exact absurd h hne
      · obtain ⟨p, hp, hyp⟩ := (hYmem y).mp h
        by_cases hyp1 : y = p.1
        · obtain ⟨em, hf, hs'⟩ := IsSub.supers W (hsub p.1 (hSsub _ (hpS p hp)))
          refine ⟨em, by rw [hyp1]; exact hf, fun q hq => ?_⟩
          rw [hs'] at hq; simp at hq; rw [hq]; exact (hXmem _).mpr (Or.inl rfl)
        · obtain ⟨ey, hfy, hsup⟩ := (hflat p hp).2.2.1 y hyp hyp1
          exact ⟨ey, hfy, fun q hq => hin p hp q (hsup q hq)⟩
    · intro y hy
      rcases (hXmem y).mp hy with h | h
      · rw [h]; exact ⟨e, hfe, localOK_of_admits hS hSne hpres⟩
      · obtain ⟨p, hp, hyp⟩ := (hYmem y).mp h
        obtain ⟨ey, hfy, hloc⟩ := (hflat p hp).2.2.2 y hyp
        refine ⟨ey, hfy, ?_⟩
        rw [← hloc]
        apply localOK_congr
        intro k hk
        constructor
        · intro hkX
          have hyk : IsSub s y k := ⟨ey, hfy, hk⟩
          have hl1' := hlvl p hp y hyp
          have hl2' := IsSub.lvlLt W hyk
          rcases (hXmem k).mp hkX with h' | h'
          · rw [h'] at hl2'; omega
          · obtain ⟨p', hp', hkp'⟩ := (hYmem k).mp h'
            have hr1 : Reach s p.1 k := ((hflat p hp).2.1 y hyp).snoc hyk
            have hr2 : Reach s p'.1 k := (hflat p' hp').2.1 k hkp'
            have := sub_above_unique W (hsub p.1 (hSsub _ (hpS p hp))) (hsub p'.1 (hSsub _ (hpS p' hp'))) hr1 hr2
            have := pair_unique hnd p hp p' hp' this
            rw [this]; exact hkp'
        · intro hkp; exact hin p hp k hkp
    · intro hemp
      cases S with
      | nil => exact hSne rfl
      | cons a _ => have := (hpres a).mp (by simp); rw [hemp] at this; cases this
  · rintro ⟨⟨h1, h2, h3, h4⟩, hpne⟩
    obtain ⟨e', hfe', hloc⟩ := h4 e.name h1
    rw [hfe] at hfe'; cases hfe'
    rw [localOK_eq] at hloc
    have hp : (present e X).isEmpty = false := by
      cases hpe : present e X with
      | nil => exact absurd hpe hpne
      | cons => rfl
    simp only [hp, Bool.false_eq_true, if_false] at hloc
    obtain ⟨S, hS, hsame⟩ := List.any_eq_true.mp hloc
    have hsame' : SameSet S (present e X) := (sameSet_iff _ _).mp hsame
    obtain ⟨hSsub, hSnd, hSne⟩ := hW S hS
    let Z : Name → List Name := fun m => X.filter (fun y => decide (Reach s m y))
    have hZ : ∀ m y, y ∈ Z m ↔ y ∈ X ∧ Reach s m y := by
      intro m y; simp [Z]
    have hSX : ∀ m ∈ S, m ∈ X := fun m hm => (mem_present.mp ((hsame' m).mp hm)).2
    have hflat : ∀ m ∈ S, Flat s m (Z m) := by
      intro m hm
      have hms := hsub m (hSsub m hm)
      have hlm := IsSub.lvlLt W hms
      refine ⟨(hZ m m).mpr ⟨hSX m hm, Reach.refl _⟩, fun y hy => ((hZ m y).mp hy).2, ?_, ?_⟩
      · intro y hy hne
        obtain ⟨hyX, hry⟩ := (hZ m y).mp hy
        have hly := Reach.lvl_le W hry
        have hyn : y ≠ e.name := by intro h; rw [h] at hly; omega
        obtain ⟨ey, hfy, hsup⟩ := h3 y hyX hyn
        refine ⟨ey, hfy, fun q hq => (hZ m q).mpr ⟨hsup q hq, ?_⟩⟩
        have hqy := isSub_of_super W hfy hq
        rcases Reach.last hry with h | ⟨q', hq', hq'y⟩
        · exact absurd h hne
        · have := IsSub.parent_unique W hq'y hqy
          rw [← this]; exact hq'
      · intro y hy
        obtain ⟨hyX, hry⟩ := (hZ m y).mp hy
        obtain ⟨ey, hfy, hl⟩ := h4 y hyX
        refine ⟨ey, hfy, ?_⟩
        rw [← hl]
        apply localOK_congr
        intro k hk
        constructor
        · intro hkz; exact ((hZ m k).mp hkz).1
        · intro hkX; exact (hZ m k).mpr ⟨hkX, hry.snoc ⟨ey, hfy, hk⟩⟩
    have hfam : Fam T S (S.map Z) := by
      apply Fam.ofMap
      intro m hm
      obtain ⟨t, ht⟩ := hT m (hSsub m hm)
      exact ⟨t, ht, (ih m t (Z m) ht).mpr (hflat m hm)⟩
    refine ⟨[e.name], (S.map Z).flatten, SameSet.refl _, ⟨S, hS, S.map Z, hfam, SameSet.refl _⟩, ?_⟩
    intro y
    simp only [List.mem_append, List.mem_singleton, List.mem_flatten, List.mem_map]
    constructor
    · rintro (h | ⟨Zm, ⟨m, hm, rfl⟩, hy⟩)
      · rw [h]; exact h1
      · exact ((hZ m y).mp hy).1
    · intro hy
      by_cases hyn : y = e.name
      · exact Or.inl hyn
      · refine Or.inr ?_
        have hr := h2 y hy
        cases hr with
        | refl => exact absurd rfl hyn
        | @step _ k _ hs hk =>
          have hkX : k ∈ X := anc_mem W h3 hk hy (IsSub.lvlLt W hs)
          obtain ⟨e', hfe', hks⟩ := hs
          rw [hfe] at hfe'; cases hfe'
          have hkS : k ∈ S := (hsame' k).mpr (mem_present.mpr ⟨hks, hkX⟩)
          exact ⟨Z k, ⟨k, hkS, rfl⟩, (hZ k y).mpr ⟨hy, hk⟩⟩

/-- `addImplicitSubs` and the declarations agree on the implicit subtypes, for every entity and every fuel
(decidable per schema; `m_c08 implok` checks it on every generated schema) -/
def AgreeAll (s : Schema) : Prop :=
  ∀ e ∈ s, ∀ f b, (match e.expr with | none => some [] | some x => exprKids (fun n => entTree s f n) .superHead x) = some b →
    ImplicitAgree e b

theorem flat_single {e : Entity} (he : e ∈ s) {X : List Name} (hf : Flat s e.name X) (hp : present e X = []) :
    SameSet [e.name] X := by
  obtain ⟨h1, h2, h3, _⟩ := hf
  have hfe : s.find e.name = some e := find_of_mem W.nodup he
  intro y
  simp only [List.mem_singleton]
  constructor
  · intro h; rw [h]; exact h1
  · intro hy
    cases h2 y hy with
    | refl => rfl
    | @step _ k _ hs hk =>
      have hkX : k ∈ X := anc_mem W h3 hk hy (IsSub.lvlLt W hs)
      obtain ⟨e', hfe', hks⟩ := hs
      rw [hfe] at hfe'; cases hfe'
      have : k ∈ present e X := mem_present.mpr ⟨hks, hkX⟩
      rw [hp] at this; cases this

theorem single_flat {e : Entity} (he : e ∈ s) {X : List Name} (hs : SameSet [e.name] X) (ha : e.abstract = false) :
    Flat s e.name X := by
  have hfe : s.find e.name = some e := find_of_mem W.nodup he
  have hmem : ∀ y, y ∈ X ↔ y = e.name := fun y => by rw [← hs y]; simp
  refine ⟨(hmem _).mpr rfl, fun m hm => by rw [(hmem m).mp hm]; exact Reach.refl _,
    fun m hm hne => absurd ((hmem m).mp hm) hne, fun m hm => ?_⟩
  rw [(hmem m).mp hm]
  refine ⟨e, hfe, ?_⟩
  rw [localOK_eq]
  have : present e X = [] := by
    cases hp : present e X with
    | nil => rfl
    | cons k _ =>
      have hk : k ∈ present e X := by rw [hp]; simp
      obtain ⟨hks, hkX⟩ := mem_present.mp hk
      have := IsSub.lvlLt W ⟨e, hfe, hks⟩
      rw [(hmem k).mp hkX] at this; omega
  simp [this, ha]

theorem flat_split {e : Entity} (he : e ∈ s) (X : List Name) :
    Flat s e.name X ↔ (e.abstract = false ∧ SameSet [e.name] X) ∨ (Flat s e.name X ∧ present e X ≠ []) := by
  constructor
  · intro hf
    by_cases hp : present e X = []
    · refine Or.inl ⟨?_, flat_single W he hf hp⟩
      obtain ⟨e', hfe', hl⟩ := hf.2.2.2 e.name hf.1
      rw [find_of_mem W.nodup he] at hfe'; cases hfe'
      rw [localOK_eq, hp] at hl
      simpa using hl
    · exact Or.inr ⟨hf, hp⟩
  · rintro (⟨ha, hs⟩ | ⟨hf, _⟩)
    · exact single_flat W he hs ha
    · exact hf

/-- **Meaning of an entity's tree = flat rooted legality**, and of an entity's list = the same with a subtype present. -/
theorem tree_flat (hag : AgreeAll s) : ∀ (f : Nat),
    (∀ n t X, entTree s f n = some t → (Der (denote t) X ↔ Flat s n X)) ∧
    (∀ e h X, e ∈ s → e.subs ≠ [] → headOf s f e = some h → (Der (denote h) X ↔ Flat s e.name X ∧ present e X ≠ [])) := by
  intro f
  induction f using Nat.strongRecOn with
  | _ f ih =>
    have hhead : ∀ e h X, e ∈ s → e.subs ≠ [] → headOf s f e = some h →
        (Der (denote h) X ↔ Flat s e.name X ∧ present e X ≠ []) := by
      intro e h X he hsub hh
      cases f with
      | zero => simp [headOf] at hh
      | succ f' =>
        rw [head_meaning s f' e h hh hsub (hag e he f') X]
        exact head_flat W he _ (headOf_defined s f' e h hh (hag e he f'))
          (fun m t Z ht => (ih f' (Nat.lt_succ_self _)).1 m t Z ht) X
    refine ⟨?_, hhead⟩
    intro n t X ht
    cases f with
    | zero => simp [entTree] at ht
    | succ f' =>
      obtain ⟨e, hfe, hiff⟩ := entTree_meaning s f' n t ht X
      obtain ⟨he, hen⟩ := find_some hfe
      subst hen
      rw [hiff]
      split
      · rename_i hemp
        have hsubs : e.subs = [] := by simpa using hemp
        have hna : e.abstract = false := by
          cases ha : e.abstract with
          | false => rfl
          | true => exact absurd hsubs (W.abstract_subs e he ha)
        constructor
        · intro hs; exact single_flat W he hs hna
        · intro hf
          exact flat_single W he hf (by simp [present, hsubs])
      · rename_i hemp
        have hsubs : e.subs ≠ [] := by intro h; rw [h] at hemp; simp at hemp
        rw [flat_split W he X]
        constructor
        · rintro ⟨h, hh, hor⟩
          rcases hor with h1 | h1
          · exact Or.inl h1
          · exact Or.inr (((ih f' (Nat.lt_succ_self _)).2 e h X he hsubs hh).mp h1)
        · intro hor
          -- the tree exists, so the list does
          simp only [entTree, hfe, hemp] at ht
          cases hh : headOf s f' e with
          | none => rw [hh] at ht; simp at ht
          | some h =>
            refine ⟨h, rfl, ?_⟩
            rcases hor with h1 | h1
            · exact Or.inl h1
            · exact Or.inr (((ih f' (Nat.lt_succ_self _)).2 e h X he hsubs hh).mpr h1)

end

end StepModel.Complex

import StepModel.ComplexOrFree3
import StepModel.ComplexSem
/-! The plain meaning of an OR-free list with distinct leaves, in terms of `satT`/`covT`:
`Y` is derived exactly when the list is satisfied by `Y` and `Y` is its cover. -/
namespace StepModel.Complex.Match
open StepModel.Generated StepModel.Complex

theorem Der_single_name' (n : Name) (Y : List Name) : Der [[n]] Y ↔ SameSet [n] Y := by
  simp only [Der, List.mem_singleton]
  constructor
  · rintro ⟨Z, rfl, h⟩; exact h
  · intro h; exact ⟨[n], rfl, h⟩

theorem mem_prodD_cons'' {d : List (List Name)} {ds : List (List (List Name))} {Z : List Name} :
    Z ∈ prodD (d :: ds) ↔ ∃ x ∈ d, ∃ y ∈ prodD ds, Z = x ++ y := by
  simp only [prodD, List.mem_flatMap, List.mem_map]
  constructor
  · rintro ⟨x, hx, y, hy, rfl⟩; exact ⟨x, hx, y, hy, rfl⟩
  · rintro ⟨x, hx, y, hy, rfl⟩; exact ⟨x, hx, y, hy, rfl⟩

theorem mem_selD_cons'' {d : List (List Name)} {ds : List (List (List Name))} {Z : List Name} :
    Z ∈ selD (d :: ds) ↔ Z ∈ selD ds ∨ Z ∈ d ∨ ∃ x ∈ d, ∃ y ∈ selD ds, Z = x ++ y := by
  simp only [selD, List.mem_append, List.mem_flatMap, List.mem_map]
  constructor
  · rintro ((h | h) | ⟨x, hx, y, hy, rfl⟩)
    · exact Or.inl h
    · exact Or.inr (Or.inl h)
    · exact Or.inr (Or.inr ⟨x, hx, y, hy, rfl⟩)
  · rintro (h | h | ⟨x, hx, y, hy, rfl⟩)
    · exact Or.inl (Or.inl h)
    · exact Or.inl (Or.inr h)
    · exact Or.inr ⟨x, hx, y, hy, rfl⟩

mutual
  /-- whatever a list derives consists of leaves of the list -/
  theorem denote_sub : ∀ (t : Tree), ∀ Z ∈ denote t, ∀ z ∈ Z, z ∈ leaves t
    | .simple n, Z, hZ, z, hz => by
      simp only [denote, List.mem_singleton] at hZ; subst hZ; simpa [leaves] using hz
    | .and cs, Z, hZ, z, hz => by simp only [denote] at hZ; simp only [leaves]; exact prod_sub cs Z hZ z hz
    | .andor cs, Z, hZ, z, hz => by simp only [denote] at hZ; simp only [leaves]; exact sel_sub cs Z hZ z hz
    | .or cs, Z, hZ, z, hz => by simp only [denote] at hZ; simp only [leaves]; exact flat_sub cs Z hZ z hz
  theorem prod_sub : ∀ (cs : List Tree), ∀ Z ∈ prodD (denoteL cs), ∀ z ∈ Z, z ∈ leavesL cs
    | [], Z, hZ, z, hz => by simp only [denoteL, prodD, List.mem_singleton] at hZ; subst hZ; cases hz
    | c :: cs, Z, hZ, z, hz => by
      simp only [denoteL] at hZ
      obtain ⟨x, hx, y, hy, rfl⟩ := mem_prodD_cons''.mp hZ
      simp only [leavesL, List.mem_append] at hz ⊢
      rcases hz with h | h
      · exact Or.inl (denote_sub c x hx z h)
      · exact Or.inr (prod_sub cs y hy z h)
  theorem sel_sub : ∀ (cs : List Tree), ∀ Z ∈ selD (denoteL cs), ∀ z ∈ Z, z ∈ leavesL cs
    | [], Z, hZ, z, hz => by simp [denoteL, selD] at hZ
    | c :: cs, Z, hZ, z, hz => by
      simp only [denoteL] at hZ
      simp only [leavesL, List.mem_append]
      rcases mem_selD_cons''.mp hZ with h | h | ⟨x, hx, y, hy, rfl⟩
      · exact Or.inr (sel_sub cs Z h z hz)
      · exact Or.inl (denote_sub c Z h z hz)
      · rcases List.mem_append.mp hz with h' | h'
        · exact Or.inl (denote_sub c x hx z h')
        · exact Or.inr (sel_sub cs y hy z h')
  theorem flat_sub : ∀ (cs : List Tree), ∀ Z ∈ (denoteL cs).flatten, ∀ z ∈ Z, z ∈ leavesL cs
    | [], Z, hZ, z, hz => by simp [denoteL] at hZ
    | c :: cs, Z, hZ, z, hz => by
      simp only [denoteL, List.flatten_cons, List.mem_append] at hZ
      simp only [leavesL, List.mem_append]
      rcases hZ with h | h
      · exact Or.inl (denote_sub c Z h z hz)
      · exact Or.inr (flat_sub cs Z h z hz)
end

theorem der_sub {t : Tree} {Y : List Name} (h : Der (denote t) Y) : ∀ y ∈ Y, y ∈ leaves t := by
  obtain ⟨Z, hZ, hs⟩ := h
  intro y hy; exact denote_sub t Z hZ y ((hs y).mpr hy)

mutual
  /-- `satT`/`covT` look at the request only through the leaves of the list -/
  theorem sat_cov_congr (Y Y' : List Name) : ∀ (t : Tree), (∀ x ∈ leaves t, (x ∈ Y ↔ x ∈ Y')) →
      satT Y t = satT Y' t ∧ covT Y t = covT Y' t
    | .simple n, h => by
      have := h n (by simp [leaves])
      refine ⟨?_, rfl⟩
      simp only [satT, List.contains_eq_mem]
      by_cases h1 : n ∈ Y
      · simp [h1, this.mp h1]
      · have h2 : n ∉ Y' := fun h' => h1 (this.mpr h'); simp [h1, h2]
    | .and cs, h => by simp only [satT, covT]; exact ⟨(all_congr Y Y' cs h).1, (all_congr Y Y' cs h).2⟩
    | .andor cs, h => by simp only [satT, covT]; exact ⟨(any_congr Y Y' cs h).1, (any_congr Y Y' cs h).2⟩
    | .or cs, _ => ⟨rfl, rfl⟩
  theorem all_congr (Y Y' : List Name) : ∀ (cs : List Tree), (∀ x ∈ leavesL cs, (x ∈ Y ↔ x ∈ Y')) →
      satAll Y cs = satAll Y' cs ∧ covAll Y cs = covAll Y' cs
    | [], _ => ⟨rfl, rfl⟩
    | c :: cs, h => by
      obtain ⟨a1, a2⟩ := sat_cov_congr Y Y' c (fun x hx => h x (by simp [leavesL, hx]))
      obtain ⟨b1, b2⟩ := all_congr Y Y' cs (fun x hx => h x (by simp [leavesL, hx]))
      simp [satAll, covAll, a1, a2, b1, b2]
  theorem any_congr (Y Y' : List Name) : ∀ (cs : List Tree), (∀ x ∈ leavesL cs, (x ∈ Y ↔ x ∈ Y')) →
      satAny Y cs = satAny Y' cs ∧ covSat Y cs = covSat Y' cs
    | [], _ => ⟨rfl, rfl⟩
    | c :: cs, h => by
      obtain ⟨a1, a2⟩ := sat_cov_congr Y Y' c (fun x hx => h x (by simp [leavesL, hx]))
      obtain ⟨b1, b2⟩ := any_congr Y Y' cs (fun x hx => h x (by simp [leavesL, hx]))
      simp [satAny, covSat, a1, a2, b1, b2]
end

theorem covSat_nil_of_unsat (Y : List Name) : ∀ (cs : List Tree), satAny Y cs = false → covSat Y cs = []
  | [], _ => rfl
  | c :: cs, h => by
    simp only [satAny, Bool.or_eq_false_iff] at h
    simp [covSat, h.1, covSat_nil_of_unsat Y cs h.2]

/-- a list none of whose leaves is requested is not satisfied -/
theorem unsat_of_untouched (Y : List Name) (t : Tree) (hw : treeWF t = true) (h : ∀ x ∈ leaves t, x ∉ Y) : satT Y t = false := by
  cases hs : satT Y t with
  | false => rfl
  | true =>
    obtain ⟨h1, h2⟩ := cov_sat Y t hs hw
    cases hc : covT Y t with
    | nil => exact absurd hc h2
    | cons y ys =>
      have hy : y ∈ covT Y t := by rw [hc]; simp
      exact absurd (h1 y hy) (h y (cov_sub_leaves Y t y hy))

theorem unsatAny_of_untouched (Y : List Name) : ∀ (cs : List Tree), treeWFL cs = true → (∀ x ∈ leavesL cs, x ∉ Y) →
    satAny Y cs = false
  | [], _, _ => rfl
  | c :: cs, hw, h => by
    simp only [treeWFL, Bool.and_eq_true] at hw
    simp only [satAny, Bool.or_eq_false_iff]
    exact ⟨unsat_of_untouched Y c hw.1 (fun x hx => h x (by simp [leavesL, hx])),
      unsatAny_of_untouched Y cs hw.2 (fun x hx => h x (by simp [leavesL, hx]))⟩


theorem sameSet_append_split {Y A B : List Name} (h : SameSet Y (A ++ B)) : ∀ x, x ∈ Y ↔ x ∈ A ∨ x ∈ B := by
  intro x; rw [h x]; simp

mutual
  /-- **Meaning of an OR-free list with distinct leaves**: `Y` (inside the leaves) is derived iff the list is satisfied by
  `Y` and `Y` is exactly its cover -/
  theorem orfree_meaning : ∀ (t : Tree), orFree t = true → treeWF t = true → (leaves t).Nodup →
      ∀ Y, (∀ y ∈ Y, y ∈ leaves t) → (Der (denote t) Y ↔ satT Y t = true ∧ SameSet Y (covT Y t))
    | .simple n, _, _, _, Y, hY => by
      simp only [denote, satT, covT, List.contains_eq_mem, decide_eq_true_eq]
      rw [Der_single_name']
      constructor
      · intro h; exact ⟨(h n).mp (by simp), h.symm⟩
      · rintro ⟨_, h⟩; exact h.symm
    | .and cs, hof, hwf, hnd, Y, hY => by
      simp only [orFree] at hof
      simp only [treeWF, Bool.and_eq_true] at hwf
      simp only [leaves] at hnd hY
      simp only [denote, satT, covT]
      exact and_meaning cs hof hwf.2 hnd Y hY
    | .andor cs, hof, hwf, hnd, Y, hY => by
      simp only [orFree] at hof
      simp only [treeWF, Bool.and_eq_true] at hwf
      simp only [leaves] at hnd hY
      simp only [denote, satT, covT]
      exact andor_meaning cs hof hwf.2 hnd Y hY
    | .or cs, hof, _, _, _, _ => by simp [orFree] at hof
  theorem and_meaning : ∀ (cs : List Tree), orFreeL cs = true → treeWFL cs = true → (leavesL cs).Nodup →
      ∀ Y, (∀ y ∈ Y, y ∈ leavesL cs) → (Der (prodD (denoteL cs)) Y ↔ satAll Y cs = true ∧ SameSet Y (covAll Y cs))
    | [], _, _, _, Y, hY => by
      simp only [denoteL, satAll, covAll, true_and]
      rw [Der_prodD_nil]
      exact ⟨fun h => h.symm, fun h => h.symm⟩
    | c :: cs, hof, hwf, hnd, Y, hY => by
      simp only [orFreeL, Bool.and_eq_true] at hof
      simp only [treeWFL, Bool.and_eq_true] at hwf
      simp only [leavesL] at hnd hY
      obtain ⟨hnd1, hnd2, hdis⟩ := nodup_split hnd
      simp only [denoteL]
      rw [Der_prodD_cons]
      constructor
      · rintro ⟨Y1, Y2, h1, h2, hs⟩
        have hs1 := der_sub h1
        have hs2 : ∀ y ∈ Y2, y ∈ leavesL cs := by
          obtain ⟨Z, hZ, hzs⟩ := h2
          intro y hy; exact prod_sub cs Z hZ y ((hzs y).mpr hy)
        have hmem : ∀ x, x ∈ Y ↔ x ∈ Y1 ∨ x ∈ Y2 := fun x => by rw [← hs x]; simp
        have hc1 : ∀ x ∈ leaves c, (x ∈ Y ↔ x ∈ Y1) := by
          intro x hx; rw [hmem x]
          constructor
          · rintro (h | h)
            · exact h
            · exact absurd (hs2 x h) (hdis x hx)
          · exact Or.inl
        have hc2 : ∀ x ∈ leavesL cs, (x ∈ Y ↔ x ∈ Y2) := by
          intro x hx; rw [hmem x]
          constructor
          · rintro (h | h)
            · exact absurd hx (hdis x (hs1 x h))
            · exact h
          · exact Or.inr
        obtain ⟨a1, a2⟩ := (orfree_meaning c hof.1 hwf.1 hnd1 Y1 hs1).mp h1
        obtain ⟨b1, b2⟩ := (and_meaning cs hof.2 hwf.2 hnd2 Y2 hs2).mp h2
        obtain ⟨e1, e2⟩ := sat_cov_congr Y Y1 c hc1
        obtain ⟨f1, f2⟩ := all_congr Y Y2 cs hc2
        refine ⟨by simp [satAll, e1, a1, f1, b1], ?_⟩
        intro x
        simp only [covAll, List.mem_append]
        rw [hmem x, e2, f2, a2 x, b2 x]
      · rintro ⟨hsat, hs⟩
        simp only [satAll, Bool.and_eq_true] at hsat
        simp only [covAll] at hs
        have hmem := sameSet_append_split hs
        have hcovN := (cov_sat Y c hsat.1 hwf.1).1
        have hc1 : ∀ x ∈ leaves c, (x ∈ Y ↔ x ∈ covT Y c) := by
          intro x hx; rw [hmem x]
          constructor
          · rintro (h | h)
            · exact h
            · exact absurd (covAll_sub Y cs x h) (hdis x hx)
          · exact Or.inl
        have hc2 : ∀ x ∈ leavesL cs, (x ∈ Y ↔ x ∈ covAll Y cs) := by
          intro x hx; rw [hmem x]
          constructor
          · rintro (h | h)
            · exact absurd hx (hdis x (cov_sub_leaves Y c x h))
            · exact h
          · exact Or.inr
        obtain ⟨e1, e2⟩ := sat_cov_congr Y (covT Y c) c hc1
        obtain ⟨f1, f2⟩ := all_congr Y (covAll Y cs) cs hc2
        refine ⟨covT Y c, covAll Y cs, ?_, ?_, hs.symm⟩
        · exact (orfree_meaning c hof.1 hwf.1 hnd1 _ (cov_sub_leaves Y c)).mpr ⟨by rw [← e1]; exact hsat.1, by rw [← e2]; exact SameSet.refl _⟩
        · exact (and_meaning cs hof.2 hwf.2 hnd2 _ (covAll_sub Y cs)).mpr ⟨by rw [← f1]; exact hsat.2, by rw [← f2]; exact SameSet.refl _⟩
  theorem andor_meaning : ∀ (cs : List Tree), orFreeL cs = true → treeWFL cs = true → (leavesL cs).Nodup →
      ∀ Y, (∀ y ∈ Y, y ∈ leavesL cs) → (Der (selD (denoteL cs)) Y ↔ satAny Y cs = true ∧ SameSet Y (covSat Y cs))
    | [], _, _, _, Y, _ => by
      simp only [denoteL, satAny]
      rw [Der_selD_nil]; simp
    | c :: cs, hof, hwf, hnd, Y, hY => by
      simp only [orFreeL, Bool.and_eq_true] at hof
      simp only [treeWFL, Bool.and_eq_true] at hwf
      simp only [leavesL] at hnd hY
      obtain ⟨hnd1, hnd2, hdis⟩ := nodup_split hnd
      simp only [denoteL]
      rw [Der_selD_cons]
      unfold PSel
      have IHc := orfree_meaning c hof.1 hwf.1 hnd1
      have IHr := andor_meaning cs hof.2 hwf.2 hnd2
      constructor
      · rintro (h1 | h2 | ⟨Y1, Y2, h1, h2, hs⟩)
        · -- only this child contributes
          have hs1 := der_sub h1
          obtain ⟨a1, a2⟩ := (IHc Y hs1).mp h1
          have hun : satAny Y cs = false :=
            unsatAny_of_untouched Y cs hwf.2 (fun x hx hxY => hdis x (hs1 x hxY) hx)
          refine ⟨by simp [satAny, a1], ?_⟩
          simp only [covSat, a1, if_true, covSat_nil_of_unsat Y cs hun, List.append_nil]
          exact a2
        · -- only later children contribute
          have hs2 : ∀ y ∈ Y, y ∈ leavesL cs := by
            obtain ⟨Z, hZ, hzs⟩ := h2
            intro y hy; exact sel_sub cs Z hZ y ((hzs y).mpr hy)
          obtain ⟨b1, b2⟩ := (IHr Y hs2).mp h2
          have hun : satT Y c = false :=
            unsat_of_untouched Y c hwf.1 (fun x hx hxY => hdis x hx (hs2 x hxY))
          refine ⟨by simp [satAny, b1], ?_⟩
          simp only [covSat, hun, Bool.false_eq_true, if_false, List.nil_append]
          exact b2
        · have hs1 := der_sub h1
          have hs2 : ∀ y ∈ Y2, y ∈ leavesL cs := by
            obtain ⟨Z, hZ, hzs⟩ := h2
            intro y hy; exact sel_sub cs Z hZ y ((hzs y).mpr hy)
          have hmem : ∀ x, x ∈ Y ↔ x ∈ Y1 ∨ x ∈ Y2 := fun x => by rw [← hs x]; simp
          have hc1 : ∀ x ∈ leaves c, (x ∈ Y ↔ x ∈ Y1) := by
            intro x hx; rw [hmem x]
            constructor
            · rintro (h | h)
              · exact h
              · exact absurd (hs2 x h) (hdis x hx)
            · exact Or.inl
          have hc2 : ∀ x ∈ leavesL cs, (x ∈ Y ↔ x ∈ Y2) := by
            intro x hx; rw [hmem x]
            constructor
            · rintro (h | h)
              · exact absurd hx (hdis x (hs1 x h))
              · exact h
            · exact Or.inr
          obtain ⟨a1, a2⟩ := (IHc Y1 hs1).mp h1
          obtain ⟨b1, b2⟩ := (IHr Y2 hs2).mp h2
          obtain ⟨e1, e2⟩ := sat_cov_congr Y Y1 c hc1
          obtain ⟨f1, f2⟩ := any_congr Y Y2 cs hc2
          refine ⟨by simp [satAny, e1, a1], ?_⟩
          intro x
          simp only [covSat, e1, a1, if_true, List.mem_append]
          rw [hmem x, e2, f2, a2 x, b2 x]
      · rintro ⟨hsat, hs⟩
        simp only [covSat] at hs
        by_cases hsc : satT Y c = true
        · by_cases hsr : satAny Y cs = true
          · -- both
            simp only [hsc, if_true] at hs
            have hmem := sameSet_append_split hs
            have hc1 : ∀ x ∈ leaves c, (x ∈ Y ↔ x ∈ covT Y c) := by
              intro x hx; rw [hmem x]
              constructor
              · rintro (h | h)
                · exact h
                · exact absurd (covSat_sub Y cs x h) (hdis x hx)
              · exact Or.inl
            have hc2 : ∀ x ∈ leavesL cs, (x ∈ Y ↔ x ∈ covSat Y cs) := by
              intro x hx; rw [hmem x]
              constructor
              · rintro (h | h)
                · exact absurd hx (hdis x (cov_sub_leaves Y c x h))
                · exact h
              · exact Or.inr
            obtain ⟨e1, e2⟩ := sat_cov_congr Y (covT Y c) c hc1
            obtain ⟨f1, f2⟩ := any_congr Y (covSat Y cs) cs hc2
            refine Or.inr (Or.inr ⟨covT Y c, covSat Y cs, ?_, ?_, hs.symm⟩)
            · exact (IHc _ (cov_sub_leaves Y c)).mpr ⟨by rw [← e1]; exact hsc, by rw [← e2]; exact SameSet.refl _⟩
            · exact (IHr _ (covSat_sub Y cs)).mpr ⟨by rw [← f1]; exact hsr, by rw [← f2]; exact SameSet.refl _⟩
          · -- only this child
            have hsr' : satAny Y cs = false := by simpa using hsr
            simp only [hsc, if_true, covSat_nil_of_unsat Y cs hsr', List.append_nil] at hs
            have hsub : ∀ y ∈ Y, y ∈ leaves c := fun y hy => cov_sub_leaves Y c y ((hs y).mp hy)
            exact Or.inl ((IHc Y hsub).mpr ⟨hsc, hs⟩)
        · have hsc' : satT Y c = false := by simpa using hsc
          simp only [satAny, hsc', Bool.false_or] at hsat
          simp only [hsc', Bool.false_eq_true, if_false, List.nil_append] at hs
          have hsub : ∀ y ∈ Y, y ∈ leavesL cs := fun y hy => covSat_sub Y cs y ((hs y).mp hy)
          exact Or.inr (Or.inl ((IHr Y hsub).mpr ⟨hsat, hs⟩))
end

end StepModel.Complex.Match

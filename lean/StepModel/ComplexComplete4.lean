import StepModel.ComplexComplete3
/-! Completeness on distinct leaves, phase 1 (`matchNonORs`), the induction. -/
namespace StepModel.Complex.Match
open StepModel.Generated StepModel.Complex

theorem atLeast_of_known {cs : List ST} (hne : cs ≠ []) (hk : ∀ c ∈ cs, c.viable ≠ .unknown)
    (ha : ∀ c ∈ cs, c.viable ≠ .unknown → c.atLeastSome = true) : ∃ c ∈ cs, c.atLeastSome = true := by
  obtain ⟨c, hc⟩ := List.exists_mem_of_ne_nil cs hne
  exact ⟨c, hc, ha c hc (hk c hc)⟩

/-- the node of an AND / ANDOR list from its children after `setViableVal` -/
theorem node_pos {N : List Name} {W : Prop} {j : Join} {c c1 : Int} {k : Nat} {cs : List ST} {es : Ents}
    (hne : cs ≠ []) (hst : ∀ x ∈ cs, Stored x.viable) (hcov : CovL N cs)
    (hals : (∀ x ∈ cs, x.viable ≠ .unknown) → ∃ x ∈ cs, x.atLeastSome = true)
    (hhas : allMarked es = true → W ∨ HasAllAny cs)
    (hac : (setViableVal cs es ≠ .unknown → MT.rank .some_ ≤ (setViableVal cs es).rank ∧ ∀ x ∈ cs, x.viable ≠ .unknown) →
      AC N (.mult j (setViableVal cs es) c c1 k cs)) :
    P1 N W es (.mult j (setViableVal cs es) c c1 k cs) := by
  obtain ⟨s1, s2, s3⟩ := setViableVal_props cs es hne hst
  refine ⟨fun n hn hd => ?_, fun hk => ?_, hac (fun hk => ?_), fun ham => ?_⟩
  · simp only [holds]
    simp only [dl] at hd
    split at hd
    · split at hd
      · cases hd
      · exact hcov n hn hd
    · rename_i hk
      have hnu : ∀ x ∈ cs, x.viable ≠ .unknown := fun x hx e => hk (s2.mpr ⟨x, hx, e⟩)
      rw [← dlL_known cs hnu] at hd
      exact hcov n hn hd
  · simp only [ST.viable] at hk
    have hnu : ∀ x ∈ cs, x.viable ≠ .unknown := fun x hx e => hk (s2.mpr ⟨x, hx, e⟩)
    simp only [ST.atLeastSome, ST.viable, decide_eq_true_eq]
    exact decide_eq_true (setViableVal_ge_some hnu (hals hnu))
  · have hnu : ∀ x ∈ cs, x.viable ≠ .unknown := fun x hx e => hk (s2.mpr ⟨x, hx, e⟩)
    exact ⟨setViableVal_ge_some hnu (hals hnu), hnu⟩
  · rcases hhas ham with w | h
    · exact Or.inl w
    · right
      by_cases hk : setViableVal cs es = .unknown
      · exact Or.inr ⟨hk, h⟩
      · left
        have hnu : ∀ x ∈ cs, x.viable ≠ .unknown := fun x hx e => hk (s2.mpr ⟨x, hx, e⟩)
        obtain ⟨x, hx, hxa⟩ := (HasAllAny_iff cs).mp h
        exact setViableVal_all_of ham hnu hst ⟨x, hx, HasAll_known hxa (hnu x hx)⟩

mutual
  theorem dl_sub : ∀ (t : ST) (n : Name), n ∈ dl t → n ∈ lvS t
    | .simple _ _ _, n, h => h
    | .mult j v _ _ _ cs, n, h => by
      simp only [dl] at h
      simp only [lvS]
      split at h
      · split at h
        · cases h
        · exact dlL_sub cs n h
      · exact h
  theorem dlL_sub : ∀ (cs : List ST) (n : Name), n ∈ dlL cs → n ∈ lvSL cs
    | [], _, h => by simp [dlL] at h
    | c :: cs, n, h => by
      simp only [dlL, List.mem_append] at h
      simp only [lvSL, List.mem_append]
      rcases h with e | e
      · exact Or.inl (dl_sub c n e)
      · exact Or.inr (dlL_sub cs n e)
end

theorem HasAll_of_all {t : ST} (h : t.viable = .all) : HasAll t := by
  cases t with
  | simple => exact h
  | mult => exact Or.inl h

theorem cov_of_dead {N : List Name} {t : ST} (hd : ∀ x ∈ lvS t, x ∉ N) : Cov N t :=
  fun n hn hdl => absurd hn (hd n (dl_sub t n hdl))

theorem mem_freshL {y : ST} : ∀ {rest : List Tree}, y ∈ freshL rest → ∃ T ∈ rest, y = fresh T
  | [], h => by simp [freshL] at h
  | a :: l, h => by
    simp only [freshL, List.mem_cons] at h
    rcases h with e | e
    · exact ⟨a, by simp, e⟩
    · obtain ⟨T, hT, hy⟩ := mem_freshL e
      exact ⟨T, List.mem_cons_of_mem _ hT, hy⟩

theorem leaves_sub_leavesL {T : Tree} : ∀ {rest : List Tree}, T ∈ rest → ∀ n ∈ leaves T, n ∈ leavesL rest
  | [], h, _, _ => by cases h
  | a :: l, h, n, hn => by
    simp only [leavesL, List.mem_append]
    rcases List.mem_cons.mp h with e | e
    · subst e; exact Or.inl hn
    · exact Or.inr (leaves_sub_leavesL e n hn)

theorem ac_and {N : List Name} {v : MT} {c c1 : Int} {k : Nat} {cs : List ST} (hne : cs ≠ []) (hac : ∀ x ∈ cs, AC N x)
    (hk : v ≠ .unknown → MT.rank .some_ ≤ v.rank ∧ ∀ x ∈ cs, x.viable ≠ .unknown) : AC N (.mult .and v c c1 k cs) := by
  refine ⟨fun h => ?_, fun h => ?_⟩
  · simp only [ST.viable] at h
    obtain ⟨a, b⟩ := hk h
    simp only [PA]; exact ⟨a, hne, PAall_of cs hac b⟩
  · simp only [ST.viable] at h
    simp only [PP]; exact ⟨h, PPall_of cs hac⟩

theorem ac_andor {N : List Name} {v : MT} {c c1 : Int} {k : Nat} {cs : List ST} (hcl : ∀ x ∈ cs, AC N x ∨ DC N x)
    (hany : ∃ x ∈ cs, AC N x)
    (hk : v ≠ .unknown → MT.rank .some_ ≤ v.rank ∧ ∀ x ∈ cs, x.viable ≠ .unknown) : AC N (.mult .andor v c c1 k cs) := by
  refine ⟨fun h => ?_, fun h => ?_⟩
  · simp only [ST.viable] at h
    obtain ⟨a, b⟩ := hk h
    obtain ⟨x, hx, hax⟩ := hany
    simp only [PA]
    exact ⟨a, PAsome_of cs hcl (fun y hy _ => b y hy), PAany_of cs ⟨x, hx, hax.1 (b x hx)⟩⟩
  · simp only [ST.viable] at h
    simp only [PP]; exact ⟨h, PPsome_of cs hcl, PPany_of cs hany⟩

theorem not_als_of_notK {v : MT} (hs : Stored v) (hk : ¬ K v) : ¬ MT.rank .some_ ≤ v.rank := by
  rcases stored_cases hs with h | h | h
  · rw [h]; simp [MT.rank]
  · rw [h]; simp [MT.rank]
  · exact absurd h hk

theorem nonors_pos (N : List Name) (hN : N.Pairwise (· < ·)) : ∀ f : Nat,
    (∀ T es r o W, matchNonORs f (fresh T) es = .ok r → HT N T o es → AliveT N T → (allMarked es = true → W) →
      P1 N W r.2.1 r.1) ∧
    (∀ restT done es r o W, andNonORs f done (freshL restT) es = .ok r → HTL N restT o es → AliveAll N restT →
      (allMarked es = true → W) →
      ∃ tail, r.1 = done ++ tail ∧ CovL N tail ∧ (∀ c ∈ tail, c.viable ≠ .unknown → c.atLeastSome = true) ∧
        (allMarked r.2.1 = true → W ∨ HasAllAny tail) ∧ r.2.2 = false ∧ (∀ x ∈ tail, AC N x)) ∧
    (∀ restT done es r o W, andorNonORs f done (freshL restT) es = .ok r → HTL N restT o es → AliveSome N restT →
      (allMarked es = true → W) →
      ∃ tail, r.1 = done ++ tail ∧ (r.2.2 = false → CovL N tail) ∧
        (r.2.2 = true → ∀ n ∈ N, n ∈ lvSL tail → n ∈ holdsL tail) ∧
        (AliveAny N restT → (∀ c ∈ tail, c.viable ≠ .unknown) → ∃ c ∈ tail, c.atLeastSome = true) ∧
        (allMarked r.2.1 = true → W ∨ HasAllAny tail) ∧
        (r.2.2 = true → ∀ d ∈ done, d.viable ≠ .unknown) ∧
        (∀ x ∈ tail, AC N x ∨ DC N x) ∧ (AliveAny N restT → ∃ x ∈ tail, AC N x) ∧
        (r.2.2 = true → (∀ x ∈ tail, (AC N x ∧ x.viable ≠ .unknown) ∨ DC N x) ∧
          ∃ x ∈ tail, AC N x ∧ x.viable ≠ .unknown)) := by
  intro f
  induction f with
  | zero =>
    exact ⟨fun _ _ _ _ _ h => by simp [matchNonORs] at h, fun _ _ _ _ _ _ h => by simp [andNonORs] at h,
      fun _ _ _ _ _ _ h => by simp [andorNonORs] at h⟩
  | succ f ih =>
    obtain ⟨ih1, ih2, ih3⟩ := ih
    refine ⟨?_, ?_, ?_⟩
    · intro T es r o W h H hal hW
      have S := (nonors_sem N hN (f + 1)).1 T es r h H.wf H.nm
      cases T with
      | simple n =>
        simp only [fresh, matchNonORs] at h
        cases h
        simp only [AliveT] at hal
        exact simple_pos N hN n es o W H.nm H.f0 (H.out n (by simp [leaves])) hal
      | or ts =>
        simp only [fresh, matchNonORs] at h
        cases h
        simp only [AliveT] at hal
        refine ⟨fun n _ hd => ?_, fun hk => absurd rfl hk, ⟨fun hk => absurd rfl hk, fun _ => ⟨ts, rfl, hal⟩⟩,
          fun ham => Or.inl (hW ham)⟩
        have : dl (ST.mult .or .unknown orInitChoice orInitChoice1 orInitCount (freshL ts)) = [] := by simp [dl]
        rw [this] at hd; cases hd
      | and ts =>
        have hwf := H.wf
        simp only [treeWF, Bool.and_eq_true, Bool.not_eq_true', List.isEmpty_eq_false_iff] at hwf
        simp only [AliveT] at hal
        simp only [fresh, matchNonORs, freshL_isEmpty hwf.1, Bool.false_eq_true, if_false] at h
        obtain ⟨⟨cs', es', failed⟩, h1, h2⟩ := bind_ok' h
        have HL : HTL N ts o es := ⟨hwf.2, by simpa [leaves] using H.nd, fun n hn => H.out n (by simpa [leaves] using hn), H.f0, H.nm⟩
        obtain ⟨tail, htail, hcov, hals, hhas, hflag, hacs⟩ := ih2 ts [] es _ o W h1 HL hal hW
        simp only [List.nil_append] at htail
        subst htail
        simp only at hflag
        subst hflag
        simp only [Bool.false_eq_true, if_false] at h2
        cases h2
        have hsem := S.sem
        simp only [skel] at hsem
        have hne : cs' ≠ [] := by intro e; subst e; exact hsem.1 rfl
        have hst : ∀ x ∈ cs', Stored x.viable := fun x hx => by
          have := SemV_stored (SemV_child hsem.2.1 hx); rwa [viable_skel'] at this
        exact node_pos hne hst hcov (fun hk => atLeast_of_known hne hk hals) hhas (ac_and hne hacs)
      | andor ts =>
        have hwf := H.wf
        simp only [treeWF, Bool.and_eq_true, Bool.not_eq_true', List.isEmpty_eq_false_iff] at hwf
        simp only [AliveT] at hal
        simp only [fresh, matchNonORs, freshL_isEmpty hwf.1, Bool.false_eq_true, if_false] at h
        obtain ⟨⟨cs', es', early⟩, h1, h2⟩ := bind_ok' h
        have HL : HTL N ts o es := ⟨hwf.2, by simpa [leaves] using H.nd, fun n hn => H.out n (by simpa [leaves] using hn), H.f0, H.nm⟩
        obtain ⟨tail, htail, hcovf, hcovt, hals, hhas, _, hcls, hanyac, hclst⟩ := ih3 ts [] es _ o W h1 HL hal.1 hW
        simp only [List.nil_append] at htail
        subst htail
        have hsem := S.sem
        cases early with
        | true =>
          simp only [if_true] at h2; cases h2
          have hacn : AC N (ST.mult .andor .all orInitChoice orInitChoice1 orInitCount cs') := by
            refine ⟨fun _ => ?_, fun h' => by simp [ST.viable] at h'⟩
            obtain ⟨hcl, x, hx, hax, hxk⟩ := hclst rfl
            simp only [PA]
            refine ⟨by simp [MT.rank], ?_, PAany_of cs' ⟨x, hx, hax.1 hxk⟩⟩
            have : ∀ (l : List ST), (∀ y ∈ l, (AC N y ∧ y.viable ≠ .unknown) ∨ DC N y) → PAsome N l := by
              intro l
              induction l with
              | nil => intro _; trivial
              | cons a l ihl =>
                intro hl
                refine ⟨?_, ihl (fun y hy => hl y (List.mem_cons_of_mem _ hy))⟩
                rcases hl a (by simp) with e | e
                · exact Or.inl (e.1.1 e.2)
                · exact Or.inr e
            exact this cs' hcl
          refine ⟨fun n hn hd => ?_, fun _ => by simp [ST.atLeastSome, ST.viable, MT.rank], hacn, fun _ => Or.inr (Or.inl rfl)⟩
          simp only [holds]
          have : dl (ST.mult .andor .all orInitChoice orInitChoice1 orInitCount cs') = lvSL cs' := by simp [dl]
          rw [this] at hd
          exact hcovt rfl n hn hd
        | false =>
          simp only [Bool.false_eq_true, if_false] at h2; cases h2
          simp only [skel] at hsem
          have hne : cs' ≠ [] := by intro e; subst e; exact hsem.1 rfl
          have hst : ∀ x ∈ cs', Stored x.viable := fun x hx => by
            have := SemV_stored (SemV_child hsem.2.1 hx); rwa [viable_skel'] at this
          exact node_pos hne hst (hcovf rfl) (hals hal.2) hhas (ac_andor hcls (hanyac hal.2))
    -- ---------------------------------------------------------- AndList loop
    · intro restT done es r o W h H hal hW
      cases restT with
      | nil =>
        simp only [freshL, andNonORs] at h; cases h
        exact ⟨[], (by simp), (fun n _ hd => by simp [dlL] at hd), (fun c hc => by cases hc),
          (fun ham => Or.inl (hW ham)), rfl, (fun x hx => by cases hx)⟩
      | cons c rest =>
        simp only [AliveAll] at hal
        simp only [freshL, andNonORs] at h
        split at h
        · rename_i hor
          obtain ⟨tail2, ht2, hcov2, hals2, hhas2, hfl2, hac2⟩ := ih2 rest (done ++ [fresh c]) es r o W h H.tail_same hal.2 hW
          have hisor : ∃ ts, c = .or ts := by
            cases c with
            | or ts => exact ⟨ts, rfl⟩
            | simple n => simp [fresh, ST.isOr] at hor
            | and ts => simp [fresh, ST.isOr] at hor
            | andor ts => simp [fresh, ST.isOr] at hor
          obtain ⟨ts, rfl⟩ := hisor
          have halor := hal.1
          simp only [AliveT] at halor
          refine ⟨fresh (.or ts) :: tail2, by rw [ht2]; simp, CovL_cons (fun n _ hd => by rw [dl_fresh_or] at hd; cases hd) hcov2,
            fun x hx hk => ?_, fun ham => ?_, hfl2, fun x hx => ?_⟩
          · rcases List.mem_cons.mp hx with e | e
            · rw [e, fresh_viable] at hk; exact absurd rfl hk
            · exact hals2 x e hk
          · rcases hhas2 ham with w | w
            · exact Or.inl w
            · exact Or.inr (Or.inr w)
          · rcases List.mem_cons.mp hx with e | e
            · rw [e]
              exact ⟨fun hk => by rw [fresh_viable] at hk; exact absurd rfl hk, fun _ => ⟨ts, rfl, halor⟩⟩
            · exact hac2 x e
        · rename_i hor
          obtain ⟨⟨ch', es1, rc⟩, h1, h2⟩ := bind_ok' h
          have Hc := H.head
          have P := ih1 c es _ o W h1 Hc hal.1 hW
          have S := (nonors_sem N hN f).1 c es _ h1 Hc.wf Hc.nm
          have M := (nonors_marks N hN f).1 c es _ o h1 Hc.wf Hc.nm Hc.f0
          have hnotor : isOrT c = false := by rw [← isOr_fresh']; simpa using hor
          have hvia : ch'.viable = rc := S.via hnotor
          have hlv : lvS ch' = leaves c := by rw [lvS_eq, S.trr]
          have hnun : rc ≠ .unsat := by
            intro e
            have := SemV_unsat S.sem (by rw [viable_skel', hvia]; exact e)
            rw [S.trr, alive_sat N c hal.1] at this; cases this
          simp only [hnun, if_false] at h2
          obtain ⟨tail2, ht2, hcov2, hals2, hhas2, hfl2, hac2⟩ :=
            ih2 rest (done ++ [ch']) es1 r _ (W ∨ HasAll ch') h2 (H.tail_after hlv M.fr S.nm) hal.2 P.has
          refine ⟨ch' :: tail2, by rw [ht2]; simp, CovL_cons P.cov hcov2, fun x hx hk => ?_, fun ham => ?_, hfl2,
            fun x hx => (List.mem_cons.mp hx).elim (fun e => e ▸ P.ac) (fun e => hac2 x e)⟩
          · rcases List.mem_cons.mp hx with e | e
            · rw [e] at hk ⊢; exact P.als hk
            · exact hals2 x e hk
          · rcases hhas2 ham with (w | w) | w
            · exact Or.inl w
            · exact Or.inr (Or.inl w)
            · exact Or.inr (Or.inr w)
    -- ---------------------------------------------------------- AndOrList loop
    · intro restT done es r o W h H hal hW
      cases restT with
      | nil =>
        simp only [freshL, andorNonORs] at h; cases h
        exact ⟨[], (by simp), (fun _ n _ hd => by simp [dlL] at hd), (fun h' => by cases h'),
          (fun h' => by simp [AliveAny] at h'), (fun ham => Or.inl (hW ham)), (fun h' => by cases h'),
          (fun x hx => by cases hx), (fun h' => by simp [AliveAny] at h'), (fun h' => by cases h')⟩
      | cons c rest =>
        simp only [AliveSome] at hal
        simp only [freshL, andorNonORs] at h
        -- continuing after the child `x` (tree `c`), frame `o'`, request `es1`, witness `W'`
        have hnd := H.nd
        simp only [leavesL] at hnd
        obtain ⟨_, _, hdj⟩ := nodup_append_disj hnd
        have cont : ∀ (x : ST) (es1 : Ents) (o' : Name → Nat) (W' : Prop), HTL N rest o' es1 → (allMarked es1 = true → W') →
            (W' → W ∨ HasAll x) → Cov N x → (AliveT N c → x.viable ≠ .unknown → x.atLeastSome = true) →
            ((AliveT N c ∧ AC N x) ∨ (DeadT N c ∧ DC N x)) →
            andorNonORs f (done ++ [x]) (freshL rest) es1 = .ok r →
            ∃ tail, r.1 = done ++ tail ∧ (r.2.2 = false → CovL N tail) ∧
              (r.2.2 = true → ∀ n ∈ N, n ∈ lvSL tail → n ∈ holdsL tail) ∧
              (AliveAny N (c :: rest) → (∀ c ∈ tail, c.viable ≠ .unknown) → ∃ c ∈ tail, c.atLeastSome = true) ∧
              (allMarked r.2.1 = true → W ∨ HasAllAny tail) ∧
              (r.2.2 = true → ∀ d ∈ done, d.viable ≠ .unknown) ∧
              (∀ x ∈ tail, AC N x ∨ DC N x) ∧ (AliveAny N (c :: rest) → ∃ x ∈ tail, AC N x) ∧
              (r.2.2 = true → (∀ x ∈ tail, (AC N x ∧ x.viable ≠ .unknown) ∨ DC N x) ∧
                ∃ x ∈ tail, AC N x ∧ x.viable ≠ .unknown) := by
          intro x es1 o' W' H' hW' hWW hcx halx hclx hrec
          obtain ⟨tail2, ht2, hcf2, hct2, hals2, hhas2, hdk2, hcl2, hany2, hclt2⟩ := ih3 rest (done ++ [x]) es1 r o' W' hrec H' hal.2 hW'
          refine ⟨x :: tail2, by rw [ht2]; simp, fun hf => CovL_cons hcx (hcf2 hf), fun hf n hn hl => ?_, fun hany hk => ?_,
            fun ham => ?_, fun hf d hd => hdk2 hf d (List.mem_append.mpr (Or.inl hd)), fun y hy => ?_, fun hany => ?_, fun hf => ?_⟩
          · simp only [lvSL, List.mem_append] at hl
            simp only [holdsL, List.mem_append]
            rcases hl with e | e
            · have hxk : x.viable ≠ .unknown := hdk2 hf x (List.mem_append.mpr (Or.inr (by simp)))
              exact Or.inl (hcx n hn (by rw [dl_known hxk]; exact e))
            · exact Or.inr (hct2 hf n hn e)
          · simp only [AliveAny] at hany
            rcases hany with e | e
            · exact ⟨x, by simp, halx e (hk x (by simp))⟩
            · obtain ⟨y, hy, hya⟩ := hals2 e (fun y hy => hk y (List.mem_cons_of_mem _ hy))
              exact ⟨y, List.mem_cons_of_mem _ hy, hya⟩
          · rcases hhas2 ham with w | w
            · rcases hWW w with w' | w'
              · exact Or.inl w'
              · exact Or.inr (Or.inl w')
            · exact Or.inr (Or.inr w)
          · rcases List.mem_cons.mp hy with e | e
            · rw [e]; rcases hclx with e' | e'
              · exact Or.inl e'.2
              · exact Or.inr e'.2
            · exact hcl2 y e
          · simp only [AliveAny] at hany
            rcases hany with e | e
            · rcases hclx with e' | e'
              · exact ⟨x, by simp, e'.2⟩
              · exfalso
                have := alive_sat N c e
                rw [dead_unsat N c H.head.wf e'.1] at this; cases this
            · obtain ⟨y, hy, hya⟩ := hany2 e
              exact ⟨y, List.mem_cons_of_mem _ hy, hya⟩
          · obtain ⟨a1, y, hy, hya⟩ := hclt2 hf
            have hxk : x.viable ≠ .unknown := hdk2 hf x (List.mem_append.mpr (Or.inr (by simp)))
            refine ⟨fun z hz => ?_, y, List.mem_cons_of_mem _ hy, hya⟩
            rcases List.mem_cons.mp hz with e | e
            · rw [e]; rcases hclx with e' | e'
              · exact Or.inl ⟨e'.2, hxk⟩
              · exact Or.inr e'.2
            · exact a1 z e
        split at h
        · rename_i hor
          have hisor : ∃ ts, c = .or ts := by
            cases c with
            | or ts => exact ⟨ts, rfl⟩
            | simple n => simp [fresh, ST.isOr] at hor
            | and ts => simp [fresh, ST.isOr] at hor
            | andor ts => simp [fresh, ST.isOr] at hor
          obtain ⟨ts, rfl⟩ := hisor
          refine cont (fresh (.or ts)) es o W H.tail_same hW (fun w => Or.inl w)
            (fun n _ hd => by rw [dl_fresh_or] at hd; cases hd)
            (fun _ hk => by rw [fresh_viable] at hk; exact absurd rfl hk) ?_ h
          rcases hal.1 with e | e
          · left
            refine ⟨e, fun hk => by rw [fresh_viable] at hk; exact absurd rfl hk, fun _ => ⟨ts, rfl, ?_⟩⟩
            simpa [AliveT] using e
          · right
            refine ⟨e, by rw [DeadS, lvS_fresh]; exact e, ?_⟩
            simp [ST.atLeastSome, fresh_viable, MT.rank]
        · rename_i hor
          obtain ⟨⟨ch', es1, rc⟩, h1, h2⟩ := bind_ok' h
          have Hc := H.head
          have S := (nonors_sem N hN f).1 c es _ h1 Hc.wf Hc.nm
          have M := (nonors_marks N hN f).1 c es _ o h1 Hc.wf Hc.nm Hc.f0
          have hnotor : isOrT c = false := by rw [← isOr_fresh']; simpa using hor
          have hvia : ch'.viable = rc := S.via hnotor
          have hlv : lvS ch' = leaves c := by rw [lvS_eq, S.trr]
          simp only at h2
          rcases hal.1 with halive | hdead
          · -- an alive child
            have P := ih1 c es _ o W h1 Hc halive hW
            have hnun : rc ≠ .unsat := by
              intro e
              have := SemV_unsat S.sem (by rw [viable_skel', hvia]; exact e)
              rw [S.trr, alive_sat N c halive] at this; cases this
            split at h2
            · rename_i hall
              split at h2
              · rename_i hdone
                cases h2
                have hvall : ch'.viable = .all := by rw [hvia, hall]
                have ham1 : allMarked es1 = true := M.all hall
                have hrestdead : ∀ y ∈ freshL rest, DC N y := by
                  intro y hy
                  obtain ⟨T, hT, rfl⟩ := mem_freshL hy
                  refine ⟨fun n hnl hnN => ?_, by simp [ST.atLeastSome, fresh_viable, MT.rank]⟩
                  rw [lvS_fresh] at hnl
                  have hnr : n ∈ leavesL rest := leaves_sub_leavesL hT n hnl
                  have hnd1 : (names es1).Nodup := by rw [S.nm]; exact nodup_of_sorted hN
                  have hm := (allMarked_markAt hnd1).mp ham1 n (by rw [S.nm]; exact hnN)
                  have h0 : o n = 0 := H.out n (by simp [leavesL, hnr])
                  have := M.fr.1 n
                  simp only [hm, if_false, h0, Nat.zero_add] at this
                  have hh : n ∈ holds ch' := List.count_pos_iff.mp (by unfold cnt at this; omega)
                  have := holds_sub ch' n hh
                  rw [hlv] at this
                  exact hdj n this hnr
                refine ⟨ch' :: freshL rest, rfl, (fun hf => by cases hf), fun _ n hn hl => ?_, fun _ _ => ?_, fun _ => ?_, fun _ d hd => ?_,
                  fun y hy => ?_, fun _ => ⟨ch', by simp, P.ac⟩, fun _ => ⟨fun y hy => ?_, ch', by simp, P.ac, by rw [hvall]; simp⟩⟩
                · simp only [lvSL, List.mem_append] at hl
                  simp only [holdsL, List.mem_append]
                  rcases hl with e | e
                  · exact Or.inl (P.cov n hn (by rw [dl_known (by rw [hvall]; simp)]; exact e))
                  · exfalso
                    rw [lvSL_fresh] at e
                    have hnd1 : (names es1).Nodup := by rw [S.nm]; exact nodup_of_sorted hN
                    have hm := (allMarked_markAt hnd1).mp ham1 n (by rw [S.nm]; exact hn)
                    have h0 : o n = 0 := H.out n (by simp [leavesL, e])
                    have := M.fr.1 n
                    simp only [hm, if_false, h0, Nat.zero_add] at this
                    have hh : n ∈ holds ch' := List.count_pos_iff.mp (by unfold cnt at this; omega)
                    have := holds_sub ch' n hh
                    rw [hlv] at this
                    exact hdj n this e
                · exact ⟨ch', by simp, by simp [ST.atLeastSome, hvall, MT.rank]⟩
                · exact Or.inr (Or.inl (HasAll_of_all hvall))
                · have := List.all_eq_true.mp hdone d hd
                  simpa using this
                · rcases List.mem_cons.mp hy with e | e
                  · rw [e]; exact Or.inl P.ac
                  · exact Or.inr (hrestdead y e)
                · rcases List.mem_cons.mp hy with e | e
                  · rw [e]; exact Or.inl ⟨P.ac, by rw [hvall]; simp⟩
                  · exact Or.inr (hrestdead y e)
              · exact cont ch' es1 _ (W ∨ HasAll ch') (H.tail_after hlv M.fr S.nm) P.has id P.cov (fun _ => P.als)
                  (Or.inl ⟨halive, P.ac⟩) h2
            · exact cont ch' es1 _ (W ∨ HasAll ch') (H.tail_after hlv M.fr S.nm) P.has id P.cov (fun _ => P.als)
                (Or.inl ⟨halive, P.ac⟩) h2
          · -- a dead child: it ends up holding nothing, the marks are what they were
            have hdeadS : ∀ x ∈ lvS ch', x ∉ N := by rw [hlv]; exact hdead
            have hh0 : holds ch' = [] := dead_H0 M.fr S.nm hdeadS
            have hf1 : Fr0 o es1 := fun x => by
              have := M.fr.1 x; rw [cnt_zero_of_nil hh0, Nat.add_zero] at this; exact this
            have hms := marks_same_of_H0 Hc.f0 hf1 M.same
            have hnd0 : (names es).Nodup := by rw [Hc.nm]; exact nodup_of_sorted hN
            have ham : allMarked es1 = allMarked es := allMarked_congr' (by rw [S.nm, Hc.nm]) hnd0 hms
            have hnotK : ¬ K ch'.viable := by
              intro hk
              have := SemV_K S.sem (by rw [viable_skel']; exact hk)
              rw [S.trr, dead_unsat N c Hc.wf hdead] at this; cases this
            have hnotalive : ¬ AliveT N c := by
              intro ha
              have := alive_sat N c ha
              rw [dead_unsat N c Hc.wf hdead] at this; cases this
            have HT1 : HTL N rest o es1 := ⟨H.tail_same.wf, H.tail_same.nd, H.tail_same.out, hf1, S.nm⟩
            have hstv : Stored ch'.viable := by have := SemV_stored S.sem; rwa [viable_skel'] at this
            have hnals : ch'.atLeastSome = false := by
              have := not_als_of_notK hstv hnotK
              simp [ST.atLeastSome, this]
            split at h2
            · rename_i hall
              exact absurd (by rw [hvia, hall]; exact Or.inr (Or.inr rfl)) hnotK
            · split at h2
              · obtain ⟨⟨ch2, es2⟩, h3, h4⟩ := bind_ok' h2
                have U := (unmark_marks N hN f).1 ch' es1 _ o h3 S.nm M.fr (OrT_of_Tidy _ M.tidy)
                have hn2 : names es2 = N := by rw [(unmark_names f).1 ch' es1 _ h3]; exact S.nm
                have hs2 := (unmark_skel f).1 ch' es1 _ h3
                have hms2 := marks_same_of_H0 hf1 U.fr U.same
                have hnd1 : (names es1).Nodup := by rw [S.nm]; exact nodup_of_sorted hN
                have ham2 : allMarked es2 = allMarked es1 := allMarked_congr' (by rw [hn2, S.nm]) hnd1 hms2
                have hlv2 : lvS ch2 = leaves c := by rw [lvS_eq, hs2, ← lvS_eq]; exact hlv
                exact cont ch2 es2 o W ⟨H.tail_same.wf, H.tail_same.nd, H.tail_same.out, U.fr, hn2⟩
                  (fun h' => hW (by rw [← ham, ← ham2]; exact h')) (fun w => Or.inl w)
                  (cov_of_dead (by rw [hlv2]; exact hdead)) (fun ha => absurd ha hnotalive)
                  (Or.inr ⟨hdead, by rw [DeadS, hlv2]; exact hdead, by
                    have : ch2.viable = ch'.viable := viable_of_skel hs2
                    simp only [ST.atLeastSome, this]; simpa [ST.atLeastSome] using hnals⟩) h4
              · exact cont ch' es1 o W HT1 (fun h' => hW (by rw [← ham]; exact h')) (fun w => Or.inl w)
                  (cov_of_dead hdeadS) (fun ha => absurd ha hnotalive) (Or.inr ⟨hdead, hdeadS, hnals⟩) h2

end StepModel.Complex.Match

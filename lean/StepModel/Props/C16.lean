import StepModel.Props.C14
import StepModel.SkipEntry
import StepModel.Generated.P21RWGen
import StepModel.HeaderIdsLemmas
import StepModel.WsBytesLemmas
import StepModel.WsBytesItems
import StepModel.Props.C01
/-!
C16 — working-session files round-trip populations with per-instance state.

`writeWorking` / `readWorking` are `STEPfile::WriteWorkingData` / `ReadWorkingFile` of the session model
(StepModel/Session.lean); the letter tables, the set of accepted prefix letters, "deleted entries are skipped" and
"a working-session read never changes the state given in pass 1" are regenerated from STEPfile.cc.
The file is modelled at the level of its entries (state letter + instance); the bytes of an entry are a function of
the entry (`WriteWorkingData` prints the letter, then the instance with the same `STEPwrite` as an exchange file).
-/
namespace StepModel.Session
open StepModel StepModel.P21 StepModel.Generated

/-- the editing states the property talks about (`noStateSE` means "no state information", see the witness below) -/
def NoNoState (s : Sess) : Prop := ∀ n ∈ s.nodes, n.state ≠ .noState

def isLive (n : Node) : Bool := n.state ≠ .delete
def live (s : Sess) : List Node := s.nodes.filter isLive

/-- no surviving instance refers to an instance marked deleted (otherwise the saved population is not closed) -/
def ClosedLive (s : Sess) : Prop := ∀ n ∈ live s, ∀ r ∈ n.inst.refs, r ∈ ids (live s)

/-- the number of instances marked deleted stays within what pass 1 tolerates: on this tree every skipped `D` entry counts as a
    record that yielded no instance (`Generated.deletedCountsAsFailure`) and pass 1 is abandoned beyond
    `Generated.maxErrorCount` (100000) of them; vacuous once they are not counted — the code at hand:
    `C16_deleted_not_counted` -/
def DelBound (s : Sess) : Prop :=
  (if deletedCountsAsFailure then (s.nodes.filter (fun n => !isLive n)).length else 0) ≤ maxErrorCount

def toEntry (n : Node) : Entry := ⟨writeLetterOf n.state, n.inst⟩

/-! ### the regenerated letter tables invert each other -/

theorem C16_letters_roundtrip (st : NodeState) (c : Char) (h : writeLetterOf st = some c) :
    wfLetters.contains c = true ∧ entityWfState c = st := by
  cases st <;> simp [writeLetterOf] at h <;> subst h <;> decide

theorem C16_letters_distinct (a b : NodeState) (c : Char) (ha : writeLetterOf a = some c) (hb : writeLetterOf b = some c) :
    a = b := by
  rw [← (C16_letters_roundtrip a c ha).2, ← (C16_letters_roundtrip b c hb).2]

theorem C16_only_nostate_unwritten (st : NodeState) : writeLetterOf st = none ↔ st = .noState := by
  cases st <;> simp [writeLetterOf]

/-! ### MgrNode state by severity × file type (`STEPfile::ReadInstance`'s switch, regenerated) -/

/-- the state a node has after pass 2, given the state pass 1 gave it, the file type and the instance's severity -/
def stateAfterRead (ft : FileType) (pass1 : NodeState) (sev : Sev) : NodeState :=
  match ft with
  | .exchange => exchangeStateOf sev
  | .working => if workingReadKeepsState then pass1 else exchangeStateOf sev

/-- the whole table: a working-session read never touches the state whatever the severity; an exchange read gives
    complete for NULL/USERMSG, incomplete for INCOMPLETE/WARNING/INPUT_ERROR/BUG, "no state" for EXIT/DUMP/MAX -/
theorem C16_state_table (p : NodeState) (sev : Sev) :
    stateAfterRead .working p sev = p ∧
    stateAfterRead .exchange p sev =
      (match sev with
       | .null | .usermsg => NodeState.complete
       | .incomplete | .warning | .inputError | .bug => NodeState.incomplete
       | .exit | .dump | .max => NodeState.noState) := by
  cases sev <;> exact ⟨rfl, rfl⟩

/-- the model's pass 2 is that table (with the severity it computes: unresolved references ⊔ attribute-level severity) -/
theorem C16_pass2_uses_table (ft : FileType) (e : Entry) (hs : skipped ft e = false) (asev : Inst → Sev) :
    finalState ft asev e = stateAfterRead ft (entryState ft e) (asev e.inst) := by
  cases ft <;> rfl

/-! ### helper lemmas -/

theorem writeWorking_eq {s : Sess} (h : NoNoState s) : writeWorking s = s.nodes.map toEntry := by
  unfold writeWorking
  have : ∀ ns : List Node, (∀ n ∈ ns, n.state ≠ .noState) →
      ns.filterMap (fun n => (writeLetterOf n.state).map (fun c => (⟨some c, n.inst⟩ : Entry))) = ns.map toEntry := by
    intro ns hns
    induction ns with
    | nil => rfl
    | cons n ns ih =>
      have hn := hns n (by simp)
      have ih' := ih (fun x hx => hns x (by simp [hx]))
      cases hst : n.state <;> simp_all [List.filterMap_cons, toEntry, writeLetterOf]
  exact this s.nodes h

theorem entryState_toEntry (n : Node) (h : n.state ≠ .noState) : entryState .working (toEntry n) = n.state := by
  cases hst : n.state <;> simp_all [entryState, toEntry, writeLetterOf] <;> decide

theorem skipped_toEntry (n : Node) (h : n.state ≠ .noState) : skipped .working (toEntry n) = !isLive n := by
  simp only [skipped, entryState_toEntry n h, isLive]
  cases n.state <;> simp

theorem kept_toEntry (ns : List Node) (h : ∀ n ∈ ns, n.state ≠ .noState) :
    kept .working (ns.map toEntry) = (ns.filter isLive).map toEntry := by
  induction ns with
  | nil => rfl
  | cons n ns ih =>
    have hn := h n (by simp)
    have ih' := ih (fun x hx => h x (by simp [hx]))
    simp only [List.map_cons, kept, List.filter_cons, skipped_toEntry n hn] at ih' ⊢
    cases hl : isLive n <;> simp [hl, kept, ih']

theorem fids_zero (ns : List Node) : fids 0 (ns.map toEntry) = ids ns := by
  simp [fids, ids, toEntry, incrementFileId, Function.comp_def]

theorem ids_filter_sublist (ns : List Node) (p : Node → Bool) : (ids (ns.filter p)).Sublist (ids ns) :=
  List.Sublist.map _ List.filter_sublist

theorem mem_ids_of_filter {ns : List Node} {p : Node → Bool} {x : Int} (h : x ∈ ids (ns.filter p)) : x ∈ ids ns :=
  (ids_filter_sublist ns p).subset h

theorem skipped_count_toEntry (ns : List Node) (h : ∀ n ∈ ns, n.state ≠ .noState) :
    ((ns.map toEntry).filter (skipped .working)).length = (ns.filter (fun n => !isLive n)).length := by
  induction ns with
  | nil => rfl
  | cons n ns ih =>
    have hn := h n (by simp)
    have ih' := ih (fun x hx => h x (by simp [hx]))
    simp only [List.map_cons, List.filter_cons, skipped_toEntry n hn]
    cases isLive n <;> simp [ih']

theorem cntSkipped_toEntry (ns : List Node) (h : ∀ n ∈ ns, n.state ≠ .noState) :
    cntSkipped .working (ns.map toEntry) = (if deletedCountsAsFailure then (ns.filter (fun n => !isLive n)).length else 0) := by
  unfold cntSkipped
  rw [skipped_count_toEntry ns h]

/-- once deleted entries are no longer counted (repair C16-1) the bound holds for every session -/
theorem delBound_of_not_counted {s : Sess} (h : deletedCountsAsFailure = false) : DelBound s := by
  unfold DelBound; rw [h]; exact Nat.zero_le _

theorem delBound_of_no_deleted {s : Sess} (h : ∀ n ∈ s.nodes, n.state ≠ .delete) : DelBound s := by
  unfold DelBound
  have : s.nodes.filter (fun n => !isLive n) = [] := by
    rw [List.filter_eq_nil_iff]
    intro n hn
    simp [isLive, h n hn]
  rw [this]; split <;> exact Nat.zero_le _

/-- the session a working-session read of `writeWorking s` produces -/
theorem readWorking_spec (fill : Inst → Inst) (hfill : FillOk fill) (asev : Inst → Sev) (s : Sess)
    (hs : Inv s) (hn : NoNoState s) (hc : ClosedLive s) (hd : DelBound s) :
    (readWorking fill asev (writeWorking s)).nodes = (live s).map (fun n => ⟨fill n.inst, n.state⟩) ∧
    (readWorking fill asev (writeWorking s)).maxId = maxWith cleared.maxId (ids (live s)) := by
  rw [writeWorking_eq hn]
  have hk : fileIdIncrOf cleared.maxId = 0 := C14_offset_cleared
  have hkept : kept .working (s.nodes.map toEntry) = (live s).map toEntry := kept_toEntry s.nodes hn
  have hnd : (ids (live s)).Nodup := List.Nodup.sublist (ids_filter_sublist _ _) hs.nodup
  have h1 := pass1_spec .working 0 (s.nodes.map toEntry) cleared
    (by intro x _; simp [cleared, ids])
    (by rw [hkept, fids_zero]; exact hnd)
    (by
      rw [hkept, fids_zero]
      intro x hx
      have := hs.pos x (mem_ids_of_filter hx)
      show x ≠ 0
      omega)
    (by rw [cntSkipped_toEntry s.nodes hn]; exact hd)
  rw [hkept, fids_zero] at h1
  have h2 := pass2_spec .working fill asev 0 (pass1 .working 0 cleared (s.nodes.map toEntry)).maxId hfill.id_eq rfl rfl
    (s.nodes.map toEntry) []
    (by rw [hkept, fids_zero]; simpa [ids, live] using hnd)
    (by
      rw [hkept, fids_zero]
      intro e he r hr
      simp only [List.mem_map] at he
      obtain ⟨n, hnl, rfl⟩ := he
      have := hc n hnl r hr
      simpa [ids, toEntry, live] using this)
    (Or.inr (Or.inl rfl))      -- a working-session read into the cleared manager has offset 0: nothing is renumbered
  rw [hkept] at h2
  constructor
  · unfold readWorking appendFile
    simp only [hk]
    have hs1 : pass1 .working 0 cleared (s.nodes.map toEntry) =
        ⟨[] ++ ((live s).map toEntry).map (stubNode .working 0),
         (pass1 .working 0 cleared (s.nodes.map toEntry)).maxId⟩ := by
      have := h1.1
      simp only [cleared] at this ⊢
      rw [← this]
    rw [hs1, h2]
    simp only [List.nil_append, List.map_map]
    apply List.map_congr_left
    intro n hnl
    have hns : n.state ≠ .noState := hn n (List.mem_filter.mp hnl).1
    have hes := entryState_toEntry n hns
    simp only [toEntry] at hes
    simp [filledNode, finalState, toEntry, shift_zero, hes]
  · unfold readWorking appendFile
    simp only [hk]
    rw [pass2_maxId, h1.2]

/-! ### the property -/

/-- Reading back a saved session restores exactly the instances not marked deleted, in order, with the same ids, types,
    values (every reference included) **and editing states** — whatever the attribute-level reader thinks of the
    values (`asev`: e.g. required attributes still missing). Strict mode / nothing to substitute: `fill = id`. -/
theorem C16_roundtrip (asev : Inst → Sev) (s : Sess) (hs : Inv s) (hn : NoNoState s) (hc : ClosedLive s) (hd : DelBound s) :
    (readWorking id asev (writeWorking s)).nodes = live s := by
  rw [(readWorking_spec id fillOk_id asev s hs hn hc hd).1]
  simp

/-- lenient mode: the same, up to the substitution C15 describes (unset required INTEGER/REAL/NUMBER/STRING) -/
theorem C16_roundtrip_fill (fill : Inst → Inst) (hfill : FillOk fill) (asev : Inst → Sev) (s : Sess)
    (hs : Inv s) (hn : NoNoState s) (hc : ClosedLive s) (hd : DelBound s) :
    (readWorking fill asev (writeWorking s)).nodes = (live s).map (fun n => ⟨fill n.inst, n.state⟩) :=
  (readWorking_spec fill hfill asev s hs hn hc hd).1

/-- exactly the instances marked deleted are left out -/
theorem C16_deleted_exact (asev : Inst → Sev) (s : Sess) (hs : Inv s) (hn : NoNoState s) (hc : ClosedLive s) (hd : DelBound s) (n : Node) :
    n ∈ (readWorking id asev (writeWorking s)).nodes ↔ n ∈ s.nodes ∧ n.state ≠ .delete := by
  rw [C16_roundtrip asev s hs hn hc hd]
  simp [live, isLive]

theorem inv_readWorking (asev : Inst → Sev) (s : Sess) (hs : Inv s) (hn : NoNoState s) (hc : ClosedLive s) (hd : DelBound s) :
    Inv (readWorking id asev (writeWorking s)) ∧ NoNoState (readWorking id asev (writeWorking s)) ∧
    ClosedLive (readWorking id asev (writeWorking s)) ∧
    live (readWorking id asev (writeWorking s)) = (readWorking id asev (writeWorking s)).nodes := by
  have hnodes := C16_roundtrip asev s hs hn hc hd
  have hmax := (readWorking_spec id fillOk_id asev s hs hn hc hd).2
  have hlive : live (readWorking id asev (writeWorking s)) = (readWorking id asev (writeWorking s)).nodes := by
    unfold live; rw [hnodes]; unfold live; rw [List.filter_filter]; simp
  refine ⟨⟨?_, ?_, ?_⟩, ?_, ?_, hlive⟩
  · rw [hnodes]; exact List.Nodup.sublist (ids_filter_sublist _ _) hs.nodup
  · intro x hx; rw [hnodes] at hx; exact hs.pos x (mem_ids_of_filter hx)
  · intro x hx; rw [hnodes] at hx; rw [hmax]; exact le_maxWith_mem _ _ x hx
  · intro n hnm; rw [hnodes] at hnm; exact hn n (List.mem_filter.mp hnm).1
  · intro n hnm r hr
    rw [hlive] at hnm ⊢
    rw [hnodes] at hnm ⊢
    exact hc n hnm r hr

/-- Saving again: the second file is the first one without its `D` entries (they recorded deletions that are now
    carried out) … -/
theorem C16_second_save (asev : Inst → Sev) (s : Sess) (hs : Inv s) (hn : NoNoState s) (hc : ClosedLive s) (hd : DelBound s) :
    writeWorking (readWorking id asev (writeWorking s)) =
      (writeWorking s).filter (fun e => e.letter ≠ writeLetterOf .delete) := by
  have h2 := inv_readWorking asev s hs hn hc hd
  rw [writeWorking_eq h2.2.1, C16_roundtrip asev s hs hn hc hd, writeWorking_eq hn]
  unfold live
  induction s.nodes with
  | nil => rfl
  | cons n ns ih =>
    simp only [List.filter_cons, List.map_cons]
    cases hst : n.state <;> simp [isLive, hst, toEntry, writeLetterOf, ih]

/-- … so when nothing is marked deleted the second save is the first one, entry for entry (byte for byte, the time
    stamp of the header aside) … -/
theorem C16_idempotent (asev : Inst → Sev) (s : Sess) (hs : Inv s) (hn : NoNoState s) (hc : ClosedLive s) (hd : DelBound s)
    (hnd : ∀ n ∈ s.nodes, n.state ≠ .delete) :
    writeWorking (readWorking id asev (writeWorking s)) = writeWorking s := by
  rw [C16_second_save asev s hs hn hc hd, writeWorking_eq hn]
  apply List.filter_eq_self.mpr
  intro e he
  simp only [List.mem_map] at he
  obtain ⟨n, hnm, rfl⟩ := he
  have h1 := hnd n hnm
  have h2 := hn n hnm
  cases hst : n.state <;> simp_all [toEntry, writeLetterOf]

/-- … and from the second save on every further save/load cycle reproduces the file, whatever the first session held -/
theorem C16_cycles (asev : Inst → Sev) (s : Sess) (hs : Inv s) (hn : NoNoState s) (hc : ClosedLive s) (hd : DelBound s) :
    let s1 := readWorking id asev (writeWorking s)
    writeWorking (readWorking id asev (writeWorking s1)) = writeWorking s1 ∧
    (readWorking id asev (writeWorking s1)).nodes = s1.nodes := by
  intro s1
  have h2 := inv_readWorking asev s hs hn hc hd
  have hnd : ∀ n ∈ s1.nodes, n.state ≠ .delete := by
    intro n hnm
    have : n ∈ live s1 := by rw [h2.2.2.2]; exact hnm
    simpa [live, isLive] using (List.mem_filter.mp this).2
  refine ⟨C16_idempotent asev s1 h2.1 h2.2.1 h2.2.2.1 (delBound_of_no_deleted hnd) hnd, ?_⟩
  rw [C16_roundtrip asev s1 h2.1 h2.2.1 h2.2.2.1 (delBound_of_no_deleted hnd), h2.2.2.2]

/-- `n` save/load cycles -/
def cyclesN (asev : Inst → Sev) : Nat → Sess → Sess
  | 0, s => s
  | n + 1, s => readWorking id asev (writeWorking (cyclesN asev n s))

/-- … for EVERY number of further cycles: after the first load, any number of save/load cycles gives the same session
    (nodes) and every save writes the same entries -/
theorem C16_cycles_all (asev : Inst → Sev) (s : Sess) (hs : Inv s) (hn : NoNoState s) (hc : ClosedLive s) (hd : DelBound s)
    (n : Nat) :
    let s1 := readWorking id asev (writeWorking s)
    (cyclesN asev n s1).nodes = s1.nodes ∧ writeWorking (cyclesN asev n s1) = writeWorking s1 := by
  intro s1
  have hw : ∀ a b : Sess, a.nodes = b.nodes → writeWorking a = writeWorking b := by
    intro a b h; simp only [writeWorking, h]
  induction n with
  | zero => exact ⟨rfl, rfl⟩
  | succ n ih =>
    have h1 := C16_cycles asev s hs hn hc hd
    simp only [cyclesN]
    rw [ih.2]
    exact ⟨h1.2, hw _ _ h1.2⟩

/-- ids, types and values are the ones an exchange-file round trip of the surviving population gives -/
theorem C16_same_as_exchange (asev : Inst → Sev) (s : Sess) (hs : Inv s) (hn : NoNoState s) (hc : ClosedLive s) (hd : DelBound s) :
    (readWorking id asev (writeWorking s)).nodes.map (·.inst) =
      (readExchange id noSev (writeExchange ⟨live s, s.maxId⟩)).nodes.map (·.inst) := by
  have hconf : Conf (writeExchange ⟨live s, s.maxId⟩) := by
    refine ⟨?_, ?_, ?_⟩
    · have : (writeExchange ⟨live s, s.maxId⟩).map (·.id) = ids (live s) := by simp [writeExchange, ids]
      rw [this]; exact List.Nodup.sublist (ids_filter_sublist _ _) hs.nodup
    · intro i hi
      simp only [writeExchange, List.mem_map] at hi
      obtain ⟨n, hnl, rfl⟩ := hi
      exact hs.pos _ (mem_ids_of_filter (List.mem_map_of_mem hnl))
    · intro i hi r hr
      simp only [writeExchange, List.mem_map] at hi
      obtain ⟨n, hnl, rfl⟩ := hi
      have := hc n hnl r hr
      simpa [writeExchange, ids] using this
  rw [(C14_read noSev _ hconf (fun _ _ => rfl)).1, C16_roundtrip asev s hs hn hc hd]
  simp [writeExchange, Function.comp_def]

/-! ### the whole file: HEADER section and instance comments -/

def stripNode (wc : Bool) (n : Node) : Node := { n with inst := stripComment wc n.inst }
def stripSess (wc : Bool) (s : Sess) : Sess := { s with nodes := s.nodes.map (stripNode wc) }

theorem strip_id (wc : Bool) (i : Inst) : (stripComment wc i).id = i.id := by cases wc <;> rfl
theorem strip_refs (wc : Bool) (i : Inst) : (stripComment wc i).refs = i.refs := by cases wc <;> rfl
theorem strip_true (i : Inst) : stripComment true i = i := rfl
theorem strip_idem (wc : Bool) (i : Inst) : stripComment wc (stripComment wc i) = stripComment wc i := by
  cases wc <;> rfl

theorem ids_strip (wc : Bool) (ns : List Node) : ids (ns.map (stripNode wc)) = ids ns := by
  simp [ids, stripNode, strip_id, Function.comp_def]

theorem live_strip (wc : Bool) (s : Sess) : live (stripSess wc s) = (live s).map (stripNode wc) := by
  simp only [live, stripSess, List.filter_map]
  congr 1

theorem delBound_strip (wc : Bool) {s : Sess} (h : DelBound s) : DelBound (stripSess wc s) := by
  unfold DelBound at *
  have : ((stripSess wc s).nodes.filter (fun n => !isLive n)).length = (s.nodes.filter (fun n => !isLive n)).length := by
    simp only [stripSess, List.filter_map, List.length_map]
    congr 1
  rw [this]; exact h

theorem writeWorking_strip (wc : Bool) (s : Sess) :
    (writeWorking s).map (fun e => { e with inst := stripComment wc e.inst }) = writeWorking (stripSess wc s) := by
  unfold writeWorking stripSess
  induction s.nodes with
  | nil => rfl
  | cons n ns ih =>
    simp only [List.map_cons, List.filterMap_cons]
    cases hst : n.state <;> simp_all [stripNode, writeLetterOf]

theorem inv_strip (wc : Bool) {s : Sess} (hs : Inv s) : Inv (stripSess wc s) :=
  ⟨by simpa [stripSess, ids_strip] using hs.nodup,
   by simpa [stripSess, ids_strip] using hs.pos,
   by simpa [stripSess, ids_strip] using hs.le_max⟩

theorem noNoState_strip (wc : Bool) {s : Sess} (h : NoNoState s) : NoNoState (stripSess wc s) := by
  intro n hn
  simp only [stripSess, List.mem_map] at hn
  obtain ⟨m, hm, rfl⟩ := hn
  exact h m hm

theorem closedLive_strip (wc : Bool) {s : Sess} (h : ClosedLive s) : ClosedLive (stripSess wc s) := by
  intro n hn r hr
  rw [live_strip] at hn ⊢
  simp only [List.mem_map] at hn
  obtain ⟨m, hm, rfl⟩ := hn
  rw [ids_strip]
  exact h m hm r (by simpa [stripNode, strip_refs] using hr)

/-- every Part 21 comment an instance carries is within what `ReadComment` reads back (`Generated.commentLengthLimit`; while it
    was `some 8192` a longer comment was abandoned and the record behind it skipped) -/
def CommentBound (s : Sess) : Prop := ∀ n, commentLengthLimit = some n → ∀ x ∈ s.nodes, x.inst.comment.length ≤ n

/-- hard tie: since repair C01-9 (9cc7a1b5) `ReadComment` restarts its counter while characters keep arriving — comments of any
    length are read —, hence `CommentBound`, the hypothesis the comment theorems carry, holds for EVERY session (reverting the
    repair makes this fail and the bound of 8192 characters bite again) -/
theorem C16_comments_any_length : commentLengthLimit = none ∧ ∀ s : Sess, CommentBound s :=
  ⟨rfl, fun _ n h => by cases h⟩

/-- Save with `writeComments = wc`, load into ANY STEPfile (whatever it read before), comments within `ReadComment`'s limit: the not-deleted instances come back in
    order with ids, types, values, references, states and — when comments were written — their Part 21 comments; the
    HEADER section is the saved one. -/
theorem C16_file_roundtrip (wc : Bool) (asev : Inst → Sev) (prev s : FSess)
    (hs : Inv s.sess) (hn : NoNoState s.sess) (hc : ClosedLive s.sess) (hd : DelBound s.sess) (_hb : CommentBound s.sess) :
    (readWorkingFile id asev prev (writeWorkingFile wc s)).sess.nodes = (live s.sess).map (stripNode wc) ∧
    (readWorkingFile id asev prev (writeWorkingFile wc s)).header = s.header := by
  constructor
  · simp only [readWorkingFile, writeWorkingFile]
    rw [writeWorking_strip, C16_roundtrip asev _ (inv_strip wc hs) (noNoState_strip wc hn) (closedLive_strip wc hc) (delBound_strip wc hd), live_strip]
  · have h1 : readWorkingClearsHeader = true := rfl
    simp [readWorkingFile, writeWorkingFile, mergeHeader, h1]
    intro h; exact absurd h (by decide)

/-- with comments written (the default) nothing at all is lost: the session is the not-deleted part of the saved one
    (`_hb`: for comments within `ReadComment`'s limit, if it has one — `C16_comments_any_length`: the code at hand has none) -/
theorem C16_file_roundtrip_comments (asev : Inst → Sev) (prev s : FSess)
    (hs : Inv s.sess) (hn : NoNoState s.sess) (hc : ClosedLive s.sess) (hd : DelBound s.sess) (_hb : CommentBound s.sess) :
    (readWorkingFile id asev prev (writeWorkingFile true s)).sess.nodes = live s.sess := by
  rw [(C16_file_roundtrip true asev prev s hs hn hc hd _hb).1]
  have : ∀ n : Node, stripNode true n = n := fun n => by cases n; rfl
  have h2 : (live s.sess).map (stripNode true) = (live s.sess).map id := List.map_congr_left (fun n _ => this n)
  rw [h2, List.map_id]

/-- saving again (same `writeComments`): header identical, entries identical except that the `D` entries are gone -/
theorem C16_file_second_save (wc : Bool) (asev : Inst → Sev) (prev s : FSess)
    (hs : Inv s.sess) (hn : NoNoState s.sess) (hc : ClosedLive s.sess) (hd : DelBound s.sess) (hb : CommentBound s.sess) :
    (writeWorkingFile wc (readWorkingFile id asev prev (writeWorkingFile wc s))).header = s.header ∧
    (writeWorkingFile wc (readWorkingFile id asev prev (writeWorkingFile wc s))).entries =
      (writeWorkingFile wc s).entries.filter (fun e => e.letter ≠ writeLetterOf .delete) := by
  have hr := C16_file_roundtrip wc asev prev s hs hn hc hd hb
  refine ⟨hr.2, ?_⟩
  have h2 := C16_second_save asev (stripSess wc s.sess) (inv_strip wc hs) (noNoState_strip wc hn) (closedLive_strip wc hc) (delBound_strip wc hd)
  have hsess : (readWorkingFile id asev prev (writeWorkingFile wc s)).sess =
      readWorking id asev (writeWorking (stripSess wc s.sess)) := by
    simp only [readWorkingFile, writeWorkingFile, writeWorking_strip]
  have hnodes := hr.1
  rw [hsess] at hnodes
  -- stripping an already stripped session changes nothing
  have hfix : stripSess wc (readWorking id asev (writeWorking (stripSess wc s.sess))) =
      readWorking id asev (writeWorking (stripSess wc s.sess)) := by
    cases hrw : readWorking id asev (writeWorking (stripSess wc s.sess)) with | mk nodes mx =>
    rw [hrw] at hnodes
    simp only at hnodes
    simp only [stripSess]
    congr 1
    rw [hnodes, List.map_map]
    apply List.map_congr_left
    intro n _
    simp [stripNode, strip_idem]
  show ((writeWorking (readWorkingFile id asev prev (writeWorkingFile wc s)).sess).map
      (fun e => { e with inst := stripComment wc e.inst })) = _
  rw [writeWorking_strip, hsess, hfix, h2]
  simp only [writeWorkingFile, writeWorking_strip]

/-- why `ReadWorkingFile` must forget the previous header: once the old header has `headerReplaceBelow` (4) or more
    instances, `HeaderMergeInstances` keeps it and drops the one just read — the saved file would then carry the header
    of an earlier load (the failing input is: load A with 4+ header entities, load B, save) -/
theorem C16_header_merge_keeps_old (old new : List String) (h : headerReplaceBelow ≤ old.length) :
    mergeHeader old new = old := by
  unfold mergeHeader; rw [if_neg (by omega)]

/-! ### the bytes of a skipped entry

`ReadData1` / `ReadData2` get over an entry marked `D` with `SkipInstance( in, tmpbuf )` (checked by tools/extract.d/stepfile.py:
"deleted instances are skipped").  On the byte-level reader model of C01/C03 that call consumes exactly the entry's text and
its terminating `;` — whatever its string literals and comments contain — so the entries after a deleted one are read from
their own first character (the class of seed C16-c1). -/

open StepModel.P21 StepModel.P21.RLemmas StepModel.SkipEntry in
theorem C16_deleted_entry_skipped {t : List Byte} (ht : EntryText t) (l rest : List Byte) :
    skipInstance Generated.rwCfg (G l (t ++ 59 :: rest) false) = .ok (G (59 :: (t.reverse ++ l)) rest false) :=
  skipInstance_entry Generated.rwCfg (by decide) ht l rest

open StepModel.P21 StepModel.P21.Grammar StepModel.P21.RLemmas StepModel.SkipEntry in
/-- `#2=I('a;b')` — a `;` inside a string literal — is such a text; so is `#2=I(/*;*/1)` -/
example : EntryText ([35, 50, 61, 73, 40] ++ ((39 :: ([97, 59, 98] ++ [39])) ++ 41 :: [])) :=
  .plain (by decide) (.plain (by decide) (.plain (by decide) (.plain (by decide) (.plain (by decide)
    (.string (.nonq (by decide) (.nonq (by decide) (.nonq (by decide) .nil))) (by decide) (.plain (by decide) .nil))))))

open StepModel.P21 StepModel.P21.RLemmas StepModel.SkipEntry in
example : EntryText ([35, 50, 61, 73, 40] ++ ((47 :: 42 :: ([59] ++ [42, 47])) ++ [49, 41])) :=
  .plain (by decide) (.plain (by decide) (.plain (by decide) (.plain (by decide) (.plain (by decide)
    (.comment (by decide) (by intro n h; cases h) (.plain (by decide) (.plain (by decide) .nil)))))))

/-- hard tie: skipped `D` entries are NOT counted as records that yielded no instance (repair C16-1, dd52d6f0; regenerated from
    ReadData1/ReadData2), hence `DelBound` — the hypothesis every theorem above carries — holds for EVERY session.  Before that
    repair the flag was true, `DelBound` meant "at most 100000 instances marked deleted", and a saved session with 100001 of them
    read back empty (pass 1 abandoned, severity EXIT); reverting the repair makes this fail and the bound bite again. -/
theorem C16_deleted_not_counted : deletedCountsAsFailure = false ∧ ∀ s : Sess, DelBound s :=
  ⟨rfl, fun _ => delBound_of_not_counted rfl⟩

/-- `noStateSE` is not an editing state: such a node is not written at all (with a message) and is therefore lost.
    The property quantifies over complete / incomplete / new / deleted, so this is outside it; recorded as a witness. -/
theorem C16_nostate_dropped_witness :
    writeWorking ⟨[⟨⟨1, [⟨"T0", []⟩], ""⟩, .noState⟩], 1⟩ = [] := by decide

/-! ### header instances: their file ids, and what a save writes

`StepModel/HeaderIds.lean` follows `ReadHeader` / `HeaderId` / `InstMgr::Append` / `HeaderVerifyInstances` /
`HeaderMergeInstances` / `WriteHeader`; `_headerId` is state of the STEPfile object (constructor 0, `ReadExchangeFile` 5,
nothing else assigns it — regenerated `headerIdSites`), so the ids depend on what the object has read before. -/
section header
open StepModel.HeaderIds

/-- a STEPfile object after any sequence of ReadExchangeFile / AppendExchangeFile / ReadWorkingFile / AppendWorkingFile calls,
    each on a file with the given header section -/
def afterReads (st : HState) (hist : List (Fn × List HEnt)) : HState :=
  hist.foldl (fun st x => readFileH x.1 st x.2) st

theorem afterReads_wf (hist : List (Fn × List HEnt)) (st : HState) (h : Wf st.mgr) : Wf (afterReads st hist).mgr := by
  induction hist generalizing st with
  | nil => exact h
  | cons x xs ih => exact ih _ (readFileH_wf x.1 h x.2)

/-- header instances never collide: whatever a new STEPfile object reads, in whatever order, with whatever header sections
    (any entities, any order, any number), no two of the header instances it holds carry the same file id -/
theorem C16_header_ids_never_collide (hist : List (Fn × List HEnt)) : (afterReads {} hist).mgr.ids.Nodup :=
  (afterReads_wf hist {} wf_empty).1

/-- a header section in the order Part 21 prescribes (and every save writes): FILE_DESCRIPTION, FILE_NAME, FILE_SCHEMA, then
    the optional entities -/
def stdHeader (fd fn fs : String) (opt : List HEnt) : List HEnt :=
  ⟨"FILE_DESCRIPTION", fd⟩ :: ⟨"FILE_NAME", fn⟩ :: ⟨"FILE_SCHEMA", fs⟩ :: opt

theorem verify_shape {m : HMgr} {fd fn fs rest} (hs : Shape m fd fn fs rest) : verify m = m := by
  have h1 : m.has 1 = true := by simp [HMgr.has, HMgr.ids, hs.nodes]
  have h2 : m.has 2 = true := by simp [HMgr.has, HMgr.ids, hs.nodes]
  have h3 : m.has 3 = true := by simp [HMgr.has, HMgr.ids, hs.nodes]
  have ho : headerVerifyOrder = [2, 1, 3] := rfl
  simp [verify, ho, h1, h2, h3]

theorem writeHeader_shape {m : HMgr} {fd fn fs : String} {rest}
    (hs : Shape m ⟨"FILE_DESCRIPTION", fd⟩ ⟨"FILE_NAME", fn⟩ ⟨"FILE_SCHEMA", fs⟩ rest) :
    writeHeader m = stdHeader fd fn fs (rest.map (·.2)) := by
  have hw : headerWriteFirst = ["FILE_DESCRIPTION", "FILE_NAME", "FILE_SCHEMA"] := rfl
  have hk : headerWriteSkipIds = [2, 1, 3] := rfl
  have hf : rest.filter (fun x => !([2, 1, 3] : List Nat).contains x.1) = rest := by
    apply List.filter_eq_self.2
    intro x hx
    have := hs.big x hx
    simp only [List.contains_cons, List.contains_nil, Bool.or_false, Bool.not_eq_true', Bool.or_eq_false_iff, beq_eq_false_iff_ne]
    omega
  unfold writeHeader stdHeader
  rw [hw, hk, hs.nodes]
  simp only [List.filter_cons]
  rw [hf]
  simp [HMgr.byName, hs.nodes, List.find?]

theorem survives_aux (hid : Nat) (fd fn fs : String) (opt : List HEnt) (hopt : ∀ e ∈ opt, notFixed e.name) :
    writeHeader (merge {} (verify (readSection hid {} (stdHeader fd fn fs opt)).1)) = stdHeader fd fn fs opt := by
  let m3 : HMgr := ⟨[(1, ⟨"FILE_DESCRIPTION", fd⟩), (2, ⟨"FILE_NAME", fn⟩), (3, ⟨"FILE_SCHEMA", fs⟩)], 3⟩
  have hs3 : Shape m3 ⟨"FILE_DESCRIPTION", fd⟩ ⟨"FILE_NAME", fn⟩ ⟨"FILE_SCHEMA", fs⟩ [] :=
    ⟨rfl, (by intro x hx; cases hx), Nat.le_refl 3⟩
  have hw3 : Wf m3 :=
    ⟨by simp [m3, HMgr.ids], by intro id h; simp [m3, HMgr.ids] at h; rcases h with h | h | h <;> subst h <;> simp [m3]⟩
  have hsec : readSection hid {} (stdHeader fd fn fs opt) = readSection hid m3 opt := by
    have e1 : headerId hid "FILE_DESCRIPTION" = (1, hid) := rfl
    have e2 : headerId hid "FILE_NAME" = (2, hid) := rfl
    have e3 : headerId hid "FILE_SCHEMA" = (3, hid) := rfl
    simp [stdHeader, readSection, e1, e2, e3, HMgr.append, HMgr.has, HMgr.ids, m3]
  obtain ⟨rest', hsh, hmap⟩ := readSection_shape opt hid m3 _ _ _ [] hs3 hw3 hopt
  have hm : ∀ new : HMgr, merge {} new = new := by intro new; unfold merge; rw [if_pos (by decide)]
  rw [hsec, verify_shape hsh, hm, writeHeader_shape hsh, hmap]; rfl

/-- all header instances survive: a file whose header section is in Part 21 order — the three required instances and ANY
    number of optional ones, repeated kinds included — read with ReadExchangeFile or ReadWorkingFile into a STEPfile object in
    ANY state (new: `_headerId` 0, nothing held; or used: any `_headerId`, any header instances from earlier reads) is written
    back with exactly that header, every instance once, in order -/
theorem C16_header_survives (f : Fn) (hf : f = .readExchange ∨ f = .readWorking) (st : HState) (fd fn fs : String)
    (opt : List HEnt) (hopt : ∀ e ∈ opt, notFixed e.name) :
    writeHeader (readFileH f st (stdHeader fd fn fs opt)).mgr = stdHeader fd fn fs opt := by
  have hsite : (site f).2 = true := by rcases hf with h | h <;> subst h <;> rfl
  unfold readFileH
  simp only [hsite, if_true]
  exact survives_aux _ fd fn fs opt hopt

/-- … hence through save and re-open, in the same object or in another one, new or used: the header of the file the session
    was loaded from is the header of every later save -/
theorem C16_header_reopen (f g : Fn) (hf : f = .readExchange ∨ f = .readWorking) (hg : g = .readExchange ∨ g = .readWorking)
    (st st' : HState) (fd fn fs : String) (opt : List HEnt) (hopt : ∀ e ∈ opt, notFixed e.name) :
    writeHeader (readFileH g st' (writeHeader (readFileH f st (stdHeader fd fn fs opt)).mgr)).mgr = stdHeader fd fn fs opt := by
  rw [C16_header_survives f hf st fd fn fs opt hopt, C16_header_survives g hg st' fd fn fs opt hopt]

/-- the append functions do not clear: once the object holds a header in Part 21 order with at least one optional instance
    (4 or more instances, `headerReplaceBelow`), AppendExchangeFile / AppendWorkingFile of ANY file leave the held header
    instances exactly as they are — ids included — and the next save writes the old header (the `_headerId` counter moves on) -/
theorem C16_header_append_keeps_old (f : Fn) (hf : f = .appendExchange ∨ f = .appendWorking) (st : HState)
    {fd fn fs : HEnt} {rest : List (Nat × HEnt)} (hs : Shape st.mgr fd fn fs rest) (hr : rest ≠ []) (ents : List HEnt) :
    (readFileH f st ents).mgr = st.mgr := by
  have hsite : (site f).2 = false := by rcases hf with h | h <;> subst h <;> rfl
  have h1 : st.mgr.has 1 = true := by simp [HMgr.has, HMgr.ids, hs.nodes]
  have h2 : st.mgr.has 2 = true := by simp [HMgr.has, HMgr.ids, hs.nodes]
  have h3 : st.mgr.has 3 = true := by simp [HMgr.has, HMgr.ids, hs.nodes]
  have hlen : ¬ st.mgr.nodes.length < headerReplaceBelow := by
    have : headerReplaceBelow = 4 := rfl
    rw [hs.nodes, this]
    cases rest with
    | nil => exact absurd rfl hr
    | cons x xs => simp
  have ho : headerMergeOrder = [2, 1, 3] := rfl
  unfold readFileH
  simp only [hsite, Bool.false_eq_true, if_false]
  unfold merge
  rw [if_neg hlen, ho]
  simp [h1, h2, h3]

/-- a held header of 4 or more instances that LACKS one of the required three (reachable only through headers that are not in
    Part 21 order): the append functions keep every held instance in place, fetch each missing one of FILE_NAME / FILE_DESCRIPTION /
    FILE_SCHEMA (ids 2, 1, 3) from the header just read when that one has it, and the ids stay pairwise distinct -/
theorem C16_header_merge_completes (old new : HMgr) (h4 : headerReplaceBelow ≤ old.nodes.length) (hw : Wf old) :
    old.nodes <+: (merge old new).nodes ∧ Wf (merge old new) ∧
    ∀ id, id = 1 ∨ id = 2 ∨ id = 3 → (old.has id = true ∨ (new.find id).isSome = true) → (merge old new).has id = true := by
  have ho : headerMergeOrder = [2, 1, 3] := rfl
  have hm : merge old new = mergeStep new (mergeStep new (mergeStep new old 2) 1) 3 := by
    unfold merge; rw [if_neg (by omega), ho]; rfl
  have w1 := mergeStep_wf new hw 2
  have w2 := mergeStep_wf new w1 1
  have w3 := mergeStep_wf new w2 3
  rw [hm]
  refine ⟨?_, w3, ?_⟩
  · exact List.IsPrefix.trans (mergeStep_prefix new old 2)
      (List.IsPrefix.trans (mergeStep_prefix new _ 1) (mergeStep_prefix new _ 3))
  · intro id hid h
    rcases hid with rfl | rfl | rfl
    · -- id 1: second step
      have : (mergeStep new (mergeStep new old 2) 1).has 1 = true :=
        mergeStep_fills new w1 (by decide) (by
          rcases h with h | h
          · exact Or.inl (mergeStep_mono new hw 2 h)
          · exact Or.inr h)
      exact mergeStep_mono new w2 3 this
    · have : (mergeStep new old 2).has 2 = true := mergeStep_fills new hw (by decide) h
      exact mergeStep_mono new w2 3 (mergeStep_mono new w1 1 this)
    · exact mergeStep_fills new w2 (by decide) (by
        rcases h with h | h
        · exact Or.inl (mergeStep_mono new w1 1 (mergeStep_mono new hw 2 h))
        · exact Or.inr h)

/-- the order matters: in a NEW object (`_headerId` 0) a working-session file whose header has an optional entity BEFORE the
    three required ones — not the order Part 21 prescribes, and never written by the library — gives that entity id 1, pushes
    FILE_DESCRIPTION / FILE_NAME / FILE_SCHEMA to 2 / 3 / 4, and the next save drops the optional entity and writes
    FILE_SCHEMA twice (the implementation does exactly this: histories of this kind are compared in the correspondence runs) -/
theorem C16_header_order_witness :
    let ents := [⟨"SECTION_LANGUAGE", "l"⟩, ⟨"FILE_DESCRIPTION", "d"⟩, ⟨"FILE_NAME", "n"⟩, ⟨"FILE_SCHEMA", "s"⟩]
    (readFileH .readWorking {} ents).mgr.nodes.map (fun x => (x.1, x.2.name))
        = [(1, "SECTION_LANGUAGE"), (2, "FILE_DESCRIPTION"), (3, "FILE_NAME"), (4, "FILE_SCHEMA")] ∧
    (writeHeader (readFileH .readWorking {} ents).mgr).map (·.name)
        = ["FILE_DESCRIPTION", "FILE_NAME", "FILE_SCHEMA", "FILE_SCHEMA"] ∧
    -- the same file read with ReadExchangeFile (`_headerId` := 5) is written back whole
    (writeHeader (readFileH .readExchange {} ents).mgr).map (·.name)
        = ["FILE_DESCRIPTION", "FILE_NAME", "FILE_SCHEMA", "SECTION_LANGUAGE"] := by
  decide

end header

/-! ### the round trip over the TEXT of the file (byte level)

`StepModel/WsBytes.lean` puts the working-session state letters on top of the byte-level reader of C01/C03 (their
`createInstance` / `readInstance` / `skipInstance`, not edited); `wsWriteInsts` is `WriteWorkingData` for the instances that
are not marked deleted: the state letter, then the bytes `WriteData` prints for the instance (their `writeInst`).  This is
the statement the entry-level `C16_roundtrip` delegates to "the same `STEPwrite` as in an exchange file". -/
section text
open StepModel.P21 StepModel.P21.C01 StepModel.P21.RLemmas StepModel.P21.Lemmas StepModel.P21.Grammar StepModel.WsBytes

theorem letterFor_state {st : NState} {L : Letter} (h : letterFor st = some L) : L.state = st ∧ L ≠ .D := by
  cases st <;> simp [letterFor] at h <;> subst h <;> exact ⟨rfl, by decide⟩

/-- **write a session, read the TEXT, get the session** (`_partial`: instances of the fragment `C01_file_write_read_partial`
    covers — internally mapped, `StorableInst`: the value kinds of `Storable` —, states complete / incomplete / new; entries
    marked deleted and comments are not in this statement: a `D` entry is skipped exactly (`C16_deleted_entry_skipped`)).
    For every dictionary, every reader configuration with the comment repairs (they are in the source: `C01_source_*`), either
    strictness, every manager whose instances have pairwise different ids and refer only to instances it holds: the bytes
    `WriteWorkingData` emits — for each instance its state letter and the record `STEPwrite` prints —, followed by `ENDSEC;`,
    are read by the two passes of a working-session read to exactly the instances that were written: same ids, types, every
    value identical, every editing STATE the one that was saved; nothing is reported, every instance counts as valid; and
    writing what was read gives the same bytes again. -/
theorem C16_text_roundtrip_partial {F} (ops : FloatOps F) (lex : LexCfg) (cfg : RWCfg) (d : Dict) (strict : Bool)
    (hskip : cfg.skipInstanceSkipsComments = true) (hcri : lex.criSkipsComments = true) (hagg : cfg.aggrSkipsComments = true)
    (hsa : cfg.stringNodeAppends = false) (m : Mgr F) (hnd : (m.insts.map (·.id)).Nodup)
    (hst : ∀ i ∈ m.insts, StorableInst { ops := ops, lex := lex, cfg := cfg, dict := d, lookup := Mgr.lookup d m } i)
    (hstate : ∀ i ∈ m.insts, i.state ≠ .noState) (tail : List Byte) :
    ∃ p1 p2, wsReadData ops lex cfg d strict
        (10 :: (wsWriteInsts ops cfg d m ++ (stringToBytes "ENDSEC;\n" ++ tail))) = .ok (p1, p2) ∧
      p2.mgr.insts = m.insts ∧ p1.count = m.insts.length ∧ p1.notCreated = 0 ∧ p2.fileErr = .null ∧
      p2.valid = m.insts.length ∧ p2.invalid = 0 ∧ p2.incomplete = 0 ∧
      wsWriteInsts ops cfg d p2.mgr = wsWriteInsts ops cfg d m := by
  let env : Env F := { ops := ops, lex := lex, cfg := cfg, dict := d, lookup := Mgr.lookup d m }
  -- the letter of every instance
  have hlet : ∀ i ∈ m.insts, ∃ L, letterFor i.state = some L := by
    intro i hi
    cases hs : i.state <;> simp [letterFor] <;> exact absurd hs (hstate i hi)
  let letOf : MInst F → Letter := fun i => (letterFor i.state).getD .C
  have hletOf : ∀ i ∈ m.insts, letterFor i.state = some (letOf i) := by
    intro i hi; obtain ⟨L, hL⟩ := hlet i hi; simp [letOf, hL]
  let rs : List (Letter × Rec F × List Byte) := m.insts.map (fun i => (letOf i, recOf ops cfg d i))
  have hspec : ∀ i, i ∈ m.insts →
      (recOf ops cfg d i).1.Lex ∧ Seps (recOf ops cfg d i).2 ∧ (recOf ops cfg d i).1.id = i.id ∧
      (∃ p e, i.parts = [p] ∧ (recOf ops cfg d i).1.name = p.name ∧ d.entity? p.name = some e ∧ e.abstract = false ∧
        e.attrs = (recOf ops cfg d i).1.ps.map (·.a) ∧ (recOf ops cfg d i).1.ps.map (·.v) = p.vals ∧
        ∀ q ∈ (recOf ops cfg d i).1.ps, Covered env q) ∧
      ∀ K, 35 :: (recOf ops cfg d i).1.text ((recOf ops cfg d i).2 ++ K) = writeInst ops cfg d i ++ K :=
    fun i hi => recOf_spec env cfg hsa i (hst i hi)
  have hkeys : (rs.map (wsMkInst d)).map keyOf = m.insts.map keyOf := by
    simp only [rs, List.map_map]
    apply List.map_congr_left
    intro i hi
    obtain ⟨_, _, hid, ⟨p, e, hparts, hname, _⟩, _⟩ := hspec i hi
    simp [keyOf, wsMkInst, mkInst, hid, hname, hparts]
  have hlk : Mgr.lookup d ({ insts := rs.map (wsMkInst d) } : Mgr F) = Mgr.lookup d m := lookup_congr d _ m hkeys
  have hids : rs.map (·.2.1.id) = m.insts.map (·.id) := by
    simp only [rs, List.map_map]
    apply List.map_congr_left
    intro i hi
    exact (hspec i hi).2.2.1
  -- the text
  have hw : ∀ (is : List (MInst F)), (∀ i ∈ is, i ∈ m.insts) → ∀ fin,
      wsRender (is.map (fun i => (letOf i, recOf ops cfg d i))) fin = wsWriteInsts ops cfg d { insts := is } ++ fin := by
    intro is
    induction is with
    | nil => intro _ fin; rfl
    | cons i t ih =>
      intro hmem fin
      have hi := hmem i (by simp)
      obtain ⟨_, _, _, _, hwi⟩ := hspec i hi
      have := hwi (wsRender (t.map (fun i => (letOf i, recOf ops cfg d i))) fin)
      have ht := ih (fun x hx => hmem x (by simp [hx])) fin
      simp only [wsWriteInsts] at ht ⊢
      simp only [List.map_cons, List.flatMap_cons, wsRender, hletOf i hi, List.cons_append, List.append_assoc]
      rw [this, ht]
  have hfile : (10 : Byte) :: (wsWriteInsts ops cfg d m ++ (stringToBytes "ENDSEC;\n" ++ tail)) =
      [10] ++ wsRender rs (endsec [] ([10] ++ tail)) := by
    have e1 : stringToBytes "ENDSEC;\n" = [69, 78, 68, 83, 69, 67, 59, 10] := by decide
    show _ = [10] ++ wsRender (m.insts.map (fun i => (letOf i, recOf ops cfg d i))) _
    rw [hw m.insts (fun _ h => h), e1]
    simp [endsec]
  obtain ⟨p1, p2, hr, hinsts, hc, hnc, herr, hv, hinv, hinc, _, _⟩ :=
    wsReadData_recs ops lex cfg hskip d strict [] ([10] ++ tail) (by simp) rs [10] (Seps.blanks _ (by decide))
      (by
        intro x hx
        obtain ⟨i, hi, rfl⟩ := List.mem_map.mp hx
        obtain ⟨hlex, hg, _, ⟨p, e, _, hname, hent, habs, _, _, hcov⟩, _⟩ := hspec i hi
        exact ⟨(letterFor_state (hletOf i hi)).2, hlex, hg, fun q hq => covered_scan _ q (hcov q hq), e, by rw [hname]; exact hent, habs⟩)
      (by rw [hids]; exact hnd)
      (by
        intro x hx
        obtain ⟨i, hi, rfl⟩ := List.mem_map.mp hx
        obtain ⟨hlex, hg, _, ⟨p, e, _, hname, hent, habs, hattrs, _, hcov⟩, _⟩ := hspec i hi
        rw [hlk]
        exact ⟨hlex, hg, e, by rw [hname]; exact hent, hattrs, fun q hq => covered_ok env strict hcri hagg q (hcov q hq)⟩)
  have hres : p2.mgr.insts = m.insts := by
    rw [hinsts]
    simp only [rs, List.map_map]
    conv => rhs; rw [← List.map_id m.insts]
    apply List.map_congr_left
    intro i hi
    obtain ⟨_, _, hid, ⟨p, e, hparts, hname, _, _, _, hvals, _⟩, _⟩ := hspec i hi
    obtain ⟨_, _, hcx, _⟩ := hst i hi
    have hLs := (letterFor_state (hletOf i hi)).1
    cases i with
    | mk id parts complex state =>
      simp only at hid hparts hcx hname hvals hLs
      subst hparts; subst hcx
      simp [wsFinInst, finInst, hid, hname, hvals, hLs]
  refine ⟨p1, p2, by rw [hfile]; exact hr, hres, ?_, hnc, herr, ?_, hinv, hinc, ?_⟩
  · rw [hc]; simp [rs]
  · rw [hv]; simp [rs]
  · simp only [wsWriteInsts, hres]

/-- **the two passes of a working-session read over the TEXT, internally and externally mapped records mixed** (`_partial`): the
    DATA section is any sequence of entries `L#<record>` with `L` one of C, I, N and pairwise different ids, each record either
    internally mapped over the kinds of C01's `Covered` (redeclared attributes allowed) or externally mapped
    `( PART(…) PART(…) … )` with a legal combination of known parts (exactly the records of `C01_read_file_mixed_partial`), any
    layout between the entries, references forward and backward between records of either mapping.  Pass 1 creates one instance
    per entry with the STATE OF ITS LETTER, pass 2 reads every parameter of every record and of every part to the value its token
    denotes and leaves the state alone; nothing is reported, every instance counts as valid.  (Read half at text level; the
    write half for externally mapped instances is not in C01's writer theorems.  Entries marked deleted and comments before the
    letter are not in this statement.) -/
theorem C16_text_read_mixed_partial {F} (ops : FloatOps F) (lex : LexCfg) (cfg : RWCfg) (d : Dict) (strict : Bool)
    (hskip : cfg.skipInstanceSkipsComments = true) (hcri : lex.criSkipsComments = true) (hagg : cfg.aggrSkipsComments = true)
    (hmc : cfg.missingCheckEverySecond = false) (hrep : cfg.complexReportsError = true)
    (rs : List (Letter × AnyRec F)) (g0 sp tail : List Byte) (hg0 : Seps g0) (hsp : sp.all isSpace = true)
    (hL : ∀ x ∈ rs, x.1 ≠ .D) (hnd : (rs.map (fun x => (x.2.item d).id)).Nodup)
    (hrec : ∀ x ∈ rs, AnyRecCovered { ops := ops, lex := lex, cfg := cfg, dict := d,
                                       lookup := Mgr.lookup d ({ insts := rs.map (fun x => (x.2.item d).mkI) } : Mgr F) } x.2) :
    ∃ p1 p2, wsReadData ops lex cfg d strict
        (g0 ++ wsRenderI (rs.map (fun x => (x.1, x.2.item d))) (endsec sp tail)) = .ok (p1, p2) ∧
      p2.mgr.insts = rs.map (fun x => { (x.2.item d).out with state := x.1.state }) ∧
      p1.count = rs.length ∧ p1.notCreated = 0 ∧ p2.fileErr = .null ∧ p2.valid = rs.length ∧ p2.invalid = 0 ∧
      p2.incomplete = 0 := by
  let xs : List (Letter × Item F) := rs.map (fun x => (x.1, x.2.item d))
  have hlk : Mgr.lookup d ({ insts := xs.map wsMkI } : Mgr F) =
      Mgr.lookup d ({ insts := rs.map (fun x => (x.2.item d).mkI) } : Mgr F) := by
    apply lookup_congr
    simp [xs, List.map_map, Function.comp_def, keyOf, wsMkI]
  obtain ⟨p1, p2, hr, hm, hc, hnc, herr, hv, hinv, hinc, _⟩ :=
    wsReadData_items ops lex cfg d strict sp tail hsp xs g0 hg0
      (by
        intro x hx
        obtain ⟨y, hym, rfl⟩ := List.mem_map.mp hx
        obtain ⟨L, r⟩ := y
        refine ⟨hL _ hym, ?_⟩
        cases r with
        | simple rg =>
          obtain ⟨hl, hg, e, he, habs, _, hcov⟩ := hrec _ hym
          have he' : d.entity? rg.1.name = some e := he
          refine ⟨hg, rfl, ?_⟩
          intro m hnone l c k hc h47 h92
          obtain ⟨l', h⟩ := createInstance_rec cfg hskip d m rg.1 hl (fun q hq => covered_scan _ q (hcov q hq)) hnone e he' habs
            l rg.2 hg c k hc h47 h92
          refine ⟨l', ?_⟩
          show createInstance cfg d m (G l (rg.1.text [] ++ (rg.2 ++ c :: k)) false) = _
          rw [rec_text_append, h]
          simp [AnyRec.item, mkInst, he']
        | complex r g =>
          obtain ⟨hl, hg, hlegal, _, _⟩ := hrec _ hym
          refine ⟨hg, rfl, ?_⟩
          intro m hnone l c k hc h47 h92
          obtain ⟨l', h⟩ := createInstance_crec cfg hskip d m r hl hnone hlegal l g hg c k hc h47 h92
          refine ⟨l', ?_⟩
          show createInstance cfg d m (G l (r.text [] ++ (g ++ c :: k)) false) = _
          rw [crec_text_append]
          exact h)
      (by simpa [xs, List.map_map, Function.comp_def] using hnd)
      (by
        intro x hx
        obtain ⟨y, hym, rfl⟩ := List.mem_map.mp hx
        obtain ⟨L, r⟩ := y
        rw [hlk]
        cases r with
        | simple rg =>
          obtain ⟨hl, hg, e, he, habs, hal, hcov⟩ := hrec _ hym
          have hent' : d.entity? rg.1.name = some e := he
          refine ⟨rfl, hg, rfl, rfl, by simp [keyOf, finInst, mkInst, AnyRec.item], ?_⟩
          intro st l rest sk hfind hlk' hs
          have hs' : st.s = G l (rg.1.text rest) sk := by rw [← rec_text_append]; exact hs
          have hrd : ∀ L', ∃ sk1, instSTEPread { ops := ops, lex := lex, cfg := cfg, dict := d, lookup := Mgr.lookup d st.mgr } strict
              e.attrs (G L' (40 :: (renderParams rg.1.ps ++ rg.1.t4 rest)) sk) =
                .ok ⟨.null, rg.1.ps.map (·.v), G ((40 :: renderParams rg.1.ps).reverse ++ L') (rg.1.t4 rest) sk1, .null⟩ := by
            intro L'
            obtain ⟨sk2, _, h⟩ := instSTEPread_aligned { ops := ops, lex := lex, cfg := cfg, dict := d, lookup := Mgr.lookup d st.mgr }
              strict hmc e.attrs rg.1.ps hal hl.pne
              (fun q hq => covered_rd _ strict hcri hagg q (by rw [hlk']; exact hcov q hq))
              (fun q hq => covered_head_ne41 _ q (hcov q hq)) L' sk (rg.1.t4 rest)
            exact ⟨sk2, h⟩
          obtain ⟨l', sk', h⟩ := readInstance_semi_anyflag ops lex cfg d strict st rg.1 hl l rest sk hs' (mkInst d (rg.1, rg.2)) hfind rfl rfl
            { name := rg.1.name, vals := match d.entity? rg.1.name with | some e => defaults e.attrs | none => [] } rfl e hent'
            .null (rg.1.ps.map (·.v)) .null hrd (by
              have : decide (P21.Sev.null.toInt ≤ P21.Sev.warning.toInt) = false := by decide
              rw [this, Bool.and_false])
          refine ⟨l', sk', ?_⟩
          rw [h]
          simp [finInst, mkInst, stateOf, AnyRec.item]
        | complex r g =>
          obtain ⟨hl, hg, hlegal, hknown, hcov⟩ := hrec _ hym
          refine ⟨rfl, hg, rfl, rfl, ?_, ?_⟩
          · show keyOf (finCInst d r) = keyOf (mkCInst d r)
            simp only [keyOf, finCInst, foldl_setPart_names]
          · intro st l rest sk hfind hlk' hs
            have hs' : st.s = G l (r.text rest) sk := by rw [← crec_text_append]; exact hs
            exact (C01_complex_record_both_passes_partial ops lex cfg d strict hskip hcri hagg hrep r hl hlegal hknown).2 st hfind
              (fun c hc => by rw [hlk']; exact hcov c hc) l rest sk hs')
  have hall : errAfterI .null (xs.map (·.2)) = .null :=
    errAfterI_null _ (by
      intro y hy
      simp only [xs, List.map_map, List.mem_map, Function.comp_def] at hy
      obtain ⟨x, _, rfl⟩ := hy
      obtain ⟨L, r⟩ := x
      cases r <;> rfl)
  refine ⟨p1, p2, hr, ?_, ?_, hnc, by rw [herr, hall], ?_, hinv, hinc⟩
  · rw [hm]; simp [xs, List.map_map, Function.comp_def, wsOutI]
  · rw [hc]; simp [xs]
  · rw [hv]; simp [xs]

/-- the tables of the byte-level layer are the regenerated ones: the prefix letters `strchr( "CIND", c )` accepts, the state
    `EntityWfState` gives each (what pass 1 appends the instance with), the letter `WriteWorkingData` prints for each state;
    a working-session read never changes a state; skipped `D` entries are not counted -/
theorem C16_text_layer_ties :
    wfLetters.map (fun c => letterOf c.toNat) = [some .C, some .I, some .N, some .D] ∧
    (∀ c : Byte, (letterOf c).isSome = true → (Char.ofNat c) ∈ wfLetters) ∧
    (entityWfState 'C' = .complete ∧ Letter.C.state = .complete) ∧ (entityWfState 'I' = .incomplete ∧ Letter.I.state = .incomplete) ∧
    (entityWfState 'N' = .new ∧ Letter.N.state = .new) ∧ entityWfState 'D' = .delete ∧
    (writeLetterOf .complete = some 'C' ∧ letterFor .complete = some .C) ∧
    (writeLetterOf .incomplete = some 'I' ∧ letterFor .incomplete = some .I) ∧
    (writeLetterOf .new = some 'N' ∧ letterFor .new = some .N) ∧ (writeLetterOf .noState = none ∧ letterFor .noState = none) ∧
    workingReadKeepsState = true ∧ deletedCountsAsFailure = false := by
  refine ⟨by decide, ?_, by decide, by decide, by decide, by decide, by decide, by decide, by decide, by decide, rfl, rfl⟩
  intro c hc
  simp only [letterOf] at hc
  by_cases h1 : c = 67
  · subst h1; decide
  · by_cases h2 : c = 73
    · subst h2; decide
    · by_cases h3 : c = 78
      · subst h3; decide
      · by_cases h4 : c = 68
        · subst h4; decide
        · simp [h1, h2, h3, h4] at hc

/-- the hypotheses of `C16_text_roundtrip_partial` are satisfiable: C01's witness file `#2=B(#1,$);` `#1=A(5);` (a forward
    reference) as a session with the states incomplete and new — saved as `I#2=B(#1,$);⏎N#1=A(5);⏎` -/
example :
    let m : Mgr Nat := { insts := [{ finInst wRecB with state := .incomplete }, { finInst wRecA with state := .new }] }
    (m.insts.map (·.id)).Nodup ∧ (∀ i ∈ m.insts, StorableInst (wEnv m) i) ∧ (∀ i ∈ m.insts, i.state ≠ .noState) ∧
    wsWriteInsts dblOps Generated.rwCfg wDict m =
      stringToBytes "I#2=B(#1,$);\nN#1=A(5);\n" := by
  intro m
  obtain ⟨_, _, hst⟩ := C01_file_hypotheses_witness
  have hlk : Mgr.lookup wDict m = Mgr.lookup wDict ({ insts := wRecs.map finInst } : Mgr Nat) := by
    apply lookup_congr; decide
  refine ⟨by decide, ?_, by decide, by decide⟩
  intro i hi
  simp only [m, List.mem_cons, List.mem_singleton, List.not_mem_nil, or_false] at hi
  unfold wEnv
  rw [hlk]
  rcases hi with rfl | rfl
  · obtain ⟨h0, h1, h2, p, e, hp, he, ha, hk, hr⟩ := hst wRecB (by simp [wRecs])
    exact ⟨h0, h1, h2, p, e, hp, he, ha, hk, hr⟩
  · obtain ⟨h0, h1, h2, p, e, hp, he, ha, hk, hr⟩ := hst wRecA (by simp [wRecs])
    exact ⟨h0, h1, h2, p, e, hp, he, ha, hk, hr⟩

/-- the hypotheses of `C16_text_read_mixed_partial` are satisfiable: C01's mixed witness `#1=A(5);` `#2=(A(7)C(#1));` as the working-
    session entries `I#1=A(5);⏎N#2=(A(7)C(#1));⏎` (an internally mapped record and an externally mapped one whose part refers back) -/
example :
    let rs : List (Letter × AnyRec Nat) := [(.I, .simple wRecA), (.N, .complex mCRec [10])]
    (∀ x ∈ rs, x.1 ≠ .D) ∧ (rs.map (fun x => (x.2.item mDict).id)).Nodup ∧
    rs.map (fun x => (x.2.item mDict).mkI) = mRecs.map (fun r => (r.item mDict).mkI) ∧   -- so `mEnv` is the environment of the theorem
    (∀ x ∈ rs, AnyRecCovered mEnv x.2) ∧
    wsRenderI (rs.map (fun x => (x.1, x.2.item mDict))) [] = stringToBytes "I#1=A(5);\nN#2=(A(7)C(#1));\n" := by
  intro rs
  obtain ⟨hnd, hcov⟩ := C01_mixed_hypotheses_witness
  refine ⟨by decide, hnd, rfl, ?_, by decide⟩
  intro x hx
  simp only [rs, List.mem_cons, List.mem_singleton, List.not_mem_nil, or_false] at hx
  rcases hx with rfl | rfl
  · exact hcov _ (by simp [mRecs])
  · exact hcov _ (by simp [mRecs])

end text

/-! ### hypotheses are satisfiable, with all four states and a missing value present -/

def exS : Sess :=
  ⟨[⟨⟨1, [⟨"T0", [.null, .ref 3]⟩], ""⟩, .incomplete⟩, ⟨⟨2, [⟨"T0", [.tok "5", .null]⟩], ""⟩, .delete⟩,
    ⟨⟨3, [⟨"T1", [.aggr (.cons (.ref 1) .nil)]⟩], ""⟩, .new⟩, ⟨⟨7, [⟨"T1", [.aggr .nil]⟩], ""⟩, .complete⟩], 7⟩

example : Inv exS ∧ NoNoState exS ∧ ClosedLive exS ∧ DelBound exS ∧ CommentBound exS := by
  refine ⟨⟨by decide, by decide, by decide⟩, ?_, ?_, ?_, ?_⟩
  · unfold NoNoState; decide
  · unfold ClosedLive; decide
  · unfold DelBound; decide
  · exact C16_comments_any_length.2 exS

open StepModel.HeaderIds in
example : notFixed "SECTION_LANGUAGE" ∧ notFixed "FILE_POPULATION" := by unfold notFixed; decide

end StepModel.Session

import StepModel.ExpLexLayout
import StepModel.ExpLexStr
import StepModel.ExpLexGlue
import StepModel.ExpSplitCtx
import StepModel.ExpLexStrWhole
/-!
# C07, character level: what the scanner reads from the laid-out text of an expression

The layout engine (`wrap`/`raw`: `StepModel/ExpPrint.lean`) and the scanner model (`StepModel/ExpLex.lean`, keyword and operator
tables regenerated from lexact.c / expscan.l) meet here.  Lemmas: `StepModel/ExpLexLemmas.lean` (one token at a time),
`StepModel/ExpLexLayout.lean` (fragments, `K_run`, the annotated expression fragments `annot`, their static safety `safe_all`).
-/
namespace StepModel.Express
open StepModel.Generated

theorem lexTok_head (c : Char) (r : List Char) (x : Tok × List Char) (h : lexTok (c :: r) = some x) : isWsC c = false := by
  cases hw : isWsC c with
  | false => rfl
  | true =>
    exfalso
    simp only [isWsC, Bool.or_eq_true, beq_iff_eq] at hw
    rcases hw with ((rfl | rfl) | rfl) | rfl <;> simp (decide := true) [lexTok, lexSym] at h

theorem dropWhile_ws_append (w cs : List Char) (hw : w.all isWsC = true) (c : Char) (r : List Char) (hcs : cs = c :: r)
    (hc : isWsC c = false) : (w ++ cs).dropWhile isWsC = cs := by
  induction w with
  | nil => subst hcs; simp [List.dropWhile, hc]
  | cons x w ih =>
    simp only [List.all_cons, Bool.and_eq_true] at hw
    simp [List.dropWhile, hw.1, ih hw.2]

theorem dropWhile_all (p : Char → Bool) (l : List Char) (h : l.all p = true) : l.dropWhile p = [] := by
  induction l with
  | nil => rfl
  | cons x l ih =>
    simp only [List.all_cons, Bool.and_eq_true] at h
    simp [List.dropWhile, h.1, ih h.2]

/-- the relation `Lexes` is what the executable scanner `lexN` computes, for any fuel not smaller than the number of tokens -/
theorem lexN_of_lexes {cs : List Char} {ts : List Tok} (h : Lexes cs ts) : ∀ n, ts.length ≤ n → lexN n cs = some ts := by
  induction h with
  | done w hw =>
    intro n _
    cases n with
    | zero => simp [lexN, hw]
    | succ n =>
      have : w.dropWhile isWsC = [] := dropWhile_all _ w hw
      simp [lexN, this]
  | tok w cs t r ts hw hl _ _ ih =>
    intro n hn
    cases n with
    | zero => simp at hn
    | succ n =>
      cases cs with
      | nil => simp [lexTok] at hl
      | cons c r0 =>
        have hc := lexTok_head c r0 _ hl
        have hd := dropWhile_ws_append w (c :: r0) hw c r0 rfl hc
        simp only [lexN, hd, hl, ih n (by simpa using hn)]
        rfl

theorem lexes_length {cs : List Char} {ts : List Tok} (h : Lexes cs ts) : ts.length ≤ cs.length := by
  induction h with
  | done w _ => simp
  | tok w cs t r ts _ _ hlen _ ih => simp only [List.length_cons, List.length_append]; omega

/-- … and so what `lex` (fuel: the length of the text) returns -/
theorem lex_of_lexes {cs : List Char} {ts : List Tok} (h : Lexes cs ts) : lex cs = some ts :=
  lexN_of_lexes h _ (by have := lexes_length h; omega)

/-- the initial state of the layout engine satisfies the invariant, with nothing read so far -/
theorem K_init (st : PState) (h0 : st.pieces = []) (hs : st.spaceLast = false) : K st [] none := by
  have ht : st.text = [] := by simp [PState.text, h0]
  refine ⟨(fun h => by rw [hs] at h; cases h), ?_, fun _ => rfl⟩
  rw [ht]; exact LexInv.nil

/-- **Character level, every line length.**  Take an expression whose identifiers are words the scanner reads as identifiers,
without REAL literals and simple string literals, and where the operand of `.` is not an integer literal (`lexWF`).  Lay out its
fragments (`exprFrags`) with the layout engine from *any* state — any line length, indent, column, last-blank flag — in which
the text so far is read as the tokens `TS` whatever follows (`K`; e.g. the empty text).  Then the resulting text is read by the
scanner as `TS` followed by exactly the tokens `toks e` — the tokens `C07_parse_print` parses back to `e`.  Wherever `wrap`
breaks the line or drops blanks, no two tokens are glued together and none is split.
REAL literals are covered in the spelling exppp prints (`real2exp g = g`, digits `.` digits, optional exponent: `LitLex`); for
any other spelling of the value see `C07_lex_layout_respelled_partial`.
Excluded: simple string literals (`breakLongStr` may split them into `'a' + 'b'`: `C07_breakLongStr_exact`), an integer literal
as operand of `.` (`3.x` would be read as the real `3.`; the resolver rejects such a schema, PE008). -/
theorem C07_lex_layout_partial (e : Expr) (hw : lexWF e) (p : Bool) (q : Option BinOp) (st : PState) (TS : List Tok)
    (hK : K st TS none) :
    Lexes (run st (exprFrags Shared.clean e p q)).text (TS ++ toks Shared.clean e p q) := by
  obtain ⟨hf, ht⟩ := (annot_eq e).1 p q hw
  obtain ⟨hs, _⟩ := (safe_all e).1 p q none hw (Or.inl rfl)
  obtain ⟨lt', hK', _⟩ := K_run (annot e p q) st TS none none hK (Or.inl rfl) hs
  rw [hf, ht] at hK'
  have := hK'.2.1 [] [] (by cases lt' <;> trivial) (Lexes.done [] rfl)
  simpa using this

/-- the same for the executable scanner `lex`, from the initial state (any line length and indent): it returns exactly `toks e` -/
theorem C07_lex_layout_exec_partial (e : Expr) (hw : lexWF e) (p : Bool) (q : Option BinOp) (st : PState)
    (h0 : st.pieces = []) (hs : st.spaceLast = false) :
    lex (run st (exprFrags Shared.clean e p q)).text = some (toks Shared.clean e p q) := by
  have := C07_lex_layout_partial e hw p q st [] (K_init st h0 hs)
  exact lex_of_lexes (by simpa using this)

/-- **`parse ∘ lex ∘ layout ∘ print` is the identity, at every line length** (expressions as in `C07_lex_layout_partial` that
the parser can build, `wfE`): the characters the layout engine writes for `e` are read by the scanner as tokens that the
precedence parser turns back into `e` itself — the statement of
`C07_parse_print`, now from the character level -/
theorem C07_char_roundtrip_partial (e : Expr) (hw : wfE e) (hl : lexWF e) (st : PState) (h0 : st.pieces = []) (hs : st.spaceLast = false) :
    (lex (run st (exprFrags Shared.clean e false none)).text).bind parse = some e := by
  rw [C07_lex_layout_exec_partial e hl false none st h0 hs]
  exact C07_parse_print e hw

/-- a real literal whose `%#.15g` text has the shape digits `.` digits [exponent] (`RealSp`: what printf's `#` flag guarantees for
a finite non-negative value) is, once `real2exp` has removed its trailing zeros, a spelling the scanner model reads as one REAL
token, and `real2exp` leaves that spelling alone -/
theorem C07_real_respelled_lexes (g : List Char) (h : RealSp g) : LitLex (respellLit (.real g)) :=
  ⟨real2exp_shape g h, real2exp_idem g h⟩

/-- the printer sees a real literal only through `real2exp`: respelling every real literal of `e` as exppp prints it does not
change a single fragment -/
theorem C07_print_respells (e : Expr) (h : lexWF (respell e)) (p : Bool) (q : Option BinOp) :
    exprFrags Shared.clean (respell e) p q = exprFrags Shared.clean e p q :=
  (frags_respell e).1 p q h

/-- `C07_lex_layout_partial` for expressions with real literals in any spelling of the shape of `C07_real_respelled_lexes`:
the scanner reads the laid-out text of `e` as the tokens of `respell e` — `e` with every real literal in the spelling exppp
prints (the value is the same; `strtod` is not modelled) -/
theorem C07_lex_layout_respelled_partial (e : Expr) (hw : lexWF (respell e)) (p : Bool) (q : Option BinOp) (st : PState)
    (TS : List Tok) (hK : K st TS none) :
    Lexes (run st (exprFrags Shared.clean e p q)).text (TS ++ toks Shared.clean (respell e) p q) := by
  rw [← C07_print_respells e hw p q]
  exact C07_lex_layout_partial (respell e) hw p q st TS hK

/-- print → layout at any line length → scan → parse gives `e` back with its real literals respelled -/
theorem C07_char_roundtrip_respelled_partial (e : Expr) (hw : wfE (respell e)) (hl : lexWF (respell e)) (st : PState)
    (h0 : st.pieces = []) (hs : st.spaceLast = false) :
    (lex (run st (exprFrags Shared.clean e false none)).text).bind parse = some (respell e) := by
  rw [← C07_print_respells e hl false none]
  exact C07_char_roundtrip_partial (respell e) hw hl st h0 hs

/-- **`breakLongStr` and the scanner, every line length**: from any state in which the text so far is read as `TS` whatever
follows (`K`), the text `breakLongStr` adds for the string `s` — in one piece, or cut at its break points with the separator
`'`⏎`+ '`, in parentheses or not — is read as the literal `'…'` (doubled apostrophes) or as a sum of literals whose bodies
concatenate to it (`StrSplit`).  `hsafe`: what precedes an opening parenthesis of the split form may be followed by `(`. -/
theorem C07_string_literal_lexes (st : PState) (TS : List Tok) (lt slt : Option Tok) (s : List Char) (paren : Bool)
    (hK : K st TS lt) (hr : lt = none ∨ lt = slt) (hsafe : paren = true → ∀ t0, slt = some t0 → adjOK t0 .lp = true) :
    ∃ ts lt', K (breakLongStr st s paren) (TS ++ ts) lt' ∧ StrSplit (escQ s) ts :=
  let ⟨ts, lt', h1, _, h3, _⟩ := K_str st TS lt slt s paren hK hr hsafe
  ⟨ts, lt', h1, h3⟩

/-- **The prediction behind repair C07-7 is sound, for every state and line length.**  In operand position (`paren = true`)
`breakLongStr` either writes the literal whole — `'…'` after at most a blank or a line break, closed by `'` or `' ` — or it has
decided to parenthesise (`splitParen`, then the text is `( '…' + '…' )` by `C07_breakLongStr_exact`): the look-ahead
`literalSplits` follows `curpos` through every piece exactly as `breakPieces` does, so an unparenthesised `'a.' + 'b'` — which under
a tighter operator would be a different expression — cannot arise there.  Excluded: strings containing a newline (the scanner's
string rule ends at the end of the line, so no parsed schema has one). -/
theorem C07_operand_literal_whole_or_parenthesised_partial (st : PState) (s : List Char) (hnl : '\n' ∉ s) :
    (∃ W tail, W.all isWsC = true ∧ (tail = [] ∨ tail = [' ']) ∧
        (breakLongStr st s true).text = st.text ++ W ++ ['\''] ++ escQ s ++ ['\''] ++ tail)
    ∨ splitParen st (splitDots (escQ s)) true = true :=
  operand_literal_whole_or_paren st s hnl

/-- **Character level with string literals, every line length.**  As `C07_lex_layout_respelled_partial`, simple string
literals allowed (`lexWFS`): the scanner reads the laid-out text of `e` as tokens `ts` that are the tokens of the expression
(`toks (respell e)`) except that a string literal may have been read as a split rendering of it (`Joined`: `'a.' + 'b'`, possibly
in parentheses, for `'a.b'` — the splitting of string literals the property allows).  No other token is glued, split or lost.
Excluded: an integer literal as operand of `.` (rejected by the resolver). -/
theorem C07_lex_layout_strings_partial (e : Expr) (hw : lexWFS (respell e)) (p : Bool) (q : Option BinOp) (st : PState)
    (TS : List Tok) (hK : K st TS none) :
    ∃ ts, Lexes (run st (exprFrags Shared.clean e p q)).text (TS ++ ts) ∧ Joined ts (toks Shared.clean (respell e) p q) := by
  rw [← (frags_respellS e).1 p q hw]
  obtain ⟨hf, ht⟩ := (annotS_eq (respell e)).1 p q hw
  obtain ⟨hs, _⟩ := (safe_allS (respell e)).1 p q none hw (Or.inl rfl)
  obtain ⟨ts, lt', hK', _, hj⟩ := K_runS (annotS (respell e) p q) st TS none none hK (Or.inl rfl) hs
  rw [hf] at hK'
  rw [ht] at hj
  refine ⟨ts, ?_, hj⟩
  have := hK'.2.1 [] [] (by cases lt' <;> trivial) (Lexes.done [] rfl)
  simpa using this

/-- the same for the executable scanner from the initial state -/
theorem C07_lex_layout_strings_exec_partial (e : Expr) (hw : lexWFS (respell e)) (p : Bool) (q : Option BinOp) (st : PState)
    (h0 : st.pieces = []) (hs : st.spaceLast = false) :
    ∃ ts, lex (run st (exprFrags Shared.clean e p q)).text = some ts ∧ Joined ts (toks Shared.clean (respell e) p q) := by
  obtain ⟨ts, hl, hj⟩ := C07_lex_layout_strings_partial e hw p q st [] (K_init st h0 hs)
  exact ⟨ts, lex_of_lexes (by simpa using hl), hj⟩

/-- **The glue table, explicit.**  Where the no-glue condition lets a printed token `t0` be followed directly by the token `t`
(`adjOK`: no white space in between), the last character of `t0` and the first of `t` never form a remark opener `--` or `(*`, a
remark closer `*)`, or one of the two-character operators `<=`, `:=`, `<>`, `||`, `**` — for every pair of tokens the printers
can emit (identifiers, literals incl. REAL spellings and string literals, keywords, all 21 operators, punctuation). -/
theorem C07_adjacent_tokens_no_glue (t0 t : Tok) (hw : TokWF t0) (d c : Char) (hd : (sp t0).getLast? = some d)
    (hc : (sp t).head? = some c) (hadj : adjOK t0 t = true) : (d, c) ∉ gluePairs := by
  apply no_glue_pairs t0 hw c d hd
  cases hs : sp t with
  | nil => rw [hs] at hc; simp at hc
  | cons c' r =>
    rw [hs] at hc
    simp only [List.head?_cons, Option.some.injEq] at hc
    subst hc
    simpa [adjOK, hs] using hadj

/-- `real2exp` formats the value with printf's `#` flag in every branch (regenerated: the formats of its `snprintf` calls), which
is where the hypothesis `RealSp` of `C07_real_respelled_lexes` comes from: with `#` the text of a finite value always has the shape
digits `.` digits [exponent], and `real2exp` then only removes trailing zeros of the fraction (`real2exp_eq`).  (Seed C07-e2
drops the `#` and re-inserts the point after the exponent: `1e+20.`.) -/
theorem C07_real_format_keeps_point :
    ExpPrec.realFormats ≠ [] ∧ ExpPrec.realFormats.all (fun f => f.toList.take 2 == ['%', '#']) = true := by
  decide

/-- `EXPRop1_out` prints the operand of NOT and of unary minus with `paren = 1` (regenerated from its `EXPR_out( eo->op1, … )` call),
which is what the model's `exprFrags sh a true none` for `.neg a` / `.not a` assumes and what keeps `-` from being followed by a
second `-`: `-( -x )`.  (Seed C07-e1 makes the argument depend on the operand and prints `--x`.) -/
theorem C07_unary_operand_parenthesised :
    ExpPrec.unaryOperandParen = "1"
      ∧ ∀ a : Expr, exprFrags Shared.clean (.neg a) false none = [W "-"] ++ exprFrags Shared.clean a true none := by
  refine ⟨rfl, fun a => ?_⟩
  simp [exprFrags]

/-- **Every fragment boundary of the expression printer is safe, statically** — the premise `K_run`/`K_runS` need and the
answer to "can two adjacent printed tokens glue": in the fragment sequence exppp emits for an expression (`annotS`, equal to
`exprFrags` fragment by fragment and carrying its tokens: first two conjuncts), wherever a fragment starts without a blank the
token left open by the fragment before it may be followed directly by this fragment's first token (`SafeSeqS`: `adjOK`, hence
`C07_adjacent_tokens_no_glue`), for every context (`paren`, parent operator) and whatever token `slt` was open before the
expression as long as an expression may follow it (`Pre`: nothing, `[`, or unary `-` before a parenthesised operand).  E.g.
`-( -x )`: the operand of unary minus is printed with `paren = 1`, so `-` is followed by `(`, never by a second `-`
(seed C07-e1 removes those parentheses: `--x`, a tail remark). -/
theorem C07_fragment_boundaries_safe_partial (e : Expr) (hw : lexWFS e) (p : Bool) (q : Option BinOp) (slt : Option Tok)
    (hpre : Pre slt p) :
    (annotS e p q).map SeqEl.frag = exprFrags Shared.clean e p q
      ∧ (annotS e p q).flatMap SeqEl.toks = toks Shared.clean e p q
      ∧ SafeSeqS slt (annotS e p q) :=
  ⟨((annotS_eq e).1 p q hw).1, ((annotS_eq e).1 p q hw).2, ((safe_allS e).1 p q slt hw hpre).1⟩

/-- **No remark opener or closer in the laid-out text of an expression, at every line length**: the text the layout engine
produces from the fragments of an expression (`lexWF`: no simple string literals) contains neither `--` nor `(*` nor `*)` —
provided no single token contains one (`htok`; by `C07_token_spelling_clean` that can only fail for an encoded string literal
`"…"` whose body contains such a sequence).  Within a token by `htok`, where two tokens touch by `C07_adjacent_tokens_no_glue`,
everywhere else there is white space.  (Seed C07-e1 — `-(-x)` printed `--x` — refutes the static premise
`C07_fragment_boundaries_safe_partial`; this is the dynamic consequence.) -/
theorem C07_no_remark_in_expression_partial (e : Expr) (hw : lexWF e) (p : Bool) (q : Option BinOp) (st : PState)
    (h0 : st.pieces = []) (hs : st.spaceLast = false)
    (htok : ∀ t ∈ toks Shared.clean e p q, hasPair remarkPairs (sp t) = false) :
    hasPair remarkPairs (run st (exprFrags Shared.clean e p q)).text = false := by
  obtain ⟨hf, ht⟩ := (annot_eq e).1 p q hw
  obtain ⟨hsafe, _⟩ := (safe_all e).1 p q none hw (Or.inl rfl)
  have ht0 : st.text = [] := by simp [PState.text, h0]
  have hcl : ∀ a ∈ annot e p q, ∀ x ∈ a.body, hasPair remarkPairs (sp x.1) = false := by
    intro a ha x hx
    apply htok
    rw [← ht]
    exact List.mem_flatMap.mpr ⟨a, ha, List.mem_map.mpr ⟨x, hx, rfl⟩⟩
  obtain ⟨lt', _, hC⟩ := KC_run (annot e p q) st [] none none (K_init st h0 hs) ⟨by rw [ht0]; rfl, Or.inl ht0⟩
    (fun t0 h => by cases h) (Or.inl rfl) hsafe hcl
  rw [hf] at hC
  exact hC.1

/-- the same for expressions with simple string literals and real literals in any `%#.15g` spelling (`lexWFS (respell e)`), whether
`breakLongStr` splits a literal or not: `htok` then also says that no string literal `'…'` (doubled apostrophes) contains a remark
opener or closer — if one does, so does the source, inside that literal -/
theorem C07_no_remark_in_expression_strings_partial (e : Expr) (hw : lexWFS (respell e)) (p : Bool) (q : Option BinOp) (st : PState)
    (h0 : st.pieces = []) (hs : st.spaceLast = false)
    (htok : ∀ t ∈ toks Shared.clean (respell e) p q, hasPair remarkPairs (sp t) = false) :
    hasPair remarkPairs (run st (exprFrags Shared.clean e p q)).text = false := by
  rw [← (frags_respellS e).1 p q hw]
  obtain ⟨hf, ht⟩ := (annotS_eq (respell e)).1 p q hw
  obtain ⟨hsafe, _⟩ := (safe_allS (respell e)).1 p q none hw (Or.inl rfl)
  have ht0 : st.text = [] := by simp [PState.text, h0]
  have hcl : ∀ x ∈ annotS (respell e) p q, ∀ t ∈ x.toks, hasPair remarkPairs (sp t) = false := by
    intro x hx t htk
    apply htok
    rw [← ht]
    exact List.mem_flatMap.mpr ⟨x, hx, htk⟩
  obtain ⟨ts, lt', _, hC⟩ := KC_runS (annotS (respell e) p q) st [] none none (K_init st h0 hs) ⟨by rw [ht0]; rfl, Or.inl ht0⟩
    (fun t0 h => by cases h) (Or.inl rfl) hsafe hcl
  rw [hf] at hC
  exact hC.1

/-- every token the printers emit, other than a string literal, is spelled without `--`, `(*`, `*)`: identifiers, INTEGER and
REAL spellings (the `-` of an exponent is followed by a digit), binary literals, keywords, all 21 operators, punctuation -/
theorem C07_token_spelling_clean (t : Tok) (hw : TokWF t) (hs : ∀ b, t ≠ .str b) (he : ∀ b, t ≠ .estr b) :
    hasPair remarkPairs (sp t) = false :=
  tok_clean t hw hs he

/-- **Part I, generic in the printer**: any sequence of `raw`/`wrap` fragments, each written as leading blanks followed by tokens
with the blanks after them (`AFrag`), that is statically no-glue-safe (`SafeSeq`) is read back by the scanner as exactly its tokens,
from any state satisfying `K`, at every line length — and if no single token contains a remark opener or closer, neither does the
text.  The expression printer is one instance (`C07_lex_layout_partial`); a declaration printer whose fragments are annotated the
same way gets its character-level round trip from this theorem and its token-level one (`C07_schema_roundtrip_partial` …). -/
theorem C07_safe_fragments_lex (as : List AFrag) (st : PState) (TS : List Tok) (hK : K st TS none) (hs : SafeSeq none as) :
    Lexes (run st (as.map AFrag.frag)).text (TS ++ as.flatMap AFrag.toks)
      ∧ ((∀ a ∈ as, ∀ x ∈ a.body, hasPair remarkPairs (sp x.1) = false) → st.text = [] →
          hasPair remarkPairs (run st (as.map AFrag.frag)).text = false) := by
  refine ⟨?_, fun hcl ht0 => ?_⟩
  · obtain ⟨lt', hK', _⟩ := K_run as st TS none none hK (Or.inl rfl) hs
    have := hK'.2.1 [] [] (by cases lt' <;> trivial) (Lexes.done [] rfl)
    simpa using this
  · obtain ⟨lt', _, hC⟩ := KC_run as st TS none none hK ⟨by rw [ht0]; rfl, Or.inl ht0⟩ (fun t0 h => by cases h) (Or.inl rfl) hs hcl
    exact hC.1

/-- **A split string literal is re-joined.**  The tokens of a split rendering `'x1' + 'x2' + … + 'xn'` (what the scanner reads
where `breakLongStr` cut the literal `'x1x2…xn'`: `StrSplit`, `C07_string_literal_lexes`) are parsed as the left-nested sum of
the literals, and `joinStr` — the one identification the oracle applies, to both sides — maps that sum back to the literal
`x1 ++ … ++ xn`: for a string literal standing as a whole expression, scan ∘ parse ∘ joinStr recovers it.  Both operands of every
`+` are string literals, so the `+` is concatenation whatever else `+` may mean.  (Not proved: the same inside an arbitrary
surrounding expression — there the oracle applies `joinStr` to source and output.) -/
theorem C07_split_literal_rejoined (x : List Char) (ys : List (List Char)) :
    parse (sumToks ((x :: ys).map escQ)) = some (sumExpr x ys)
      ∧ joinStr (sumExpr x ys) = .lit (.str (x ++ ys.flatten)) := by
  refine ⟨?_, joinStr_sumExpr x ys⟩
  rw [← toks_sumExpr x ys false none (fun _ => by decide)]
  exact C07_parse_print _ (wfE_sumExpr x ys)

/-- the same for the parenthesised rendering `( 'x1' + … + 'xn' )` that `breakLongStr` writes in operand position (n ≥ 2) -/
theorem C07_split_literal_rejoined_paren (x : List Char) (ys : List (List Char)) (hne : ys ≠ []) :
    parse ([.lp] ++ sumToks ((x :: ys).map escQ) ++ [.rp]) = some (sumExpr x ys) := by
  rw [← toks_sumExpr_paren x ys hne]
  exact C07_parse_print_paren _ (wfE_sumExpr x ys)

/-- **Split string literals inside an arbitrary surrounding expression are re-joined (parser congruence).**  Let `e'` be `e`
with any of its simple string literals, anywhere, replaced by left-nested sums of literals whose pieces concatenate to them
(`SplitOf e' e`).  Then (1) the tokens printed for `e'` are the tokens of `e` with each such literal as a split rendering —
`'x1' + … + 'xn'`, in parentheses exactly where the literal is an operand (`Joined`, the relation `C07_lex_layout_strings_partial`
reports for what the scanner reads); (2) the parser reads those tokens back as `e'`; (3) `joinStr e' = joinStr e`: the one
identification the oracle applies maps both to the same tree.  So whenever the scanner's reading of exppp's text is the token
list of such an `e'` — the split renderings carry the parentheses `binParen` prescribes, which in operand position is
`C07_operand_literal_whole_or_parenthesised_partial` — parse ∘ joinStr recovers the source expression.  Not covered: a literal
printed whole inside redundant parentheses `( 'ab' )` (possible when the look-ahead predicted a split that then did not happen);
that token list is not of the form `toks e'`. -/
theorem C07_split_literals_in_context (e' e : Expr) (h : SplitOf e' e) (hw : wfE e) :
    Joined (toks Shared.clean e' false none) (toks Shared.clean e false none)
      ∧ parse (toks Shared.clean e' false none) = some e'
      ∧ joinStr e' = joinStr e :=
  ⟨(joined_splitOf h).1 false none, C07_parse_print e' ((wf_splitOf h).1 hw), joinStr_splitOf h⟩

/-- **A comma-separated expression list at the character level** — the form in which exppp prints the actual parameters of a
function or procedure call (`STMT_PCALL`), the labels of a case action (`CASEout`) and the references of a UNIQUE rule
(`ENTITYunique_out`): `EXPR_out( e, 0 )` for each element, `raw( ", " )` between them (`argFrags`).  `C07_safe_fragments_lex`
instantiated for this printer: from any state satisfying `K`, at every line length, the scanner reads the laid-out list as the
tokens of its elements separated by commas, and (second part) the text contains no remark opener or closer unless a single token
does.  Elements as in `lexWF` (no simple string literals). -/
theorem C07_lex_layout_list_partial (args : Expr) (hw : lexArgs args) (st : PState) (TS : List Tok) (hK : K st TS none) :
    Lexes (run st (argFrags Shared.clean args true)).text (TS ++ argToks Shared.clean args true)
      ∧ ((∀ t ∈ argToks Shared.clean args true, hasPair remarkPairs (sp t) = false) → st.text = [] →
          hasPair remarkPairs (run st (argFrags Shared.clean args true)).text = false) := by
  obtain ⟨hf, ht⟩ := (annot_eq args).2.1 true hw
  have hs := (safe_all args).2.1 true none hw (fun _ => rfl) (fun h => by cases h)
  obtain ⟨h1, h2⟩ := C07_safe_fragments_lex (argA args true) st TS hK hs
  rw [hf, ht] at h1
  refine ⟨h1, fun hcl ht0 => ?_⟩
  rw [← hf]
  apply h2 _ ht0
  intro a ha x hx
  apply hcl
  rw [← ht]
  exact List.mem_flatMap.mpr ⟨a, ha, List.mem_map.mpr ⟨x, hx, rfl⟩⟩

/-- **Exact character-level round trip with string literals that contain no dot.**  `breakLongStr` cuts a literal only after a
dot (`nextBreakpoint`), so a literal without one is written whole at every line length (`K_str_whole`): for an expression whose
simple string literals contain no `.` (`hdot`, on the printed tokens) the scanner reads the laid-out text as exactly
`toks (respell e)`, and print → layout → scan → parse gives `respell e` — no `Joined`, no `joinStr`.  Literals with dots:
`C07_lex_layout_strings_partial` + `C07_split_literals_in_context`. -/
theorem C07_char_roundtrip_whole_strings_partial (e : Expr) (hw : wfE (respell e)) (hl : lexWFS (respell e)) (st : PState)
    (h0 : st.pieces = []) (hs : st.spaceLast = false)
    (hdot : ∀ b, Tok.str b ∈ toks Shared.clean (respell e) false none → '.' ∉ b) :
    lex (run st (exprFrags Shared.clean e false none)).text = some (toks Shared.clean (respell e) false none)
      ∧ (lex (run st (exprFrags Shared.clean e false none)).text).bind parse = some (respell e) := by
  have hlex : lex (run st (exprFrags Shared.clean e false none)).text = some (toks Shared.clean (respell e) false none) := by
    rw [← (frags_respellS e).1 false none hl]
    obtain ⟨hf, ht⟩ := (annotS_eq (respell e)).1 false none hl
    obtain ⟨hsafe, _⟩ := (safe_allS (respell e)).1 false none none hl (Or.inl rfl)
    have hd : ∀ s p, SeqEl.strF s p ∈ annotS (respell e) false none → ∀ c ∈ s, c ≠ '.' := by
      intro s p hmem c hc hcd
      subst hcd
      apply hdot (escQ s)
      · rw [← ht]; exact List.mem_flatMap.mpr ⟨_, hmem, by simp [SeqEl.toks]⟩
      · exact mem_escQ_of '.' s hc
    obtain ⟨lt', hK', _⟩ := K_runW (annotS (respell e) false none) st [] none none (K_init st h0 hs) (Or.inl rfl) hsafe hd
    rw [hf, ht] at hK'
    have := hK'.2.1 [] [] (by cases lt' <;> trivial) (Lexes.done [] rfl)
    exact lex_of_lexes (by simpa using this)
  refine ⟨hlex, ?_⟩
  rw [hlex]
  exact C07_parse_print (respell e) hw

/-- grammar token of a punctuation/operator token of the model -/
def symTokName : Tok → Option String
  | .lp => some "TOK_LEFT_PAREN" | .rp => some "TOK_RIGHT_PAREN" | .lb => some "TOK_LEFT_BRACKET" | .rb => some "TOK_RIGHT_BRACKET"
  | .comma => some "TOK_COMMA" | .colon => some "TOK_COLON" | .dot => some "TOK_DOT" | .bslash => some "TOK_BACKSLASH"
  | .bar => some "TOK_SUCH_THAT" | .allIn => some "TOK_ALL_IN" | .kw "?" => some "TOK_QUESTION_MARK"
  | .op o => some o.tokName
  | _ => none

/-- **The operator and punctuation patterns of the scanner model are the scanner's rules**: every spelling in the rule table
regenerated from expscan.l is read by `lexSym` as one token, the one whose grammar token the rule returns — except `:=`, `{`, `}`,
which no expression printed by `exprFrags` contains -/
theorem C07_lexSym_table :
    ExpPrec.scannerSymbols.all (fun r =>
      match lexSym r.1.toList with
      | some (t, []) => symTokName t == some r.2
      | _ => [":=", "{", "}"].contains r.1) = true := by decide

end StepModel.Express

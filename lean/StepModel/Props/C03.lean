import StepModel.P21.ReaderLemmas2
import StepModel.Generated.P21RWGen
/-! # C03 — the reader never reports a violating file as clean: property theorems

Statements are about the transliterated reader `P21.Reader` for **every** dictionary, byte sequence and configuration
of the behaviour switches (no bound on sizes).  The chain proved here is the severity plumbing of the statement:

  attribute reader reports `sev`  →  `SDAI_Application_instance::STEPread` returns at least `sev`
  (`C03_attribute_error_reaches_instance`, `C03_instance_severity_never_improves`, arity theorems)
  →  `ReadInstance` hands it to `AppendEntityErrorMsg` (ghost log `reported`)  →  the file's severity is worse than a
  user message and p21read's exit rule gives 1 (`C03_reported_error_fails_file` and the three counter theorems).

What is *not* proved (tied by correspondence only, see notes/C03.md): that each violation class makes the responsible
literal/aggregate/select reader report a severity worse than USERMSG (per-literal facts are property C09's theorems),
and the confinement clause (resynchronisation at the next `#`).
-/
namespace StepModel.P21.C03
open StepModel StepModel.P21 StepModel.P21.RLemmas StepModel.P21.Lemmas

/-- p21read exits non-zero exactly when the severity is worse than a user message -/
theorem C03_exit_iff_worse_than_usermsg (e : Sev) : exitStatus e = 1 ↔ e.toInt < Sev.usermsg.toInt := by
  cases e <;> decide

theorem greater_le_left (a b : Sev) : (a.greater b).toInt ≤ a.toInt := by
  cases a <;> cases b <;> decide
theorem greater_le_right (a b : Sev) : (a.greater b).toInt ≤ b.toInt := by
  cases a <;> cases b <;> decide
theorem cri_sev_le (lex : LexCfg) (d : Option (List Byte)) (s : IStream) (e : Sev) :
    (checkRemainingInput lex d s e).2.toInt ≤ e.toInt := by
  unfold checkRemainingInput
  repeat' (first | split | dsimp only)
  all_goals first
    | exact Int.le_refl _
    | exact greater_le_left _ _

theorem merge_le (err x : Sev) : (if x.toInt ≤ Sev.usermsg.toInt then err.greater x else err).toInt ≤ err.toInt := by
  split
  · exact greater_le_left _ _
  · exact Int.le_refl _

theorem readAttrs_sev_le {F} (env : Env F) (strict : Bool) (attrs : List AttrD)
    (err : Sev) (c : Byte) (s : IStream) (r : IR F) (h : readAttrs env strict attrs err c s = .ok r) : r.sev.toInt ≤ err.toInt := by
  fun_induction readAttrs env strict attrs err c s generalizing r
  case case1 err c s err1 =>
    simp only [bind, Except.bind, pure, Except.pure] at h
    split at h
    · cases h
    · cases h; exact greater_le_left _ _
  case case2 =>
    simp only [pure, Except.pure] at h
    cases h
    dsimp only
    split
    · exact greater_le_left _ _
    · exact Int.le_refl _
  case case3 ih => exact ih r h
  case case4 a rest err c s s1 hred ih2 ih1 =>
    cases hx : attrSTEPread env strict a s1 with
    | error e => simp [hx, bind, Except.bind] at h
    | ok x =>
      obtain ⟨sev, v, s2⟩ := x
      simp only [hx, bind, Except.bind] at h
      generalize hp : shiftInto c s2 = p at h
      obtain ⟨c2, s3⟩ := p
      dsimp only at h
      have hm := merge_le err sev
      split at h
      · generalize hq : checkRemainingInput env.lex (some attrDelims) s3
          (if sev.toInt ≤ Sev.usermsg.toInt then err.greater sev else err) = q at h
        have hc := cri_sev_le env.lex (some attrDelims) s3 (if sev.toInt ≤ Sev.usermsg.toInt then err.greater sev else err)
        rw [hq] at hc
        obtain ⟨s4, err2⟩ := q
        dsimp only at h hc
        split at h
        · simp only [pure, Except.pure] at h; cases h; exact Int.le_trans hc hm
        · split at h
          · simp only [pure, Except.pure] at h; cases h; exact Int.le_trans hc hm
          · cases hv : readAttrs env strict rest err2 c2 s4 with
            | error e => simp [hv] at h
            | ok v2 =>
              simp only [hv, pure, Except.pure] at h
              cases h
              exact Int.le_trans (ih2 c2 s4 err2 v2 hv) (Int.le_trans hc hm)
      · split at h
        · simp only [pure, Except.pure] at h
          cases h
          dsimp only
          split
          · exact Int.le_trans (greater_le_left _ _) hm
          · exact hm
        · cases hv : readAttrs env strict rest (if sev.toInt ≤ Sev.usermsg.toInt then err.greater sev else err) c2 s3 with
          | error e => simp [hv] at h
          | ok v2 =>
            simp only [hv, pure, Except.pure] at h
            cases h
            exact Int.le_trans (ih1 sev c2 s3 v2 hv) hm

/-- **instance level**: whatever stands in the parameter list, the severity `SDAI_Application_instance::STEPread` has
    accumulated never improves while the remaining attributes are read (all attribute lists, all inputs). -/
theorem C03_instance_severity_never_improves {F} (env : Env F) (strict : Bool) (attrs : List AttrD)
    (err : Sev) (c : Byte) (s : IStream) (r : IR F) (h : readAttrs env strict attrs err c s = .ok r) :
    r.sev.toInt ≤ err.toInt := readAttrs_sev_le env strict attrs err c s r h

/-- one step of the attribute loop: the result is at least as severe as the accumulated severity merged with what
    the attribute reader reported -/
theorem readAttrs_cons_le {F} (env : Env F) (strict : Bool) (a : AttrD) (rest : List AttrD)
    (err : Sev) (c : Byte) (s : IStream) (r : IR F) (sev : Sev) (v : MVal F) (s2 : IStream)
    (hred : a.redefining = false)
    (ha : attrSTEPread env strict a (readTokenSeparator s) = .ok (sev, v, s2))
    (h : readAttrs env strict (a :: rest) err c s = .ok r) :
    r.sev.toInt ≤ (if sev.toInt ≤ Sev.usermsg.toInt then err.greater sev else err).toInt := by
  unfold readAttrs at h
  simp only [hred, Bool.false_eq_true, if_false, ha, bind, Except.bind] at h
  generalize hp : shiftInto c s2 = p at h
  obtain ⟨c2, s3⟩ := p
  dsimp only at h
  split at h
  · generalize hq : checkRemainingInput env.lex (some attrDelims) s3
      (if sev.toInt ≤ Sev.usermsg.toInt then err.greater sev else err) = q at h
    have hc := cri_sev_le env.lex (some attrDelims) s3 (if sev.toInt ≤ Sev.usermsg.toInt then err.greater sev else err)
    rw [hq] at hc
    obtain ⟨s4, err2⟩ := q
    dsimp only at h hc
    split at h
    · simp only [pure, Except.pure] at h; cases h; exact hc
    · split at h
      · simp only [pure, Except.pure] at h; cases h; exact hc
      · cases hv : readAttrs env strict rest err2 c2 s4 with
        | error e => simp [hv] at h
        | ok v2 =>
          simp only [hv, pure, Except.pure] at h
          cases h
          exact Int.le_trans (readAttrs_sev_le env strict rest err2 c2 s4 v2 hv) hc
  · split at h
    · simp only [pure, Except.pure] at h
      cases h
      dsimp only
      split
      · exact greater_le_left _ _
      · exact Int.le_refl _
    · cases hv : readAttrs env strict rest (if sev.toInt ≤ Sev.usermsg.toInt then err.greater sev else err) c2 s3 with
      | error e => simp [hv] at h
      | ok v2 =>
        simp only [hv, pure, Except.pure] at h
        cases h
        exact readAttrs_sev_le env strict rest _ c2 s3 v2 hv

/-- **attribute → instance**: at whatever point of the parameter list the reader stands (`err`, `c`, `s` arbitrary), if
    `STEPattribute::STEPread` of the next attribute reports a severity at or below USERMSG, the instance's result is at
    least that severe — whatever follows in the file. -/
theorem C03_attribute_error_reaches_instance {F} (env : Env F) (strict : Bool) (a : AttrD) (rest : List AttrD)
    (err : Sev) (c : Byte) (s : IStream) (r : IR F) (sev : Sev) (v : MVal F) (s2 : IStream)
    (hred : a.redefining = false)
    (ha : attrSTEPread env strict a (readTokenSeparator s) = .ok (sev, v, s2))
    (hs : sev.toInt ≤ Sev.usermsg.toInt)
    (h : readAttrs env strict (a :: rest) err c s = .ok r) : r.sev.toInt ≤ sev.toInt := by
  have h1 := readAttrs_cons_le env strict a rest err c s r sev v s2 hred ha h
  rw [if_pos hs] at h1
  exact Int.le_trans h1 (greater_le_right _ _)

/-- **too many parameters**: when every attribute has been read and the list has not been closed, the instance's
    severity is INPUT_ERROR or worse, whatever the extra parameters are. -/
theorem C03_too_many_parameters_detected {F} (env : Env F) (strict : Bool) (err : Sev) (c : Byte) (s : IStream) (r : IR F)
    (h : readAttrs env strict [] err c s = .ok r) : r.sev.toInt ≤ Sev.inputError.toInt := by
  simp only [readAttrs, bind, Except.bind] at h
  split at h
  · cases h
  · simp only [pure, Except.pure] at h
    cases h
    exact greater_le_right _ _

/-- **too few parameters**: when the list is closed after an attribute although a non-redefining attribute is still
    to come, the instance's severity is WARNING or worse. -/
theorem C03_too_few_parameters_detected {F} (env : Env F) (strict : Bool) (a b : AttrD) (rest : List AttrD)
    (err : Sev) (c : Byte) (s : IStream) (r : IR F) (sev : Sev) (v : MVal F) (s2 : IStream)
    (hred : a.redefining = false) (hb : b.redefining = false)
    (ha : attrSTEPread env strict a (readTokenSeparator s) = .ok (sev, v, s2))
    (hclose : (shiftInto c s2).1 = 41)
    (h : readAttrs env strict (a :: b :: rest) err c s = .ok r) : r.sev.toInt ≤ Sev.warning.toInt := by
  unfold readAttrs at h
  simp only [hred, Bool.false_eq_true, if_false, ha, bind, Except.bind] at h
  generalize hp : shiftInto c s2 = p at h hclose
  obtain ⟨c2, s3⟩ := p
  dsimp only at h hclose
  subst hclose
  simp only [pure, Except.pure] at h
  have hmc : missingCheck (b :: rest) = true := by unfold missingCheck; rw [hb]; rfl
  have e1 : (!((41 : Byte) == 44 || (41 : Byte) == 41)) = false := by decide
  have e2 : ((41 : Byte) == 41) = true := by decide
  rw [e1] at h
  simp only [Bool.false_eq_true, if_false, e2, if_true, hmc] at h
  cases h
  exact greater_le_right _ _

theorem appendEntityError_le (e s : Sev) : (appendEntityError e s).toInt ≤ e.toInt := by
  unfold appendEntityError
  split
  · exact Int.le_refl _
  · exact greater_le_left _ _

/-- a severity worse than a user message handed to `AppendEntityErrorMsg` makes the file's severity worse than one -/
theorem appendEntityError_bad (e s : Sev) (h : s.toInt < Sev.usermsg.toInt) :
    (appendEntityError e s).toInt < Sev.usermsg.toInt := by
  cases e <;> cases s <;> revert h <;> decide

/-- the invariant of pass 2: the file's severity is at least as bad as every severity reported so far (floored at
    WARNING as `AppendEntityErrorMsg` does), and never better than at the start -/
def Inv {F} (e0 : Sev) (st : P2 F) : Prop :=
  st.fileErr.toInt ≤ e0.toInt ∧ ∀ sv ∈ st.reported, sv.toInt < Sev.usermsg.toInt → st.fileErr.toInt < Sev.usermsg.toInt

theorem applyOutcome_fileErr {F} (st : P2 F) (o : IOut F) :
    (applyOutcome st o).fileErr = (match o.reported with | some sv => appendEntityError st.fileErr sv | none => st.fileErr) := by
  unfold applyOutcome
  dsimp only
  cases o.left with
  | none => rfl
  | some sev =>
    dsimp only
    split
    · rfl
    · split
      · rfl
      · split <;> rfl

theorem applyOutcome_reported {F} (st : P2 F) (o : IOut F) :
    (applyOutcome st o).reported = (match o.reported with | some sv => sv :: st.reported | none => st.reported) := by
  unfold applyOutcome
  dsimp only
  cases o.left with
  | none => rfl
  | some sev =>
    dsimp only
    split
    · rfl
    · split
      · rfl
      · split <;> rfl

theorem inv_apply {F} (e0 : Sev) (st : P2 F) (o : IOut F) (h : Inv e0 st) : Inv e0 (applyOutcome st o) := by
  obtain ⟨h1, h2⟩ := h
  unfold Inv
  rw [applyOutcome_fileErr, applyOutcome_reported]
  cases o.reported with
  | none => exact ⟨h1, h2⟩
  | some sv =>
    refine ⟨Int.le_trans (appendEntityError_le _ _) h1, ?_⟩
    intro x hx hb
    rcases List.mem_cons.mp hx with rfl | hx
    · exact appendEntityError_bad _ _ hb
    · exact Int.lt_of_le_of_lt (appendEntityError_le _ _) (h2 x hx hb)

theorem inv_setS {F} (e0 : Sev) (st : P2 F) (s : IStream) (h : Inv e0 st) : Inv e0 { st with s := s } := h

theorem loop_inv {F} (ops : FloatOps F) (lex : LexCfg) (cfg : RWCfg) (d : Dict) (strict : Bool) (e0 : Sev)
    (fuel : Nat) : ∀ (st : P2 F) (endsec : Bool) (st' : P2 F),
    readData2Loop ops lex cfg d strict fuel st endsec = .ok st' → Inv e0 st → Inv e0 st' := by
  induction fuel with
  | zero => intro st endsec st' h; simp [readData2Loop, throw, throwThe, MonadExceptOf.throw] at h
  | succ n ih =>
    intro st endsec st' h hi
    unfold readData2Loop at h
    split at h
    · -- the body after the `#` has been found (or the section has ended)
      have body : ∀ (x : Byte × Bool × IStream),
          (match x with
            | (_, endsec1, s3) =>
              if endsec1 = true then readData2Loop ops lex cfg d strict n { st with s := s3 } true
              else do
                let o ← readInstance ops lex cfg d strict { st with s := s3 }
                let st2 := applyOutcome st o
                let (es, s5) := foundEndSec st2.s
                readData2Loop ops lex cfg d strict n { st2 with s := s5 } es) = .ok st' → Inv e0 st' := by
        intro x hx
        obtain ⟨a, e1, s3⟩ := x
        dsimp only at hx
        split at hx
        · exact ih _ _ _ hx hi
        · simp only [bind, Except.bind] at hx
          split at hx
          · cases hx
          · rename_i o ho
            exact ih _ _ _ hx (inv_apply e0 st o hi)
      dsimp only at h
      split at h
      · simp only [bind, Except.bind] at h
        split at h
        · cases h
        · exact body _ h
      · simp only [bind, Except.bind, pure, Except.pure, Bool.false_eq_true, if_false] at h
        split at h
        · cases h
        · rename_i o ho
          exact ih _ _ _ h (inv_apply e0 st o hi)
    · simp only [pure, Except.pure] at h
      cases h
      exact hi

theorem finalVerdict_le (e2 : Sev) (m k b : Bool) : (finalVerdict e2 m k b).1.toInt ≤ e2.toInt := by
  cases e2 <;> cases m <;> cases k <;> cases b <;> decide

theorem finalVerdict_mismatch (e2 : Sev) (k b : Bool) : (finalVerdict e2 true k b).1.toInt ≤ Sev.warning.toInt := by
  cases e2 <;> cases k <;> cases b <;> decide

/-- what `readDataSection` guarantees about its result, in terms of the two passes -/
theorem section_spec {F} (ops : FloatOps F) (lex : LexCfg) (cfg : RWCfg) (d : Dict) (strict skipws : Bool) (bytes : List Byte)
    (r : FileResult F) (h : readDataSection ops lex cfg d strict skipws bytes = .ok r) :
    ∃ (p2 : P2 F), Inv (if r.notCreated > 0 then Sev.warning else Sev.null) p2 ∧ r.reported = p2.reported ∧
      r.invalid = p2.invalid ∧
      r.sev.toInt ≤ (if p2.invalid > 0 then p2.fileErr.greater .warning else p2.fileErr).toInt ∧
      (r.created ≠ r.valid → r.sev.toInt ≤ Sev.warning.toInt) := by
  unfold readDataSection at h
  simp only [bind, Except.bind] at h
  split at h
  · cases h
  · rename_i p1 hp1
    split at h
    · cases h
    · rename_i p2 hp2
      have hinv := loop_inv ops lex cfg d strict (if p1.notCreated > 0 then Sev.warning else Sev.null) _ _ _ _ hp2
        ⟨Int.le_refl _, by intro sv hsv; cases hsv⟩
      simp only [pure, Except.pure] at h
      cases h
      refine ⟨p2, hinv, rfl, rfl, finalVerdict_le _ _ _ _, ?_⟩
      intro hne
      dsimp only at hne ⊢
      have : (p1.count != p2.valid) = true := by simpa using hne
      rw [this]
      exact finalVerdict_mismatch _ _ _

theorem lt_usermsg_exit (e : Sev) (h : e.toInt < Sev.usermsg.toInt) : exitStatus e = 1 := by
  cases e <;> revert h <;> decide

theorem le_warning_lt (e : Sev) (h : e.toInt ≤ Sev.warning.toInt) : e.toInt < Sev.usermsg.toInt := by
  cases e <;> revert h <;> decide

/-- **detection, file level (1)**: whenever pass 2 hands `AppendEntityErrorMsg` a severity worse than a user message —
    for any instance of the file, at any point — the read ends with a severity worse than a user message and p21read's
    exit rule gives 1.  All files, all dictionaries. -/
theorem C03_reported_error_fails_file {F} (ops : FloatOps F) (lex : LexCfg) (cfg : RWCfg) (d : Dict) (strict skipws : Bool)
    (bytes : List Byte) (r : FileResult F) (h : readDataSection ops lex cfg d strict skipws bytes = .ok r)
    (sv : Sev) (hm : sv ∈ r.reported) (hb : sv.toInt < Sev.usermsg.toInt) :
    r.sev.toInt < Sev.usermsg.toInt ∧ exitStatus r.sev = 1 := by
  obtain ⟨p2, ⟨_, h2⟩, hr, _, hs, _⟩ := section_spec ops lex cfg d strict skipws bytes r h
  have hf : p2.fileErr.toInt < Sev.usermsg.toInt := h2 sv (hr ▸ hm) hb
  have : r.sev.toInt < Sev.usermsg.toInt := by
    refine Int.lt_of_le_of_lt hs ?_
    split
    · exact Int.lt_of_le_of_lt (greater_le_left _ _) hf
    · exact hf
  exact ⟨this, lt_usermsg_exit _ this⟩

/-- **detection, file level (2)**: an instance that pass 1 could not create (unknown or abstract keyword, illegal
    complex combination, duplicate id, missing `=`) fails the file. -/
theorem C03_not_created_fails_file {F} (ops : FloatOps F) (lex : LexCfg) (cfg : RWCfg) (d : Dict) (strict skipws : Bool)
    (bytes : List Byte) (r : FileResult F) (h : readDataSection ops lex cfg d strict skipws bytes = .ok r)
    (hn : r.notCreated > 0) : r.sev.toInt < Sev.usermsg.toInt ∧ exitStatus r.sev = 1 := by
  obtain ⟨p2, ⟨h1, _⟩, _, _, hs, _⟩ := section_spec ops lex cfg d strict skipws bytes r h
  rw [if_pos hn] at h1
  have hf : p2.fileErr.toInt < Sev.usermsg.toInt := le_warning_lt _ h1
  have : r.sev.toInt < Sev.usermsg.toInt := by
    refine Int.lt_of_le_of_lt hs ?_
    split
    · exact Int.lt_of_le_of_lt (greater_le_left _ _) hf
    · exact hf
  exact ⟨this, lt_usermsg_exit _ this⟩

/-- **detection, file level (3)**: an instance counted invalid in pass 2 (not found from pass 1, duplicate, severity
    worse than a user message left on the object) fails the file. -/
theorem C03_invalid_fails_file {F} (ops : FloatOps F) (lex : LexCfg) (cfg : RWCfg) (d : Dict) (strict skipws : Bool)
    (bytes : List Byte) (r : FileResult F) (h : readDataSection ops lex cfg d strict skipws bytes = .ok r)
    (hn : r.invalid > 0) : r.sev.toInt < Sev.usermsg.toInt ∧ exitStatus r.sev = 1 := by
  obtain ⟨p2, _, _, hi, hs, _⟩ := section_spec ops lex cfg d strict skipws bytes r h
  rw [hi] at hn
  rw [if_pos hn] at hs
  have : r.sev.toInt < Sev.usermsg.toInt := le_warning_lt _ (Int.le_trans hs (greater_le_right _ _))
  exact ⟨this, lt_usermsg_exit _ this⟩

/-- **detection, file level (4)**: fewer valid instances after pass 2 than instances created in pass 1 fails the file. -/
theorem C03_count_mismatch_fails_file {F} (ops : FloatOps F) (lex : LexCfg) (cfg : RWCfg) (d : Dict) (strict skipws : Bool)
    (bytes : List Byte) (r : FileResult F) (h : readDataSection ops lex cfg d strict skipws bytes = .ok r)
    (hn : r.created ≠ r.valid) : r.sev.toInt < Sev.usermsg.toInt ∧ exitStatus r.sev = 1 := by
  obtain ⟨p2, _, _, _, _, hm⟩ := section_spec ops lex cfg d strict skipws bytes r h
  have := le_warning_lt _ (hm hn)
  exact ⟨this, lt_usermsg_exit _ this⟩

/-! ### confinement: resynchronisation -/

/-- the recovery scan of `SDAI_Application_instance::STEPread`: whatever garbage stands before the closing `)` (anything
    without a `)`), the scan ends right after the `;` that follows it -/
theorem recoverScan_spec (body : List Byte) (hb : ∀ x ∈ body, x ≠ 41) (sp : List Byte) (hsp : sp.all isSpace = true) :
    ∀ (fuel : Nat) (c : Byte) (l rest : List Byte) (sk : Bool), body.length + 2 ≤ fuel → c ≠ 41 →
      recoverScan fuel c (G l (body ++ 41 :: (sp ++ 59 :: rest)) sk) =
        .ok (G (59 :: (sp.reverse ++ 41 :: (body.reverse ++ l))) rest sk) := by
  induction body with
  | nil =>
    intro fuel c l rest sk hf hc
    match fuel, hf with
    | n + 2, _ =>
      have hc' : (c != 41) = true := by simpa using hc
      unfold recoverScan
      simp only [G_good, Bool.not_true, Bool.false_eq_true, if_false, hc', if_true, List.nil_append]
      rw [show getInto c (G l (41 :: (sp ++ 59 :: rest)) sk) = (41, G (41 :: l) (sp ++ 59 :: rest) sk) from getInto_good c l 41 _ sk]
      simp only
      unfold recoverScan
      simp only [G_good, Bool.not_true, Bool.false_eq_true, if_false, bne_self_eq_false]
      rw [show (G (41 :: l) (sp ++ 59 :: rest) sk).ws = G (sp.reverse ++ 41 :: l) (59 :: rest) sk from ws_good _ sp 59 rest sk hsp (by decide)]
      rw [show getInto 41 (G (sp.reverse ++ 41 :: l) (59 :: rest) sk) = (59, G (59 :: (sp.reverse ++ 41 :: l)) rest sk)
        from getInto_good 41 _ 59 rest sk]
      simp [pure, Except.pure]
  | cons b t ih =>
    intro fuel c l rest sk hf hc
    match fuel, hf with
    | n + 1, hf =>
      have hc' : (c != 41) = true := by simpa using hc
      have hb41 : b ≠ 41 := hb b (by simp)
      unfold recoverScan
      simp only [G_good, Bool.not_true, Bool.false_eq_true, if_false, hc', if_true, List.cons_append]
      rw [show getInto c (G l (b :: (t ++ 41 :: (sp ++ 59 :: rest))) sk) = (b, G (b :: l) (t ++ 41 :: (sp ++ 59 :: rest)) sk)
        from getInto_good c l b _ sk]
      simp only
      rw [ih (fun x hx => hb x (by simp [hx])) n b (b :: l) rest sk (by simp only [List.length_cons] at hf; omega) hb41]
      simp

theorem shiftInto_noskip (c : Byte) (l : List Byte) (x : Byte) (t : List Byte) :
    shiftInto c (G l (x :: t) false) = (x, G (x :: l) t false) := by
  simp [shiftInto, IStream.getChar, IStream.sentry, IStream.good]

/-- `SkipInstance` (pass 1, and every "data lost" path of pass 2) with `skipws` off, as it is in a data section: over any
    text without `;`, apostrophe, NUL and `/` it ends right after the first `;` -/
theorem scanTo_semicolon (skipCmt : Bool) (body : List Byte)
    (hb : ∀ x ∈ body, x ≠ 59 ∧ x ≠ 39 ∧ x ≠ 0 ∧ x ≠ 47) :
    ∀ (fuel : Nat) (c : Byte) (l rest : List Byte), body.length + 1 ≤ fuel →
      scanTo 59 false skipCmt fuel c (G l (body ++ 59 :: rest) false) = .ok (G (59 :: (body.reverse ++ l)) rest false) := by
  induction body with
  | nil =>
    intro fuel c l rest hf
    match fuel, hf with
    | n + 1, _ =>
      unfold scanTo
      simp only [G_good, Bool.not_true, Bool.false_eq_true, if_false, List.nil_append]
      rw [shiftInto_noskip]
      simp [pure, Except.pure]
  | cons b t ih =>
    intro fuel c l rest hf
    match fuel, hf with
    | n + 1, hf =>
      obtain ⟨h59, h39, h0, h47⟩ := hb b (by simp)
      unfold scanTo
      simp only [G_good, Bool.not_true, Bool.false_eq_true, if_false, List.cons_append]
      rw [shiftInto_noskip]
      have e1 : (b == 59) = false := by simpa using h59
      have e2 : (b == 39) = false := by simpa using h39
      have e3 : (b == 0) = false := by simpa using h0
      have e4 : (b == 47) = false := by simpa using h47
      simp only [e1, e2, e3, e4, Bool.false_eq_true, if_false, Bool.false_and]
      rw [ih (fun x hx => hb x (by simp [hx])) n b (b :: l) rest (by simp only [List.length_cons] at hf; omega)]
      simp

/-- **resynchronisation, recovery scan**: see `recoverScan_spec` -/
theorem C03_recovery_scan_resynchronises (body : List Byte) (hb : ∀ x ∈ body, x ≠ 41) (sp : List Byte) (hsp : sp.all isSpace = true)
    (fuel : Nat) (c : Byte) (l rest : List Byte) (sk : Bool) (hf : body.length + 2 ≤ fuel) (hc : c ≠ 41) :
    recoverScan fuel c (G l (body ++ 41 :: (sp ++ 59 :: rest)) sk) =
      .ok (G (59 :: (sp.reverse ++ 41 :: (body.reverse ++ l))) rest sk) :=
  recoverScan_spec body hb sp hsp fuel c l rest sk hf hc

/-- the source as it is now: the recovery scan leaves the `;` (regenerated on every run) -/
theorem C03_source_recovery_keeps_semicolon : Generated.rwCfg.recoveryKeepsSemicolon = true := by decide

/-- **confinement of too many parameters**: when the parameter list has more parameters than attributes, whatever the
    extra parameters are (any bytes without `)`), `SDAI_Application_instance::STEPread` returns INPUT_ERROR or worse and —
    in the repaired source — leaves the stream exactly at the instance's terminating `;`: `ReadInstance` then reads
    that `;` and the instance that follows is untouched. -/
theorem C03_too_many_parameters_confined {F} (env : Env F) (strict : Bool) (hcfg : env.cfg.recoveryKeepsSemicolon = true)
    (body : List Byte) (hb : ∀ x ∈ body, x ≠ 41) (sp : List Byte) (hsp : sp.all isSpace = true)
    (err : Sev) (c : Byte) (hc : c ≠ 41) (l rest : List Byte) (sk : Bool) :
    readAttrs env strict [] err c (G l (body ++ 41 :: (sp ++ 59 :: rest)) sk) =
      .ok ⟨err.greater .inputError, [], G (sp.reverse ++ 41 :: (body.reverse ++ l)) (59 :: rest) sk⟩ := by
  unfold readAttrs
  have hclear : (G l (body ++ 41 :: (sp ++ 59 :: rest)) sk).clear = G l (body ++ 41 :: (sp ++ 59 :: rest)) sk := rfl
  simp only [bind, Except.bind, pure, Except.pure, hclear]
  rw [recoverScan_spec body hb sp hsp _ c l rest sk
    (by simp only [List.length_append, List.length_cons]; omega) hc]
  simp only [hcfg, G_good, Bool.and_self, if_true]
  rw [show IStream.putback 59 (G (59 :: (sp.reverse ++ 41 :: (body.reverse ++ l))) rest sk) =
    G (sp.reverse ++ 41 :: (body.reverse ++ l)) (59 :: rest) sk from putback_good 59 _ rest sk]

/-- **resynchronisation, `SkipInstance`** (`skipws` off, as in a data section): an instance that is skipped — duplicate id,
    unknown or abstract keyword, missing `=`, not found in pass 2 — is skipped up to and including its `;`, for any text
    without `;`, apostrophe, NUL and `/`; the next instance starts where the scan ends. -/
theorem C03_skip_instance_resynchronises (cfg : RWCfg) (body : List Byte)
    (hb : ∀ x ∈ body, x ≠ 59 ∧ x ≠ 39 ∧ x ≠ 0 ∧ x ≠ 47) (l rest : List Byte) :
    skipInstance cfg (G l (body ++ 59 :: rest) false) = .ok (G (59 :: (body.reverse ++ l)) rest false) := by
  unfold skipInstance
  exact scanTo_semicolon _ body hb _ 0 l rest (by simp only [List.length_append, List.length_cons]; omega)

/-! ### the hypotheses are satisfiable: a string where an INTEGER is required -/
def exDict : Dict :=
  { entities := [{ name := "A", attrs := [{ name := "x", ty := .one .integer, optional := false }], ancestors := ["A"] }],
    selects := [], complexSets := [] }
def exRun : M (FileResult Nat) :=
  readDataSection dblOps Generated.rwLexCfg Generated.rwCfg exDict false false
    (stringToBytes "#1=A('q');ENDSEC;END-ISO-10303-21;")

example : (match exRun with | .ok r => r.reported | .error _ => []) = [Sev.warning] := by decide
example : (match exRun with | .ok r => exitStatus r.sev | .error _ => 0) = 1 := by decide

end StepModel.P21.C03

import StepModel.P21.ReaderLemmas13
import StepModel.P21.ReaderLemmas15
import StepModel.P21.ReaderLemmas16
import StepModel.P21.ReaderLemmas19
import StepModel.P21.ReaderLemmas20
import StepModel.P21.ReaderLemmas21
import StepModel.P21.ReaderLemmas22
import StepModel.P21.ReaderLemmas23
import StepModel.P21.ReaderLemmas25
import StepModel.P21.ReaderLemmas27
import StepModel.P21.ReaderLemmas29
import StepModel.Generated.P21RWGen
/-! # C03 — the reader never reports a violating file as clean: property theorems

Statements are about the transliterated reader `P21.Reader` for **every** dictionary, byte sequence and configuration
of the behaviour switches (no bound on sizes).  The chain proved here is the severity plumbing of the statement:

  attribute reader reports `sev`  →  `SDAI_Application_instance::STEPread` returns at least `sev`
  (`C03_attribute_error_reaches_instance`, `C03_instance_severity_never_improves`, arity theorems)
  →  `ReadInstance` hands it to `AppendEntityErrorMsg` (ghost log `reported`)  →  the file's severity is worse than a
  user message and p21read's exit rule gives 1 (`C03_reported_error_fails_file` and the three counter theorems).

The confinement clause: `C03_error_resync_confines` (the repaired `ReadInstance` leaves a record that was not read cleanly
right after its `;`, whatever the failed read left behind), `C03_violation_confined_partial` (file level: every record is
read to the outcome it has on its own; a clean record is complete with its file values whatever stands around it; inside
a flawed record the other parameters keep their values) and the per-class `C03_*_detected` theorems (which reader flags
what, where it leaves the stream).

Externally mapped instances: `C03_attribute_error_reaches_attribute_merge`, `complexLoop_perr_le` and
`C03_part_attribute_error_reaches_complex_instance` (what an attribute of any part other than the first reports reaches the
result of `STEPcomplex::STEPread`, in the source as repaired by fixes/C15: switch `complexMergesAttrErrors`).

What is *not* proved (tied by correspondence only, see notes/C03.md): detection for violations inside aggregates and
selects and for the untyped select forms, wrong kinds whose first character the per-kind theorems exclude (spelled out
there), duplicate ids, a missing `=`, complaints of a part's parameter list that are tied to no attribute (the source keeps
them unreported), attributes of a part that a sibling part derives.
-/
namespace StepModel.P21.C03
open StepModel StepModel.P21 StepModel.P21.RLemmas StepModel.P21.Lemmas

/-- p21read exits non-zero exactly when the severity is worse than a user message -/
theorem C03_exit_iff_worse_than_usermsg (e : Sev) : exitStatus e = 1 ↔ e.toInt < Sev.usermsg.toInt := by
  cases e <;> decide

theorem greater_le_left (a b : Sev) : (a.greater b).toInt ≤ a.toInt := by
  cases a <;> cases b <;> decide
theorem greater_le_right (a b : Sev) : (a.greater b).toInt ≤ b.toInt := by
  cases a <;> cases b <;> decide
theorem cri_sev_le (lex : LexCfg) (d : Option (List Byte)) (s : IStream) (e : Sev) :
    (checkRemainingInput lex d s e).2.toInt ≤ e.toInt := by
  unfold checkRemainingInput
  repeat' (first | split | dsimp only)
  all_goals first
    | exact Int.le_refl _
    | exact greater_le_left _ _

theorem merge_le (err x : Sev) : (if x.toInt ≤ Sev.usermsg.toInt then err.greater x else err).toInt ≤ err.toInt := by
  split
  · exact greater_le_left _ _
  · exact Int.le_refl _

theorem readAttrs_sev_le {F} (env : Env F) (strict : Bool) (attrs : List AttrD)
    (err : Sev) (c : Byte) (s : IStream) (r : IR F) (h : readAttrs env strict attrs err c s = .ok r) : r.sev.toInt ≤ err.toInt := by
  fun_induction readAttrs env strict attrs err c s generalizing r
  case case1 err c s err1 =>
    simp only [bind, Except.bind, pure, Except.pure] at h
    split at h
    · cases h
    · cases h; exact greater_le_left _ _
  case case2 =>
    simp only [pure, Except.pure] at h
    cases h
    dsimp only
    split
    · exact greater_le_left _ _
    · exact Int.le_refl _
  case case3 ih => exact ih r h
  case case4 a rest err c s s1 hred ih2 ih1 =>
    cases hx : attrSTEPread env strict a s1 with
    | error e => simp [hx, bind, Except.bind] at h
    | ok x =>
      obtain ⟨sev, v, s2⟩ := x
      simp only [hx, bind, Except.bind] at h
      generalize hp : shiftInto c s2 = p at h
      obtain ⟨c2, s3⟩ := p
      dsimp only at h
      have hm := merge_le err sev
      split at h
      · generalize hq : checkRemainingInput env.lex (some attrDelims) s3
          (if sev.toInt ≤ Sev.usermsg.toInt then err.greater sev else err) = q at h
        have hc := cri_sev_le env.lex (some attrDelims) s3 (if sev.toInt ≤ Sev.usermsg.toInt then err.greater sev else err)
        rw [hq] at hc
        obtain ⟨s4, err2⟩ := q
        dsimp only at h hc
        split at h
        · simp only [pure, Except.pure] at h; cases h; exact Int.le_trans hc hm
        · split at h
          · simp only [pure, Except.pure] at h; cases h; exact Int.le_trans hc hm
          · cases hv : readAttrs env strict rest err2 c2 s4 with
            | error e => simp [hv] at h
            | ok v2 =>
              simp only [hv, pure, Except.pure] at h
              cases h
              exact Int.le_trans (ih2 c2 s4 err2 v2 hv) (Int.le_trans hc hm)
      · split at h
        · simp only [pure, Except.pure] at h
          cases h
          dsimp only
          split
          · exact Int.le_trans (greater_le_left _ _) hm
          · exact hm
        · cases hv : readAttrs env strict rest (if sev.toInt ≤ Sev.usermsg.toInt then err.greater sev else err) c2 s3 with
          | error e => simp [hv] at h
          | ok v2 =>
            simp only [hv, pure, Except.pure] at h
            cases h
            exact Int.le_trans (ih1 sev c2 s3 v2 hv) hm

/-- **instance level**: whatever stands in the parameter list, the severity `SDAI_Application_instance::STEPread` has
    accumulated never improves while the remaining attributes are read (all attribute lists, all inputs). -/
theorem C03_instance_severity_never_improves {F} (env : Env F) (strict : Bool) (attrs : List AttrD)
    (err : Sev) (c : Byte) (s : IStream) (r : IR F) (h : readAttrs env strict attrs err c s = .ok r) :
    r.sev.toInt ≤ err.toInt := readAttrs_sev_le env strict attrs err c s r h

/-- one step of the attribute loop: the result is at least as severe as the accumulated severity merged with what
    the attribute reader reported -/
theorem readAttrs_cons_le {F} (env : Env F) (strict : Bool) (a : AttrD) (rest : List AttrD)
    (err : Sev) (c : Byte) (s : IStream) (r : IR F) (sev : Sev) (v : MVal F) (s2 : IStream)
    (hred : a.redefining = false)
    (ha : attrSTEPread env strict a (readTokenSeparator s) = .ok (sev, v, s2))
    (h : readAttrs env strict (a :: rest) err c s = .ok r) :
    r.sev.toInt ≤ (if sev.toInt ≤ Sev.usermsg.toInt then err.greater sev else err).toInt := by
  unfold readAttrs at h
  simp only [hred, Bool.false_eq_true, if_false, ha, bind, Except.bind] at h
  generalize hp : shiftInto c s2 = p at h
  obtain ⟨c2, s3⟩ := p
  dsimp only at h
  split at h
  · generalize hq : checkRemainingInput env.lex (some attrDelims) s3
      (if sev.toInt ≤ Sev.usermsg.toInt then err.greater sev else err) = q at h
    have hc := cri_sev_le env.lex (some attrDelims) s3 (if sev.toInt ≤ Sev.usermsg.toInt then err.greater sev else err)
    rw [hq] at hc
    obtain ⟨s4, err2⟩ := q
    dsimp only at h hc
    split at h
    · simp only [pure, Except.pure] at h; cases h; exact hc
    · split at h
      · simp only [pure, Except.pure] at h; cases h; exact hc
      · cases hv : readAttrs env strict rest err2 c2 s4 with
        | error e => simp [hv] at h
        | ok v2 =>
          simp only [hv, pure, Except.pure] at h
          cases h
          exact Int.le_trans (readAttrs_sev_le env strict rest err2 c2 s4 v2 hv) hc
  · split at h
    · simp only [pure, Except.pure] at h
      cases h
      dsimp only
      split
      · exact greater_le_left _ _
      · exact Int.le_refl _
    · cases hv : readAttrs env strict rest (if sev.toInt ≤ Sev.usermsg.toInt then err.greater sev else err) c2 s3 with
      | error e => simp [hv] at h
      | ok v2 =>
        simp only [hv, pure, Except.pure] at h
        cases h
        exact readAttrs_sev_le env strict rest _ c2 s3 v2 hv

/-- **attribute → instance**: at whatever point of the parameter list the reader stands (`err`, `c`, `s` arbitrary), if
    `STEPattribute::STEPread` of the next attribute reports a severity at or below USERMSG, the instance's result is at
    least that severe — whatever follows in the file. -/
theorem C03_attribute_error_reaches_instance {F} (env : Env F) (strict : Bool) (a : AttrD) (rest : List AttrD)
    (err : Sev) (c : Byte) (s : IStream) (r : IR F) (sev : Sev) (v : MVal F) (s2 : IStream)
    (hred : a.redefining = false)
    (ha : attrSTEPread env strict a (readTokenSeparator s) = .ok (sev, v, s2))
    (hs : sev.toInt ≤ Sev.usermsg.toInt)
    (h : readAttrs env strict (a :: rest) err c s = .ok r) : r.sev.toInt ≤ sev.toInt := by
  have h1 := readAttrs_cons_le env strict a rest err c s r sev v s2 hred ha h
  rw [if_pos hs] at h1
  exact Int.le_trans h1 (greater_le_right _ _)

/-- **too many parameters**: when every attribute has been read and the list has not been closed, the instance's
    severity is INPUT_ERROR or worse, whatever the extra parameters are. -/
theorem C03_too_many_parameters_detected {F} (env : Env F) (strict : Bool) (err : Sev) (c : Byte) (s : IStream) (r : IR F)
    (h : readAttrs env strict [] err c s = .ok r) : r.sev.toInt ≤ Sev.inputError.toInt := by
  simp only [readAttrs, bind, Except.bind] at h
  split at h
  · cases h
  · simp only [pure, Except.pure] at h
    cases h
    exact greater_le_right _ _

/-- the look-ahead that examines every remaining attribute finds any one that is not redefining -/
theorem missingCheck_every (rest : List AttrD) : missingCheck false rest = rest.any (fun b => !b.redefining) := by
  induction rest with
  | nil => rfl
  | cons b t ih =>
    unfold missingCheck
    cases hb : b.redefining
    · simp [hb]
    · simp only [Bool.not_true, Bool.false_eq_true, if_false, ih, List.any_cons, hb, Bool.false_or]

/-- tie: the source at hand examines every remaining attribute (2b21a5dc; the extractor pins the loop) -/
theorem C03_source_missing_check_every_attribute : Generated.rwCfg.missingCheckEverySecond = false := by decide

/-- **too few parameters**: when the list is closed after an attribute although *some* attribute still to come - anywhere
    among the remaining ones - is not a redefining one, the instance's severity is WARNING or worse (source whose look-ahead
    examines every remaining attribute: `C03_source_missing_check_every_attribute`). -/
theorem C03_too_few_parameters_detected {F} (env : Env F) (strict : Bool) (a : AttrD) (rest : List AttrD)
    (hcfg : env.cfg.missingCheckEverySecond = false)
    (err : Sev) (c : Byte) (s : IStream) (r : IR F) (sev : Sev) (v : MVal F) (s2 : IStream)
    (hred : a.redefining = false) (hb : ∃ b ∈ rest, b.redefining = false)
    (ha : attrSTEPread env strict a (readTokenSeparator s) = .ok (sev, v, s2))
    (hclose : (shiftInto c s2).1 = 41)
    (h : readAttrs env strict (a :: rest) err c s = .ok r) : r.sev.toInt ≤ Sev.warning.toInt := by
  unfold readAttrs at h
  simp only [hred, Bool.false_eq_true, if_false, ha, bind, Except.bind] at h
  generalize hp : shiftInto c s2 = p at h hclose
  obtain ⟨c2, s3⟩ := p
  dsimp only at h hclose
  subst hclose
  simp only [pure, Except.pure] at h
  have hmc : missingCheck env.cfg.missingCheckEverySecond rest = true := by
    rw [hcfg, missingCheck_every]
    obtain ⟨b, hbm, hbr⟩ := hb
    exact List.any_eq_true.mpr ⟨b, hbm, by simp [hbr]⟩
  have e1 : (!((41 : Byte) == 44 || (41 : Byte) == 41)) = false := by decide
  have e2 : ((41 : Byte) == 41) = true := by decide
  rw [e1] at h
  simp only [Bool.false_eq_true, if_false, e2, if_true, hmc] at h
  cases h
  exact greater_le_right _ _

/-- the look-ahead of the source before 2b21a5dc (two steps per round) misses a missing value behind a redefining attribute:
    for the remaining attributes (redefining, plain) it reports nothing -/
theorem C03_too_few_parameters_every_second_witness :
    missingCheck true [{ name := "r", ty := .one .integer, optional := false, redefining := true },
      { name := "p", ty := .one .integer, optional := false }] = false := by
  decide

theorem appendEntityError_le (e s : Sev) : (appendEntityError e s).toInt ≤ e.toInt := by
  unfold appendEntityError
  split
  · exact Int.le_refl _
  · exact greater_le_left _ _

/-- a severity worse than a user message handed to `AppendEntityErrorMsg` makes the file's severity worse than one -/
theorem appendEntityError_bad (e s : Sev) (h : s.toInt < Sev.usermsg.toInt) :
    (appendEntityError e s).toInt < Sev.usermsg.toInt := by
  cases e <;> cases s <;> revert h <;> decide

/-- the invariant of pass 2: the file's severity is at least as bad as every severity reported so far (floored at
    WARNING as `AppendEntityErrorMsg` does), and never better than at the start -/
def Inv {F} (e0 : Sev) (st : P2 F) : Prop :=
  st.fileErr.toInt ≤ e0.toInt ∧ ∀ sv ∈ st.reported, sv.toInt < Sev.usermsg.toInt → st.fileErr.toInt < Sev.usermsg.toInt

theorem applyOutcome_fileErr {F} (st : P2 F) (o : IOut F) :
    (applyOutcome st o).fileErr = (match o.reported with | some sv => appendEntityError st.fileErr sv | none => st.fileErr) := by
  unfold applyOutcome
  dsimp only
  cases o.left with
  | none => rfl
  | some sev =>
    dsimp only
    split
    · rfl
    · split
      · rfl
      · split <;> rfl

theorem applyOutcome_reported {F} (st : P2 F) (o : IOut F) :
    (applyOutcome st o).reported = (match o.reported with | some sv => sv :: st.reported | none => st.reported) := by
  unfold applyOutcome
  dsimp only
  cases o.left with
  | none => rfl
  | some sev =>
    dsimp only
    split
    · rfl
    · split
      · rfl
      · split <;> rfl

theorem inv_apply {F} (e0 : Sev) (st : P2 F) (o : IOut F) (h : Inv e0 st) : Inv e0 (applyOutcome st o) := by
  obtain ⟨h1, h2⟩ := h
  unfold Inv
  rw [applyOutcome_fileErr, applyOutcome_reported]
  cases o.reported with
  | none => exact ⟨h1, h2⟩
  | some sv =>
    refine ⟨Int.le_trans (appendEntityError_le _ _) h1, ?_⟩
    intro x hx hb
    rcases List.mem_cons.mp hx with rfl | hx
    · exact appendEntityError_bad _ _ hb
    · exact Int.lt_of_le_of_lt (appendEntityError_le _ _) (h2 x hx hb)

theorem inv_setS {F} (e0 : Sev) (st : P2 F) (s : IStream) (h : Inv e0 st) : Inv e0 { st with s := s } := h

theorem loop_inv {F} (ops : FloatOps F) (lex : LexCfg) (cfg : RWCfg) (d : Dict) (strict : Bool) (e0 : Sev)
    (fuel : Nat) : ∀ (st : P2 F) (endsec : Bool) (st' : P2 F),
    readData2Loop ops lex cfg d strict fuel st endsec = .ok st' → Inv e0 st → Inv e0 st' := by
  induction fuel with
  | zero => intro st endsec st' h; simp [readData2Loop, throw, throwThe, MonadExceptOf.throw] at h
  | succ n ih =>
    intro st endsec st' h hi
    unfold readData2Loop at h
    split at h
    · -- the body after the `#` has been found (or the section has ended)
      have body : ∀ (x : Byte × Bool × IStream),
          (match x with
            | (_, endsec1, s3) =>
              if endsec1 = true then readData2Loop ops lex cfg d strict n { st with s := s3 } true
              else do
                let o ← readInstance ops lex cfg d strict { st with s := s3 }
                let st2 := applyOutcome st o
                let (es, s5) := foundEndSec st2.s
                readData2Loop ops lex cfg d strict n { st2 with s := s5 } es) = .ok st' → Inv e0 st' := by
        intro x hx
        obtain ⟨a, e1, s3⟩ := x
        dsimp only at hx
        split at hx
        · exact ih _ _ _ hx hi
        · simp only [bind, Except.bind] at hx
          split at hx
          · cases hx
          · rename_i o ho
            exact ih _ _ _ hx (inv_apply e0 st o hi)
      dsimp only at h
      split at h
      · simp only [bind, Except.bind] at h
        split at h
        · cases h
        · exact body _ h
      · simp only [bind, Except.bind, pure, Except.pure, Bool.false_eq_true, if_false] at h
        split at h
        · cases h
        · rename_i o ho
          exact ih _ _ _ h (inv_apply e0 st o hi)
    · simp only [pure, Except.pure] at h
      cases h
      exact hi

theorem finalVerdict_le (e2 : Sev) (m k b : Bool) : (finalVerdict e2 m k b).1.toInt ≤ e2.toInt := by
  cases e2 <;> cases m <;> cases k <;> cases b <;> decide

theorem finalVerdict_mismatch (e2 : Sev) (k b : Bool) : (finalVerdict e2 true k b).1.toInt ≤ Sev.warning.toInt := by
  cases e2 <;> cases k <;> cases b <;> decide

/-- what `readDataSection` guarantees about its result, in terms of the two passes -/
theorem section_spec {F} (ops : FloatOps F) (lex : LexCfg) (cfg : RWCfg) (d : Dict) (strict skipws : Bool) (bytes : List Byte)
    (r : FileResult F) (h : readDataSection ops lex cfg d strict skipws bytes = .ok r) :
    ∃ (p2 : P2 F), Inv (if r.notCreated > 0 then Sev.warning else Sev.null) p2 ∧ r.reported = p2.reported ∧
      r.invalid = p2.invalid ∧
      r.sev.toInt ≤ (if p2.invalid > 0 then p2.fileErr.greater .warning else p2.fileErr).toInt ∧
      (r.created ≠ r.valid → r.sev.toInt ≤ Sev.warning.toInt) := by
  unfold readDataSection at h
  simp only [bind, Except.bind] at h
  split at h
  · cases h
  · rename_i p1 hp1
    split at h
    · cases h
    · rename_i p2 hp2
      have hinv := loop_inv ops lex cfg d strict (if p1.notCreated > 0 then Sev.warning else Sev.null) _ _ _ _ hp2
        ⟨Int.le_refl _, by intro sv hsv; cases hsv⟩
      simp only [pure, Except.pure] at h
      cases h
      refine ⟨p2, hinv, rfl, rfl, finalVerdict_le _ _ _ _, ?_⟩
      intro hne
      dsimp only at hne ⊢
      have : (p1.count != p2.valid) = true := by simpa using hne
      rw [this]
      exact finalVerdict_mismatch _ _ _

theorem lt_usermsg_exit (e : Sev) (h : e.toInt < Sev.usermsg.toInt) : exitStatus e = 1 := by
  cases e <;> revert h <;> decide

theorem le_warning_lt (e : Sev) (h : e.toInt ≤ Sev.warning.toInt) : e.toInt < Sev.usermsg.toInt := by
  cases e <;> revert h <;> decide

/-- **detection, file level (1)**: whenever pass 2 hands `AppendEntityErrorMsg` a severity worse than a user message —
    for any instance of the file, at any point — the read ends with a severity worse than a user message and p21read's
    exit rule gives 1.  All files, all dictionaries. -/
theorem C03_reported_error_fails_file {F} (ops : FloatOps F) (lex : LexCfg) (cfg : RWCfg) (d : Dict) (strict skipws : Bool)
    (bytes : List Byte) (r : FileResult F) (h : readDataSection ops lex cfg d strict skipws bytes = .ok r)
    (sv : Sev) (hm : sv ∈ r.reported) (hb : sv.toInt < Sev.usermsg.toInt) :
    r.sev.toInt < Sev.usermsg.toInt ∧ exitStatus r.sev = 1 := by
  obtain ⟨p2, ⟨_, h2⟩, hr, _, hs, _⟩ := section_spec ops lex cfg d strict skipws bytes r h
  have hf : p2.fileErr.toInt < Sev.usermsg.toInt := h2 sv (hr ▸ hm) hb
  have : r.sev.toInt < Sev.usermsg.toInt := by
    refine Int.lt_of_le_of_lt hs ?_
    split
    · exact Int.lt_of_le_of_lt (greater_le_left _ _) hf
    · exact hf
  exact ⟨this, lt_usermsg_exit _ this⟩

/-- **detection, file level (2)**: an instance that pass 1 could not create (unknown or abstract keyword, illegal
    complex combination, duplicate id, missing `=`) fails the file. -/
theorem C03_not_created_fails_file {F} (ops : FloatOps F) (lex : LexCfg) (cfg : RWCfg) (d : Dict) (strict skipws : Bool)
    (bytes : List Byte) (r : FileResult F) (h : readDataSection ops lex cfg d strict skipws bytes = .ok r)
    (hn : r.notCreated > 0) : r.sev.toInt < Sev.usermsg.toInt ∧ exitStatus r.sev = 1 := by
  obtain ⟨p2, ⟨h1, _⟩, _, _, hs, _⟩ := section_spec ops lex cfg d strict skipws bytes r h
  rw [if_pos hn] at h1
  have hf : p2.fileErr.toInt < Sev.usermsg.toInt := le_warning_lt _ h1
  have : r.sev.toInt < Sev.usermsg.toInt := by
    refine Int.lt_of_le_of_lt hs ?_
    split
    · exact Int.lt_of_le_of_lt (greater_le_left _ _) hf
    · exact hf
  exact ⟨this, lt_usermsg_exit _ this⟩

/-- **detection, file level (3)**: an instance counted invalid in pass 2 (not found from pass 1, duplicate, severity
    worse than a user message left on the object) fails the file. -/
theorem C03_invalid_fails_file {F} (ops : FloatOps F) (lex : LexCfg) (cfg : RWCfg) (d : Dict) (strict skipws : Bool)
    (bytes : List Byte) (r : FileResult F) (h : readDataSection ops lex cfg d strict skipws bytes = .ok r)
    (hn : r.invalid > 0) : r.sev.toInt < Sev.usermsg.toInt ∧ exitStatus r.sev = 1 := by
  obtain ⟨p2, _, _, hi, hs, _⟩ := section_spec ops lex cfg d strict skipws bytes r h
  rw [hi] at hn
  rw [if_pos hn] at hs
  have : r.sev.toInt < Sev.usermsg.toInt := le_warning_lt _ (Int.le_trans hs (greater_le_right _ _))
  exact ⟨this, lt_usermsg_exit _ this⟩

/-- **detection, file level (4)**: fewer valid instances after pass 2 than instances created in pass 1 fails the file. -/
theorem C03_count_mismatch_fails_file {F} (ops : FloatOps F) (lex : LexCfg) (cfg : RWCfg) (d : Dict) (strict skipws : Bool)
    (bytes : List Byte) (r : FileResult F) (h : readDataSection ops lex cfg d strict skipws bytes = .ok r)
    (hn : r.created ≠ r.valid) : r.sev.toInt < Sev.usermsg.toInt ∧ exitStatus r.sev = 1 := by
  obtain ⟨p2, _, _, _, _, hm⟩ := section_spec ops lex cfg d strict skipws bytes r h
  have := le_warning_lt _ (hm hn)
  exact ⟨this, lt_usermsg_exit _ this⟩

/-! ### confinement: resynchronisation -/

/-- the recovery scan of `SDAI_Application_instance::STEPread`: whatever garbage stands before the closing `)` (anything
    without a `)` - and, for the scan that ends at a `;` outside a string literal, without apostrophe and `;`), the scan
    ends right after the `;` that follows it; either shape of the scan, inside or outside a string literal -/
theorem recoverScan_spec (stop quotes : Bool) (body : List Byte) (hb : ∀ x ∈ body, x ≠ 41 ∧ (stop = true → x ≠ 39 ∧ x ≠ 59))
    (sp : List Byte) (hsp : sp.all isSpace = true) :
    ∀ (fuel : Nat) (q : Bool) (c : Byte) (l rest : List Byte) (sk : Bool), body.length + 2 ≤ fuel → c ≠ 41 →
      recoverScan stop quotes fuel q c (G l (body ++ 41 :: (sp ++ 59 :: rest)) sk) =
        .ok (G (59 :: (sp.reverse ++ 41 :: (body.reverse ++ l))) rest sk) := by
  induction body with
  | nil =>
    intro fuel q c l rest sk hf hc
    match fuel, hf with
    | n + 2, _ =>
      have hc' : (c != 41) = true := by simpa using hc
      unfold recoverScan
      simp only [G_good, Bool.not_true, Bool.false_eq_true, if_false, hc', if_true, List.nil_append]
      rw [show getInto c (G l (41 :: (sp ++ 59 :: rest)) sk) = (41, G (41 :: l) (sp ++ 59 :: rest) sk) from getInto_good c l 41 _ sk]
      have e1 : ((41 : Byte) == 39) = false := by decide
      have e2 : ((41 : Byte) == 59) = false := by decide
      simp only [e1, e2, Bool.and_false, Bool.false_and, Bool.false_eq_true, if_false]
      unfold recoverScan
      simp only [G_good, Bool.not_true, Bool.false_eq_true, if_false, bne_self_eq_false]
      rw [show (G (41 :: l) (sp ++ 59 :: rest) sk).ws = G (sp.reverse ++ 41 :: l) (59 :: rest) sk from ws_good _ sp 59 rest sk hsp (by decide)]
      rw [show getInto 41 (G (sp.reverse ++ 41 :: l) (59 :: rest) sk) = (59, G (59 :: (sp.reverse ++ 41 :: l)) rest sk)
        from getInto_good 41 _ 59 rest sk]
      simp [pure, Except.pure]
  | cons b t ih =>
    intro fuel q c l rest sk hf hc
    match fuel, hf with
    | n + 1, hf =>
      have hc' : (c != 41) = true := by simpa using hc
      obtain ⟨hb41, hbq⟩ := hb b (by simp)
      unfold recoverScan
      simp only [G_good, Bool.not_true, Bool.false_eq_true, if_false, hc', if_true, List.cons_append]
      rw [show getInto c (G l (b :: (t ++ 41 :: (sp ++ 59 :: rest))) sk) = (b, G (b :: l) (t ++ 41 :: (sp ++ 59 :: rest)) sk)
        from getInto_good c l b _ sk]
      have e1 : (stop && (b == 39)) = false := by
        cases stop with
        | false => rfl
        | true => have := (hbq rfl).1; simpa using this
      have e2 : (stop && (b == 59)) = false := by
        cases stop with
        | false => rfl
        | true => have := (hbq rfl).2; simpa using this
      have e1' : (stop && quotes && (G (b :: l) (t ++ 41 :: (sp ++ 59 :: rest)) sk).good && b == 39) = false := by
        simp only [G_good, Bool.and_true]
        cases quotes
        · simp
        · simpa using e1
      have e2' : (stop && (G (b :: l) (t ++ 41 :: (sp ++ 59 :: rest)) sk).good && b == 59 && !q) = false := by
        simp only [G_good, Bool.and_true, e2, Bool.false_and]
      simp only [e1', e2', Bool.false_eq_true, if_false]
      rw [ih (fun x hx => hb x (by simp [hx])) n q b (b :: l) rest sk (by simp only [List.length_cons] at hf; omega) hb41]
      simp

theorem shiftInto_noskip (c : Byte) (l : List Byte) (x : Byte) (t : List Byte) :
    shiftInto c (G l (x :: t) false) = (x, G (x :: l) t false) := by
  simp [shiftInto, IStream.getChar, IStream.sentry, IStream.good]

/-- `SkipInstance` (pass 1, and every "data lost" path of pass 2) with `skipws` off, as it is in a data section: over any
    text without `;`, apostrophe, NUL and `/` it ends right after the first `;` -/
theorem scanTo_semicolon (skipCmt : Bool) (body : List Byte)
    (hb : ∀ x ∈ body, x ≠ 59 ∧ x ≠ 39 ∧ x ≠ 0 ∧ x ≠ 47) :
    ∀ (fuel : Nat) (c : Byte) (l rest : List Byte), body.length + 1 ≤ fuel →
      scanTo 59 false skipCmt fuel c (G l (body ++ 59 :: rest) false) = .ok (G (59 :: (body.reverse ++ l)) rest false) := by
  induction body with
  | nil =>
    intro fuel c l rest hf
    match fuel, hf with
    | n + 1, _ =>
      unfold scanTo
      simp only [G_good, Bool.not_true, Bool.false_eq_true, if_false, List.nil_append]
      rw [shiftInto_noskip]
      simp [pure, Except.pure]
  | cons b t ih =>
    intro fuel c l rest hf
    match fuel, hf with
    | n + 1, hf =>
      obtain ⟨h59, h39, h0, h47⟩ := hb b (by simp)
      unfold scanTo
      simp only [G_good, Bool.not_true, Bool.false_eq_true, if_false, List.cons_append]
      rw [shiftInto_noskip]
      have e1 : (b == 59) = false := by simpa using h59
      have e2 : (b == 39) = false := by simpa using h39
      have e3 : (b == 0) = false := by simpa using h0
      have e4 : (b == 47) = false := by simpa using h47
      simp only [e1, e2, e3, e4, Bool.false_eq_true, if_false, Bool.false_and]
      rw [ih (fun x hx => hb x (by simp [hx])) n b (b :: l) rest (by simp only [List.length_cons] at hf; omega)]
      simp

/-- **resynchronisation, recovery scan**: see `recoverScan_spec` -/
theorem C03_recovery_scan_resynchronises (stop quotes : Bool) (body : List Byte)
    (hb : ∀ x ∈ body, x ≠ 41 ∧ (stop = true → x ≠ 39 ∧ x ≠ 59)) (sp : List Byte) (hsp : sp.all isSpace = true)
    (fuel : Nat) (q : Bool) (c : Byte) (l rest : List Byte) (sk : Bool) (hf : body.length + 2 ≤ fuel) (hc : c ≠ 41) :
    recoverScan stop quotes fuel q c (G l (body ++ 41 :: (sp ++ 59 :: rest)) sk) =
      .ok (G (59 :: (sp.reverse ++ 41 :: (body.reverse ++ l))) rest sk) :=
  recoverScan_spec stop quotes body hb sp hsp fuel q c l rest sk hf hc

/-- the source as it is now: the recovery scan leaves the `;` (regenerated on every run) -/
theorem C03_source_recovery_keeps_semicolon : Generated.rwCfg.recoveryKeepsSemicolon = true := by decide

/-- **confinement of too many parameters**: when the parameter list has more parameters than attributes, whatever the
    extra parameters are (any bytes without `)` — and without apostrophe and `;` where the scan ends at a `;` outside a string
    literal), `SDAI_Application_instance::STEPread` returns INPUT_ERROR or worse and —
    in the repaired source — leaves the stream exactly at the instance's terminating `;`: `ReadInstance` then reads
    that `;` and the instance that follows is untouched. -/
theorem C03_too_many_parameters_confined {F} (env : Env F) (strict : Bool) (hcfg : env.cfg.recoveryKeepsSemicolon = true)
    (body : List Byte) (hb : ∀ x ∈ body, x ≠ 41 ∧ (env.cfg.recoveryStopsAtSemicolon = true → x ≠ 39 ∧ x ≠ 59))
    (sp : List Byte) (hsp : sp.all isSpace = true)
    (err : Sev) (c : Byte) (hc : c ≠ 41) (l rest : List Byte) (sk : Bool) :
    readAttrs env strict [] err c (G l (body ++ 41 :: (sp ++ 59 :: rest)) sk) =
      .ok ⟨err.greater .inputError, [], G (sp.reverse ++ 41 :: (body.reverse ++ l)) (59 :: rest) sk, .null⟩ := by
  unfold readAttrs
  have hclear : (G l (body ++ 41 :: (sp ++ 59 :: rest)) sk).clear = G l (body ++ 41 :: (sp ++ 59 :: rest)) sk := rfl
  simp only [bind, Except.bind, pure, Except.pure, hclear]
  rw [recoverScan_spec _ _ body hb sp hsp _ false c l rest sk
    (by simp only [List.length_append, List.length_cons]; omega) hc]
  simp only [hcfg, G_good, Bool.and_self, if_true]
  rw [show IStream.putback 59 (G (59 :: (sp.reverse ++ 41 :: (body.reverse ++ l))) rest sk) =
    G (sp.reverse ++ 41 :: (body.reverse ++ l)) (59 :: rest) sk from putback_good 59 _ rest sk]

/-! ### too few parameters, from the record's text to its severity (`Flawed` derived) -/

/-- the attribute loop over fewer parameters than the entity has attributes (each read where it stands with a known
    severity), the list closed behind the last one, some attribute still to come that is not a redefining one: every
    parameter's attribute gets its value, the others stay unset, "Missing attribute value[s]" - WARNING merged in -/
theorem readAttrs_params_short {F} (env : Env F) (strict : Bool) (hcfg : env.cfg.missingCheckEverySecond = false)
    (qs : List (Param F × Sev)) (hne : qs ≠ []) (hok : ∀ q ∈ qs, ParamRd env strict q.1 q.2)
    (more : List AttrD) (hmore : ∃ b ∈ more, b.redefining = false) :
    ∀ (err : Sev) (l : List Byte) (c : Byte) (sk : Bool) (rest : List Byte),
      ∃ sk', (sk' = sk ∨ sk' = false) ∧
        readAttrs env strict (qs.map (·.1.a) ++ more) err c (G l (renderParams (qs.map (·.1)) ++ rest) sk) =
        .ok ⟨(accum err (qs.map (·.2))).greater .warning, qs.map (·.1.v) ++ defaults more,
             G ((renderParams (qs.map (·.1))).reverse ++ l) rest sk', aaccum qs⟩ := by
  have hmc : missingCheck env.cfg.missingCheckEverySecond more = true := by
    rw [hcfg, missingCheck_every]
    obtain ⟨b, hbm, hbr⟩ := hmore
    exact List.any_eq_true.mpr ⟨b, hbm, by simp [hbr]⟩
  induction qs with
  | nil => exact absurd rfl hne
  | cons q qs ih =>
    intro err l c sk rest
    obtain ⟨p, sev⟩ := q
    obtain ⟨hred, ⟨c0, u0, htok, hc0, h47, h92⟩, hbef, hread⟩ : ParamRd env strict p sev := hok (p, sev) (by simp)
    cases qs with
    | nil =>
      obtain ⟨sk', hsk, hr⟩ := hread (p.before.reverse ++ l) sk 41 rest (Or.inr rfl)
      refine ⟨sk', hsk, ?_⟩
      simp only [List.map_cons, List.map_nil, renderParams, List.cons_append, List.nil_append]
      unfold readAttrs
      have e1 : p.before ++ (p.tok ++ (p.after ++ [41])) ++ rest = p.before ++ c0 :: (u0 ++ (p.after ++ 41 :: rest)) := by
        rw [htok]; simp
      rw [e1, readTokenSeparator_seps p.before hbef l c0 _ sk hc0 h47 h92]
      have e2 : c0 :: (u0 ++ (p.after ++ 41 :: rest)) = p.tok ++ (p.after ++ 41 :: rest) := by rw [htok]; simp
      rw [e2]
      simp only [hred, Bool.false_eq_true, if_false, hr, bind, Except.bind, pure, Except.pure]
      rw [shiftInto_good c _ 41 rest sk' (by decide)]
      simp [hmc, accum, htok, aaccum]
    | cons q2 qs' =>
      obtain ⟨sk1, hsk1, hr⟩ := hread (p.before.reverse ++ l) sk 44 (renderParams ((q2 :: qs').map (·.1)) ++ rest) (Or.inl rfl)
      obtain ⟨sk', hsk', hrec⟩ := ih (by simp) (fun x hx => hok x (by simp [hx]))
        (if sev.toInt ≤ Sev.usermsg.toInt then err.greater sev else err)
        (44 :: (p.after.reverse ++ (p.tok.reverse ++ (p.before.reverse ++ l)))) 44 sk1 rest
      refine ⟨sk', skflag_trans hsk1 hsk', ?_⟩
      simp only [List.map_cons, renderParams, List.cons_append] at hrec ⊢
      unfold readAttrs
      have e1 : p.before ++ (p.tok ++ (p.after ++ 44 :: renderParams (q2.1 :: qs'.map (·.1)))) ++ rest =
          p.before ++ c0 :: (u0 ++ (p.after ++ 44 :: (renderParams (q2.1 :: qs'.map (·.1)) ++ rest))) := by
        rw [htok]; simp
      rw [e1, readTokenSeparator_seps p.before hbef l c0 _ sk hc0 h47 h92]
      have e2 : c0 :: (u0 ++ (p.after ++ 44 :: (renderParams (q2.1 :: qs'.map (·.1)) ++ rest))) =
          p.tok ++ (p.after ++ 44 :: (renderParams (q2.1 :: qs'.map (·.1)) ++ rest)) := by rw [htok]; simp
      rw [e2]
      simp only [List.map_cons] at hr
      simp only [hred, Bool.false_eq_true, if_false, hr, bind, Except.bind, pure, Except.pure]
      rw [shiftInto_good c _ 44 _ sk1 (by decide)]
      have e3 : (!((44 : Byte) == 44 || (44 : Byte) == 41)) = false := by decide
      have e4 : ((44 : Byte) == 41) = false := by decide
      simp only [e3, e4, Bool.false_eq_true, if_false]
      rw [hrec]
      simp [htok, accum, aaccum]

/-! ### too many parameters, from the record's text to its severity (`Flawed` derived, not assumed) -/

/-- a parameter list that is not closed: parameters separated by commas, nothing behind the last one -/
def renderOpen {F} : List (Param F) → List Byte
  | [] => []
  | [p] => p.before ++ (p.tok ++ p.after)
  | p :: q :: ps => p.before ++ (p.tok ++ (p.after ++ 44 :: renderOpen (q :: ps)))

/-- the attribute loop over as many parameters as the entity has attributes (each read where it stands with a known
    severity), followed by `,` and more text up to `)` blanks `;`: every attribute gets its value, then "No more attributes
    were expected" - INPUT_ERROR merged into what the attributes reported - and the recovery scan leaves the stream at the `;` -/
theorem readAttrs_params_extra {F} (env : Env F) (strict : Bool) (hk : env.cfg.recoveryKeepsSemicolon = true)
    (qs : List (Param F × Sev)) (hne : qs ≠ []) (hok : ∀ q ∈ qs, ParamRd env strict q.1 q.2)
    (body : List Byte) (hb : ∀ x ∈ body, x ≠ 41 ∧ (env.cfg.recoveryStopsAtSemicolon = true → x ≠ 39 ∧ x ≠ 59))
    (sp : List Byte) (hsp : sp.all isSpace = true) :
    ∀ (err : Sev) (l : List Byte) (c : Byte) (sk : Bool) (rest : List Byte),
      ∃ sk', (sk' = sk ∨ sk' = false) ∧
        readAttrs env strict (qs.map (·.1.a)) err c
          (G l (renderOpen (qs.map (·.1)) ++ 44 :: (body ++ 41 :: (sp ++ 59 :: rest))) sk) =
        .ok ⟨(accum err (qs.map (·.2))).greater .inputError, qs.map (·.1.v),
             G (sp.reverse ++ 41 :: (body.reverse ++ 44 :: ((renderOpen (qs.map (·.1))).reverse ++ l))) (59 :: rest) sk', aaccum qs⟩ := by
  induction qs with
  | nil => exact absurd rfl hne
  | cons q qs ih =>
    intro err l c sk rest
    obtain ⟨p, sev⟩ := q
    obtain ⟨hred, ⟨c0, u0, htok, hc0, h47, h92⟩, hbef, hread⟩ : ParamRd env strict p sev := hok (p, sev) (by simp)
    have e3 : (!((44 : Byte) == 44 || (44 : Byte) == 41)) = false := by decide
    have e4 : ((44 : Byte) == 41) = false := by decide
    cases qs with
    | nil =>
      obtain ⟨sk', hsk, hr⟩ := hread (p.before.reverse ++ l) sk 44 (body ++ 41 :: (sp ++ 59 :: rest)) (Or.inl rfl)
      refine ⟨sk', hsk, ?_⟩
      simp only [List.map_cons, List.map_nil, renderOpen]
      unfold readAttrs
      have e1 : p.before ++ (p.tok ++ p.after) ++ 44 :: (body ++ 41 :: (sp ++ 59 :: rest)) =
          p.before ++ c0 :: (u0 ++ (p.after ++ 44 :: (body ++ 41 :: (sp ++ 59 :: rest)))) := by rw [htok]; simp
      rw [e1, readTokenSeparator_seps p.before hbef l c0 _ sk hc0 h47 h92]
      have e2 : c0 :: (u0 ++ (p.after ++ 44 :: (body ++ 41 :: (sp ++ 59 :: rest)))) =
          p.tok ++ (p.after ++ 44 :: (body ++ 41 :: (sp ++ 59 :: rest))) := by rw [htok]; simp
      rw [e2]
      simp only [hred, Bool.false_eq_true, if_false, hr, bind, Except.bind, pure, Except.pure]
      rw [shiftInto_good c _ 44 _ sk' (by decide)]
      simp only [e3, e4, Bool.false_eq_true, if_false]
      rw [C03_too_many_parameters_confined env strict hk body hb sp hsp _ 44 (by decide) _ rest sk']
      simp [accum, aaccum, htok]
    | cons q2 qs' =>
      obtain ⟨sk1, hsk1, hr⟩ := hread (p.before.reverse ++ l) sk 44
        (renderOpen ((q2 :: qs').map (·.1)) ++ 44 :: (body ++ 41 :: (sp ++ 59 :: rest))) (Or.inl rfl)
      obtain ⟨sk', hsk', hrec⟩ := ih (by simp) (fun x hx => hok x (by simp [hx]))
        (if sev.toInt ≤ Sev.usermsg.toInt then err.greater sev else err)
        (44 :: (p.after.reverse ++ (p.tok.reverse ++ (p.before.reverse ++ l)))) 44 sk1 rest
      refine ⟨sk', skflag_trans hsk1 hsk', ?_⟩
      simp only [List.map_cons, renderOpen] at hrec ⊢
      unfold readAttrs
      have e1 : p.before ++ (p.tok ++ (p.after ++ 44 :: renderOpen (q2.1 :: qs'.map (·.1)))) ++ 44 :: (body ++ 41 :: (sp ++ 59 :: rest)) =
          p.before ++ c0 :: (u0 ++ (p.after ++ 44 :: (renderOpen (q2.1 :: qs'.map (·.1)) ++ 44 :: (body ++ 41 :: (sp ++ 59 :: rest))))) := by
        rw [htok]; simp
      rw [e1, readTokenSeparator_seps p.before hbef l c0 _ sk hc0 h47 h92]
      have e2 : c0 :: (u0 ++ (p.after ++ 44 :: (renderOpen (q2.1 :: qs'.map (·.1)) ++ 44 :: (body ++ 41 :: (sp ++ 59 :: rest))))) =
          p.tok ++ (p.after ++ 44 :: (renderOpen (q2.1 :: qs'.map (·.1)) ++ 44 :: (body ++ 41 :: (sp ++ 59 :: rest)))) := by rw [htok]; simp
      rw [e2]
      simp only [List.map_cons] at hr
      simp only [hred, Bool.false_eq_true, if_false, hr, bind, Except.bind, pure, Except.pure]
      rw [shiftInto_good c _ 44 _ sk1 (by decide)]
      simp only [e3, e4, Bool.false_eq_true, if_false]
      rw [hrec]
      simp [htok, accum, aaccum]

theorem renderOpen_cons {F} (p : Param F) (qs : List (Param F)) :
    renderOpen (p :: qs) = p.before ++ renderOpen ({ p with before := [] } :: qs) := by
  cases qs <;> simp [renderOpen]

/-- the parameter list of a record with one parameter more than `ps0` has entries -/
theorem renderParams_snoc {F} (ps0 : List (Param F)) (hne : ps0 ≠ []) (ex : Param F) :
    renderParams (ps0 ++ [ex]) = renderOpen ps0 ++ 44 :: (ex.before ++ (ex.tok ++ (ex.after ++ [41]))) := by
  induction ps0 with
  | nil => exact absurd rfl hne
  | cons p t ih =>
    cases t with
    | nil => simp [renderParams, renderOpen]
    | cons q t' =>
      have := ih (by simp)
      simp only [List.cons_append] at this ⊢
      simp only [renderParams, renderOpen, this, List.append_assoc, List.cons_append]

/-- `SDAI_Application_instance::STEPread` on `( p₁ , … , pₙ , more )` for an entity with n attributes -/
theorem instSTEPread_params_extra {F} (env : Env F) (strict : Bool) (hk : env.cfg.recoveryKeepsSemicolon = true)
    (qs : List (Param F × Sev)) (hne : qs ≠ []) (hok : ∀ q ∈ qs, ParamRd env strict q.1 q.2)
    (body : List Byte) (hb : ∀ x ∈ body, x ≠ 41 ∧ (env.cfg.recoveryStopsAtSemicolon = true → x ≠ 39 ∧ x ≠ 59))
    (sp : List Byte) (hsp : sp.all isSpace = true) (l : List Byte) (sk : Bool) (rest : List Byte) :
    ∃ sk' l', (sk' = sk ∨ sk' = false) ∧
      instSTEPread env strict (qs.map (·.1.a))
        (G l (40 :: (renderOpen (qs.map (·.1)) ++ 44 :: (body ++ 41 :: (sp ++ 59 :: rest)))) sk) =
      .ok ⟨(accum .null (qs.map (·.2))).greater .inputError, qs.map (·.1.v), G l' (59 :: rest) sk', aaccum qs⟩ := by
  cases qs with
  | nil => exact absurd rfl hne
  | cons q qs =>
    obtain ⟨p, sev⟩ := q
    obtain ⟨hred, ⟨c0, u0, htok, hc0, h47, h92⟩, hbef, hread⟩ : ParamRd env strict p sev := hok (p, sev) (by simp)
    let p' : Param F := { p with before := [] }
    have hok' : ∀ x ∈ (p', sev) :: qs, ParamRd env strict x.1 x.2 := by
      intro x hx
      rcases List.mem_cons.mp hx with rfl | hx
      · exact ⟨hred, ⟨c0, u0, htok, hc0, h47, h92⟩, Seps.blanks [] (by simp), hread⟩
      · exact hok x (by simp [hx])
    obtain ⟨sk', hsk, hr⟩ := readAttrs_params_extra env strict hk ((p', sev) :: qs) (by simp) hok' body hb sp hsp
      .null (p.before.reverse ++ 40 :: l) 40 sk rest
    refine ⟨sk', sp.reverse ++ 41 :: (body.reverse ++ 44 :: ((renderOpen (p' :: qs.map (·.1))).reverse ++ (p.before.reverse ++ 40 :: l))), hsk, ?_⟩
    unfold instSTEPread
    rw [show (G l (40 :: (renderOpen (((p, sev) :: qs).map (·.1)) ++ 44 :: (body ++ 41 :: (sp ++ 59 :: rest)))) sk).ws = _
      from ws_good0 l 40 _ sk (by decide)]
    simp only [bind, Except.bind, pure, Except.pure]
    rw [shiftInto_good 0 l 40 _ sk (by decide)]
    simp only [bne_self_eq_false, Bool.false_eq_true, if_false, List.map_cons, List.isEmpty_cons]
    have hhead : ∃ c1 u1, renderOpen (p' :: qs.map (·.1)) ++ 44 :: (body ++ 41 :: (sp ++ 59 :: rest)) = c1 :: u1 ∧
        isSpace c1 = false ∧ c1 ≠ 47 ∧ c1 ≠ 92 := by
      cases hq : qs.map (·.1) with
      | nil => exact ⟨c0, u0 ++ (p.after ++ 44 :: (body ++ 41 :: (sp ++ 59 :: rest))), by simp [renderOpen, p', htok], hc0, h47, h92⟩
      | cons q qs' =>
        exact ⟨c0, u0 ++ (p.after ++ 44 :: (renderOpen (q :: qs') ++ 44 :: (body ++ 41 :: (sp ++ 59 :: rest)))),
          by simp [renderOpen, p', htok], hc0, h47, h92⟩
    obtain ⟨c1, u1, h1, hc1, h471, h921⟩ := hhead
    have e1 : renderOpen (p :: qs.map (·.1)) ++ 44 :: (body ++ 41 :: (sp ++ 59 :: rest)) = p.before ++ c1 :: u1 := by
      rw [renderOpen_cons, List.append_assoc, h1]
    rw [e1, readTokenSeparator_seps p.before hbef (40 :: l) c1 u1 sk hc1 h471 h921, ← h1]
    simp only [List.map_cons] at hr
    have hpa : p'.a = p.a := rfl
    have hpv : p'.v = p.v := rfl
    rw [hpa, hpv] at hr
    rw [hr]
    rfl

/-- **resynchronisation, `SkipInstance`** (`skipws` off, as in a data section): an instance that is skipped — duplicate id,
    unknown or abstract keyword, missing `=`, not found in pass 2 — is skipped up to and including its `;`, for any text
    without `;`, apostrophe, NUL and `/`; the next instance starts where the scan ends. -/
theorem C03_skip_instance_resynchronises (cfg : RWCfg) (body : List Byte)
    (hb : ∀ x ∈ body, x ≠ 59 ∧ x ≠ 39 ∧ x ≠ 0 ∧ x ≠ 47) (l rest : List Byte) :
    skipInstance cfg (G l (body ++ 59 :: rest) false) = .ok (G (59 :: (body.reverse ++ l)) rest false) := by
  unfold skipInstance
  exact scanTo_semicolon _ body hb _ 0 l rest (by simp only [List.length_append, List.length_cons]; omega)

/-! ### the confinement clause: a record that is not read cleanly, among records that are -/

/-- the source as it is now: `ReadInstance` re-synchronises a record that was not read cleanly from its start
    (regenerated on every run) -/
theorem C03_source_error_resyncs_from_start : Generated.rwCfg.errorResyncsFromStart = true := by decide

/-- **resynchronisation of a record that is not read cleanly** (repaired `ReadInstance`; `skipws` off after the read, as
    it is in a data section): whatever `SDAI_Application_instance::STEPread` makes of the parameter list — any severity
    WARNING or worse, any values, the stream left anywhere (inside a string literal, at the end of the file, failed) —
    `ReadInstance` ends right after the record's `;`, keeps what was read, marks the instance incomplete and hands the
    severity to `AppendEntityErrorMsg`.  The record's text is any list of tokens `SkipInstance` gets over (strings
    with `)` `;` `,` inside, comments, anything of the covered kinds) in any layout. -/
theorem C03_error_resync_confines {F} (ops : FloatOps F) (lex : LexCfg) (cfg : RWCfg) (d : Dict) (strict : Bool)
    (hrs : cfg.errorResyncsFromStart = true) (hskip : cfg.skipInstanceSkipsComments = true) (st : P2 F)
    (r : Rec F) (hlex : r.Lex) (hscan : ∀ q ∈ r.ps, ParamScan q) (l rest : List Byte) (sk : Bool) (hs : st.s = G l (r.text rest) sk)
    (inst : MInst F) (hfind : st.mgr.find? r.id = some inst) (hnew : inst.state = .new) (hcx : inst.complex = false)
    (p : MPart F) (hparts : inst.parts = [p]) (e : EntityD) (hent : d.entity? p.name = some e)
    (sev0 : Sev) (vals : List (MVal F))
    (hrd : ∀ L, ∃ sR asev0, instSTEPread { ops := ops, lex := lex, cfg := cfg, dict := d, lookup := Mgr.lookup d st.mgr } strict
        e.attrs (G L (40 :: (renderParams r.ps ++ r.t4 rest)) sk) = .ok ⟨sev0, vals, sR, asev0⟩ ∧ (readTokenSeparator sR).skipws = false)
    (hsev : sev0.toInt ≤ Sev.warning.toInt) :
    ∃ l', readInstance ops lex cfg d strict st =
      .ok { s := G l' rest false, inst := some { inst with parts := [{ p with vals := vals }], state := .incomplete },
            reported := some sev0, left := some .null } := by
  obtain ⟨l', h⟩ := readInstance_resync ops lex cfg d strict hrs hskip st r hlex hscan l rest sk hs inst hfind hnew hcx p hparts
    e hent sev0 vals hrd hsev
  refine ⟨l', ?_⟩
  rw [h]
  have : stateOf sev0 = .incomplete := by cases sev0 <;> first | rfl | (exfalso; revert hsev; decide)
  rw [this]

/-- a record every parameter of which is read, where it stands, with a known severity to a known value (`ParamRd`):
    the record's severity is the accumulated one, its values are all the parameters' values -/
def Marked {F} (env : Env F) (strict : Bool) (x : Step F) : Prop :=
  x.r.Lex ∧ Seps x.g ∧ (∀ q ∈ x.r.ps, ParamScan q) ∧
  ∃ (qs : List (Param F × Sev)) (e : EntityD), x.r.ps = qs.map (·.1) ∧ (∀ q ∈ qs, ParamRd env strict q.1 q.2) ∧
    env.dict.entity? x.r.name = some e ∧ e.attrs = x.r.ps.map (·.a) ∧ x.sev = accum .null (qs.map (·.2)) ∧
    x.out = { id := x.r.id, parts := [{ name := x.r.name, vals := x.r.ps.map (·.v) }], state := stateOf x.sev }

/-- a record `SDAI_Application_instance::STEPread` does not read cleanly in a way the model of the attribute readers
    need not know: its parameter list (any list of tokens `SkipInstance` gets over, in any layout) is read with severity
    `x.sev`, WARNING or worse, to some values, and the stream is left anywhere (with `skipws` off) -/
def Flawed {F} (env : Env F) (strict : Bool) (x : Step F) : Prop :=
  x.r.Lex ∧ Seps x.g ∧ (∀ q ∈ x.r.ps, ParamScan q) ∧ x.sev.toInt ≤ Sev.warning.toInt ∧
  ∃ e vals, env.dict.entity? x.r.name = some e ∧
    x.out = { id := x.r.id, parts := [{ name := x.r.name, vals := vals }], state := .incomplete } ∧
    ∀ L rest, ∃ sR asev, instSTEPread env strict e.attrs (G L (40 :: (renderParams x.r.ps ++ x.r.t4 rest)) false) =
      .ok ⟨x.sev, vals, sR, asev⟩ ∧ (readTokenSeparator sR).skipws = false

/-- **too many parameters, record level** (`Flawed` derived): a record `#id = NAME ( p₁ , … , pₙ , extra ) blanks ;` for an
    entity with n ≥ 1 attributes - every `pᵢ` read where it stands with a known severity (`ParamRd`: conforming values by
    `C01.covered_rd`, violating ones by the `C03_*_detected` theorems), `extra` any further parameter whose text holds no
    `)` (and, where the recovery scan ends at a `;`, no apostrophe and no `;`) - is read to INPUT_ERROR or worse, keeps the n
    values, and satisfies `Flawed`: by `C03_violation_confined_partial` the file fails (exit 1) and every other record is
    read to the outcome it has on its own. -/
theorem C03_too_many_parameters_flawed {F} (env : Env F) (strict : Bool) (hk : env.cfg.recoveryKeepsSemicolon = true)
    (x : Step F) (hlex : x.r.Lex) (hg : Seps x.g) (hscan : ∀ q ∈ x.r.ps, ParamScan q)
    (qs : List (Param F × Sev)) (hne : qs ≠ []) (hok : ∀ q ∈ qs, ParamRd env strict q.1 q.2) (ex : Param F)
    (hps : x.r.ps = qs.map (·.1) ++ [ex])
    (hex : ∀ b ∈ ex.before ++ (ex.tok ++ ex.after), b ≠ 41 ∧ (env.cfg.recoveryStopsAtSemicolon = true → b ≠ 39 ∧ b ≠ 59))
    (hs4 : x.r.s4.all isSpace = true)
    (e : EntityD) (hent : env.dict.entity? x.r.name = some e) (hattrs : e.attrs = qs.map (·.1.a))
    (hsev : x.sev = (accum .null (qs.map (·.2))).greater .inputError)
    (hout : x.out = { id := x.r.id, parts := [{ name := x.r.name, vals := qs.map (·.1.v) }], state := .incomplete }) :
    Flawed env strict x := by
  refine ⟨hlex, hg, hscan, ?_, e, qs.map (·.1.v), hent, hout, ?_⟩
  · rw [hsev]
    exact Int.le_trans (greater_le_right _ _) (by decide)
  · intro L rest
    obtain ⟨sk', l', hsk, h⟩ := instSTEPread_params_extra env strict hk qs hne hok (ex.before ++ (ex.tok ++ ex.after)) hex
      x.r.s4 hs4 L false rest
    have hsk' : sk' = false := by rcases hsk with h | h <;> exact h
    subst hsk'
    refine ⟨G l' (59 :: rest) false, aaccum qs, ?_, by rw [readTokenSeparator_skipws]⟩
    rw [hattrs, hsev, hps, renderParams_snoc (qs.map (·.1)) (by simpa using hne) ex]
    have e1 : renderOpen (qs.map (·.1)) ++ 44 :: (ex.before ++ (ex.tok ++ (ex.after ++ [41]))) ++ x.r.t4 rest =
        renderOpen (qs.map (·.1)) ++ 44 :: ((ex.before ++ (ex.tok ++ ex.after)) ++ 41 :: (x.r.s4 ++ 59 :: rest)) := by
      simp [Rec.t4]
    rw [e1]
    simpa [List.map_map, Function.comp_def] using h

/-- `SDAI_Application_instance::STEPread` on `( p₁ , … , pₖ )` for an entity with more than k attributes -/
theorem instSTEPread_params_short {F} (env : Env F) (strict : Bool) (hcfg : env.cfg.missingCheckEverySecond = false)
    (qs : List (Param F × Sev)) (hne : qs ≠ []) (hok : ∀ q ∈ qs, ParamRd env strict q.1 q.2)
    (more : List AttrD) (hmore : ∃ b ∈ more, b.redefining = false) (l : List Byte) (sk : Bool) (rest : List Byte) :
    ∃ sk', (sk' = sk ∨ sk' = false) ∧
      instSTEPread env strict (qs.map (·.1.a) ++ more) (G l (40 :: (renderParams (qs.map (·.1)) ++ rest)) sk) =
      .ok ⟨(accum .null (qs.map (·.2))).greater .warning, qs.map (·.1.v) ++ defaults more,
           G ((40 :: renderParams (qs.map (·.1))).reverse ++ l) rest sk', aaccum qs⟩ := by
  cases qs with
  | nil => exact absurd rfl hne
  | cons q qs =>
    obtain ⟨p, sev⟩ := q
    obtain ⟨hred, ⟨c0, u0, htok, hc0, h47, h92⟩, hbef, hread⟩ : ParamRd env strict p sev := hok (p, sev) (by simp)
    let p' : Param F := { p with before := [] }
    have hok' : ∀ x ∈ (p', sev) :: qs, ParamRd env strict x.1 x.2 := by
      intro x hx
      rcases List.mem_cons.mp hx with rfl | hx
      · exact ⟨hred, ⟨c0, u0, htok, hc0, h47, h92⟩, Seps.blanks [] (by simp), hread⟩
      · exact hok x (by simp [hx])
    obtain ⟨sk', hsk, hr⟩ := readAttrs_params_short env strict hcfg ((p', sev) :: qs) (by simp) hok' more hmore
      .null (p.before.reverse ++ 40 :: l) 40 sk rest
    refine ⟨sk', hsk, ?_⟩
    unfold instSTEPread
    rw [show (G l (40 :: (renderParams (((p, sev) :: qs).map (·.1)) ++ rest)) sk).ws = G l (40 :: (renderParams (((p, sev) :: qs).map (·.1)) ++ rest)) sk
      from ws_good0 l 40 _ sk (by decide)]
    simp only [bind, Except.bind, pure, Except.pure]
    rw [shiftInto_good 0 l 40 _ sk (by decide)]
    simp only [bne_self_eq_false, Bool.false_eq_true, if_false, List.map_cons, List.cons_append, List.isEmpty_cons]
    have hhead : ∃ c1 u1, renderParams (p' :: qs.map (·.1)) ++ rest = c1 :: u1 ∧ isSpace c1 = false ∧ c1 ≠ 47 ∧ c1 ≠ 92 := by
      cases hq : qs.map (·.1) with
      | nil => exact ⟨c0, u0 ++ (p.after ++ 41 :: rest), by simp [renderParams, p', htok], hc0, h47, h92⟩
      | cons q qs' =>
        exact ⟨c0, u0 ++ (p.after ++ 44 :: (renderParams (q :: qs') ++ rest)), by simp [renderParams, p', htok], hc0, h47, h92⟩
    obtain ⟨c1, u1, h1, hc1, h471, h921⟩ := hhead
    have e1 : renderParams (p :: qs.map (·.1)) ++ rest = p.before ++ c1 :: u1 := by
      rw [renderParams_cons, List.append_assoc, h1]
    rw [e1, readTokenSeparator_seps p.before hbef (40 :: l) c1 u1 sk hc1 h471 h921, ← h1]
    simp only [List.map_cons, List.cons_append] at hr
    have hpa : p'.a = p.a := rfl
    have hpv : p'.v = p.v := rfl
    rw [hpa, hpv] at hr
    rw [hr]
    simp [renderParams_cons p (qs.map (·.1))]
    exact ⟨rfl, rfl⟩

/-- **too few parameters, record level** (`Flawed` derived): a record `#id = NAME ( p₁ , … , pₖ ) ;` for an entity with
    more than k ≥ 1 attributes, one of the missing ones not a redefining one - every `pᵢ` read where it stands with a
    known severity (`ParamRd`) - is read to WARNING or worse, keeps the k values (the other attributes stay unset) and
    satisfies `Flawed`: by `C03_violation_confined_partial` the file fails (exit 1) and every other record is read to
    the outcome it has on its own (source whose look-ahead examines every remaining attribute). -/
theorem C03_too_few_parameters_flawed {F} (env : Env F) (strict : Bool) (hcfg : env.cfg.missingCheckEverySecond = false)
    (x : Step F) (hlex : x.r.Lex) (hg : Seps x.g) (hscan : ∀ q ∈ x.r.ps, ParamScan q)
    (qs : List (Param F × Sev)) (hok : ∀ q ∈ qs, ParamRd env strict q.1 q.2) (hps : x.r.ps = qs.map (·.1))
    (more : List AttrD) (hmore : ∃ b ∈ more, b.redefining = false)
    (e : EntityD) (hent : env.dict.entity? x.r.name = some e) (hattrs : e.attrs = qs.map (·.1.a) ++ more)
    (hsev : x.sev = (accum .null (qs.map (·.2))).greater .warning)
    (hout : x.out = { id := x.r.id, parts := [{ name := x.r.name, vals := qs.map (·.1.v) ++ defaults more }], state := .incomplete }) :
    Flawed env strict x := by
  have hne : qs ≠ [] := by
    intro h; rw [h] at hps; exact hlex.pne (by simpa using hps)
  refine ⟨hlex, hg, hscan, ?_, e, qs.map (·.1.v) ++ defaults more, hent, hout, ?_⟩
  · rw [hsev]
    exact greater_le_right _ _
  · intro L rest
    obtain ⟨sk', hsk, h⟩ := instSTEPread_params_short env strict hcfg qs hne hok more hmore L false (x.r.t4 rest)
    have hsk' : sk' = false := by rcases hsk with h | h <;> exact h
    subst hsk'
    refine ⟨G ((40 :: renderParams (qs.map (·.1))).reverse ++ L) (x.r.t4 rest) false, aaccum qs, ?_,
      by rw [readTokenSeparator_skipws]⟩
    rw [hattrs, hsev, hps]
    exact h

/-- parameters read without a message leave the record without one -/
theorem accum_null (sevs : List Sev) (h : ∀ s ∈ sevs, s = .null) : accum .null sevs = .null := by
  induction sevs with
  | nil => rfl
  | cons s t ih =>
    have hs : s = .null := h s (by simp)
    subst hs
    exact ih (fun x hx => h x (by simp [hx]))

/-- one parameter read with a severity worse than a user message makes the record's severity worse than one -/
theorem accum_bad (sevs : List Sev) (sv : Sev) (hm : sv ∈ sevs) (hb : sv.toInt < Sev.usermsg.toInt) :
    ∀ e : Sev, (accum e sevs).toInt < Sev.usermsg.toInt := by
  have mono : ∀ (t : List Sev) (e : Sev), (accum e t).toInt ≤ e.toInt := by
    intro t
    induction t with
    | nil => intro e; exact Int.le_refl _
    | cons s t ih =>
      intro e
      refine Int.le_trans (ih _) ?_
      show (if s.toInt ≤ Sev.usermsg.toInt then e.greater s else e).toInt ≤ e.toInt
      split
      · exact greater_le_left _ _
      · exact Int.le_refl _
  induction sevs with
  | nil => cases hm
  | cons s t ih =>
    intro e
    rcases List.mem_cons.mp hm with rfl | hm'
    · refine Int.lt_of_le_of_lt (mono t _) ?_
      have : sv.toInt ≤ Sev.usermsg.toInt := Int.le_of_lt hb
      show (if sv.toInt ≤ Sev.usermsg.toInt then e.greater sv else e).toInt < _
      rw [if_pos this]
      exact Int.lt_of_le_of_lt (greater_le_right _ _) hb
    · exact ih hm' _

theorem errAfter_le {F} (xs : List (Step F)) : ∀ e : Sev, (errAfter e xs).toInt ≤ e.toInt := by
  induction xs with
  | nil => intro e; exact Int.le_refl _
  | cons x xs ih =>
    intro e
    exact Int.le_trans (ih (appendEntityError e x.sev)) (appendEntityError_le e x.sev)

theorem errAfter_bad {F} (xs : List (Step F)) (x : Step F) (hx : x ∈ xs) (hb : x.sev.toInt < Sev.usermsg.toInt) :
    ∀ e : Sev, (errAfter e xs).toInt < Sev.usermsg.toInt := by
  induction xs with
  | nil => cases hx
  | cons y ys ih =>
    intro e
    rcases List.mem_cons.mp hx with rfl | hx'
    · exact Int.lt_of_le_of_lt (errAfter_le ys _) (appendEntityError_bad e x.sev hb)
    · exact ih hx' _

/-- **the violation is confined** (`_partial`: records in internal mapping whose keyword names a non-abstract entity of
    the dictionary, pairwise different ids, `ENDSEC;` and the end keyword in place, `skipws` off as it is in a data
    section; each record is `Marked` — every parameter is read where it stands with a known severity, see the
    `C03_*_detected` theorems for the violation classes and `C01.covered_rd` for the conforming kinds — or `Flawed` —
    its tokenisation is intact and `STEPread` comes back with WARNING or worse, the stream anywhere; violations that end
    in a skipped record (unknown keyword, duplicate id, missing `=`) and externally mapped records are not covered
    here).  For every dictionary, every configuration with the comment repairs and the resynchronisation of
    `ReadInstance`, either strictness, any number of records in any order and any layout: **every record is read to
    exactly the outcome it has on its own** — a record whose parameters are all read without a message is complete with
    the values of its tokens whatever stands before or after it, and inside a record with a violating parameter every
    other parameter keeps the value of its token —, the severities reported are exactly those of the records, in
    file order, and one record with a severity worse than a user message makes p21read exit with 1. -/
theorem C03_violation_confined_partial {F} (ops : FloatOps F) (lex : LexCfg) (cfg : RWCfg) (d : Dict) (strict : Bool)
    (hskip : cfg.skipInstanceSkipsComments = true) (hrs : cfg.errorResyncsFromStart = true)
    (xs : List (Step F)) (g0 sp gE after : List Byte) (hg0 : Seps g0) (hsp : sp.all isSpace = true) (hgE : Seps gE)
    (hnd : (xs.map (·.r.id)).Nodup)
    (h1 : ∀ x ∈ xs, Rec1OK d x.rg)
    (h2 : ∀ x ∈ xs,
      Marked { ops := ops, lex := lex, cfg := cfg, dict := d,
               lookup := Mgr.lookup d ({ insts := xs.map (fun x => mkInst d x.rg) } : Mgr F) } strict x ∨
      Flawed { ops := ops, lex := lex, cfg := cfg, dict := d,
               lookup := Mgr.lookup d ({ insts := xs.map (fun x => mkInst d x.rg) } : Mgr F) } strict x) :
    ∃ res, readDataSection ops lex cfg d strict false
        (g0 ++ renderRecs (xs.map Step.rg) (endsec sp (gE ++ (endIso ++ 59 :: after)))) = .ok res ∧
      res.mgr.insts = xs.map (·.out) ∧ res.reported = (xs.map (·.sev)).reverse ∧ res.created = xs.length ∧
      res.valid = xs.length ∧ res.sev = errAfter .null xs ∧
      ((∃ x ∈ xs, x.sev.toInt < Sev.usermsg.toInt) → exitStatus res.sev = 1) := by
  obtain ⟨res, hr, hm, hsev, hc, _, hv, _, hrep⟩ :=
    readDataSection_steps ops lex cfg hskip d strict sp _ hsp (tailOK_endIso gE hgE after) xs g0 hg0 h1 hnd
      (by
        intro x hx
        rcases h2 x hx with ⟨hlex, hg, hscan, qs, e, hqs, hpar, hent, hattrs, hsv, hout⟩ | ⟨hlex, hg, hscan, hle, e, vals, hent, hout, hrd⟩
        · refine ⟨hg, by rw [hout], by rw [hout]; rfl, ?_⟩
          intro st l rest hfind hlk hs
          obtain ⟨l', h⟩ := readInstance_params ops lex cfg d strict hskip st x.r hlex qs hqs
            (by intro q hq; rw [hlk]; exact hpar q hq) hscan l rest hs (mkInst d x.rg) hfind rfl rfl
            { name := x.r.name, vals := match d.entity? x.r.name with | some e => defaults e.attrs | none => [] } rfl e hent hattrs
          refine ⟨l', ?_⟩
          rw [h, hout, hsv]
          rfl
        · refine ⟨hg, by rw [hout], by rw [hout]; rfl, ?_⟩
          intro st l rest hfind hlk hs
          obtain ⟨l', h⟩ := C03_error_resync_confines ops lex cfg d strict hrs hskip st x.r hlex hscan l rest false hs
            (mkInst d x.rg) hfind rfl rfl
            { name := x.r.name, vals := match d.entity? x.r.name with | some e => defaults e.attrs | none => [] } rfl e hent
            x.sev vals (by intro L; rw [hlk]; exact hrd L rest) hle
          refine ⟨l', ?_⟩
          rw [h, hout]
          rfl)
  refine ⟨res, hr, hm, hrep, hc, hv, hsev, ?_⟩
  rintro ⟨x, hx, hb⟩
  rw [C03_exit_iff_worse_than_usermsg, hsev]
  exact errAfter_bad xs x hx hb .null

/-! ### confinement in data sections that mix internally and externally mapped records -/

theorem errAfterI_le {F} (xs : List (Item F)) : ∀ e : Sev, (errAfterI e xs).toInt ≤ e.toInt := by
  induction xs with
  | nil => intro e; exact Int.le_refl _
  | cons x xs ih =>
    intro e
    exact Int.le_trans (ih (appendEntityError e x.sev)) (appendEntityError_le e x.sev)

theorem errAfterI_bad {F} (xs : List (Item F)) (x : Item F) (hx : x ∈ xs) (hb : x.sev.toInt < Sev.usermsg.toInt) :
    ∀ e : Sev, (errAfterI e xs).toInt < Sev.usermsg.toInt := by
  induction xs with
  | nil => cases hx
  | cons y ys ih =>
    intro e
    rcases List.mem_cons.mp hx with rfl | hx'
    · exact Int.lt_of_le_of_lt (errAfterI_le ys _) (appendEntityError_bad e x.sev hb)
    · exact ih hx' _

/-- a record of a data section with the layout behind it and what pass 2 makes of it: an internally mapped record with
    its outcome (`Step`), or an externally mapped record `#id = ( PART(…) PART(…) … );` -/
inductive AnyStep (F : Type) where
  | simple (x : Step F)
  | complex (r : CRec F) (g : List Byte)

/-- the record as the loops of the two passes see it -/
def AnyStep.item {F} (d : Dict) : AnyStep F → Item F
  | .simple x => { body := x.r.text [], g := x.g, id := x.r.id, mkI := mkInst d x.rg, out := x.out, sev := x.sev }
  | .complex r g => { body := r.text [], g := g, id := r.id, mkI := mkCInst d r, out := finCInstOf d r, sev := .null }

/-- internally mapped records are `Marked` or `Flawed` as in `C03_violation_confined_partial`; externally mapped records
    conform: known parts in a legal combination, every part's parameter list read without a message (`CPartOKF`; for the
    kinds of `Covered` this is C01's `cpartCovered_okF`) -/
def AnyStepOK {F} (env : Env F) (strict : Bool) : AnyStep F → Prop
  | .simple x => Rec1OK env.dict x.rg ∧ (Marked env strict x ∨ Flawed env strict x)
  | .complex r g => r.Lex ∧ Seps g ∧
      env.dict.complexSets.contains (sortNames ((r.parts.map (·.name)).filter (fun n => (env.dict.entity? n).isSome))) = true ∧
      (∀ c ∈ r.parts, (env.dict.entity? c.name).isSome = true) ∧
      ∀ c ∈ r.parts, CPartOKF env (env.cfg.complexPartStrict.getD strict) c

/-- pass 1 on a record of `AnyStepOK` -/
theorem anyStep_item1 {F} (ops : FloatOps F) (lex : LexCfg) (cfg : RWCfg) (d : Dict) (strict : Bool)
    (hskip : cfg.skipInstanceSkipsComments = true) (lk : Lookup) (y : AnyStep F)
    (h : AnyStepOK { ops := ops, lex := lex, cfg := cfg, dict := d, lookup := lk } strict y) : Item1OK cfg d (y.item d) := by
  cases y with
  | simple x =>
    obtain ⟨⟨hl, hg, hscan, e, he, habs⟩, _⟩ := h
    have he' : d.entity? x.r.name = some e := he
    refine ⟨hg, rfl, ?_⟩
    intro m hnone l c k hc h47 h92
    obtain ⟨l', h⟩ := createInstance_rec cfg hskip d m x.r hl hscan hnone e he' habs l x.g hg c k hc h47 h92
    refine ⟨l', ?_⟩
    show createInstance cfg d m (G l (x.r.text [] ++ (x.g ++ c :: k)) false) = _
    rw [text_nil_append, h]
    simp [AnyStep.item, mkInst, Step.rg, he']
  | complex r g =>
    obtain ⟨hl, hg, hlegal, _, _⟩ := h
    refine ⟨hg, rfl, ?_⟩
    intro m hnone l c k hc h47 h92
    obtain ⟨l', h⟩ := createInstance_crec cfg hskip d m r hl hnone hlegal l g hg c k hc h47 h92
    refine ⟨l', ?_⟩
    show createInstance cfg d m (G l (r.text [] ++ (g ++ c :: k)) false) = _
    rw [ctext_nil_append]
    exact h

/-- pass 2 on a record of `AnyStepOK`, `skipws` off before and after -/
theorem anyStep_item2 {F} (ops : FloatOps F) (lex : LexCfg) (cfg : RWCfg) (d : Dict) (strict : Bool)
    (hskip : cfg.skipInstanceSkipsComments = true) (hrs : cfg.errorResyncsFromStart = true)
    (hrep : cfg.complexReportsError = true) (lk : Lookup) (y : AnyStep F)
    (h : AnyStepOK { ops := ops, lex := lex, cfg := cfg, dict := d, lookup := lk } strict y) :
    Item2OKF ops lex cfg d strict lk (y.item d) := by
  cases y with
  | simple x =>
    obtain ⟨_, h2⟩ := h
    rcases h2 with ⟨hlex, hg, hscan, qs, e, hqs, hpar, hent, hattrs, hsv, hout⟩ | ⟨hlex, hg, hscan, hle, e, vals, hent, hout, hrd⟩
    · refine ⟨hg, rfl, by show x.out.id = x.r.id; rw [hout], by show keyOf x.out = keyOf (mkInst d x.rg); rw [hout]; rfl, ?_⟩
      intro st l rest hfind hlk hs
      have hs' : st.s = G l (x.r.text rest) false := by rw [← text_nil_append]; exact hs
      obtain ⟨l', h⟩ := readInstance_params ops lex cfg d strict hskip st x.r hlex qs hqs
        (by intro q hq; rw [hlk]; exact hpar q hq) hscan l rest hs' (mkInst d x.rg) hfind rfl rfl
        { name := x.r.name, vals := match d.entity? x.r.name with | some e => defaults e.attrs | none => [] } rfl e hent hattrs
      refine ⟨l', ?_⟩
      show readInstance ops lex cfg d strict st = .ok { s := G l' rest false, inst := some x.out, reported := some x.sev, left := some .null }
      rw [h, hout, hsv]
      rfl
    · refine ⟨hg, rfl, by show x.out.id = x.r.id; rw [hout], by show keyOf x.out = keyOf (mkInst d x.rg); rw [hout]; rfl, ?_⟩
      intro st l rest hfind hlk hs
      have hs' : st.s = G l (x.r.text rest) false := by rw [← text_nil_append]; exact hs
      obtain ⟨l', h⟩ := C03_error_resync_confines ops lex cfg d strict hrs hskip st x.r hlex hscan l rest false hs'
        (mkInst d x.rg) hfind rfl rfl
        { name := x.r.name, vals := match d.entity? x.r.name with | some e => defaults e.attrs | none => [] } rfl e hent
        x.sev vals (by intro L; rw [hlk]; exact hrd L rest) hle
      refine ⟨l', ?_⟩
      show readInstance ops lex cfg d strict st = .ok { s := G l' rest false, inst := some x.out, reported := some x.sev, left := some .null }
      rw [h, hout]
      rfl
  | complex r g =>
    obtain ⟨hl, hg, hlegal, hknown, hparts⟩ := h
    refine ⟨hg, rfl, rfl, ?_, ?_⟩
    · show keyOf (finCInstOf d r) = keyOf (mkCInst d r)
      simp only [keyOf, finCInstOf, setParts_names]
    · intro st l rest hfind hlk hs
      have hs' : st.s = G l (r.text rest) false := by rw [← ctext_nil_append]; exact hs
      obtain ⟨l', sk', hsk, h⟩ := readInstance_crec_flag ops lex cfg d strict st hrep r hl l rest false hs' (mkCInst d r) hfind rfl rfl
        (fun c hc => by rw [hlk]; exact hparts c hc) (mkCInst_names d r hknown)
      have : sk' = false := by rcases hsk with h | h <;> exact h
      subst this
      exact ⟨l', h⟩

/-- **the violation is confined, externally mapped records included** (`_partial`): `C03_violation_confined_partial` for a
    data section in which conforming externally mapped records stand between the internally mapped ones, in any order and
    number.  A violating (`Marked` with a severity, or `Flawed`) internally mapped record leaves every externally mapped
    record before and after it complete with the values of its parts' tokens, and the other way round every internally
    mapped record keeps exactly the outcome it has on its own; the severities reported are those of the records in file
    order (NULL for the externally mapped ones), and one record worse than a user message makes p21read exit with 1.
    Proved over the abstract-record loops (ReaderLemmas18/19: `readDataSection_itemsF`) with `skipws` shown to stay off
    through an externally mapped record (`readInstance_crec_flag`).  Not covered: a violation *inside* an externally
    mapped record at file level (record level: `C03_part_attribute_error_reaches_complex_instance`). -/
theorem C03_violation_confined_mixed_partial {F} (ops : FloatOps F) (lex : LexCfg) (cfg : RWCfg) (d : Dict) (strict : Bool)
    (hskip : cfg.skipInstanceSkipsComments = true) (hrs : cfg.errorResyncsFromStart = true)
    (hrep : cfg.complexReportsError = true)
    (ys : List (AnyStep F)) (g0 sp gE after : List Byte) (hg0 : Seps g0) (hsp : sp.all isSpace = true) (hgE : Seps gE)
    (hnd : (ys.map (fun y => (y.item d).id)).Nodup)
    (hok : ∀ y ∈ ys, AnyStepOK { ops := ops, lex := lex, cfg := cfg, dict := d,
                                 lookup := Mgr.lookup d ({ insts := ys.map (fun y => (y.item d).mkI) } : Mgr F) } strict y) :
    ∃ res, readDataSection ops lex cfg d strict false
        (g0 ++ renderItems (ys.map (AnyStep.item d)) (endsec sp (gE ++ (endIso ++ 59 :: after)))) = .ok res ∧
      res.mgr.insts = ys.map (fun y => (y.item d).out) ∧ res.reported = (ys.map (fun y => (y.item d).sev)).reverse ∧
      res.created = ys.length ∧ res.valid = ys.length ∧
      ((∃ y ∈ ys, (y.item d).sev.toInt < Sev.usermsg.toInt) → exitStatus res.sev = 1) := by
  let xs : List (Item F) := ys.map (AnyStep.item d)
  have hmk : xs.map (·.mkI) = ys.map (fun y => (y.item d).mkI) := by simp [xs, List.map_map, Function.comp_def]
  obtain ⟨res, hr, hm, hsev, hc, _, hv, _, hrp⟩ :=
    readDataSection_itemsF ops lex cfg hskip d strict sp _ hsp (tailOK_endIso gE hgE after) xs g0 hg0
      (by
        intro x hx
        obtain ⟨y, hym, rfl⟩ := List.mem_map.mp hx
        exact anyStep_item1 ops lex cfg d strict hskip _ y (hok y hym))
      (by simpa [xs, List.map_map, Function.comp_def] using hnd)
      (by
        intro x hx
        obtain ⟨y, hym, rfl⟩ := List.mem_map.mp hx
        rw [hmk]
        exact anyStep_item2 ops lex cfg d strict hskip hrs hrep _ y (hok y hym))
  refine ⟨res, hr, ?_, ?_, ?_, ?_, ?_⟩
  · rw [hm]; simp [xs, List.map_map, Function.comp_def]
  · rw [hrp]; simp [xs, List.map_map, Function.comp_def]
  · rw [hc]; simp [xs]
  · rw [hv]; simp [xs]
  · rintro ⟨y, hy, hb⟩
    rw [C03_exit_iff_worse_than_usermsg, hsev]
    exact errAfterI_bad xs (y.item d) (List.mem_map_of_mem hy) hb .null

/-- **confinement with skipped records** (`_partial`, extends `C03_violation_confined_partial` by the violations that end in
    a record neither pass reads: a keyword that names no entity of the dictionary, or an abstract one; duplicate ids and
    a missing `=` are not covered).  Records flagged `true` are `Marked` or `Flawed` as before; records flagged `false`
    are skipped: pass 1 creates nothing for them (`_entsNotCreated`), pass 2 finds no node and skips them
    (`_entsInvalid`).  Whatever their number and position, every other record is read to exactly the outcome it has on
    its own, the manager holds exactly the instances of the records that were created, and one skipped record makes
    p21read exit with 1. -/
theorem C03_skipped_record_confined_partial {F} (ops : FloatOps F) (lex : LexCfg) (cfg : RWCfg) (d : Dict) (strict : Bool)
    (hskip : cfg.skipInstanceSkipsComments = true) (hrs : cfg.errorResyncsFromStart = true)
    (xs : List (Step F × Bool)) (g0 sp gE after : List Byte) (hg0 : Seps g0) (hsp : sp.all isSpace = true) (hgE : Seps gE)
    (hnd : (xs.map (·.1.r.id)).Nodup)
    (h1 : ∀ x ∈ xs, if x.2 then Rec1OK d x.1.rg else RecSkip d x.1)
    (h2 : ∀ x ∈ xs, x.2 = true →
      Marked { ops := ops, lex := lex, cfg := cfg, dict := d,
               lookup := Mgr.lookup d ({ insts := (kept xs).map (fun x => mkInst d x.rg) } : Mgr F) } strict x.1 ∨
      Flawed { ops := ops, lex := lex, cfg := cfg, dict := d,
               lookup := Mgr.lookup d ({ insts := (kept xs).map (fun x => mkInst d x.rg) } : Mgr F) } strict x.1) :
    ∃ res, readDataSection ops lex cfg d strict false
        (g0 ++ renderRecs (recsOfX xs) (endsec sp (gE ++ (endIso ++ 59 :: after)))) = .ok res ∧
      res.mgr.insts = (kept xs).map (·.out) ∧ res.reported = ((kept xs).map (·.sev)).reverse ∧
      res.created = (kept xs).length ∧ res.notCreated = nskip xs ∧ res.valid = (kept xs).length ∧ res.invalid = nskip xs ∧
      (0 < nskip xs → exitStatus res.sev = 1) ∧
      ((∃ x ∈ kept xs, x.sev.toInt < Sev.usermsg.toInt) → exitStatus res.sev = 1) := by
  obtain ⟨res, hr, hm, hsev, hc, hnc, hv, hinv, hrep⟩ :=
    readDataSection_mixed ops lex cfg hskip d strict sp _ hsp (tailOK_endIso gE hgE after) xs g0 hg0 hnd h1
      (by
        intro xb hxb
        obtain ⟨x, b⟩ := xb
        cases b with
        | false => simpa using h1 (x, false) hxb
        | true =>
          simp only [if_true]
          rcases h2 (x, true) hxb rfl with ⟨hlex, hg, hscan, qs, e, hqs, hpar, hent, hattrs, hsv, hout⟩ | ⟨hlex, hg, hscan, hle, e, vals, hent, hout, hrd⟩
          · refine ⟨hg, by rw [hout], by rw [hout]; rfl, ?_⟩
            intro st l rest hfind hlk hs
            obtain ⟨l', h⟩ := readInstance_params ops lex cfg d strict hskip st x.r hlex qs hqs
              (by intro q hq; rw [hlk]; exact hpar q hq) hscan l rest hs (mkInst d x.rg) hfind rfl rfl
              { name := x.r.name, vals := match d.entity? x.r.name with | some e => defaults e.attrs | none => [] } rfl e hent hattrs
            refine ⟨l', ?_⟩
            rw [h, hout, hsv]
            rfl
          · refine ⟨hg, by rw [hout], by rw [hout]; rfl, ?_⟩
            intro st l rest hfind hlk hs
            obtain ⟨l', h⟩ := C03_error_resync_confines ops lex cfg d strict hrs hskip st x.r hlex hscan l rest false hs
              (mkInst d x.rg) hfind rfl rfl
              { name := x.r.name, vals := match d.entity? x.r.name with | some e => defaults e.attrs | none => [] } rfl e hent
              x.sev vals (by intro L; rw [hlk]; exact hrd L rest) hle
            refine ⟨l', ?_⟩
            rw [h, hout]
            rfl)
  refine ⟨res, hr, hm, hrep, hc, hnc, hv, hinv, ?_, ?_⟩
  · intro hpos
    rw [C03_exit_iff_worse_than_usermsg, hsev, if_pos hpos]
    exact Int.lt_of_le_of_lt (greater_le_right _ _) (by decide)
  · rintro ⟨x, hx, hb⟩
    rw [C03_exit_iff_worse_than_usermsg, hsev]
    have hbad := errAfter_bad (kept xs) x hx hb
    split
    · exact Int.lt_of_le_of_lt (greater_le_left _ _) (hbad _)
    · exact hbad _

/-- **duplicate ids at file level** (`_partial`): `C03_skipped_record_confined_partial` with the id discipline `WfD` in place of
    "pairwise different ids": a record flagged `false` either has an id no created record has and an unknown or abstract
    keyword - or **repeats the id of a record created earlier in the file, whatever its keyword and parameters are** (any
    tokens `SkipInstance` gets over).  Pass 1 counts every such record not created, pass 2 skips it (the first record with
    that id has been read by then) and counts it invalid; every other record is read to the outcome it has on its own, the
    manager holds exactly the created instances - the first record with an id wins -, and one skipped record gives exit 1. -/
theorem C03_duplicate_id_confined_partial {F} (ops : FloatOps F) (lex : LexCfg) (cfg : RWCfg) (d : Dict) (strict : Bool)
    (hskip : cfg.skipInstanceSkipsComments = true) (hrs : cfg.errorResyncsFromStart = true)
    (xs : List (Step F × Bool)) (g0 sp gE after : List Byte) (hg0 : Seps g0) (hsp : sp.all isSpace = true) (hgE : Seps gE)
    (hwf : WfD d [] xs)
    (h1 : ∀ x ∈ xs, if x.2 then Rec1OK d x.1.rg else SkipBase x.1)
    (h2 : ∀ x ∈ xs, x.2 = true →
      Marked { ops := ops, lex := lex, cfg := cfg, dict := d,
               lookup := Mgr.lookup d ({ insts := (kept xs).map (fun x => mkInst d x.rg) } : Mgr F) } strict x.1 ∨
      Flawed { ops := ops, lex := lex, cfg := cfg, dict := d,
               lookup := Mgr.lookup d ({ insts := (kept xs).map (fun x => mkInst d x.rg) } : Mgr F) } strict x.1) :
    ∃ res, readDataSection ops lex cfg d strict false
        (g0 ++ renderRecs (recsOfX xs) (endsec sp (gE ++ (endIso ++ 59 :: after)))) = .ok res ∧
      res.mgr.insts = (kept xs).map (·.out) ∧ res.reported = ((kept xs).map (·.sev)).reverse ∧
      res.created = (kept xs).length ∧ res.notCreated = nskip xs ∧ res.valid = (kept xs).length ∧ res.invalid = nskip xs ∧
      (0 < nskip xs → exitStatus res.sev = 1) ∧
      ((∃ x ∈ kept xs, x.sev.toInt < Sev.usermsg.toInt) → exitStatus res.sev = 1) := by
  obtain ⟨res, hr, hm, hsev, hc, hnc, hv, hinv, hrep⟩ :=
    readDataSection_dups ops lex cfg hskip d strict sp _ hsp (tailOK_endIso gE hgE after) xs g0 hg0 hwf h1
      (by
        intro xb hxb
        obtain ⟨x, b⟩ := xb
        cases b with
        | false => simpa [Step2D] using h1 (x, false) hxb
        | true =>
          simp only [Step2D, if_true]
          rcases h2 (x, true) hxb rfl with ⟨hlex, hg, hscan, qs, e, hqs, hpar, hent, hattrs, hsv, hout⟩ | ⟨hlex, hg, hscan, hle, e, vals, hent, hout, hrd⟩
          · refine ⟨⟨hg, by rw [hout], by rw [hout]; rfl, ?_⟩, by rw [hout]; cases x.sev <;> simp [stateOf]⟩
            intro st l rest hfind hlk hs
            obtain ⟨l', h⟩ := readInstance_params ops lex cfg d strict hskip st x.r hlex qs hqs
              (by intro q hq; rw [hlk]; exact hpar q hq) hscan l rest hs (mkInst d x.rg) hfind rfl rfl
              { name := x.r.name, vals := match d.entity? x.r.name with | some e => defaults e.attrs | none => [] } rfl e hent hattrs
            refine ⟨l', ?_⟩
            rw [h, hout, hsv]
            rfl
          · refine ⟨⟨hg, by rw [hout], by rw [hout]; rfl, ?_⟩, by rw [hout]; simp⟩
            intro st l rest hfind hlk hs
            obtain ⟨l', h⟩ := C03_error_resync_confines ops lex cfg d strict hrs hskip st x.r hlex hscan l rest false hs
              (mkInst d x.rg) hfind rfl rfl
              { name := x.r.name, vals := match d.entity? x.r.name with | some e => defaults e.attrs | none => [] } rfl e hent
              x.sev vals (by intro L; rw [hlk]; exact hrd L rest) hle
            refine ⟨l', ?_⟩
            rw [h, hout]
            rfl)
  refine ⟨res, hr, hm, hrep, hc, hnc, hv, hinv, ?_, ?_⟩
  · intro hpos
    rw [C03_exit_iff_worse_than_usermsg, hsev, if_pos hpos]
    exact Int.lt_of_le_of_lt (greater_le_right _ _) (by decide)
  · rintro ⟨x, hx, hb⟩
    rw [C03_exit_iff_worse_than_usermsg, hsev]
    have hbad := errAfter_bad (kept xs) x hx hb
    split
    · exact Int.lt_of_le_of_lt (greater_le_left _ _) (hbad _)
    · exact hbad _

/-! ### which reader flags which violation: the classes for which the model makes it tractable.  Each statement is a
    `ParamRd`: the parameter is read *wherever it stands in a file*, in any layout, with the stated severity, the
    stream rests at the delimiter (so the parameters after it are read as if nothing had happened), and by
    `C03_violation_confined_partial` / `accum_bad` the record, the file and p21read's exit status are flagged. -/

/-- **missing required value**: `$` for an attribute that is neither OPTIONAL nor derived, strict mode: INCOMPLETE -/
theorem C03_missing_required_value_detected {F} (env : Env F) (hcfg : env.lex.criSkipsComments = true) (a : AttrD)
    (hopt : a.optional = false) (hder : a.derived = false) (hred : a.redefining = false)
    (before after : List Byte) (hb : Seps before) (ha : Seps after) :
    ParamRd env true { a := a, v := nullOf a, tok := [36], before := before, after := after } .incomplete :=
  ⟨hred, ⟨36, [], rfl, by decide, by decide, by decide⟩, hb, fun l sk d rest hd =>
    ⟨sk, Or.inl rfl, by simpa using attr_dollar_required env a hopt hder hcfg l sk after ha d rest hd⟩⟩

/-- **missing required aggregate**: `$` for a required aggregate attribute, either mode: INCOMPLETE -/
theorem C03_missing_required_aggregate_detected {F} (env : Env F) (strict : Bool) (hcfg : env.lex.criSkipsComments = true)
    (a : AttrD) (ety : ElemTy) (hty : a.ty = .aggr ety)
    (hopt : a.optional = false) (hder : a.derived = false) (hred : a.redefining = false)
    (before after : List Byte) (hb : Seps before) (ha : Seps after) :
    ParamRd env strict { a := a, v := nullOf a, tok := [36], before := before, after := after } .incomplete :=
  ⟨hred, ⟨36, [], rfl, by decide, by decide, by decide⟩, hb, fun l sk d rest hd =>
    ⟨sk, Or.inl rfl, by simpa using attr_dollar_required_aggr env strict a ety hty hopt hder hcfg l sk after ha d rest hd⟩⟩

/-- **a value where the attribute is derived** (anything but `*`; any text without `,` `)` — and without NUL where that
    counts as a delimiter — that starts with neither a blank nor `/` nor a backslash): WARNING -/
theorem C03_value_for_derived_detected {F} (env : Env F) (strict : Bool) (a : AttrD) (hder : a.derived = true)
    (hred : a.redefining = false) (j0 : Byte) (js : List Byte) (hj0s : isSpace j0 = false) (hj047 : j0 ≠ 47) (hj092 : j0 ≠ 92) (hj042 : j0 ≠ 42)
    (hj : ∀ b ∈ j0 :: js, delimAt env.lex attrDelims b = false)
    (hsemi : env.lex.criStopsAtSemicolon = true → ∀ b ∈ j0 :: js, b ≠ 59) (before : List Byte) (hb : Seps before) :
    ParamRd env strict { a := a, v := .derived, tok := j0 :: js, before := before, after := [] } .warning :=
  ⟨hred, ⟨j0, js, rfl, hj0s, hj047, hj092⟩, hb, fun l sk d rest hd =>
    ⟨sk, Or.inl rfl, by simpa using attr_derived_value env strict a hder j0 js hj0s hj047 hj042 hj hsemi l sk d rest hd⟩⟩

/-- **wrong literal kind for an INTEGER attribute**: a text that starts like no integer — a string, an enumeration
    item, a binary, a keyword, a reference — and contains no `,` `)` (for those that do, see `Flawed` and the
    resynchronisation): `ReadInteger` assigns nothing, WARNING, the attribute stays unset -/
theorem C03_wrong_kind_for_integer_detected {F} (env : Env F) (strict : Bool) (a : AttrD) (hty : a.ty = .one .integer)
    (hder : a.derived = false) (hred : a.redefining = false)
    (j0 : Byte) (js : List Byte) (hj0s : isSpace j0 = false) (hj047 : j0 ≠ 47) (hj092 : j0 ≠ 92) (hj036 : j0 ≠ 36)
    (hj0d : isDigit j0 = false) (hj043 : j0 ≠ 43) (hj045 : j0 ≠ 45)
    (hj : ∀ b ∈ j0 :: js, delimAt env.lex attrDelims b = false)
    (hsemi : env.lex.criStopsAtSemicolon = true → ∀ b ∈ j0 :: js, b ≠ 59) (before : List Byte) (hb : Seps before) :
    ParamRd env strict { a := a, v := .one (.atom .unset), tok := j0 :: js, before := before, after := [] } .warning :=
  ⟨hred, ⟨j0, js, rfl, hj0s, hj047, hj092⟩, hb, fun l sk d rest hd =>
    ⟨sk, Or.inl rfl, by simpa using attr_integer_junk env strict a hty hder j0 js hj0s hj047 hj036 hj0d hj043 hj045 hj hsemi l sk d rest hd⟩⟩

/-- **dangling or wrong-type reference**: `#id` where the file has no instance `id`, or one whose type does not conform
    to the attribute's entity type: WARNING, the attribute stays unset -/
theorem C03_bad_reference_detected {F} (env : Env F) (strict : Bool) (hcfg : env.lex.criSkipsComments = true) (a : AttrD)
    (tg : String) (hty : a.ty = .one (.entity tg)) (hder : a.derived = false) (hred : a.redefining = false)
    (ds : List Byte) (hne : ds ≠ []) (hds : ds.all isDigit = true) (hhi : ((digitsVal ds 0 : Nat) : Int) ≤ IStream.intMax)
    (hbad : refLookup env.lookup tg ((digitsVal ds 0 : Nat) : Int) ≠ .found)
    (before after : List Byte) (hb : Seps before) (ha : Seps after) :
    ParamRd env strict { a := a, v := .one (.atom .unset), tok := 35 :: ds, before := before, after := after } .warning :=
  ⟨hred, ⟨35, ds, rfl, by decide, by decide, by decide⟩, hb, fun l sk d rest hd =>
    ⟨sk, Or.inl rfl, by simpa using attr_ref_bad env strict a tg hty hder hcfg ds hne hds hhi hbad l sk after ha d rest hd⟩⟩

/-- **undeclared enumeration item**: `.WORD.` for an ENUMERATION / BOOLEAN / LOGICAL attribute where `WORD` (either letter
    case) is no item of the type: nothing is assigned, WARNING -/
theorem C03_undeclared_enum_item_detected {F} (env : Env F) (strict : Bool) (hcfg : env.lex.criSkipsComments = true) (a : AttrD)
    (ty : ElemTy) (hty : a.ty = .one ty) (het : EnumTy ty) (hder : a.derived = false) (hred : a.redefining = false)
    (name : List Byte) (hne : name ≠ []) (hname : name.all pw = true)
    (hfind : findName (enumKindOf ty).table (name.map toUpper) = none)
    (before after : List Byte) (hb : Seps before) (ha : Seps after) :
    ParamRd env strict { a := a, v := .one (.atom .unset), tok := 46 :: (name ++ [46]), before := before, after := after } .warning :=
  ⟨hred, ⟨46, name ++ [46], rfl, by decide, by decide, by decide⟩, hb, fun l sk d rest hd =>
    ⟨sk, Or.inl rfl, attr_enum_undeclared env strict a ty hty het hder hcfg name hne hname hfind l sk after ha d rest hd⟩⟩

/-- **wrong literal kind for a STRING attribute**: a text that does not start with an apostrophe (a number, an enumeration
    item, a reference, a keyword) and holds no `,` `)`: `SDAI_String::STEPread` reads nothing, WARNING, unset -/
theorem C03_wrong_kind_for_string_detected {F} (env : Env F) (strict : Bool) (a : AttrD) (hty : a.ty = .one .string)
    (hder : a.derived = false) (hred : a.redefining = false)
    (j0 : Byte) (js : List Byte) (hj0s : isSpace j0 = false) (hj047 : j0 ≠ 47) (hj092 : j0 ≠ 92) (hj036 : j0 ≠ 36) (hj039 : j0 ≠ 39)
    (hj : ∀ b ∈ j0 :: js, delimAt env.lex attrDelims b = false)
    (hsemi : env.lex.criStopsAtSemicolon = true → ∀ b ∈ j0 :: js, b ≠ 59) (before : List Byte) (hb : Seps before) :
    ParamRd env strict { a := a, v := .one (.atom .unset), tok := j0 :: js, before := before, after := [] } .warning :=
  ⟨hred, ⟨j0, js, rfl, hj0s, hj047, hj092⟩, hb, fun l sk d rest hd =>
    ⟨sk, Or.inl rfl, by simpa using attr_string_junk env strict a hty hder j0 js hj0s hj047 hj036 hj039 hj hsemi l sk d rest hd⟩⟩

/-- **wrong literal kind for a REAL attribute**: a text that starts like no numeral (a string, an enumeration item, a
    reference, a keyword not starting with `E`/`e`) and holds no `,` `)`: nothing is collected, WARNING, unset (whether
    or not `ReadReal` itself reports) -/
theorem C03_wrong_kind_for_real_detected {F} (env : Env F) (strict : Bool) (a : AttrD) (hty : a.ty = .one .real)
    (hder : a.derived = false) (hred : a.redefining = false)
    (j0 : Byte) (js : List Byte) (hj0s : isSpace j0 = false) (hj047 : j0 ≠ 47) (hj092 : j0 ≠ 92) (hj036 : j0 ≠ 36) (hnn : notNum j0)
    (hj : ∀ b ∈ j0 :: js, delimAt env.lex attrDelims b = false)
    (hsemi : env.lex.criStopsAtSemicolon = true → ∀ b ∈ j0 :: js, b ≠ 59) (before : List Byte) (hb : Seps before) :
    ParamRd env strict { a := a, v := .one (.atom .unset), tok := j0 :: js, before := before, after := [] } .warning :=
  ⟨hred, ⟨j0, js, rfl, hj0s, hj047, hj092⟩, hb, fun l sk d rest hd =>
    ⟨sk, Or.inl rfl, by simpa using attr_real_junk env strict a hty hder j0 js hj0s hj047 hj036 hnn hj hsemi l sk d rest hd⟩⟩

/-- **wrong literal kind for an ENUMERATION / BOOLEAN / LOGICAL attribute**: a text that starts with neither `.` nor a
    letter (a number, a string, a reference, a binary) and holds no `,` `)`: WARNING, unset -/
theorem C03_wrong_kind_for_enum_detected {F} (env : Env F) (strict : Bool) (a : AttrD) (ty : ElemTy) (hty : a.ty = .one ty)
    (het : EnumTy ty) (hder : a.derived = false) (hred : a.redefining = false)
    (j0 : Byte) (js : List Byte) (hj0s : isSpace j0 = false) (hj047 : j0 ≠ 47) (hj092 : j0 ≠ 92) (hj036 : j0 ≠ 36) (hj046 : j0 ≠ 46)
    (hj0a : isAlpha j0 = false) (hj : ∀ b ∈ j0 :: js, delimAt env.lex attrDelims b = false)
    (hsemi : env.lex.criStopsAtSemicolon = true → ∀ b ∈ j0 :: js, b ≠ 59) (before : List Byte) (hb : Seps before) :
    ParamRd env strict { a := a, v := .one (.atom .unset), tok := j0 :: js, before := before, after := [] } .warning :=
  ⟨hred, ⟨j0, js, rfl, hj0s, hj047, hj092⟩, hb, fun l sk d rest hd =>
    ⟨sk, Or.inl rfl, by simpa using attr_enum_junk env strict a ty hty het hder j0 js hj0s hj047 hj036 hj046 hj0a hj hsemi l sk d rest hd⟩⟩

/-- **wrong literal kind for an entity-valued attribute**: a text that starts with neither `#` nor `@` (a number, a string,
    an enumeration item, a keyword) and holds no `,` `)`: `ReadEntityRef` puts the character back, WARNING, unset (whether
    or not `ReadEntityRef` itself reports) -/
theorem C03_wrong_kind_for_reference_detected {F} (env : Env F) (strict : Bool) (a : AttrD) (tg : String)
    (hty : a.ty = .one (.entity tg)) (hder : a.derived = false) (hred : a.redefining = false)
    (j0 : Byte) (js : List Byte) (hj0s : isSpace j0 = false) (hj047 : j0 ≠ 47) (hj092 : j0 ≠ 92) (hj036 : j0 ≠ 36)
    (hj035 : j0 ≠ 35) (hj064 : j0 ≠ 64)
    (hj : ∀ b ∈ j0 :: js, delimAt env.lex attrDelims b = false)
    (hsemi : env.lex.criStopsAtSemicolon = true → ∀ b ∈ j0 :: js, b ≠ 59) (before : List Byte) (hb : Seps before) :
    ParamRd env strict { a := a, v := .one (.atom .unset), tok := j0 :: js, before := before, after := [] } .warning :=
  ⟨hred, ⟨j0, js, rfl, hj0s, hj047, hj092⟩, hb, fun l sk d rest hd =>
    ⟨sk, Or.inl rfl, by simpa using attr_ref_junk env strict a tg hty hder j0 js hj0s hj047 hj036 hj035 hj064 hj hsemi l sk d rest hd⟩⟩

/-- **wrong literal kind for a BINARY attribute**: a text of two or more characters that starts with neither `"` nor a
    hexadecimal digit (a string, an enumeration item, a reference, a keyword not starting with `A`…`F`) and holds no
    `,` `)`; second character neither blank nor `/`: `ReadBinary` consumes one character and reports, WARNING, unset -/
theorem C03_wrong_kind_for_binary_detected {F} (env : Env F) (strict : Bool) (a : AttrD) (hty : a.ty = .one .binary)
    (hder : a.derived = false) (hred : a.redefining = false)
    (j0 j1 : Byte) (js : List Byte) (hj0s : isSpace j0 = false) (hj047 : j0 ≠ 47) (hj092 : j0 ≠ 92) (hj036 : j0 ≠ 36)
    (hj034 : j0 ≠ 34) (hj0x : isXDigit j0 = false) (hj1s : isSpace j1 = false) (hj147 : j1 ≠ 47)
    (hj : ∀ b ∈ j0 :: j1 :: js, delimAt env.lex attrDelims b = false)
    (hsemi : env.lex.criStopsAtSemicolon = true → ∀ b ∈ j0 :: j1 :: js, b ≠ 59) (before : List Byte) (hb : Seps before) :
    ParamRd env strict { a := a, v := .one (.atom .unset), tok := j0 :: j1 :: js, before := before, after := [] } .warning :=
  ⟨hred, ⟨j0, j1 :: js, rfl, hj0s, hj047, hj092⟩, hb, fun l sk d rest hd =>
    ⟨sk, Or.inl rfl, by simpa using attr_binary_junk env strict a hty hder j0 j1 js hj0s hj036 hj034 hj0x hj1s hj147 hj hsemi l sk d rest hd⟩⟩

/-- **wrong literal kind for a NUMBER attribute**: a text that starts like no numeral (a string, an enumeration item, a
    reference, a keyword not starting with `E`/`e`) and holds no `,` `)`: `in >> d` extracts nothing, WARNING, unset
    (whether or not `ReadNumber` itself reports) -/
theorem C03_wrong_kind_for_number_detected {F} (env : Env F) (strict : Bool) (a : AttrD) (hty : a.ty = .one .number)
    (hder : a.derived = false) (hred : a.redefining = false)
    (j0 : Byte) (js : List Byte) (hj0s : isSpace j0 = false) (hj047 : j0 ≠ 47) (hj092 : j0 ≠ 92) (hj036 : j0 ≠ 36) (hnn : notNum j0)
    (hj : ∀ b ∈ j0 :: js, delimAt env.lex attrDelims b = false)
    (hsemi : env.lex.criStopsAtSemicolon = true → ∀ b ∈ j0 :: js, b ≠ 59) (before : List Byte) (hb : Seps before) :
    ParamRd env strict { a := a, v := .one (.atom .unset), tok := j0 :: js, before := before, after := [] } .warning :=
  ⟨hred, ⟨j0, js, rfl, hj0s, hj047, hj092⟩, hb, fun l sk d rest hd =>
    ⟨sk, Or.inl rfl, by simpa using attr_number_junk env strict a hty hder j0 js hj0s hj047 hj036 hnn hj hsemi l sk d rest hd⟩⟩

/-- **no select value**: for an attribute of a select type, a text that starts like none of the forms
    `SDAI_Select::STEPread` tries (no letter, `#`, `.`, apostrophe, `"`, digit, `-`, `(`, NUL — e.g. `*`, `+5`, `%`) and
    holds no `,` `)`: WARNING, unset.  (The untyped forms — a bare number, string, enumeration item, binary, aggregate —
    are "read what you can" with WARNING in the model; no theorem: their stream position depends on the member found.) -/
theorem C03_no_select_value_detected {F} (env : Env F) (strict : Bool) (a : AttrD) (n : String) (sd : SelectD)
    (hty : a.ty = .one (.select n)) (hsd : env.dict.select? n = some sd) (hder : a.derived = false) (hred : a.redefining = false)
    (j0 : Byte) (js : List Byte) (hj0s : isSpace j0 = false) (hj047 : j0 ≠ 47) (hj092 : j0 ≠ 92) (hj036 : j0 ≠ 36)
    (hj0a : isAlpha j0 = false) (hj00 : j0 ≠ 0) (hj035 : j0 ≠ 35) (hj046 : j0 ≠ 46) (hj039 : j0 ≠ 39) (hj034 : j0 ≠ 34)
    (hj0d : isDigit j0 = false) (hj045 : j0 ≠ 45) (hj040 : j0 ≠ 40)
    (hj : ∀ b ∈ j0 :: js, delimAt env.lex attrDelims b = false)
    (hsemi : env.lex.criStopsAtSemicolon = true → ∀ b ∈ j0 :: js, b ≠ 59) (before : List Byte) (hb : Seps before) :
    ParamRd env strict { a := a, v := .one (.atom .unset), tok := j0 :: js, before := before, after := [] } .warning :=
  ⟨hred, ⟨j0, js, rfl, hj0s, hj047, hj092⟩, hb, fun l sk d rest hd =>
    ⟨sk, Or.inl rfl, by
      simpa using (attr_select_junk env strict a n sd hty hsd hder j0 js hj0s hj047 hj036 hj0a hj00 hj035 hj046
        hj039 hj034 hj0d hj045 hj040 hj hsemi l sk d rest hd)⟩⟩

/-- **something that is no aggregate where one is required**: at whatever point of the parameter list the reader stands
    (`err`, `c`, `l` arbitrary), in any layout in front of it, if the text for an aggregate attribute starts with anything
    but `(` `$` `,` `)` — *whatever follows, delimiters included* — `STEPaggregate::ReadValue` returns INPUT_ERROR without
    consuming anything and the instance's result is INPUT_ERROR or worse.  (This is no `ParamRd`: the stream does not
    rest at a delimiter, the rest of the record is lost to the recovery — `C03_error_resync_confines` bounds the damage.) -/
theorem C03_wrong_kind_for_aggregate_detected {F} (env : Env F) (strict : Bool) (a : AttrD) (ety : ElemTy) (rest : List AttrD)
    (hty : a.ty = .aggr ety) (hder : a.derived = false) (hred : a.redefining = false)
    (j0 : Byte) (t : List Byte) (hj0s : isSpace j0 = false) (hj047 : j0 ≠ 47) (hj092 : j0 ≠ 92) (hj036 : j0 ≠ 36)
    (hj040 : j0 ≠ 40) (hj044 : j0 ≠ 44) (hj041 : j0 ≠ 41) (before : List Byte) (hb : Seps before)
    (err : Sev) (c : Byte) (l : List Byte) (sk : Bool) (r : IR F)
    (h : readAttrs env strict (a :: rest) err c (G l (before ++ j0 :: t) sk) = .ok r) :
    r.sev.toInt ≤ Sev.inputError.toInt := by
  have hsep := readTokenSeparator_seps before hb l j0 t sk hj0s hj047 hj092
  have ha := attr_aggr_junk env strict a ety hty hder j0 t hj0s hj036 hj040 hj044 hj041 (before.reverse ++ l) sk
  rw [← hsep] at ha
  exact C03_attribute_error_reaches_instance env strict a rest err c _ r _ _ _ hred ha (by decide) h

/-- **an integer token with something behind it for an INTEGER attribute** (`1.5`, `5X`, `12'a'`: a text that *starts like*
    an integer): the integer is stored, what follows it - no digit, blank or `/` first, no `,` `)` `;` - is reported:
    WARNING, the stream at the delimiter -/
theorem C03_integer_with_trailing_garbage_detected {F} (env : Env F) (strict : Bool) (a : AttrD) (hty : a.ty = .one .integer)
    (hder : a.derived = false) (hred : a.redefining = false)
    (tok : List Byte) (htok : Grammar.isInteger tok = true) (hlo : IStream.longMin ≤ Grammar.denoteInteger tok)
    (hhi : Grammar.denoteInteger tok < IStream.longMax)
    (j0 : Byte) (js : List Byte) (hj0s : isSpace j0 = false) (hj047 : j0 ≠ 47) (hj0d : isDigit j0 = false)
    (hj : ∀ b ∈ j0 :: js, delimAt env.lex attrDelims b = false)
    (hsemi : env.lex.criStopsAtSemicolon = true → ∀ b ∈ j0 :: js, b ≠ 59) (before : List Byte) (hb : Seps before) :
    ParamRd env strict { a := a, v := .one (.atom (.int (Grammar.denoteInteger tok))), tok := tok ++ j0 :: js,
                         before := before, after := [] } .warning := by
  obtain ⟨c, u, hcu, hcs, h47, _, h92⟩ := isInteger_head47 tok htok
  refine ⟨hred, ⟨c, u ++ j0 :: js, by rw [hcu]; simp, hcs, h47, h92⟩, hb, fun l sk d rest hd => ⟨sk, Or.inl rfl, ?_⟩⟩
  have h := attr_integer_then_junk env strict a hty hder tok htok hlo hhi j0 js hj0s hj047 hj0d hj hsemi l sk d rest hd
  simpa [List.append_assoc] using h

/-- **a real token with something behind it for a REAL attribute** (`1.5X`, `2.0'a'`: a text that *starts like* a real): the
    real is stored, what follows it - no digit, `E`, `e`, blank or `/` first, no `,` `)` `;` - is reported: WARNING -/
theorem C03_real_with_trailing_garbage_detected {F} (env : Env F) (strict : Bool) (a : AttrD) (hty : a.ty = .one .real)
    (hder : a.derived = false) (hred : a.redefining = false)
    (tok : List Byte) (dec : Decimal) (v : F) (htok : Grammar.isReal tok = true) (hden : Grammar.denoteReal tok = some dec)
    (hv : env.ops.ofDecimal dec = some v) (hnn : env.ops.isRealNull v = false)
    (hbuf : env.lex.realBuf = 0 ∨ tok.length < env.lex.realBuf)
    (j0 : Byte) (js : List Byte) (hj0s : isSpace j0 = false) (hj047 : j0 ≠ 47) (hj0d : isDigit j0 = false)
    (hj0e : j0 ≠ 101) (hj0E : j0 ≠ 69)
    (hj : ∀ b ∈ j0 :: js, delimAt env.lex attrDelims b = false)
    (hsemi : env.lex.criStopsAtSemicolon = true → ∀ b ∈ j0 :: js, b ≠ 59) (before : List Byte) (hb : Seps before) :
    ParamRd env strict { a := a, v := .one (.atom (.real v)), tok := tok ++ j0 :: js, before := before, after := [] } .warning := by
  obtain ⟨c, u, hcu, hcs, _, _, _, h47, h92⟩ := number_head tok (Or.inl htok)
  refine ⟨hred, ⟨c, u ++ j0 :: js, by rw [hcu]; simp, hcs, h47, h92⟩, hb, fun l sk d rest hd => ⟨sk, Or.inl rfl, ?_⟩⟩
  have h := attr_real_then_junk env strict a hty hder tok dec v htok hden hv hnn hbuf j0 js hj0s hj047 hj0d hj0e hj0E hj hsemi l sk d rest hd
  simpa [List.append_assoc] using h

/-- elements that report nothing or WARNING accumulate to WARNING as soon as one of them reports -/
theorem eaccum_warning (sevs : List Sev) (h : ∀ s ∈ sevs, s = .null ∨ s = .warning) :
    ∀ err : Sev, (err = .null ∨ err = .warning) →
      eaccum err sevs = (if err = .warning ∨ Sev.warning ∈ sevs then .warning else .null) := by
  induction sevs with
  | nil => intro err he; rcases he with rfl | rfl <;> simp [eaccum]
  | cons s t ih =>
    intro err he
    have hs := h s (by simp)
    have ht := ih (fun x hx => h x (by simp [hx]))
    have s1 : (if Sev.null.toInt < Sev.incomplete.toInt then Sev.null.greater Sev.null else Sev.null) = Sev.null := by decide
    have s2 : (if Sev.warning.toInt < Sev.incomplete.toInt then Sev.null.greater Sev.warning else Sev.null) = Sev.warning := by decide
    have s3 : (if Sev.null.toInt < Sev.incomplete.toInt then Sev.warning.greater Sev.null else Sev.warning) = Sev.warning := by decide
    have s4 : (if Sev.warning.toInt < Sev.incomplete.toInt then Sev.warning.greater Sev.warning else Sev.warning) = Sev.warning := by decide
    rcases he with rfl | rfl <;> rcases hs with rfl | rfl
    · have := ht .null (Or.inl rfl); simp only [eaccum, List.foldl_cons, s1] at this ⊢; simpa using this
    · have := ht .warning (Or.inr rfl); simp only [eaccum, List.foldl_cons, s2] at this ⊢; simpa using this
    · have := ht .warning (Or.inr rfl); simp only [eaccum, List.foldl_cons, s3] at this ⊢; simpa using this
    · have := ht .warning (Or.inr rfl); simp only [eaccum, List.foldl_cons, s4] at this ⊢; simpa using this

/-- **a violation inside an aggregate**: an aggregate attribute `( e₁ , … , eₙ )` every element of which is read where it
    stands with severity NULL or WARNING (`ElemRdS`: conforming elements by `ElemRd`, violating ones by the element
    theorems below), one of them with WARNING, any layout around every element and behind the aggregate: the attribute
    reader reports WARNING, keeps every element's value and rests at the delimiter (`ParamRd`) - so by
    `C03_violation_confined_partial` the record, the file and p21read's exit status are flagged and the other parameters
    and records keep their values. -/
theorem C03_violation_inside_aggregate_detected {F} (env : Env F) (strict : Bool) (a : AttrD) (ety : ElemTy)
    (hty : a.ty = .aggr ety) (hder : a.derived = false) (hred : a.redefining = false)
    (hcfg : env.lex.criSkipsComments = true) (hagg : env.cfg.aggrSkipsComments = true)
    (qs : List (ElemG F × Sev)) (hok : ∀ q ∈ qs, ElemRdS env ety q.1 q.2)
    (hnw : ∀ q ∈ qs, q.2 = .null ∨ q.2 = .warning) (hbad : ∃ q ∈ qs, q.2 = .warning)
    (before after : List Byte) (hb : Seps before) (ha : Seps after) :
    ParamRd env strict { a := a, v := .aggr (qs.map (·.1.v)), tok := 40 :: renderElemsG (qs.map (·.1)),
                         before := before, after := after } .warning := by
  have hne : qs ≠ [] := by obtain ⟨q, hq, _⟩ := hbad; intro h; rw [h] at hq; cases hq
  have hacc : eaccum .null (qs.map (·.2)) = .warning := by
    rw [eaccum_warning _ (by intro s hs; obtain ⟨q, hq, rfl⟩ := List.mem_map.mp hs; exact hnw q hq) .null (Or.inl rfl)]
    obtain ⟨q, hq, hw⟩ := hbad
    have : Sev.warning ∈ qs.map (·.2) := List.mem_map.mpr ⟨q, hq, hw⟩
    simp [this]
  refine ⟨hred, ⟨40, _, rfl, by decide, by decide, by decide⟩, hb, fun l sk d rest hd => ?_⟩
  obtain ⟨sk', hsk, h⟩ := attr_aggr_sev env strict a ety hty hder hcfg hagg qs hne hok (by rw [hacc]; decide) l sk after ha d rest hd
  rw [hacc] at h
  exact ⟨sk', hsk, h⟩

/-- **wrong-kind element of an aggregate of INTEGER** (re-export of `ElemRdS.integer_junk`): a text that starts like no
    integer and holds no `,` `)` `;` where an element must stand: unset, WARNING, the loop goes on behind it -/
theorem C03_wrong_kind_integer_element_detected {F} (env : Env F) (hcfg : env.lex.criSkipsComments = true)
    (hagg : env.cfg.aggrSkipsComments = true) (j0 : Byte) (js : List Byte) (hj0s : isSpace j0 = false) (hj047 : j0 ≠ 47)
    (hj092 : j0 ≠ 92) (hj0d : isDigit j0 = false) (hj043 : j0 ≠ 43) (hj045 : j0 ≠ 45)
    (hj : ∀ b ∈ j0 :: js, delimAt env.lex attrDelims b = false)
    (hsemi : env.lex.criStopsAtSemicolon = true → ∀ b ∈ j0 :: js, b ≠ 59) (before : List Byte) (hb : Seps before) :
    ElemRdS env .integer { tok := j0 :: js, before := before, after := [], v := .atom .unset } .warning :=
  ElemRdS.integer_junk env hcfg hagg j0 js hj0s hj047 hj092 hj0d hj043 hj045 hj hsemi before hb

/-- **an integer with something behind it as an element of an aggregate of INTEGER** (re-export of
    `ElemRdS.integer_tok_junk`; `( 1 , 2X , 3 )`, `( 1.5 )`: a text that *starts like* an integer): the integer is stored,
    the rest - no digit, blank or `/` first, no `,` `)` `;` - is reported: WARNING, the loop goes on behind it; with
    `C03_violation_inside_aggregate_detected` and `C03_violation_confined_partial` up to the file verdict -/
theorem C03_integer_element_with_trailing_garbage_detected {F} (env : Env F) (hcfg : env.lex.criSkipsComments = true)
    (hagg : env.cfg.aggrSkipsComments = true) (tok : List Byte) (htok : Grammar.isInteger tok = true)
    (hlo : IStream.longMin ≤ Grammar.denoteInteger tok) (hhi : Grammar.denoteInteger tok < IStream.longMax)
    (j0 : Byte) (js : List Byte) (hj0s : isSpace j0 = false) (hj047 : j0 ≠ 47) (hj0d : isDigit j0 = false)
    (hj : ∀ b ∈ j0 :: js, delimAt env.lex attrDelims b = false)
    (hsemi : env.lex.criStopsAtSemicolon = true → ∀ b ∈ j0 :: js, b ≠ 59) (before : List Byte) (hb : Seps before) :
    ElemRdS env .integer { tok := tok ++ j0 :: js, before := before, after := [],
                           v := .atom (.int (Grammar.denoteInteger tok)) } .warning :=
  ElemRdS.integer_tok_junk env hcfg hagg tok htok hlo hhi j0 js hj0s hj047 hj0d hj hsemi before hb

/-- **a real with something behind it as an element of an aggregate of REAL** (re-export of `ElemRdS.real_tok_junk`;
    `( 1.5X )`, `( 2.0'a' )`): the real is stored, the rest - no digit, `E`, `e`, blank or `/` first, no `,` `)` `;` - is
    reported: WARNING, the loop goes on behind it -/
theorem C03_real_element_with_trailing_garbage_detected {F} (env : Env F) (hcfg : env.lex.criSkipsComments = true)
    (hagg : env.cfg.aggrSkipsComments = true) (tok : List Byte) (dec : Decimal) (v : F) (htok : Grammar.isReal tok = true)
    (hden : Grammar.denoteReal tok = some dec) (hv : env.ops.ofDecimal dec = some v) (hnn : env.ops.isRealNull v = false)
    (hbuf : env.lex.realBuf = 0 ∨ tok.length < env.lex.realBuf)
    (j0 : Byte) (js : List Byte) (hj0s : isSpace j0 = false) (hj047 : j0 ≠ 47) (hj0d : isDigit j0 = false)
    (hj0e : j0 ≠ 101) (hj0E : j0 ≠ 69)
    (hj : ∀ b ∈ j0 :: js, delimAt env.lex attrDelims b = false)
    (hsemi : env.lex.criStopsAtSemicolon = true → ∀ b ∈ j0 :: js, b ≠ 59) (before : List Byte) (hb : Seps before) :
    ElemRdS env .real { tok := tok ++ j0 :: js, before := before, after := [], v := .atom (.real v) } .warning :=
  ElemRdS.real_tok_junk env hcfg hagg tok dec v htok hden hv hnn hbuf j0 js hj0s hj047 hj0d hj0e hj0E hj hsemi before hb

/-- **wrong-kind element of an aggregate of REAL** (re-export of `ElemRdS.real_junk`): a text that starts like no real
    numeral (`RLemmas.notNum`: no digit, sign, `.`, `E`, `e` first) and holds no `,` `)` `;` where an element must stand:
    unset, WARNING, the loop goes on behind it -/
theorem C03_wrong_kind_real_element_detected {F} (env : Env F) (hcfg : env.lex.criSkipsComments = true)
    (hagg : env.cfg.aggrSkipsComments = true) (j0 : Byte) (js : List Byte) (hj0s : isSpace j0 = false) (hj047 : j0 ≠ 47)
    (hj092 : j0 ≠ 92) (hnn : notNum j0)
    (hj : ∀ b ∈ j0 :: js, delimAt env.lex attrDelims b = false)
    (hsemi : env.lex.criStopsAtSemicolon = true → ∀ b ∈ j0 :: js, b ≠ 59) (before : List Byte) (hb : Seps before) :
    ElemRdS env .real { tok := j0 :: js, before := before, after := [], v := .atom .unset } .warning :=
  ElemRdS.real_junk env hcfg hagg j0 js hj0s hj047 hj092 hnn hj hsemi before hb

/-- **wrong-kind element of an aggregate of STRING** (re-export of `ElemRdS.string_junk`): a text that does not start with
    an apostrophe and holds no `,` `)` `;` where an element must stand: unset, WARNING, the loop goes on behind it -/
theorem C03_wrong_kind_string_element_detected {F} (env : Env F) (hagg : env.cfg.aggrSkipsComments = true)
    (j0 : Byte) (js : List Byte) (hj0s : isSpace j0 = false) (hj047 : j0 ≠ 47) (hj092 : j0 ≠ 92) (hj039 : j0 ≠ 39)
    (hj : ∀ b ∈ j0 :: js, delimAt env.lex attrDelims b = false)
    (hsemi : env.lex.criStopsAtSemicolon = true → ∀ b ∈ j0 :: js, b ≠ 59) (before : List Byte) (hb : Seps before) :
    ElemRdS env .string { tok := j0 :: js, before := before, after := [], v := .atom .unset } .warning :=
  ElemRdS.string_junk env hagg j0 js hj0s hj047 hj092 hj039 hj hsemi before hb

/-- **undeclared item in an aggregate of ENUMERATION / BOOLEAN / LOGICAL** (re-export of `ElemRdS.enum_undeclared`) -/
theorem C03_undeclared_enum_element_detected {F} (env : Env F) (hcfg : env.lex.criSkipsComments = true)
    (hagg : env.cfg.aggrSkipsComments = true) (ty : ElemTy) (het : EnumTy ty) (name : List Byte) (hne : name ≠ [])
    (hname : name.all pw = true) (hfind : findName (enumKindOf ty).table (name.map toUpper) = none)
    (before after : List Byte) (hb : Seps before) (ha : Seps after) :
    ElemRdS env ty { tok := 46 :: (name ++ [46]), before := before, after := after, v := .atom .unset } .warning :=
  ElemRdS.enum_undeclared env hcfg hagg ty het name hne hname hfind before after hb ha

/-- **dangling or wrong-type reference in an aggregate of entities** (re-export of `ElemRdS.ref_bad`) -/
theorem C03_bad_reference_element_detected {F} (env : Env F) (hcfg : env.lex.criSkipsComments = true)
    (hagg : env.cfg.aggrSkipsComments = true) (tg : String) (ds : List Byte) (hne : ds ≠ []) (hds : ds.all isDigit = true)
    (hhi : ((digitsVal ds 0 : Nat) : Int) ≤ IStream.intMax)
    (hbad : refLookup env.lookup tg ((digitsVal ds 0 : Nat) : Int) ≠ .found)
    (before after : List Byte) (hb : Seps before) (ha : Seps after) :
    ElemRdS env (.entity tg) { tok := 35 :: ds, before := before, after := after, v := .atom .unset } .warning :=
  ElemRdS.ref_bad env hcfg hagg tg ds hne hds hhi hbad before after hb ha

/-- **a typed select value with a foreign keyword, attribute level**: see `attr_select_foreign`; as a `ParamRd` for the
    pseudo-parameter `KEYWORD blanks ( value` (the value's own `)` is the delimiter the reader rests at) -/
theorem C03_foreign_select_keyword_detected {F} (env : Env F) (strict : Bool) (a : AttrD) (n : String)
    (hty : a.ty = .one (.select n)) (hder : a.derived = false) (hred : a.redefining = false)
    (sd : SelectD) (hsd : env.dict.select? n = some sd)
    (n0 : Byte) (ns : List Byte) (hn0 : isAlpha n0 = true) (hns : ns.all selc = true)
    (hfind : sd.members.find? (fun x => x.name == bytesToString (upperBytes (n0 :: ns)) && !x.ty.isEntity) = none)
    (sA : List Byte) (hsA : sA.all isSpace = true)
    (j0 : Byte) (js : List Byte) (hj0s : isSpace j0 = false) (hj047 : j0 ≠ 47)
    (hj : ∀ b ∈ j0 :: js, delimAt env.lex attrDelims b = false)
    (hsemi : env.lex.criStopsAtSemicolon = true → ∀ b ∈ j0 :: js, b ≠ 59) (before : List Byte) (hb : Seps before) :
    ParamRd env strict { a := a, v := .one (.atom .unset), tok := n0 :: (ns ++ (sA ++ 40 :: (j0 :: js))),
                         before := before, after := [] } .warning := by
  obtain ⟨hn0s, hn047, _, _, _, _, _, _, hn092⟩ := alpha_facts hn0
  refine ⟨hred, ⟨n0, _, rfl, hn0s, hn047, hn092⟩, hb, fun l sk d rest hd => ⟨sk, Or.inl rfl, ?_⟩⟩
  have h := attr_select_foreign env strict a n hty hder sd hsd n0 ns hn0 hns hfind sA hsA j0 js hj0s hj047 hj hsemi l sk d rest hd
  simpa [List.append_assoc] using h

/-- a parameter read with a severity at or below USERMSG makes the accumulated severity at least that severe -/
theorem accum_le_mem (sevs : List Sev) (sv : Sev) (hm : sv ∈ sevs) (hb : sv.toInt ≤ Sev.usermsg.toInt) :
    ∀ e : Sev, (accum e sevs).toInt ≤ sv.toInt := by
  have mono : ∀ (t : List Sev) (e : Sev), (accum e t).toInt ≤ e.toInt := by
    intro t
    induction t with
    | nil => intro e; exact Int.le_refl _
    | cons x t ih =>
      intro e
      simp only [accum, List.foldl_cons] at ih ⊢
      refine Int.le_trans (ih _) ?_
      split
      · exact greater_le_left _ _
      · exact Int.le_refl _
  induction sevs with
  | nil => cases hm
  | cons x t ih =>
    intro e
    simp only [accum, List.foldl_cons]
    rcases List.mem_cons.mp hm with rfl | hm'
    · refine Int.le_trans (mono t _) ?_
      rw [if_pos hb]
      exact greater_le_right _ _
    · exact ih hm' _

theorem renderParams_snoc' {F} (ps0 : List (Param F)) (ex : Param F) :
    renderParams (ps0 ++ [ex]) =
      (match ps0 with | [] => [] | _ => renderOpen ps0 ++ [44]) ++ (ex.before ++ (ex.tok ++ (ex.after ++ [41]))) := by
  cases ps0 with
  | nil => simp [renderParams]
  | cons p t => rw [renderParams_snoc (p :: t) (by simp) ex]; simp

/-- **a typed select value with a foreign keyword, record level** (`Flawed` derived): a record whose last parameter is
    `KEYWORD blanks ( value )` for a select attribute, the keyword naming no non-entity member of the select, `value` without
    `,` `)` `;` - the parameters before it each read where they stand with a known severity - is read to WARNING or worse:
    the attribute reader rests at the value's own `)`, the instance reader takes it for the end of the list (every attribute
    has its value by then), the `;` test fails and the record is resynchronised from its start.  By
    `C03_violation_confined_partial` the file fails and the other records keep their outcome.  (A foreign keyword at an
    earlier position ends the list early: the same argument with `readAttrs_params_short`; not stated.) -/
theorem C03_foreign_select_keyword_flawed {F} (env : Env F) (strict : Bool)
    (x : Step F) (hlex : x.r.Lex) (hg : Seps x.g) (hscan : ∀ q ∈ x.r.ps, ParamScan q)
    (qs : List (Param F × Sev)) (hok : ∀ q ∈ qs, ParamRd env strict q.1 q.2)
    (pseudo sel : Param F) (hpr : ParamRd env strict pseudo .warning) (hpa : pseudo.after = [])
    (hsa : sel.a = pseudo.a) (hsb : sel.before = pseudo.before) (hst : sel.tok = pseudo.tok ++ [41])
    (hps : x.r.ps = qs.map (·.1) ++ [sel])
    (e : EntityD) (hent : env.dict.entity? x.r.name = some e) (hattrs : e.attrs = qs.map (·.1.a) ++ [pseudo.a])
    (hsev : x.sev = accum .null (qs.map (·.2) ++ [.warning]))
    (hout : x.out = { id := x.r.id, parts := [{ name := x.r.name, vals := qs.map (·.1.v) ++ [pseudo.v] }], state := .incomplete }) :
    Flawed env strict x := by
  refine ⟨hlex, hg, hscan, ?_, e, qs.map (·.1.v) ++ [pseudo.v], hent, hout, ?_⟩
  · rw [hsev]
    exact accum_le_mem _ .warning (by simp) (by decide) _
  · intro L rest
    obtain ⟨sk', hsk, h⟩ := instSTEPread_params_sev env strict (qs ++ [(pseudo, .warning)]) (by simp)
      (by
        intro q hq
        rcases List.mem_append.mp hq with hq | hq
        · exact hok q hq
        · simp only [List.mem_singleton] at hq; subst hq; exact hpr)
      L false (sel.after ++ 41 :: x.r.t4 rest)
    have hsk' : sk' = false := by rcases hsk with h | h <;> exact h
    subst hsk'
    refine ⟨G ((40 :: renderParams ((qs ++ [(pseudo, Sev.warning)]).map (·.1))).reverse ++ L) (sel.after ++ 41 :: x.r.t4 rest) false,
      aaccum (qs ++ [(pseudo, .warning)]), ?_, by rw [readTokenSeparator_skipws]⟩
    have etext : renderParams x.r.ps ++ x.r.t4 rest =
        renderParams ((qs ++ [(pseudo, Sev.warning)]).map (·.1)) ++ (sel.after ++ 41 :: x.r.t4 rest) := by
      rw [hps, List.map_append, List.map_cons, List.map_nil, renderParams_snoc', renderParams_snoc', hsb, hst, hpa]
      simp [List.append_assoc]
    rw [hattrs, hsev, etext]
    simpa [List.map_append] using h

/-- **duplicate id, record level** (re-export of `createInstance_dup` / `readInstance_dup`): a record whose id the manager
    already holds creates nothing in pass 1 (`ReadData1` counts it not created - `C03_not_created_fails_file` then fails
    the file) and, the first record with that id having been read, is skipped by pass 2 up to its `;` whatever it holds;
    neither pass touches the record behind it.  (The file-level composition - a list with duplicates inside
    `C03_skipped_record_confined_partial` - is not stated: its invariants are positional.) -/
theorem C03_duplicate_id_record_skipped {F} (ops : FloatOps F) (lex : LexCfg) (cfg : RWCfg) (d : Dict) (strict : Bool)
    (hskip : cfg.skipInstanceSkipsComments = true) (r : Rec F) (hlex : r.Lex) (hscan : ∀ q ∈ r.ps, ParamScan q) :
    (∀ (m : Mgr F) (i0 : MInst F), m.find? r.id = some i0 → ∀ l rest,
        ∃ l', createInstance cfg d m (G l (r.text rest) false) = .ok (none, G l' rest false)) ∧
    (∀ (st : P2 F) (i0 : MInst F), st.mgr.find? r.id = some i0 → i0.state ≠ .new → ∀ l rest, st.s = G l (r.text rest) false →
        ∃ l', readInstance ops lex cfg d strict st = .ok { s := G l' rest false }) :=
  ⟨fun m i0 h l rest => createInstance_dup cfg hskip d m r hlex hscan i0 h l rest,
   fun st i0 h hn l rest hs => readInstance_dup ops lex cfg d strict hskip st r hlex hscan l rest hs i0 h hn⟩

/-- **missing `=`, record level** (re-export of `createInstance_noeq` / `readInstance_noeq`): a record `#id NAME(…);` - the
    `=` left out, any layout between the id and the keyword, any parameters `SkipInstance` gets over - creates nothing in
    pass 1 (`ReadData1` counts it not created - `C03_not_created_fails_file` then fails the file) and, no instance with its
    id being in the manager, is skipped by pass 2 up to its `;`; neither pass touches the record behind it. -/
theorem C03_missing_equals_record_skipped {F} (ops : FloatOps F) (lex : LexCfg) (cfg : RWCfg) (d : Dict) (strict : Bool)
    (hskip : cfg.skipInstanceSkipsComments = true) (r : Rec F) (hlex : r.Lex) (hscan : ∀ q ∈ r.ps, ParamScan q) :
    (∀ (m : Mgr F), m.find? r.id = none → ∀ l rest,
        ∃ l', createInstance cfg d m (G l (r.textNoEq rest) false) = .ok (none, G l' rest false)) ∧
    (∀ (st : P2 F), st.mgr.find? r.id = none → ∀ l rest, st.s = G l (r.textNoEq rest) false →
        ∃ l', readInstance ops lex cfg d strict st = .ok { s := G l' rest false }) :=
  ⟨fun m h l rest => createInstance_noeq cfg hskip d m r hlex hscan h l rest,
   fun st h l rest hs => readInstance_noeq ops lex cfg d strict hskip st r hlex hscan l rest hs h⟩

/-! ### every record shape in one data section: kept records of either mapping, skipped records of either kind -/

theorem textNoEq_nil_append {F} (r : Rec F) (rest : List Byte) : r.textNoEq [] ++ rest = r.textNoEq rest := by
  simp [Rec.textNoEq, Rec.t2, Rec.t3, Rec.t4, List.append_assoc]

/-- a record of a data section: one that is created and read (`kept`: internally mapped with its outcome, or a conforming
    externally mapped one), one whose keyword names no (or an abstract) entity, or one whose `=` is missing -/
inductive FileRec (F : Type) where
  | kept (y : AnyStep F)
  | unknown (x : Step F)
  | noeq (r : Rec F) (g : List Byte)

/-- the record as the loops of the two passes see it, and whether pass 1 creates an instance for it -/
def FileRec.item {F} (d : Dict) : FileRec F → Item F × Bool
  | .kept y => (y.item d, true)
  | .unknown x => ({ body := x.r.text [], g := x.g, id := x.r.id, mkI := { id := x.r.id, parts := [] },
                     out := { id := x.r.id, parts := [] }, sev := .null }, false)
  | .noeq r g => ({ body := r.textNoEq [], g := g, id := r.id, mkI := { id := r.id, parts := [] },
                    out := { id := r.id, parts := [] }, sev := .null }, false)

def FileRecOK {F} (env : Env F) (strict : Bool) : FileRec F → Prop
  | .kept y => AnyStepOK env strict y
  | .unknown x => RecSkip env.dict x
  | .noeq r g => r.Lex ∧ Seps g ∧ ∀ q ∈ r.ps, ParamScan q

/-- **confinement over every record shape proved so far** (`_partial`): the data section is any sequence - any order,
    number and layout, pairwise different ids - of (a) internally mapped records that are `Marked` or `Flawed`,
    (b) conforming externally mapped records, (c) records whose keyword names no entity or an abstract one, (d) records
    whose `=` is missing (`#id NAME(…);`).  Pass 1 creates exactly the records of (a) and (b) and counts the others not
    created; pass 2 reads every record of (a) and (b) to exactly the outcome it has on its own (references resolve against
    the instances that were created), skips the others and counts them invalid; the severities reported are those of the
    records read, in file order; and one skipped record, or one record read with a severity worse than a user message,
    makes p21read exit with 1.  (Duplicate ids have their own theorem, `C03_duplicate_id_confined_partial`: their
    invariant is positional.) -/
theorem C03_confined_every_record_shape_partial {F} (ops : FloatOps F) (lex : LexCfg) (cfg : RWCfg) (d : Dict) (strict : Bool)
    (hskip : cfg.skipInstanceSkipsComments = true) (hrs : cfg.errorResyncsFromStart = true)
    (hrep : cfg.complexReportsError = true)
    (ys : List (FileRec F)) (g0 sp gE after : List Byte) (hg0 : Seps g0) (hsp : sp.all isSpace = true) (hgE : Seps gE)
    (hnd : (ys.map (fun y => (y.item d).1.id)).Nodup)
    (hok : ∀ y ∈ ys, FileRecOK { ops := ops, lex := lex, cfg := cfg, dict := d,
                                 lookup := Mgr.lookup d ({ insts := (keptI (ys.map (FileRec.item d))).map (·.mkI) } : Mgr F) } strict y) :
    ∃ res, readDataSection ops lex cfg d strict false
        (g0 ++ renderItems ((ys.map (FileRec.item d)).map (·.1)) (endsec sp (gE ++ (endIso ++ 59 :: after)))) = .ok res ∧
      res.mgr.insts = (keptI (ys.map (FileRec.item d))).map (·.out) ∧
      res.reported = ((keptI (ys.map (FileRec.item d))).map (·.sev)).reverse ∧
      res.created = (keptI (ys.map (FileRec.item d))).length ∧ res.notCreated = nskipI (ys.map (FileRec.item d)) ∧
      res.valid = (keptI (ys.map (FileRec.item d))).length ∧ res.invalid = nskipI (ys.map (FileRec.item d)) ∧
      (0 < nskipI (ys.map (FileRec.item d)) → exitStatus res.sev = 1) ∧
      ((∃ x ∈ keptI (ys.map (FileRec.item d)), x.sev.toInt < Sev.usermsg.toInt) → exitStatus res.sev = 1) := by
  obtain ⟨res, hr, hm, hsev, hc, hnc, hv, hinv, hrp⟩ :=
    readDataSection_itemsX ops lex cfg d strict sp _ hsp (tailOK_endIso gE hgE after) (ys.map (FileRec.item d)) g0 hg0
      (by simpa [List.map_map, Function.comp_def] using hnd)
      (by
        intro z hz
        obtain ⟨y, hy, rfl⟩ := List.mem_map.mp hz
        cases y with
        | kept y =>
          simp only [FileRec.item, if_true]
          exact anyStep_item1 ops lex cfg d strict hskip _ y (hok _ hy)
        | unknown x =>
          simp only [FileRec.item, Bool.false_eq_true, if_false]
          obtain ⟨hlex, hg, hscan, hunk⟩ := hok _ hy
          refine ⟨hg, ?_⟩
          intro m hnone l rest
          obtain ⟨l', h⟩ := createInstance_unknown cfg hskip d m x.r hlex hscan hnone hunk l rest
          exact ⟨l', by show createInstance cfg d m (G l (x.r.text [] ++ rest) false) = _; rw [text_nil_append]; exact h⟩
        | noeq r g =>
          simp only [FileRec.item, Bool.false_eq_true, if_false]
          obtain ⟨hlex, hg, hscan⟩ := hok _ hy
          refine ⟨hg, ?_⟩
          intro m hnone l rest
          obtain ⟨l', h⟩ := createInstance_noeq cfg hskip d m r hlex hscan hnone l rest
          exact ⟨l', by show createInstance cfg d m (G l (r.textNoEq [] ++ rest) false) = _; rw [textNoEq_nil_append]; exact h⟩)
      (by
        intro z hz
        obtain ⟨y, hy, rfl⟩ := List.mem_map.mp hz
        cases y with
        | kept y =>
          simp only [FileRec.item, if_true]
          exact anyStep_item2 ops lex cfg d strict hskip hrs hrep _ y (hok _ hy)
        | unknown x =>
          simp only [FileRec.item, Bool.false_eq_true, if_false]
          obtain ⟨hlex, hg, hscan, _⟩ := hok _ hy
          refine ⟨hg, ?_⟩
          intro st l rest hnf hs
          have hs' : st.s = G l (x.r.text rest) false := by rw [← text_nil_append]; exact hs
          exact readInstance_notfound ops lex cfg d strict hskip st x.r hlex hscan l rest hs' hnf
        | noeq r g =>
          simp only [FileRec.item, Bool.false_eq_true, if_false]
          obtain ⟨hlex, hg, hscan⟩ := hok _ hy
          refine ⟨hg, ?_⟩
          intro st l rest hnf hs
          have hs' : st.s = G l (r.textNoEq rest) false := by rw [← textNoEq_nil_append]; exact hs
          exact readInstance_noeq ops lex cfg d strict hskip st r hlex hscan l rest hs' hnf)
  refine ⟨res, hr, hm, hrp, hc, hnc, hv, hinv, ?_, ?_⟩
  · intro hpos
    rw [C03_exit_iff_worse_than_usermsg, hsev, if_pos hpos]
    exact Int.lt_of_le_of_lt (greater_le_right _ _) (by decide)
  · rintro ⟨x, hx, hb⟩
    rw [C03_exit_iff_worse_than_usermsg, hsev]
    have hbad := errAfterI_bad (keptI (ys.map (FileRec.item d))) x hx hb
    split
    · exact Int.lt_of_le_of_lt (greater_le_left _ _) (hbad _)
    · exact hbad _

/-! ### … and externally mapped records with a violation inside a part -/

/-- pass 1 on a record of `FileRecOK`: created or skipped -/
theorem fileRec_item1 {F} (ops : FloatOps F) (lex : LexCfg) (cfg : RWCfg) (d : Dict) (strict : Bool)
    (hskip : cfg.skipInstanceSkipsComments = true) (lk : Lookup) (y : FileRec F)
    (h : FileRecOK { ops := ops, lex := lex, cfg := cfg, dict := d, lookup := lk } strict y) :
    if (y.item d).2 then Item1OK cfg d (y.item d).1 else ItemSkip1 cfg d (y.item d).1 := by
  cases y with
  | kept y =>
    simp only [FileRec.item, if_true]
    exact anyStep_item1 ops lex cfg d strict hskip _ y h
  | unknown x =>
    simp only [FileRec.item, Bool.false_eq_true, if_false]
    obtain ⟨hlex, hg, hscan, hunk⟩ := h
    refine ⟨hg, ?_⟩
    intro m hnone l rest
    obtain ⟨l', h⟩ := createInstance_unknown cfg hskip d m x.r hlex hscan hnone hunk l rest
    exact ⟨l', by show createInstance cfg d m (G l (x.r.text [] ++ rest) false) = _; rw [text_nil_append]; exact h⟩
  | noeq r g =>
    simp only [FileRec.item, Bool.false_eq_true, if_false]
    obtain ⟨hlex, hg, hscan⟩ := h
    refine ⟨hg, ?_⟩
    intro m hnone l rest
    obtain ⟨l', h⟩ := createInstance_noeq cfg hskip d m r hlex hscan hnone l rest
    exact ⟨l', by show createInstance cfg d m (G l (r.textNoEq [] ++ rest) false) = _; rw [textNoEq_nil_append]; exact h⟩
/-- pass 2 on a record of `FileRecOK`: read or skipped -/
theorem fileRec_item2 {F} (ops : FloatOps F) (lex : LexCfg) (cfg : RWCfg) (d : Dict) (strict : Bool)
    (hskip : cfg.skipInstanceSkipsComments = true) (hrs : cfg.errorResyncsFromStart = true)
    (hrep : cfg.complexReportsError = true) (lk : Lookup) (y : FileRec F)
    (h : FileRecOK { ops := ops, lex := lex, cfg := cfg, dict := d, lookup := lk } strict y) :
    if (y.item d).2 then Item2OKF ops lex cfg d strict lk (y.item d).1 else ItemSkip2 ops lex cfg d strict (y.item d).1 := by
  cases y with
  | kept y =>
    simp only [FileRec.item, if_true]
    exact anyStep_item2 ops lex cfg d strict hskip hrs hrep _ y h
  | unknown x =>
    simp only [FileRec.item, Bool.false_eq_true, if_false]
    obtain ⟨hlex, hg, hscan, _⟩ := h
    refine ⟨hg, ?_⟩
    intro st l rest hnf hs
    have hs' : st.s = G l (x.r.text rest) false := by rw [← text_nil_append]; exact hs
    exact readInstance_notfound ops lex cfg d strict hskip st x.r hlex hscan l rest hs' hnf
  | noeq r g =>
    simp only [FileRec.item, Bool.false_eq_true, if_false]
    obtain ⟨hlex, hg, hscan⟩ := h
    refine ⟨hg, ?_⟩
    intro st l rest hnf hs
    have hs' : st.s = G l (r.textNoEq rest) false := by rw [← textNoEq_nil_append]; exact hs
    exact readInstance_noeq ops lex cfg d strict hskip st r hlex hscan l rest hs' hnf
/-- a part whose parameters are read where they stand with known severities (`ParamRd`: conforming values by
    `C01.covered_rd`, violating ones by the `C03_*_detected` theorems) is read by `STEPcomplex::STEPread`'s call of
    `SDAI_Application_instance::STEPread` with the accumulated severity -/
theorem cpartRdS_of_params {F} (env : Env F) (strict : Bool) (n0 : Byte) (ns sA sB : List Byte) (hn0 : isAlpha n0 = true)
    (hns : ns.all kwc = true) (hsA : sA.all isSpace = true) (hsB : sB.all isSpace = true) (ed : EntityD)
    (hent : env.dict.entity? (bytesToString (upperBytes (n0 :: ns))) = some ed)
    (qs : List (Param F × Sev)) (hne : qs ≠ []) (hattrs : ed.ownAttrs = qs.map (·.1.a))
    (hrd : ∀ q ∈ qs, ParamRd env strict q.1 q.2) :
    CPartRdS env strict { n0 := n0, ns := ns, sA := sA, body := renderParams (qs.map (·.1)), sB := sB, vals := qs.map (·.1.v) }
      (accum .null (qs.map (·.2))) (aaccum qs) := by
  refine ⟨hn0, hns, hsA, hsB, ed, hent, ?_⟩
  intro l sk rest
  rw [hattrs]
  exact instSTEPread_params_sev env strict qs hne hrd l sk rest

/-- a record of a data section: one of `FileRec`, or an externally mapped record whose parts are read with the
    severities `sv` (a violation inside a part) -/
inductive FileRecV (F : Type) where
  | base (y : FileRec F)
  | cxbad (r : CRec F) (g : List Byte) (sv : CPart F → Sev × Sev)

/-- the severity an externally mapped record is read with: the merge `STEPcomplex::STEPread` makes of its parts' -/
def cxRecSev {F} (cfg : RWCfg) (d : Dict) (r : CRec F) (sv : CPart F → Sev × Sev) : Sev :=
  cxSev cfg (match (mkCInst d r : MInst F).parts with | p :: _ => p.name | [] => "") sv r.parts

def FileRecV.item {F} (cfg : RWCfg) (d : Dict) : FileRecV F → Item F × Bool
  | .base y => y.item d
  | .cxbad r g sv =>
    ({ body := r.text [], g := g, id := r.id, mkI := mkCInst d r,
       out := { mkCInst d r with parts := r.parts.foldl (fun ps c => setPart ps c.name c.vals) (mkCInst d r).parts,
                                 state := stateOf (cxRecSev cfg d r sv) },
       sev := cxRecSev cfg d r sv }, true)

def FileRecVOK {F} (env : Env F) (strict : Bool) : FileRecV F → Prop
  | .base y => FileRecOK env strict y
  | .cxbad r g sv => r.Lex ∧ Seps g ∧
      env.dict.complexSets.contains (sortNames ((r.parts.map (·.name)).filter (fun n => (env.dict.entity? n).isSome))) = true ∧
      (∀ c ∈ r.parts, (env.dict.entity? c.name).isSome = true) ∧
      ∀ c ∈ r.parts, CPartRdS env (env.cfg.complexPartStrict.getD strict) c (sv c).1 (sv c).2

/-- **a violation inside an externally mapped record, up to the file verdict** (`_partial`):
    `C03_confined_every_record_shape_partial` with one more record shape - an externally mapped record
    `#id = ( PART(…) PART(…) … );` (known parts, legal combination) every part of which is read where it stands with a
    known severity (`CPartRdS`; from the parameters' `ParamRd` facts by `cpartRdS_of_params`).  Its instance keeps every
    part's values, its severity is the merge `STEPcomplex::STEPread` makes (`cxSev`: the head part's result, merged - in
    the source as repaired by C15-7/8 - with what the other parts report), `ReadInstance` resynchronises from the record's
    start when that is WARNING or worse and leaves the stream behind the record's `;` either way; so every other record,
    of whatever shape, is read to the outcome it has on its own, the severity is reported in file order, and a severity
    worse than a user message makes p21read exit with 1. -/
theorem C03_violation_inside_complex_record_confined_partial {F} (ops : FloatOps F) (lex : LexCfg) (cfg : RWCfg) (d : Dict)
    (strict : Bool) (hskip : cfg.skipInstanceSkipsComments = true) (hrs : cfg.errorResyncsFromStart = true)
    (hrep : cfg.complexReportsError = true)
    (ys : List (FileRecV F)) (g0 sp gE after : List Byte) (hg0 : Seps g0) (hsp : sp.all isSpace = true) (hgE : Seps gE)
    (hnd : (ys.map (fun y => (y.item cfg d).1.id)).Nodup)
    (hok : ∀ y ∈ ys, FileRecVOK { ops := ops, lex := lex, cfg := cfg, dict := d,
                                  lookup := Mgr.lookup d ({ insts := (keptI (ys.map (FileRecV.item cfg d))).map (·.mkI) } : Mgr F) } strict y) :
    ∃ res, readDataSection ops lex cfg d strict false
        (g0 ++ renderItems ((ys.map (FileRecV.item cfg d)).map (·.1)) (endsec sp (gE ++ (endIso ++ 59 :: after)))) = .ok res ∧
      res.mgr.insts = (keptI (ys.map (FileRecV.item cfg d))).map (·.out) ∧
      res.reported = ((keptI (ys.map (FileRecV.item cfg d))).map (·.sev)).reverse ∧
      res.created = (keptI (ys.map (FileRecV.item cfg d))).length ∧ res.notCreated = nskipI (ys.map (FileRecV.item cfg d)) ∧
      res.valid = (keptI (ys.map (FileRecV.item cfg d))).length ∧ res.invalid = nskipI (ys.map (FileRecV.item cfg d)) ∧
      (0 < nskipI (ys.map (FileRecV.item cfg d)) → exitStatus res.sev = 1) ∧
      ((∃ x ∈ keptI (ys.map (FileRecV.item cfg d)), x.sev.toInt < Sev.usermsg.toInt) → exitStatus res.sev = 1) := by
  obtain ⟨res, hr, hm, hsev, hc, hnc, hv, hinv, hrp⟩ :=
    readDataSection_itemsX ops lex cfg d strict sp _ hsp (tailOK_endIso gE hgE after) (ys.map (FileRecV.item cfg d)) g0 hg0
      (by simpa [List.map_map, Function.comp_def] using hnd)
      (by
        intro z hz
        obtain ⟨y, hy, rfl⟩ := List.mem_map.mp hz
        cases y with
        | base y => exact fileRec_item1 ops lex cfg d strict hskip _ y (hok _ hy)
        | cxbad r g sv =>
          simp only [FileRecV.item, if_true]
          obtain ⟨hl, hg, hlegal, _, _⟩ := hok _ hy
          refine ⟨hg, rfl, ?_⟩
          intro m hnone l c k hc h47 h92
          obtain ⟨l', h⟩ := createInstance_crec cfg hskip d m r hl hnone hlegal l g hg c k hc h47 h92
          refine ⟨l', ?_⟩
          show createInstance cfg d m (G l (r.text [] ++ (g ++ c :: k)) false) = _
          rw [ctext_nil_append]
          exact h)
      (by
        intro z hz
        obtain ⟨y, hy, rfl⟩ := List.mem_map.mp hz
        cases y with
        | base y => exact fileRec_item2 ops lex cfg d strict hskip hrs hrep _ y (hok _ hy)
        | cxbad r g sv =>
          simp only [FileRecV.item, if_true]
          obtain ⟨hl, hg, hlegal, hknown, hparts⟩ := hok _ hy
          refine ⟨hg, rfl, rfl, ?_, ?_⟩
          · simp only [keyOf, setParts_names]
          · intro st l rest hfind hlk hs
            have hs' : st.s = G l (r.text rest) false := by rw [← ctext_nil_append]; exact hs
            exact readInstance_crec_sev ops lex cfg d strict st hrep hrs hskip r hl l rest hs' (mkCInst d r) hfind rfl rfl sv
              (fun c hc => by rw [hlk]; exact hparts c hc) (mkCInst_names d r hknown))
  refine ⟨res, hr, hm, hrp, hc, hnc, hv, hinv, ?_, ?_⟩
  · intro hpos
    rw [C03_exit_iff_worse_than_usermsg, hsev, if_pos hpos]
    exact Int.lt_of_le_of_lt (greater_le_right _ _) (by decide)
  · rintro ⟨x, hx, hb⟩
    rw [C03_exit_iff_worse_than_usermsg, hsev]
    have hbad := errAfterI_bad (keptI (ys.map (FileRecV.item cfg d))) x hx hb
    split
    · exact Int.lt_of_le_of_lt (greater_le_left _ _) (hbad _)
    · exact hbad _

/-! ### the composition principle, and an externally mapped record with an unknown part keyword -/

/-- **confinement, the composition principle** (`_partial`): for *any* records - given only by their text, the instance
    pass 1 makes and the outcome pass 2 has (`Item`) - that satisfy the two record-level facts (`Item1OK` / `Item2OKF` for a
    record that is created and read, `ItemSkip1` / `ItemSkip2` for one neither pass reads), in any order, number and
    layout, with pairwise different ids: every record has in the file exactly the outcome it has on its own, the
    severities reported are the records' in file order, and one skipped record or one severity worse than a user message
    makes p21read exit with 1.  Every record-level theorem of this file (`anyStep_item1/2`, `fileRec_item1/2`,
    `C03_unknown_part_keyword_record`, …) composes to the file verdict through this theorem. -/
theorem C03_confined_items_partial {F} (ops : FloatOps F) (lex : LexCfg) (cfg : RWCfg) (d : Dict) (strict : Bool)
    (zs : List (Item F × Bool)) (g0 sp gE after : List Byte) (hg0 : Seps g0) (hsp : sp.all isSpace = true) (hgE : Seps gE)
    (hnd : (zs.map (·.1.id)).Nodup)
    (h1 : ∀ z ∈ zs, if z.2 then Item1OK cfg d z.1 else ItemSkip1 cfg d z.1)
    (h2 : ∀ z ∈ zs, if z.2 then Item2OKF ops lex cfg d strict (Mgr.lookup d ({ insts := (keptI zs).map (·.mkI) } : Mgr F)) z.1
                     else ItemSkip2 ops lex cfg d strict z.1) :
    ∃ res, readDataSection ops lex cfg d strict false
        (g0 ++ renderItems (zs.map (·.1)) (endsec sp (gE ++ (endIso ++ 59 :: after)))) = .ok res ∧
      res.mgr.insts = (keptI zs).map (·.out) ∧ res.reported = ((keptI zs).map (·.sev)).reverse ∧
      res.created = (keptI zs).length ∧ res.notCreated = nskipI zs ∧ res.valid = (keptI zs).length ∧ res.invalid = nskipI zs ∧
      (0 < nskipI zs → exitStatus res.sev = 1) ∧
      ((∃ x ∈ keptI zs, x.sev.toInt < Sev.usermsg.toInt) → exitStatus res.sev = 1) := by
  obtain ⟨res, hr, hm, hsev, hc, hnc, hv, hinv, hrp⟩ :=
    readDataSection_itemsX ops lex cfg d strict sp _ hsp (tailOK_endIso gE hgE after) zs g0 hg0 hnd h1 h2
  refine ⟨res, hr, hm, hrp, hc, hnc, hv, hinv, ?_, ?_⟩
  · intro hpos
    rw [C03_exit_iff_worse_than_usermsg, hsev, if_pos hpos]
    exact Int.lt_of_le_of_lt (greater_le_right _ _) (by decide)
  · rintro ⟨x, hx, hb⟩
    rw [C03_exit_iff_worse_than_usermsg, hsev]
    have hbad := errAfterI_bad (keptI zs) x hx hb
    split
    · exact Int.lt_of_le_of_lt (greater_le_left _ _) (hbad _)
    · exact hbad _

theorem mkCInst_name_mem {F} (d : Dict) (r : CRec F) (c : CPart F) (hc : c ∈ r.parts) (hk : (d.entity? c.name).isSome = true) :
    c.name ∈ (mkCInst d r : MInst F).parts.map (·.name) := by
  simp only [mkCInst, List.map_map, Function.comp_def, List.map_id']
  -- the part's name is known, so it survives the filter, and sorting keeps it
  have hmem : c.name ∈ (r.parts.map (·.name)).filter (fun n => (d.entity? n).isSome) :=
    List.mem_filter.mpr ⟨List.mem_map_of_mem (f := fun x : CPart F => x.name) hc, hk⟩
  have hsort : ∀ (ns : List String) (n : String), n ∈ ns → n ∈ sortNames ns := by
    intro ns
    induction ns with
    | nil => intro n h; cases h
    | cons x t ih =>
      intro n h
      have hins : ∀ (a : String) (l : List String) (b : String), b = a ∨ b ∈ l → b ∈ insertSorted a l := by
        intro a l
        induction l with
        | nil => intro b hb; rcases hb with rfl | hb <;> simp_all [insertSorted]
        | cons y u ihu =>
          intro b hb
          unfold insertSorted
          split
          · rcases hb with rfl | hb
            · simp
            · exact List.mem_cons_of_mem _ hb
          · rcases hb with rfl | hb
            · exact List.mem_cons_of_mem _ (ihu _ (Or.inl rfl))
            · rcases List.mem_cons.mp hb with rfl | hb
              · simp
              · exact List.mem_cons_of_mem _ (ihu _ (Or.inr hb))
      show n ∈ insertSorted x (sortNames t)
      rcases List.mem_cons.mp h with rfl | h
      · exact hins _ _ _ (Or.inl rfl)
      · exact hins _ _ _ (Or.inr (ih n h))
  exact hsort _ _ hmem

/-- the record `#id = ( P₁(…) … Pₖ(…) UNKNOWN(…) … );` as the loops see it: created with the parts the dictionary knows,
    read to INPUT_ERROR with the values of the parts in front of the unknown one -/
def cxUnknownItem {F} (cfg : RWCfg) (d : Dict) (r : CRec F) (g : List Byte) (cs : List (CPart F)) (sv : CPart F → Sev × Sev) :
    Item F :=
  { body := r.text [], g := g, id := r.id, mkI := mkCInst d r,
    out := { mkCInst d r with parts := cs.foldl (fun ps c => setPart ps c.name c.vals) (mkCInst d r).parts, state := .incomplete },
    sev := ((cxFold cfg (match (mkCInst d r : MInst F).parts with | p :: _ => p.name | [] => "") sv .null .null cs).1.greater
             .inputError).greater .warning }

/-- **an externally mapped record with a part whose keyword names no entity** (record level, both passes): pass 1 leaves
    the unknown keyword out (`STEPcomplex::Initialize`) and - the known names being a legal combination - creates the
    instance; pass 2 reads the parts in front of the unknown one (each with a known severity), gives up at the unknown
    keyword with INPUT_ERROR, resynchronises from the record's start and leaves the stream behind the record's `;`: the
    record satisfies `Item1OK` and `Item2OKF`, so by `C03_confined_items_partial` the file fails (INPUT_ERROR is worse
    than a user message) and every other record keeps its outcome. -/
theorem C03_unknown_part_keyword_record {F} (ops : FloatOps F) (lex : LexCfg) (cfg : RWCfg) (d : Dict) (strict : Bool)
    (hskip : cfg.skipInstanceSkipsComments = true) (hrs : cfg.errorResyncsFromStart = true)
    (hrep : cfg.complexReportsError = true) (lk : Lookup)
    (r : CRec F) (g : List Byte) (hl : r.Lex) (hg : Seps g)
    (hlegal : d.complexSets.contains (sortNames ((r.parts.map (·.name)).filter (fun n => (d.entity? n).isSome))) = true)
    (sv : CPart F → Sev × Sev) (cs : List (CPart F)) (up : CPart F) (tl : List (CPart F)) (hsplit : r.parts = cs ++ up :: tl)
    (hknown : ∀ c ∈ cs, (d.entity? c.name).isSome = true) (hunk : d.entity? up.name = none)
    (hparts : ∀ c ∈ cs, CPartRdS { ops := ops, lex := lex, cfg := cfg, dict := d, lookup := lk }
                (cfg.complexPartStrict.getD strict) c (sv c).1 (sv c).2) :
    Item1OK cfg d (cxUnknownItem cfg d r g cs sv) ∧ Item2OKF ops lex cfg d strict lk (cxUnknownItem cfg d r g cs sv) ∧
    (cxUnknownItem cfg d r g cs sv).sev.toInt < Sev.usermsg.toInt := by
  refine ⟨⟨hg, rfl, ?_⟩, ⟨hg, rfl, rfl, ?_, ?_⟩, ?_⟩
  · intro m hnone l c k hc h47 h92
    obtain ⟨l', h⟩ := createInstance_crec cfg hskip d m r hl hnone hlegal l g hg c k hc h47 h92
    refine ⟨l', ?_⟩
    show createInstance cfg d m (G l (r.text [] ++ (g ++ c :: k)) false) = _
    rw [ctext_nil_append]
    exact h
  · simp only [cxUnknownItem, keyOf, setParts_names]
  · intro st l rest hfind hlk hs
    have hs' : st.s = G l (r.text rest) false := by rw [← ctext_nil_append]; exact hs
    exact readInstance_crec_unknown ops lex cfg d strict st hrep hrs hskip r hl l rest hs' (mkCInst d r) hfind rfl rfl sv cs up tl
      hsplit (fun c hc => by rw [hlk]; exact hparts c hc) hunk
      (fun c hc => mkCInst_name_mem d r c (by rw [hsplit]; simp [hc]) (hknown c hc))
  · show (((cxFold cfg _ sv .null .null cs).1.greater .inputError).greater .warning).toInt < Sev.usermsg.toInt
    exact Int.lt_of_le_of_lt (Int.le_trans (greater_le_left _ _) (greater_le_right _ _)) (by decide)

/-! ### an unterminated record: `#id = NAME ( … )` with its `;` missing, the next record behind it -/

/-- tie: the source reports a record whose `;` is missing (fix C03-2) -/
theorem C03_source_missing_semicolon_reported : Generated.rwCfg.missingSemicolonReported = true := by decide

/-- the record's text without its `;` -/
def bodyU {F} (r : Rec F) : List Byte :=
  r.ds ++ (r.s1 ++ 61 :: (r.s2 ++ r.n0 :: (r.ns ++ (r.s3 ++ 40 :: (renderParams r.ps ++ r.s4)))))

theorem bodyU_textU {F} (r : Rec F) (k : List Byte) : bodyU r ++ 35 :: k = r.textU k := by
  simp [bodyU, Rec.textU, Rec.u1, Rec.u2, Rec.u3, Rec.u4, List.append_assoc]

/-- the unterminated record as pass 2 sees it: read with its parameters' severity and WARNING on top -/
def utermA {F} (d : Dict) (rA : Rec F) (qs : List (Param F × Sev)) : Item F :=
  { body := bodyU rA, g := [], id := rA.id, mkI := mkInst d (rA, []),
    out := { id := rA.id, parts := [{ name := rA.name, vals := rA.ps.map (·.v) }],
             state := stateOf ((accum .null (qs.map (·.2))).greater .warning) },
    sev := (accum .null (qs.map (·.2))).greater .warning }

/-- the record behind it as pass 2 sees it: skipped -/
def utermB {F} (rB : Rec F) (gB : List Byte) : Item F :=
  { body := rB.text [], g := gB, id := rB.id, mkI := { id := rB.id, parts := [] }, out := { id := rB.id, parts := [] }, sev := .null }

/-- both together as pass 1 sees them: one record -/
def utermP {F} (d : Dict) (rA rB : Rec F) (gB : List Byte) (qs : List (Param F × Sev)) : Item F :=
  { utermA d rA qs with body := rA.textU (rB.text []), g := gB }

theorem digit_plain {c : Byte} (h : isDigit c = true) : plainc c = true := by
  simp [isDigit] at h
  simp [plainc]
  refine ⟨⟨⟨?_, ?_⟩, ?_⟩, ?_⟩ <;> (intro hc; subst hc; revert h; decide)

/-- **an unterminated record, up to the file verdict** (`_partial`; source with the report of C03-2): in a data section of
    records given by their record-level facts (`pre`, `suf`: any shapes of this file), a record
    `#idA = NAME ( p₁ , … , pₙ )` whose `;` is missing - its parameters read where they stand with known severities that
    do not trigger the resynchronisation - stands directly in front of a record `#idB = …;`.  Pass 1 takes both for one
    record (`SkipInstance` runs on to the `;` of the second): the first is created, the second is not - and is not
    counted either.  Pass 2 reads the first record's parameters to their values, finds the `#` where the `;` must stand and
    reports WARNING on top of what the parameters reported; it then comes to the second record, finds no instance for it,
    skips it and counts it invalid.  Every other record is read to exactly the outcome it has on its own, the severities
    are reported in file order, and p21read exits with 1.  (The record behind the unterminated one is lost: the
    confinement clause of the statement does not hold for it - the check's oracle expects exactly this loss.) -/
theorem C03_unterminated_record_confined_partial {F} (ops : FloatOps F) (lex : LexCfg) (cfg : RWCfg) (d : Dict) (strict : Bool)
    (hskip : cfg.skipInstanceSkipsComments = true) (hmsr : cfg.missingSemicolonReported = true)
    (pre suf : List (Item F × Bool)) (rA rB : Rec F) (gB : List Byte) (qs : List (Param F × Sev))
    (g0 sp gE after : List Byte) (hg0 : Seps g0) (hsp : sp.all isSpace = true) (hgE : Seps gE)
    (hnd : ((pre ++ (utermA d rA qs, true) :: (utermB rB gB, false) :: suf).map (·.1.id)).Nodup)
    (hlexA : rA.Lex) (hscanA : ∀ q ∈ rA.ps, ParamScan q) (eA : EntityD) (hentA : d.entity? rA.name = some eA)
    (habsA : eA.abstract = false) (hqs : rA.ps = qs.map (·.1)) (hattrsA : eA.attrs = rA.ps.map (·.a))
    (hparA : ∀ q ∈ qs, ParamRd { ops := ops, lex := lex, cfg := cfg, dict := d,
                                 lookup := Mgr.lookup d ({ insts := (keptI (pre ++ (utermA d rA qs, true) :: suf)).map (·.mkI) } : Mgr F) } strict q.1 q.2)
    (hnoA : (cfg.errorResyncsFromStart && decide ((accum .null (qs.map (·.2))).toInt ≤ Sev.warning.toInt)) = false)
    (hlexB : rB.Lex) (hscanB : ∀ q ∈ rB.ps, ParamScan q) (hgB : Seps gB)
    (h1 : ∀ z ∈ pre ++ suf, if z.2 then Item1OK cfg d z.1 else ItemSkip1 cfg d z.1)
    (h2 : ∀ z ∈ pre ++ suf, if z.2 then Item2OKF ops lex cfg d strict
            (Mgr.lookup d ({ insts := (keptI (pre ++ (utermA d rA qs, true) :: suf)).map (·.mkI) } : Mgr F)) z.1
          else ItemSkip2 ops lex cfg d strict z.1) :
    ∃ res, readDataSection ops lex cfg d strict false
        (g0 ++ renderItems ((pre ++ (utermA d rA qs, true) :: (utermB rB gB, false) :: suf).map (·.1))
          (endsec sp (gE ++ (endIso ++ 59 :: after)))) = .ok res ∧
      res.mgr.insts = (keptI (pre ++ (utermA d rA qs, true) :: suf)).map (·.out) ∧
      res.reported = ((keptI (pre ++ (utermA d rA qs, true) :: suf)).map (·.sev)).reverse ∧
      res.created = (keptI (pre ++ (utermA d rA qs, true) :: suf)).length ∧
      res.notCreated = nskipI (pre ++ suf) ∧
      res.valid = (keptI (pre ++ (utermA d rA qs, true) :: suf)).length ∧
      res.invalid = nskipI (pre ++ suf) + 1 ∧ exitStatus res.sev = 1 := by
  have hne : qs ≠ [] := by
    intro h; rw [h] at hqs; exact hlexA.pne (by simpa using hqs)
  obtain ⟨bodyB, hPB, eB⟩ := Rec.passes_t1 rB hlexB hscanB []
  have eB' : ∀ R, rB.text [] ++ R = rB.ds ++ (bodyB ++ 59 :: R) := by
    intro R
    have : rB.text [] = rB.ds ++ (bodyB ++ [59]) := by unfold Rec.text; rw [eB]
    rw [this]; simp
  -- the two views
  let zs1 : List (Item F × Bool) := pre ++ (utermP d rA rB gB qs, true) :: suf
  let pre2 : List (Item F × Bool) := pre ++ [(utermA d rA qs, true)]
  let suf2 : List (Item F × Bool) := (utermB rB gB, false) :: suf
  have h22 : pre2 ++ suf2 = pre ++ (utermA d rA qs, true) :: (utermB rB gB, false) :: suf := by simp [pre2, suf2]
  have hmkP : (utermP d rA rB gB qs).mkI = (utermA d rA qs).mkI := rfl
  have hkmk : (keptI zs1).map (·.mkI) = (keptI (pre ++ (utermA d rA qs, true) :: suf)).map (·.mkI) := by
    simp [zs1, keptI_append, keptI_cons_true, hmkP]
  have hk2 : keptI (pre2 ++ suf2) = keptI (pre ++ (utermA d rA qs, true) :: suf) := by
    simp [pre2, suf2, keptI_append, keptI_cons_true, keptI_cons_false, keptI]
  have hn1 : nskipI zs1 = nskipI (pre ++ suf) := by simp [zs1, nskipI_append, nskipI_cons_true]
  have hn2 : nskipI (pre2 ++ suf2) = nskipI (pre ++ suf) + 1 := by
    simp [pre2, suf2, nskipI_append, nskipI_cons_true, nskipI_cons_false, nskipI]; omega
  have htext : ∀ E, renderItems (zs1.map (·.1)) E = renderItems ((pre2 ++ suf2).map (·.1)) E := by
    intro E
    simp only [zs1, pre2, suf2, List.map_append, List.map_cons, List.map_nil, renderItems_append, renderItems, utermP, utermA, utermB,
      List.nil_append, List.append_assoc]
    rw [← bodyU_textU]
    simp [List.append_assoc]
  have hnd1 : (zs1.map (·.1.id)).Nodup := by
    have hsub : List.Sublist (zs1.map (·.1.id)) ((pre ++ (utermA d rA qs, true) :: (utermB rB gB, false) :: suf).map (·.1.id)) := by
      simp only [zs1, List.map_append, List.map_cons]
      exact List.Sublist.append_left (List.Sublist.cons₂ _ (List.Sublist.cons _ (List.Sublist.refl _))) _
    exact hnd.sublist hsub
  obtain ⟨res, hr, hm, hsev, hc, hnc, hv, hinv, hrep⟩ :=
    readDataSection_twoviews ops lex cfg d strict sp _ hsp (tailOK_endIso gE hgE after) zs1 pre2 suf2 g0 hg0 (by simp [suf2])
      (htext _) (by rw [hkmk, hk2]) hnd1 (by rw [h22]; exact hnd)
      (by
        intro z hz
        simp only [zs1, List.mem_append, List.mem_cons] at hz
        rcases hz with hz | rfl | hz
        · exact h1 z (by simp [hz])
        · -- pass 1 takes both records for one
          simp only [if_true]
          refine ⟨hgB, rfl, ?_⟩
          intro m hnone l c k hc h47 h92
          let b : BRec := { ds := rA.ds, s1 := rA.s1, s2 := rA.s2, n0 := rA.n0, ns := rA.ns, s3 := rA.s3,
                            body := renderParams rA.ps ++ (rA.s4 ++ 35 :: (rB.ds ++ bodyB)), s4 := [] }
          have hbl : b.Lex := ⟨hlexA.dne, hlexA.ddig, hlexA.dhi, hlexA.h1, hlexA.h2, hlexA.h3, Seps.blanks [] (by simp), hlexA.hn0, hlexA.hns⟩
          have hbp : Passes b.body :=
            Passes.append (Passes.params rA.ps hlexA.pne hscanA) (Passes.append (Passes.seps hlexA.h4)
              (Passes.append (a := [35]) (Passes.plain 35 (by decide))
                (Passes.append (Passes.all_plain _ (all_imp (fun c => digit_plain) _ hlexB.ddig)) hPB)))
          obtain ⟨l', h⟩ := createInstance_brec cfg hskip d m b hbl hbp hnone eA hentA habsA l gB hgB c k hc h47 h92
          refine ⟨l', ?_⟩
          have etxt : (utermP d rA rB gB qs).body ++ ((utermP d rA rB gB qs).g ++ c :: k) = b.text (gB ++ c :: k) := by
            show rA.textU (rB.text []) ++ (gB ++ c :: k) = _
            rw [← bodyU_textU, List.append_assoc, List.cons_append, eB']
            simp [bodyU, b, BRec.text, BRec.t1, BRec.t2, BRec.t3, BRec.t4, List.append_assoc]
          rw [etxt, h]
          have hentA' : d.entity? (bytesToString (upperBytes (rA.n0 :: rA.ns))) = some eA := hentA
          simp [utermP, utermA, mkInst, hentA', b, BRec.id, BRec.name, Rec.id, Rec.name]
        · exact h1 z (by simp [hz]))
      (by
        intro z hz
        rw [hkmk]
        simp only [pre2, List.mem_append, List.mem_singleton] at hz
        rcases hz with hz | rfl
        · have := h2 z (by simp [hz])
          cases hb : z.2 with
          | true => simp only [hb, if_true] at this ⊢; exact this.toH
          | false => simp only [hb, Bool.false_eq_true, if_false] at this ⊢; exact this
        · simp only [if_true]
          refine ⟨Seps.blanks [] (by simp), rfl, rfl, by simp [keyOf, utermA, mkInst], ?_⟩
          intro st l k hfind hlk hs
          have hs' : st.s = G l (rA.textU k) false := by
            rw [← bodyU_textU]; simpa [utermA] using hs
          have hrd : ∀ L, instSTEPread { ops := ops, lex := lex, cfg := cfg, dict := d, lookup := Mgr.lookup d st.mgr } strict
              eA.attrs (G L (40 :: (renderParams rA.ps ++ rA.u4 k)) false) =
                .ok ⟨accum .null (qs.map (·.2)), rA.ps.map (·.v), G ((40 :: renderParams rA.ps).reverse ++ L) (rA.u4 k) false, aaccum qs⟩ := by
            intro L
            obtain ⟨sk', hsk, h⟩ := instSTEPread_params_sev { ops := ops, lex := lex, cfg := cfg, dict := d, lookup := Mgr.lookup d st.mgr }
              strict qs hne (by intro q hq; rw [hlk]; exact hparA q hq) L false (rA.u4 k)
            have : sk' = false := by rcases hsk with h | h <;> exact h
            subst this
            rw [hattrsA, hqs]
            simpa [List.map_map, Function.comp_def] using h
          obtain ⟨l', h⟩ := readInstance_nosemi ops lex cfg d strict st rA hlexA hmsr l k false hs' (mkInst d (rA, [])) hfind rfl rfl
            { name := rA.name, vals := match d.entity? rA.name with | some e => defaults e.attrs | none => [] } rfl eA hentA
            _ _ _ hrd hnoA
          refine ⟨l', ?_⟩
          rw [h]
          simp [utermA, mkInst])
      (by
        intro z hz
        rw [hkmk]
        simp only [suf2, List.mem_cons] at hz
        rcases hz with rfl | hz
        · simp only [Bool.false_eq_true, if_false]
          refine ⟨hgB, ?_⟩
          intro st l rest hnf hs
          have hs' : st.s = G l (rB.text rest) false := by rw [← text_nil_append]; exact hs
          exact readInstance_notfound ops lex cfg d strict hskip st rB hlexB hscanB l rest hs' hnf
        · exact h2 z (by simp [hz]))
  rw [htext] at hr
  rw [h22] at hr
  rw [hk2] at hm hv hrep hsev
  rw [hn2] at hinv hsev
  refine ⟨res, hr, hm, hrep, ?_, ?_, hv, hinv, ?_⟩
  · rw [hc]; simp [zs1, keptI_append, keptI_cons_true]
  · rw [hnc, hn1]
  · rw [C03_exit_iff_worse_than_usermsg, hsev, if_pos (by omega)]
    exact Int.lt_of_le_of_lt (greater_le_right _ _) (by decide)

/-- **a SELECT value outside the select list, reference form**: for an attribute of a select type, a reference `#id` to an
    instance that exists but answers to none of the select's entity members (`assignEntity` finds no member: the value is of
    a type outside the select list): `SDAI_Select::STEPread` stores nothing and returns WARNING; the attribute is unset,
    any layout behind the reference is stepped over and the stream rests at the delimiter (`ParamRd`) - so by
    `C03_violation_confined_partial` the record, the file and p21read's exit status are flagged and everything else keeps
    its value.  (The keyword form is `C03_foreign_select_keyword_detected`, a dangling reference reads the same way with
    `readEntityRef`'s own WARNING.) -/
theorem C03_select_reference_outside_list_detected {F} (env : Env F) (strict : Bool) (hcfg : env.lex.criSkipsComments = true)
    (a : AttrD) (n : String) (hty : a.ty = .one (.select n)) (hder : a.derived = false) (hred : a.redefining = false)
    (sd : SelectD) (hsd : env.dict.select? n = some sd)
    (ds : List Byte) (hne : ds ≠ []) (hds : ds.all isDigit = true) (hhi : ((digitsVal ds 0 : Nat) : Int) ≤ IStream.intMax)
    (names : List String) (hnames : env.lookup ((digitsVal ds 0 : Nat) : Int) = some names)
    (hasg : assignEntity env sd ((digitsVal ds 0 : Nat) : Int) = none)
    (before after : List Byte) (hb : Seps before) (ha : Seps after) :
    ParamRd env strict { a := a, v := .one (.atom .unset), tok := 35 :: ds, before := before, after := after } .warning :=
  ⟨hred, ⟨35, ds, rfl, by decide, by decide, by decide⟩, hb, fun l sk d rest hd =>
    ⟨sk, Or.inl rfl, by
      simpa using attr_select_ref_nomember env strict a n hty hder hcfg sd hsd ds hne hds hhi names hnames hasg l sk after ha d rest hd⟩⟩

/-- … and as an element of an aggregate of selects (re-export of `ElemRdS.selRef_nomember`): WARNING, unset, the loop goes
    on behind it; with `C03_violation_inside_aggregate_detected` up to the file verdict -/
theorem C03_select_reference_outside_list_element_detected {F} (env : Env F) (hcfg : env.lex.criSkipsComments = true)
    (hagg : env.cfg.aggrSkipsComments = true) (n : String) (sd : SelectD) (hsd : env.dict.select? n = some sd)
    (ds : List Byte) (hne : ds ≠ []) (hds : ds.all isDigit = true) (hhi : ((digitsVal ds 0 : Nat) : Int) ≤ IStream.intMax)
    (names : List String) (hnames : env.lookup ((digitsVal ds 0 : Nat) : Int) = some names)
    (hasg : assignEntity env sd ((digitsVal ds 0 : Nat) : Int) = none)
    (before after : List Byte) (hb : Seps before) (ha : Seps after) :
    ElemRdS env (.select n) { tok := 35 :: ds, before := before, after := after, v := .atom .unset } .warning :=
  ElemRdS.selRef_nomember env hcfg hagg n sd hsd ds hne hds hhi names hnames hasg before after hb ha

/-- **a violation inside a typed select value**: `KEYWORD blanks ( blanks value )` for a select attribute where the keyword
    names a non-entity member and the value between the parentheses is read with WARNING (`LeafRdS`, e.g.
    `LeafRdS.integer_junk`: `CNT_T('a')`): the attribute reader returns WARNING with the member chosen and the value unset,
    and rests at the delimiter (`ParamRd`) - record, file and exit status follow by `C03_violation_confined_partial`. -/
theorem C03_violation_inside_typed_select_detected {F} (env : Env F) (strict : Bool) (a : AttrD) (n : String)
    (hty : a.ty = .one (.select n)) (hder : a.derived = false) (hred : a.redefining = false)
    (hcfg : env.lex.criSkipsComments = true) (sd : SelectD) (hsd : env.dict.select? n = some sd)
    (m : SelMember) (n0 : Byte) (ns : List Byte) (hn0 : isAlpha n0 = true) (hns : ns.all selc = true)
    (hfind : sd.members.find? (fun x => x.name == bytesToString (upperBytes (n0 :: ns)) && !x.ty.isEntity) = some m)
    (tok : List Byte) (av : Atom F) (hleaf : LeafRdS env m tok av .warning) (sA sB : List Byte)
    (hsA : sA.all isSpace = true) (hsB : sB.all isSpace = true) (before after : List Byte) (hb : Seps before) (ha : Seps after) :
    ParamRd env strict { a := a, v := .one (.sel m.name av), tok := n0 :: (ns ++ (sA ++ 40 :: (sB ++ (tok ++ [41])))),
                         before := before, after := after } .warning := by
  obtain ⟨hn0s, hn047, _, _, _, _, _, _, hn092⟩ := alpha_facts hn0
  refine ⟨hred, ⟨n0, _, rfl, hn0s, hn047, hn092⟩, hb, fun l sk d rest hd => ?_⟩
  obtain ⟨sk', hsk, h⟩ := attr_select_typed_sev env strict a n hty hder hcfg sd hsd m n0 ns hn0 hns hfind tok av .warning hleaf
    sA sB hsA hsB l sk after ha d rest hd
  exact ⟨sk', hsk, by simpa [List.append_assoc] using h⟩

/-- the value of an INTEGER member that starts like no integer (re-export of `LeafRdS.integer_junk`) -/
theorem C03_wrong_kind_in_integer_select_member_detected {F} (env : Env F) (m : SelMember) (hm : m.ty = .integer)
    (j0 : Byte) (js : List Byte) (hj0s : isSpace j0 = false) (hj047 : j0 ≠ 47)
    (hj0d : isDigit j0 = false) (hj043 : j0 ≠ 43) (hj045 : j0 ≠ 45)
    (hj : ∀ b ∈ j0 :: js, delimAt env.lex attrDelims b = false)
    (hsemi : env.lex.criStopsAtSemicolon = true → ∀ b ∈ j0 :: js, b ≠ 59) :
    LeafRdS env m (j0 :: js) .unset .warning :=
  LeafRdS.integer_junk env m hm j0 js hj0s hj047 hj0d hj043 hj045 hj hsemi

/-- the value of an INTEGER member that starts like an integer but has something behind it (`CNT_T(5X)`, `CNT_T(1.5)`;
    re-export of `LeafRdS.integer_tok_junk`): the integer is stored, WARNING - with
    `C03_violation_inside_typed_select_detected` and `C03_violation_confined_partial` up to the file verdict -/
theorem C03_integer_select_member_with_trailing_garbage_detected {F} (env : Env F) (m : SelMember) (hm : m.ty = .integer)
    (tok : List Byte) (htok : Grammar.isInteger tok = true) (hlo : IStream.longMin ≤ Grammar.denoteInteger tok)
    (hhi : Grammar.denoteInteger tok < IStream.longMax)
    (j0 : Byte) (js : List Byte) (hj0s : isSpace j0 = false) (hj047 : j0 ≠ 47) (hj0d : isDigit j0 = false)
    (hj : ∀ b ∈ j0 :: js, delimAt env.lex attrDelims b = false)
    (hsemi : env.lex.criStopsAtSemicolon = true → ∀ b ∈ j0 :: js, b ≠ 59) :
    LeafRdS env m (tok ++ j0 :: js) (.int (Grammar.denoteInteger tok)) .warning :=
  LeafRdS.integer_tok_junk env m hm tok htok hlo hhi j0 js hj0s hj047 hj0d hj hsemi

/-- the value of a REAL or NUMBER member of a select that starts like no real numeral (`LEN_T('a')`; re-export of
    `LeafRdS.real_junk`): nothing stored, WARNING - with `C03_violation_inside_typed_select_detected` and
    `C03_violation_confined_partial` up to the file verdict -/
theorem C03_wrong_kind_in_real_select_member_detected {F} (env : Env F) (m : SelMember) (hm : m.ty = .real ∨ m.ty = .number)
    (j0 : Byte) (js : List Byte) (hj0s : isSpace j0 = false) (hj047 : j0 ≠ 47) (hnn : notNum j0)
    (hj : ∀ b ∈ j0 :: js, delimAt env.lex attrDelims b = false)
    (hsemi : env.lex.criStopsAtSemicolon = true → ∀ b ∈ j0 :: js, b ≠ 59) :
    LeafRdS env m (j0 :: js) .unset .warning :=
  LeafRdS.real_junk env m hm j0 js hj0s hj047 hnn hj hsemi

/-- tie: the source keeps what `CheckRemainingInput` reports behind a `$` (C09's repair is in) -/
theorem C03_source_dollar_keeps_error : Generated.rwLexCfg.dollarKeepsError = true := by decide

/-- **something behind `$`** (`$1`, `$abc`: any text without `,` `)`, not starting with a blank or `/`) for an OPTIONAL
    attribute of any type: the `$` is taken as the unset value and the rest is reported, WARNING (in a source that keeps
    the report: `C03_source_dollar_keeps_error`) -/
theorem C03_junk_after_dollar_detected {F} (env : Env F) (strict : Bool) (a : AttrD) (hopt : a.optional = true)
    (hder : a.derived = false) (hred : a.redefining = false) (hkeep : env.lex.dollarKeepsError = true)
    (j0 : Byte) (js : List Byte) (hj0s : isSpace j0 = false) (hj047 : j0 ≠ 47)
    (hj : ∀ b ∈ j0 :: js, delimAt env.lex attrDelims b = false)
    (hsemi : env.lex.criStopsAtSemicolon = true → ∀ b ∈ j0 :: js, b ≠ 59) (before : List Byte) (hb : Seps before) :
    ParamRd env strict { a := a, v := nullOf a, tok := 36 :: j0 :: js, before := before, after := [] } .warning :=
  ⟨hred, ⟨36, j0 :: js, rfl, by decide, by decide, by decide⟩, hb, fun l sk d rest hd =>
    ⟨sk, Or.inl rfl, by simpa using attr_dollar_junk env strict a hopt hder hkeep j0 js hj0s hj047 hj hsemi l sk d rest hd⟩⟩

/-! ### externally mapped instances: what the attributes of a part report reaches the instance
    (`STEPcomplex::STEPread` as repaired by fixes/C15: `complexMergesAttrErrors`) -/

/-- tie: the source at hand merges the errors of the other parts' attributes and `ReadInstance` reports a complex
    instance's error (C15's regenerated table `AttrNull.codeShape`, cross-checked by tools/extract.d/p21rw.py) -/
theorem C03_source_complex_part_errors_reach_file :
    Generated.rwCfg.complexMergesAttrErrors = true ∧ Generated.rwCfg.complexMergesParts = false ∧
    Generated.rwCfg.complexReportsError = true := by decide

theorem attrSev_le (a : AttrD) (sev rest : Sev) (hder : a.derived = false) (hs : sev.toInt ≤ Sev.usermsg.toInt) :
    (attrSev a sev rest).toInt ≤ sev.toInt := by
  unfold attrSev
  simp only [hder, Bool.false_eq_true, if_false, hs, if_true]
  exact greater_le_right _ _

/-- **attribute → what the part's attributes report**: at whatever point of the parameter list the reader stands, if
    `STEPattribute::STEPread` of the next attribute (not flagged derived) reports a severity at or below USERMSG, the
    merge of the attributes' own error descriptors (`IR.asev`) is at least that severe — whatever follows. -/
theorem C03_attribute_error_reaches_attribute_merge {F} (env : Env F) (strict : Bool) (a : AttrD) (rest : List AttrD)
    (err : Sev) (c : Byte) (s : IStream) (r : IR F) (sev : Sev) (v : MVal F) (s2 : IStream)
    (hred : a.redefining = false) (hder : a.derived = false)
    (ha : attrSTEPread env strict a (readTokenSeparator s) = .ok (sev, v, s2))
    (hs : sev.toInt ≤ Sev.usermsg.toInt)
    (h : readAttrs env strict (a :: rest) err c s = .ok r) : r.asev.toInt ≤ sev.toInt := by
  unfold readAttrs at h
  simp only [hred, Bool.false_eq_true, if_false, ha, bind, Except.bind] at h
  generalize hp : shiftInto c s2 = p at h
  obtain ⟨c2, s3⟩ := p
  dsimp only at h
  split at h
  · generalize hq : checkRemainingInput env.lex (some attrDelims) s3
      (if sev.toInt ≤ Sev.usermsg.toInt then err.greater sev else err) = q at h
    obtain ⟨s4, err2⟩ := q
    try dsimp only at h
    split at h
    · simp only [pure, Except.pure] at h; cases h; exact attrSev_le a sev _ hder hs
    · split at h
      · simp only [pure, Except.pure] at h; cases h; exact attrSev_le a sev _ hder hs
      · split at h
        · cases h
        · simp only [pure, Except.pure] at h
          cases h
          exact attrSev_le a sev _ hder hs
  · split at h
    · simp only [pure, Except.pure] at h
      cases h
      exact attrSev_le a sev _ hder hs
    · split at h
      · cases h
      · simp only [pure, Except.pure] at h
        cases h
        exact attrSev_le a sev _ hder hs

/-- what the parts other than the first have reported so far (`partErrors`) is not lost by the part loop: the way out at the
    closing parenthesis merges it (either merge shape of the source); the two early ways out - a part without `(`, a keyword
    that is no part of the instance - return before the merge, with INPUT_ERROR or worse -/
theorem complexLoop_perr_le {F} (env : Env F) (strict : Bool) (head : String)
    (hm : (env.cfg.complexMergesParts || env.cfg.complexMergesAttrErrors) = true) :
    ∀ (fuel : Nat) (err perr : Sev) (ps : List (MPart F)) (s : IStream) (r : CR F),
      complexLoop env strict head fuel err perr ps s = .ok r →
      r.sev.toInt ≤ perr.toInt ∨ r.sev.toInt ≤ Sev.inputError.toInt := by
  intro fuel
  induction fuel with
  | zero => intro err perr ps s r h; simp [complexLoop] at h
  | succ n ih =>
    intro err perr ps s r h
    unfold complexLoop at h
    simp only [hm, if_true, bind, Except.bind, pure, Except.pure] at h
    split at h
    · cases h; exact Or.inl (greater_le_right _ _)
    · split at h
      · cases h; exact Or.inr (Int.le_trans (greater_le_left _ _) (greater_le_right _ _))
      · split at h
        · rename_i ed _ _
          generalize hq : instSTEPread env strict ed.ownAttrs _ = q at h
          cases q with
          | error e => simp at h
          | ok rp =>
            dsimp only at h
            split at h
            · exact ih _ _ _ _ _ h
            · rcases ih _ _ _ _ _ h with h1 | h1
              · exact Or.inl (Int.le_trans h1 (greater_le_left _ _))
              · exact Or.inr h1
        · cases h; exact Or.inr (Int.le_trans (greater_le_left _ _) (greater_le_right _ _))

/-- **a part's attributes → the externally mapped instance** (the repaired `STEPcomplex::STEPread`): at whatever point of
    the part list the reader stands (`err`, `perr`, `ps`, `s` arbitrary), when the next part is one of the instance's
    parts other than the first and `SDAI_Application_instance::STEPread` reads its parameter list with attribute merge
    `rp.asev`, the instance's result is at least that severe - or INPUT_ERROR or worse (the early ways out) - whatever parts
    follow; in particular worse than USERMSG when the merge is.  With `C03_attribute_error_reaches_attribute_merge`
    (attribute → `asev`) and `C03_reported_error_fails_file` (`ReadInstance` hands the result to `AppendEntityErrorMsg`:
    `complexReportsError`) a violation in any attribute of any such part fails the file.  (Attributes a sibling part
    derives are excepted by the source; the model's dictionary does not mark them - no generated schema has one in an
    externally mapped combination.) -/
theorem C03_part_attribute_error_reaches_complex_instance {F} (env : Env F) (strict : Bool) (head : String)
    (hm : env.cfg.complexMergesAttrErrors = true) (hp : env.cfg.complexMergesParts = false)
    (fuel : Nat) (err perr : Sev) (ps : List (MPart F)) (s : IStream) (r : CR F)
    (hopen : (s.peekC).1 ≠ 41)
    (nm : String) (hnm : nm = bytesToString (upperBytes (readStdKeyword (s.peekC).2.ws).1))
    (hpar : ((readStdKeyword (s.peekC).2.ws).2.ws.peekC).1 = 40)
    (p0 : MPart F) (hfind : ps.find? (·.name == nm) = some p0) (ed : EntityD) (hent : env.dict.entity? nm = some ed)
    (hne : (nm == head) = false)
    (rp : IR F) (hrd : instSTEPread env strict ed.ownAttrs ((readStdKeyword (s.peekC).2.ws).2.ws.peekC).2 = .ok rp)
    (hbad : rp.asev.toInt < Sev.usermsg.toInt)
    (h : complexLoop env strict head (fuel + 1) err perr ps s = .ok r) : r.sev.toInt < Sev.usermsg.toInt := by
  unfold complexLoop at h
  have e41 : ((s.peekC).1 == 41) = false := by simpa using hopen
  have e40 : (((readStdKeyword (s.peekC).2.ws).2.ws.peekC).1 != 40) = false := by simp [hpar]
  subst hnm
  simp only [e41, Bool.false_eq_true, if_false, bind, Except.bind, pure, Except.pure, e40, hfind, hent, hrd, hne, hp] at h
  rcases complexLoop_perr_le env strict head (by simp [hm]) _ _ _ _ _ _ h with h2 | h2
  · exact Int.lt_of_le_of_lt (Int.le_trans h2 (greater_le_right _ _)) hbad
  · exact Int.lt_of_le_of_lt h2 (by decide)

/-! ### the hypotheses are satisfiable: a string where an INTEGER is required -/
def exDict : Dict :=
  { entities := [{ name := "A", attrs := [{ name := "x", ty := .one .integer, optional := false }], ancestors := ["A"] }],
    selects := [], complexSets := [] }
def exRun : M (FileResult Nat) :=
  readDataSection dblOps Generated.rwLexCfg Generated.rwCfg exDict false false
    (stringToBytes "#1=A('q');ENDSEC;END-ISO-10303-21;")

example : (match exRun with | .ok r => r.reported | .error _ => []) = [Sev.warning] := by decide
example : (match exRun with | .ok r => exitStatus r.sev | .error _ => 0) = 1 := by decide

/-- tie: the source at hand merges the filler's USERMSG with what `CheckRemainingInput` found behind the `$` (fixes/C03-4 is
    in; the extractor pins both shapes) - `C03_junk_after_dollar_filler_detected` speaks about the generated configuration -/
theorem C03_source_filler_keeps_error : Generated.rwCfg.fillerKeepsError = true := by decide

/-- the filler's own severity is USERMSG for the four kinds it knows, whatever the float arithmetic (C15's regenerated table) -/
theorem C03_source_filler_usermsg {F} (ops : FloatOps F) (k : AttrNull.Kind)
    (hk : k = .integer ∨ k = .real ∨ k = .number ∨ k = .string) (s : IStream) : (fillerValue ops k s).1 = Sev.usermsg := by
  rcases hk with rfl | rfl | rfl | rfl <;> rfl

/-- **something behind `$` for a required INTEGER / REAL / NUMBER / STRING attribute, lenient mode** (p21read's default):
    the filler is substituted and - in a source that merges the filler's USERMSG with what `CheckRemainingInput` found
    (`fillerKeepsError`, fixes/C03-4) - the report survives: WARNING, the stream at the delimiter.  In the source without
    that repair the report is overwritten: `C03_filler_drops_error_witness`. -/
theorem C03_junk_after_dollar_filler_detected {F} (env : Env F) (a : AttrD) (k : AttrNull.Kind) (hk : FillerKind a.ty k)
    (hopt : a.optional = false) (hder : a.derived = false) (hred : a.redefining = false)
    (hkeep : env.cfg.fillerKeepsError = true)
    (j0 : Byte) (js : List Byte) (hj0s : isSpace j0 = false) (hj047 : j0 ≠ 47)
    (hj : ∀ b ∈ j0 :: js, delimAt env.lex attrDelims b = false)
    (hsemi : env.lex.criStopsAtSemicolon = true → ∀ b ∈ j0 :: js, b ≠ 59) (before : List Byte) (hb : Seps before)
    (v : MVal F) (hv : ∀ s, (fillerValue env.ops k s).2.1 = v) :
    ParamRd env false { a := a, v := v, tok := 36 :: j0 :: js, before := before, after := [] } .warning := by
  have hk' : k = .integer ∨ k = .real ∨ k = .number ∨ k = .string := by
    rcases hk with ⟨_, h⟩ | ⟨_, h⟩ | ⟨_, h⟩ | ⟨_, h⟩ <;> simp [h]
  refine ⟨hred, ⟨36, j0 :: js, rfl, by decide, by decide, by decide⟩, hb, fun l sk d rest hd => ⟨sk, Or.inl rfl, ?_⟩⟩
  have h := attr_dollar_junk_filler env a k hk hopt hder hkeep (C03_source_filler_usermsg env.ops k hk') j0 js hj0s hj047 hj hsemi l sk d rest hd
  rw [hv] at h
  simpa using h

/-! ### the hypotheses of the headline theorem are satisfiable: `#1=A(X);` `#2=A(5);` - a violating record before a
    conforming one; both outcomes and exit 1 follow from `C03_violation_confined_partial` -/
def wAttrX : AttrD := { name := "x", ty := .one .integer, optional := false }
def wBad : Step Nat :=
  { r := { ds := [49], s1 := [], s2 := [], n0 := 65, ns := [], s3 := [],
           ps := [{ a := wAttrX, v := .one (.atom .unset), tok := [88], before := [], after := [] }], s4 := [] },
    g := [10], sev := .warning,
    out := { id := 1, parts := [{ name := "A", vals := [.one (.atom .unset)] }], state := .incomplete } }
def wGood : Step Nat :=
  { r := { ds := [50], s1 := [], s2 := [], n0 := 65, ns := [], s3 := [],
           ps := [{ a := wAttrX, v := .one (.atom (.int (Grammar.denoteInteger [53]))), tok := [53], before := [], after := [] }], s4 := [] },
    g := [10], sev := .null,
    out := { id := 2, parts := [{ name := "A", vals := [.one (.atom (.int (Grammar.denoteInteger [53])))] }], state := .complete } }

theorem C03_violation_confined_witness :
    ∃ res, readDataSection dblOps Generated.rwLexCfg Generated.rwCfg exDict false false
        ([10] ++ renderRecs ([wBad, wGood].map Step.rg) (endsec [] ([10] ++ (endIso ++ 59 :: [10])))) = .ok res ∧
      res.mgr.insts = [wBad.out, wGood.out] ∧ res.reported = [Sev.null, Sev.warning] ∧ exitStatus res.sev = 1 := by
  have sepsNil : Seps ([] : List Byte) := Seps.blanks [] (by decide)
  have sepsNl : Seps ([10] : List Byte) := Seps.blanks [10] (by decide)
  have hlexB : wBad.r.Lex := ⟨by decide, by decide, by decide, sepsNil, sepsNil, sepsNil, sepsNil, by decide, by decide, by decide⟩
  have hlexG : wGood.r.Lex := ⟨by decide, by decide, by decide, sepsNil, sepsNil, sepsNil, sepsNil, by decide, by decide, by decide⟩
  have hscanB : ∀ q ∈ wBad.r.ps, ParamScan q := by
    intro q hq
    simp only [wBad, List.mem_singleton] at hq
    subst hq
    exact ⟨(Passes.plain 88 (by decide)).toS, sepsNil, sepsNil⟩
  have hscanG : ∀ q ∈ wGood.r.ps, ParamScan q := by
    intro q hq
    simp only [wGood, List.mem_singleton] at hq
    subst hq
    exact ⟨(Passes.plain 53 (by decide)).toS, sepsNil, sepsNil⟩
  have hent : exDict.entity? "A" = some { name := "A", attrs := [wAttrX], ancestors := ["A"] } := by decide
  obtain ⟨res, hr, hm, hrep, _, _, _, hex⟩ := C03_violation_confined_partial dblOps Generated.rwLexCfg Generated.rwCfg exDict false
    (by decide) (by decide) [wBad, wGood] [10] [] [10] [10] sepsNl (by decide) sepsNl (by decide)
    (by
      intro x hx
      simp only [List.mem_cons, List.mem_singleton, List.not_mem_nil, or_false] at hx
      rcases hx with rfl | rfl
      · exact ⟨hlexB, sepsNl, hscanB, _, hent, rfl⟩
      · exact ⟨hlexG, sepsNl, hscanG, _, hent, rfl⟩)
    (by
      intro x hx
      simp only [List.mem_cons, List.mem_singleton, List.not_mem_nil, or_false] at hx
      rcases hx with rfl | rfl
      · refine Or.inl ⟨hlexB, sepsNl, hscanB, [(({ a := wAttrX, v := .one (.atom .unset), tok := [88], before := [], after := [] } : Param Nat), Sev.warning)], _, rfl, ?_, hent, rfl, rfl, rfl⟩
        intro q hq
        simp only [List.mem_singleton] at hq
        subst hq
        exact C03_wrong_kind_for_integer_detected _ false wAttrX rfl rfl rfl 88 [] (by decide) (by decide) (by decide) (by decide)
          (by decide) (by decide) (by decide) (by decide) (by intro _ b hb; simp only [List.mem_singleton] at hb; subst hb; decide)
          [] sepsNil
      · refine Or.inl ⟨hlexG, sepsNl, hscanG, [(({ a := wAttrX, v := .one (.atom (.int (Grammar.denoteInteger [53]))), tok := [53], before := [], after := [] } : Param Nat), Sev.null)], _, rfl, ?_, hent, rfl, rfl, rfl⟩
        intro q hq
        simp only [List.mem_singleton] at hq
        subst hq
        refine ⟨rfl, ⟨53, [], rfl, by decide, by decide, by decide⟩, sepsNil, fun l sk d rest hd => ⟨sk, Or.inl rfl, ?_⟩⟩
        exact attr_integer _ false wAttrX rfl rfl (by decide) [53] (by decide) (by decide) (by decide) l sk [] sepsNil d rest hd)
  exact ⟨res, hr, hm, hrep, hex ⟨wBad, by simp, by decide⟩⟩

/-! ### … and of the mixed theorem: `#1=A(X);` `#2=(A(5)B(7));` - a violating internally mapped record before an
    externally mapped one; both outcomes and exit 1 follow from `C03_violation_confined_mixed_partial` -/
def wAttrY : AttrD := { name := "y", ty := .one .integer, optional := false }
def mxDict : Dict :=
  { entities := [{ name := "A", attrs := [wAttrX], ancestors := ["A"] }, { name := "B", attrs := [wAttrY], ancestors := ["B"] }],
    selects := [], complexSets := [["A", "B"]] }
def mxP5 : Param Nat := { a := wAttrX, v := .one (.atom (.int (Grammar.denoteInteger [53]))), tok := [53], before := [], after := [] }
def mxP7 : Param Nat := { a := wAttrY, v := .one (.atom (.int (Grammar.denoteInteger [55]))), tok := [55], before := [], after := [] }
def mxPartA : CPart Nat := { n0 := 65, ns := [], sA := [], body := renderParams [mxP5], sB := [], vals := [mxP5.v] }
def mxPartB : CPart Nat := { n0 := 66, ns := [], sA := [], body := renderParams [mxP7], sB := [], vals := [mxP7.v] }
def mxCRec : CRec Nat := { ds := [50], s1 := [], s2 := [], parts := [mxPartA, mxPartB], s4 := [] }
def mxSteps : List (AnyStep Nat) := [.simple wBad, .complex mxCRec [10]]
def mxEnvL (lk : Lookup) : Env Nat :=
  { ops := dblOps, lex := Generated.rwLexCfg, cfg := Generated.rwCfg, dict := mxDict, lookup := lk }
def mxStrict : Bool := Generated.rwCfg.complexPartStrict.getD false

/-- the records of the witness file satisfy `AnyStepOK`, whatever the lookup -/
theorem mxSteps_ok (lk : Lookup) : ∀ y ∈ mxSteps, AnyStepOK (mxEnvL lk) false y := by
  have sepsNil : Seps ([] : List Byte) := Seps.blanks [] (by decide)
  have sepsNl : Seps ([10] : List Byte) := Seps.blanks [10] (by decide)
  have hlexB : wBad.r.Lex := ⟨by decide, by decide, by decide, sepsNil, sepsNil, sepsNil, sepsNil, by decide, by decide, by decide⟩
  have hscanB : ∀ q ∈ wBad.r.ps, ParamScan q := by
    intro q hq
    simp only [wBad, List.mem_singleton] at hq
    subst hq
    exact ⟨(Passes.plain 88 (by decide)).toS, sepsNil, sepsNil⟩
  have hentA : mxDict.entity? "A" = some { name := "A", attrs := [wAttrX], ancestors := ["A"] } := by decide
  have hentB : mxDict.entity? "B" = some { name := "B", attrs := [wAttrY], ancestors := ["B"] } := by decide
  have hint : ∀ (env : Env Nat) (strict : Bool) (a : AttrD) (d : Byte), env.lex.criSkipsComments = true →
      a.ty = .one .integer → a.derived = false → a.redefining = false → isDigit d = true →
      Grammar.isInteger [d] = true → IStream.longMin ≤ Grammar.denoteInteger [d] → Grammar.denoteInteger [d] < IStream.longMax →
      d ≠ 47 → d ≠ 92 →
      ParamRd env strict { a := a, v := .one (.atom (.int (Grammar.denoteInteger [d]))), tok := [d], before := [], after := [] } .null := by
    intro env strict a d hcri hty hder hred hd hi hlo hhi h47 h92
    refine ⟨hred, ⟨d, [], rfl, digit_not_space hd, h47, h92⟩, sepsNil, fun l sk dl rest hdl => ⟨sk, Or.inl rfl, ?_⟩⟩
    exact attr_integer env strict a hty hder hcri [d] hi hlo hhi l sk [] sepsNil dl rest hdl
  intro y hy
  simp only [mxSteps, List.mem_cons, List.not_mem_nil, or_false] at hy
  rcases hy with rfl | rfl
  · refine ⟨⟨hlexB, sepsNl, hscanB, _, hentA, rfl⟩, Or.inl ⟨hlexB, sepsNl, hscanB,
      [(({ a := wAttrX, v := .one (.atom .unset), tok := [88], before := [], after := [] } : Param Nat), Sev.warning)], _, rfl, ?_, hentA, rfl, rfl, rfl⟩⟩
    intro q hq
    simp only [List.mem_singleton] at hq
    subst hq
    exact C03_wrong_kind_for_integer_detected _ false wAttrX rfl rfl rfl 88 [] (by decide) (by decide) (by decide) (by decide)
      (by decide) (by decide) (by decide) (by show ∀ b ∈ [(88 : Byte)], delimAt Generated.rwLexCfg attrDelims b = false; decide)
      (by intro _ b hb; simp only [List.mem_singleton] at hb; subst hb; decide)
      [] sepsNil
  · refine ⟨⟨by decide, by decide, by decide, sepsNil, sepsNil, sepsNil, List.cons_ne_nil _ _, ?_⟩, sepsNl,
      (by show mxDict.complexSets.contains (sortNames ((mxCRec.parts.map (·.name)).filter (fun n => (mxDict.entity? n).isSome))) = true; decide), ?_, ?_⟩
    · intro c hc
      simp only [mxCRec, List.mem_cons, List.not_mem_nil, or_false] at hc
      rcases hc with rfl | rfl
      · exact ⟨by decide, by decide, by decide, by decide, [53], rfl, Bal.plain 53 [] (by decide) (by decide) (by decide) Bal.nil⟩
      · exact ⟨by decide, by decide, by decide, by decide, [55], rfl, Bal.plain 55 [] (by decide) (by decide) (by decide) Bal.nil⟩
    · intro c hc
      simp only [mxCRec, List.mem_cons, List.not_mem_nil, or_false] at hc
      rcases hc with rfl | rfl
      · show (mxDict.entity? mxPartA.name).isSome = true; decide
      · show (mxDict.entity? mxPartB.name).isSome = true; decide
    · intro c hc
      simp only [mxCRec, List.mem_cons, List.not_mem_nil, or_false] at hc
      have e1 : accum .null [Sev.null] = .null := by decide
      rcases hc with rfl | rfl
      · refine ⟨by decide, by decide, by decide, by decide, _, hentA, ?_⟩
        intro l sk rest
        obtain ⟨sk', hsk, h⟩ := instSTEPread_params_sev (mxEnvL lk) mxStrict [(mxP5, Sev.null)] (List.cons_ne_nil _ _)
          (by
            intro q hq
            simp only [List.mem_singleton] at hq
            subst hq
            exact hint (mxEnvL lk) mxStrict wAttrX 53 (by show Generated.rwLexCfg.criSkipsComments = true; decide) rfl rfl rfl (by decide) (by decide) (by decide) (by decide) (by decide) (by decide)) l sk rest
        have e2 : aaccum [(mxP5, Sev.null)] = .null := by decide
        rw [e2] at h
        exact ⟨sk', hsk, h⟩
      · refine ⟨by decide, by decide, by decide, by decide, _, hentB, ?_⟩
        intro l sk rest
        obtain ⟨sk', hsk, h⟩ := instSTEPread_params_sev (mxEnvL lk) mxStrict [(mxP7, Sev.null)] (List.cons_ne_nil _ _)
          (by
            intro q hq
            simp only [List.mem_singleton] at hq
            subst hq
            exact hint (mxEnvL lk) mxStrict wAttrY 55 (by show Generated.rwLexCfg.criSkipsComments = true; decide) rfl rfl rfl (by decide) (by decide) (by decide) (by decide) (by decide) (by decide)) l sk rest
        have e2 : aaccum [(mxP7, Sev.null)] = .null := by decide
        rw [e2] at h
        exact ⟨sk', hsk, h⟩

theorem C03_violation_confined_mixed_witness :
    ∃ res, readDataSection dblOps Generated.rwLexCfg Generated.rwCfg mxDict false false
        ([10] ++ renderItems (mxSteps.map (AnyStep.item mxDict)) (endsec [] ([10] ++ (endIso ++ 59 :: [10])))) = .ok res ∧
      res.mgr.insts = [wBad.out, finCInstOf mxDict mxCRec] ∧ res.reported = [Sev.null, Sev.warning] ∧
      exitStatus res.sev = 1 := by
  have sepsNl : Seps ([10] : List Byte) := Seps.blanks [10] (by decide)
  obtain ⟨res, hr, hm, hrep, _, _, hex⟩ := C03_violation_confined_mixed_partial dblOps Generated.rwLexCfg Generated.rwCfg mxDict false
    (by decide) (by decide) (by decide) mxSteps [10] [] [10] [10] sepsNl (by decide) sepsNl (by decide)
    (fun y hy => mxSteps_ok _ y hy)
  exact ⟨res, hr, hm, hrep, hex ⟨.simple wBad, by simp [mxSteps], by decide⟩⟩

/-- `#1=A(X);⏎#2=(A(5)B(7));⏎#3 A(5);⏎` - a violating internally mapped record, a conforming externally mapped one and a
    record without its `=`: `C03_confined_every_record_shape_partial` applies; two instances with their own outcomes, one
    record not created and skipped, exit 1 -/
def mxNoEq : Rec Nat := { ds := [51], s1 := [], s2 := [32], n0 := 65, ns := [], s3 := [], ps := [mxP5], s4 := [] }
def mxFile : List (FileRec Nat) := [.kept (.simple wBad), .kept (.complex mxCRec [10]), .noeq mxNoEq [10]]

theorem C03_confined_every_record_shape_witness :
    ∃ res, readDataSection dblOps Generated.rwLexCfg Generated.rwCfg mxDict false false
        ([10] ++ renderItems ((mxFile.map (FileRec.item mxDict)).map (·.1)) (endsec [] ([10] ++ (endIso ++ 59 :: [10])))) = .ok res ∧
      res.mgr.insts = [wBad.out, finCInstOf mxDict mxCRec] ∧ res.reported = [Sev.null, Sev.warning] ∧
      res.created = 2 ∧ res.notCreated = 1 ∧ res.invalid = 1 ∧ exitStatus res.sev = 1 := by
  have sepsNil : Seps ([] : List Byte) := Seps.blanks [] (by decide)
  have sepsNl : Seps ([10] : List Byte) := Seps.blanks [10] (by decide)
  obtain ⟨res, hr, hm, hrep, hc, hnc, _, hinv, hex, _⟩ := C03_confined_every_record_shape_partial dblOps Generated.rwLexCfg
    Generated.rwCfg mxDict false (by decide) (by decide) (by decide) mxFile [10] [] [10] [10] sepsNl (by decide) sepsNl (by decide)
    (by
      intro y hy
      simp only [mxFile, List.mem_cons, List.not_mem_nil, or_false] at hy
      rcases hy with rfl | rfl | rfl
      · exact mxSteps_ok _ (.simple wBad) (by simp [mxSteps])
      · exact mxSteps_ok _ (.complex mxCRec [10]) (by simp [mxSteps])
      · refine ⟨⟨by decide, by decide, by decide, sepsNil, Seps.blanks [32] (by decide), sepsNil, sepsNil, by decide, by decide, by decide⟩,
          sepsNl, ?_⟩
        intro q hq
        simp only [mxNoEq, List.mem_singleton] at hq
        subst hq
        exact ⟨(Passes.plain 53 (by decide)).toS, sepsNil, sepsNil⟩)
  exact ⟨res, hr, hm, hrep, hc, hnc, hinv, hex (by decide)⟩

/-- `#1=(A(X)B(7));⏎#2=A(5);⏎` - an externally mapped record with a wrong-kind value inside its part `A`, before a conforming
    record: `C03_violation_inside_complex_record_confined_partial` applies; the complex instance keeps `B`'s value and is
    incomplete, WARNING is reported for it, the second record is complete, exit 1 -/
def mvPX : Param Nat := { a := wAttrX, v := .one (.atom .unset), tok := [88], before := [], after := [] }
def mvPartA : CPart Nat :=
  { n0 := 65, ns := [], sA := [], body := renderParams ([(mvPX, Sev.warning)].map (·.1)), sB := [],
    vals := [(mvPX, Sev.warning)].map (·.1.v) }
def mvPartB : CPart Nat :=
  { n0 := 66, ns := [], sA := [], body := renderParams ([(mxP7, Sev.null)].map (·.1)), sB := [], vals := [(mxP7, Sev.null)].map (·.1.v) }
def mvCRec : CRec Nat := { ds := [49], s1 := [], s2 := [], parts := [mvPartA, mvPartB], s4 := [] }
def mvSv (c : CPart Nat) : Sev × Sev := if c.n0 == 65 then (.warning, .warning) else (.null, .null)
def mvFile : List (FileRecV Nat) := [.cxbad mvCRec [10] mvSv, .base (.kept (.simple wGood))]

theorem C03_violation_inside_complex_record_witness :
    ∃ res, readDataSection dblOps Generated.rwLexCfg Generated.rwCfg mxDict false false
        ([10] ++ renderItems ((mvFile.map (FileRecV.item Generated.rwCfg mxDict)).map (·.1))
          (endsec [] ([10] ++ (endIso ++ 59 :: [10])))) = .ok res ∧
      res.reported = [Sev.null, Sev.warning] ∧ res.created = 2 ∧ res.mgr.insts.map (·.state) = [.incomplete, .complete] ∧
      exitStatus res.sev = 1 := by
  have sepsNil : Seps ([] : List Byte) := Seps.blanks [] (by decide)
  have sepsNl : Seps ([10] : List Byte) := Seps.blanks [10] (by decide)
  have hlexG : wGood.r.Lex := ⟨by decide, by decide, by decide, sepsNil, sepsNil, sepsNil, sepsNil, by decide, by decide, by decide⟩
  have hscanG : ∀ q ∈ wGood.r.ps, ParamScan q := by
    intro q hq
    simp only [wGood, List.mem_singleton] at hq
    subst hq
    exact ⟨(Passes.plain 53 (by decide)).toS, sepsNil, sepsNil⟩
  have hentA : mxDict.entity? "A" = some { name := "A", attrs := [wAttrX], ancestors := ["A"] } := by decide
  have hentB : mxDict.entity? "B" = some { name := "B", attrs := [wAttrY], ancestors := ["B"] } := by decide
  obtain ⟨res, hr, hm, hrep, hc, _, _, _, _, hex⟩ := C03_violation_inside_complex_record_confined_partial dblOps
    Generated.rwLexCfg Generated.rwCfg mxDict false (by decide) (by decide) (by decide) mvFile [10] [] [10] [10]
    sepsNl (by decide) sepsNl (by decide)
    (by
      intro y hy
      simp only [mvFile, List.mem_cons, List.not_mem_nil, or_false] at hy
      rcases hy with rfl | rfl
      · refine ⟨⟨by decide, by decide, by decide, sepsNil, sepsNil, sepsNil, List.cons_ne_nil _ _, ?_⟩, sepsNl, by decide, ?_, ?_⟩
        · intro c hc
          simp only [mvCRec, List.mem_cons, List.not_mem_nil, or_false] at hc
          rcases hc with rfl | rfl
          · exact ⟨by decide, by decide, by decide, by decide, [88], rfl, Bal.plain 88 [] (by decide) (by decide) (by decide) Bal.nil⟩
          · exact ⟨by decide, by decide, by decide, by decide, [55], rfl, Bal.plain 55 [] (by decide) (by decide) (by decide) Bal.nil⟩
        · intro c hc
          simp only [mvCRec, List.mem_cons, List.not_mem_nil, or_false] at hc
          rcases hc with rfl | rfl <;> decide
        · intro c hc
          simp only [mvCRec, List.mem_cons, List.not_mem_nil, or_false] at hc
          rcases hc with rfl | rfl
          · exact cpartRdS_of_params _ _ 65 [] [] [] (by decide) (by decide) (by decide) (by decide) _ hentA
              [(mvPX, Sev.warning)] (List.cons_ne_nil _ _) rfl (by
                intro q hq
                simp only [List.mem_singleton] at hq
                subst hq
                exact C03_wrong_kind_for_integer_detected _ _ wAttrX rfl rfl rfl 88 [] (by decide) (by decide) (by decide) (by decide)
                  (by decide) (by decide) (by decide) (by decide) (by intro _ b hb; simp only [List.mem_singleton] at hb; subst hb; decide)
                  [] sepsNil)
          · exact cpartRdS_of_params _ _ 66 [] [] [] (by decide) (by decide) (by decide) (by decide) _ hentB
              [(mxP7, Sev.null)] (List.cons_ne_nil _ _) rfl (by
                intro q hq
                simp only [List.mem_singleton] at hq
                subst hq
                refine ⟨rfl, ⟨55, [], rfl, by decide, by decide, by decide⟩, sepsNil, fun l sk d rest hd => ⟨sk, Or.inl rfl, ?_⟩⟩
                exact attr_integer _ _ wAttrY rfl rfl (by decide) [55] (by decide) (by decide) (by decide) l sk [] sepsNil d rest hd)
      · refine ⟨⟨hlexG, sepsNl, hscanG, _, hentA, rfl⟩, Or.inl ⟨hlexG, sepsNl, hscanG,
          [(({ a := wAttrX, v := .one (.atom (.int (Grammar.denoteInteger [53]))), tok := [53], before := [], after := [] } : Param Nat), Sev.null)],
          _, rfl, ?_, hentA, rfl, rfl, rfl⟩⟩
        intro q hq
        simp only [List.mem_singleton] at hq
        subst hq
        refine ⟨rfl, ⟨53, [], rfl, by decide, by decide, by decide⟩, sepsNil, fun l sk d rest hd => ⟨sk, Or.inl rfl, ?_⟩⟩
        exact attr_integer _ false wAttrX rfl rfl (by decide) [53] (by decide) (by decide) (by decide) l sk [] sepsNil d rest hd)
  refine ⟨res, hr, by rw [hrep]; decide, hc, by rw [hm]; decide, hex ?_⟩
  exact ⟨(FileRecV.item Generated.rwCfg mxDict (.cxbad mvCRec [10] mvSv)).1, List.mem_cons_self .., by decide⟩

/-- `#1=(A(5)Z(1)B(7));⏎#2=A(5);⏎` - an externally mapped record with a part `Z` the dictionary does not know, before a
    conforming record: `C03_unknown_part_keyword_record` and `C03_confined_items_partial` apply; the complex instance keeps
    `A`'s value and is incomplete, INPUT_ERROR is reported for it, the second record is complete, exit 1 -/
def muPartZ : CPart Nat := { n0 := 90, ns := [], sA := [], body := [49, 41], sB := [], vals := [] }
def muCRec : CRec Nat := { ds := [49], s1 := [], s2 := [], parts := [mxPartA, muPartZ, mxPartB], s4 := [] }
def muSv (_ : CPart Nat) : Sev × Sev := (.null, .null)
def muFile : List (Item Nat × Bool) :=
  [(cxUnknownItem Generated.rwCfg mxDict muCRec [10] [mxPartA] muSv, true), ((AnyStep.simple wGood).item mxDict, true)]

theorem C03_unknown_part_keyword_witness :
    ∃ res, readDataSection dblOps Generated.rwLexCfg Generated.rwCfg mxDict false false
        ([10] ++ renderItems (muFile.map (·.1)) (endsec [] ([10] ++ (endIso ++ 59 :: [10])))) = .ok res ∧
      res.reported = [Sev.null, Sev.inputError] ∧ res.created = 2 ∧
      res.mgr.insts.map (·.state) = [.incomplete, .complete] ∧ exitStatus res.sev = 1 := by
  have sepsNil : Seps ([] : List Byte) := Seps.blanks [] (by decide)
  have sepsNl : Seps ([10] : List Byte) := Seps.blanks [10] (by decide)
  have hlexG : wGood.r.Lex := ⟨by decide, by decide, by decide, sepsNil, sepsNil, sepsNil, sepsNil, by decide, by decide, by decide⟩
  have hscanG : ∀ q ∈ wGood.r.ps, ParamScan q := by
    intro q hq
    simp only [wGood, List.mem_singleton] at hq
    subst hq
    exact ⟨(Passes.plain 53 (by decide)).toS, sepsNil, sepsNil⟩
  have hentA : mxDict.entity? "A" = some { name := "A", attrs := [wAttrX], ancestors := ["A"] } := by decide
  have hlexU : muCRec.Lex := by
    refine ⟨by decide, by decide, by decide, sepsNil, sepsNil, sepsNil, List.cons_ne_nil _ _, ?_⟩
    intro c hc
    simp only [muCRec, List.mem_cons, List.not_mem_nil, or_false] at hc
    rcases hc with rfl | rfl | rfl
    · exact ⟨by decide, by decide, by decide, by decide, [53], rfl, Bal.plain 53 [] (by decide) (by decide) (by decide) Bal.nil⟩
    · exact ⟨by decide, by decide, by decide, by decide, [49], rfl, Bal.plain 49 [] (by decide) (by decide) (by decide) Bal.nil⟩
    · exact ⟨by decide, by decide, by decide, by decide, [55], rfl, Bal.plain 55 [] (by decide) (by decide) (by decide) Bal.nil⟩
  have hU : ∀ lk : Lookup, Item1OK Generated.rwCfg mxDict (cxUnknownItem Generated.rwCfg mxDict muCRec [10] [mxPartA] muSv) ∧
      Item2OKF dblOps Generated.rwLexCfg Generated.rwCfg mxDict false lk (cxUnknownItem Generated.rwCfg mxDict muCRec [10] [mxPartA] muSv) ∧
      (cxUnknownItem Generated.rwCfg mxDict muCRec [10] [mxPartA] muSv).sev.toInt < Sev.usermsg.toInt := by
    intro lk
    refine C03_unknown_part_keyword_record dblOps Generated.rwLexCfg Generated.rwCfg mxDict false (by decide) (by decide) (by decide) lk
      muCRec [10] hlexU sepsNl (by decide) muSv [mxPartA] muPartZ [mxPartB] rfl ?_ (by decide) ?_
    · intro c hc
      simp only [List.mem_singleton] at hc
      subst hc
      decide
    · intro c hc
      simp only [List.mem_singleton] at hc
      subst hc
      exact cpartRdS_of_params _ _ 65 [] [] [] (by decide) (by decide) (by decide) (by decide) _ hentA
        [(mxP5, Sev.null)] (List.cons_ne_nil _ _) rfl (by
          intro q hq
          simp only [List.mem_singleton] at hq
          subst hq
          refine ⟨rfl, ⟨53, [], rfl, by decide, by decide, by decide⟩, sepsNil, fun l sk d rest hd => ⟨sk, Or.inl rfl, ?_⟩⟩
          exact attr_integer _ _ wAttrX rfl rfl (by show Generated.rwLexCfg.criSkipsComments = true; decide) [53] (by decide) (by decide) (by decide) l sk [] sepsNil d rest hd)
  have hG : ∀ lk : Lookup, AnyStepOK { ops := dblOps, lex := Generated.rwLexCfg, cfg := Generated.rwCfg, dict := mxDict, lookup := lk }
      false (.simple wGood) := by
    intro lk
    refine ⟨⟨hlexG, sepsNl, hscanG, _, hentA, rfl⟩, Or.inl ⟨hlexG, sepsNl, hscanG,
      [(({ a := wAttrX, v := .one (.atom (.int (Grammar.denoteInteger [53]))), tok := [53], before := [], after := [] } : Param Nat), Sev.null)],
      _, rfl, ?_, hentA, rfl, rfl, rfl⟩⟩
    intro q hq
    simp only [List.mem_singleton] at hq
    subst hq
    refine ⟨rfl, ⟨53, [], rfl, by decide, by decide, by decide⟩, sepsNil, fun l sk d rest hd => ⟨sk, Or.inl rfl, ?_⟩⟩
    exact attr_integer _ false wAttrX rfl rfl (by show Generated.rwLexCfg.criSkipsComments = true; decide) [53] (by decide) (by decide) (by decide) l sk [] sepsNil d rest hd
  obtain ⟨res, hr, hm, hrep, hc, _, _, _, _, hex⟩ := C03_confined_items_partial dblOps Generated.rwLexCfg Generated.rwCfg mxDict false
    muFile [10] [] [10] [10] sepsNl (by decide) sepsNl (by decide)
    (by
      intro z hz
      simp only [muFile, List.mem_cons, List.not_mem_nil, or_false] at hz
      rcases hz with rfl | rfl
      · simp only [if_true]; exact (hU (fun _ => none)).1
      · simp only [if_true]; exact anyStep_item1 dblOps Generated.rwLexCfg Generated.rwCfg mxDict false (by decide) _ _ (hG (fun _ => none)))
    (by
      intro z hz
      simp only [muFile, List.mem_cons, List.not_mem_nil, or_false] at hz
      rcases hz with rfl | rfl
      · simp only [if_true]; exact (hU _).2.1
      · simp only [if_true]
        exact anyStep_item2 dblOps Generated.rwLexCfg Generated.rwCfg mxDict false (by decide) (by decide) (by decide) _ _ (hG _))
  refine ⟨res, hr, by rw [hrep]; decide, hc, by rw [hm]; decide, hex ?_⟩
  exact ⟨(cxUnknownItem Generated.rwCfg mxDict muCRec [10] [mxPartA] muSv), List.mem_cons_self .., (hU (fun _ => none)).2.2⟩

/-- `#2=A(5);⏎#1=A(5)#3=A(5);⏎` - the second record without its `;`: `C03_unterminated_record_confined_partial` applies;
    records 2 and 1 are created and read (WARNING for the unterminated one), record 3 is lost (skipped, invalid), exit 1 -/
def utRA : Rec Nat := { ds := [49], s1 := [], s2 := [], n0 := 65, ns := [], s3 := [], ps := [mxP5], s4 := [] }
def utRB : Rec Nat := { ds := [51], s1 := [], s2 := [], n0 := 65, ns := [], s3 := [], ps := [mxP5], s4 := [] }
def utPre : List (Item Nat × Bool) := [((AnyStep.simple wGood).item mxDict, true)]

theorem C03_unterminated_record_witness :
    ∃ res, readDataSection dblOps Generated.rwLexCfg Generated.rwCfg mxDict false false
        ([10] ++ renderItems ((utPre ++ (utermA mxDict utRA [(mxP5, Sev.null)], true) :: (utermB utRB [10], false) :: []).map (·.1))
          (endsec [] ([10] ++ (endIso ++ 59 :: [10])))) = .ok res ∧
      res.reported = [Sev.warning, Sev.null] ∧ res.created = 2 ∧ res.notCreated = 0 ∧ res.invalid = 1 ∧
      res.mgr.insts.map (·.state) = [.complete, .incomplete] ∧ exitStatus res.sev = 1 := by
  have sepsNil : Seps ([] : List Byte) := Seps.blanks [] (by decide)
  have sepsNl : Seps ([10] : List Byte) := Seps.blanks [10] (by decide)
  have hlexG : wGood.r.Lex := ⟨by decide, by decide, by decide, sepsNil, sepsNil, sepsNil, sepsNil, by decide, by decide, by decide⟩
  have hscanG : ∀ q ∈ wGood.r.ps, ParamScan q := by
    intro q hq
    simp only [wGood, List.mem_singleton] at hq
    subst hq
    exact ⟨(Passes.plain 53 (by decide)).toS, sepsNil, sepsNil⟩
  have hscan5 : ∀ q ∈ [mxP5], ParamScan q := by
    intro q hq
    simp only [List.mem_singleton] at hq
    subst hq
    exact ⟨(Passes.plain 53 (by decide)).toS, sepsNil, sepsNil⟩
  have hentA : mxDict.entity? "A" = some { name := "A", attrs := [wAttrX], ancestors := ["A"] } := by decide
  have hG : ∀ lk : Lookup, AnyStepOK { ops := dblOps, lex := Generated.rwLexCfg, cfg := Generated.rwCfg, dict := mxDict, lookup := lk }
      false (.simple wGood) := by
    intro lk
    refine ⟨⟨hlexG, sepsNl, hscanG, _, hentA, rfl⟩, Or.inl ⟨hlexG, sepsNl, hscanG,
      [(({ a := wAttrX, v := .one (.atom (.int (Grammar.denoteInteger [53]))), tok := [53], before := [], after := [] } : Param Nat), Sev.null)],
      _, rfl, ?_, hentA, rfl, rfl, rfl⟩⟩
    intro q hq
    simp only [List.mem_singleton] at hq
    subst hq
    refine ⟨rfl, ⟨53, [], rfl, by decide, by decide, by decide⟩, sepsNil, fun l sk d rest hd => ⟨sk, Or.inl rfl, ?_⟩⟩
    exact attr_integer _ false wAttrX rfl rfl (by show Generated.rwLexCfg.criSkipsComments = true; decide) [53] (by decide) (by decide) (by decide) l sk [] sepsNil d rest hd
  obtain ⟨res, hr, hm, hrep, hc, hnc, _, hinv, hex⟩ := C03_unterminated_record_confined_partial dblOps Generated.rwLexCfg
    Generated.rwCfg mxDict false (by decide) (by decide) utPre [] utRA utRB [10] [(mxP5, Sev.null)] [10] [] [10] [10]
    sepsNl (by decide) sepsNl (by decide)
    ⟨by decide, by decide, by decide, sepsNil, sepsNil, sepsNil, sepsNil, by decide, by decide, by decide⟩ hscan5
    { name := "A", attrs := [wAttrX], ancestors := ["A"] } hentA rfl rfl rfl
    (by
      intro q hq
      simp only [List.mem_singleton] at hq
      subst hq
      refine ⟨rfl, ⟨53, [], rfl, by decide, by decide, by decide⟩, sepsNil, fun l sk d rest hd => ⟨sk, Or.inl rfl, ?_⟩⟩
      exact attr_integer _ false wAttrX rfl rfl (by decide) [53] (by decide) (by decide) (by decide) l sk [] sepsNil d rest hd)
    (by decide)
    ⟨by decide, by decide, by decide, sepsNil, sepsNil, sepsNil, sepsNil, by decide, by decide, by decide⟩ hscan5 sepsNl
    (by
      intro z hz
      simp only [utPre, List.append_nil, List.mem_singleton] at hz
      subst hz
      simp only [if_true]
      exact anyStep_item1 dblOps Generated.rwLexCfg Generated.rwCfg mxDict false (by decide) (fun _ => none) _ (hG _))
    (by
      intro z hz
      simp only [utPre, List.append_nil, List.mem_singleton] at hz
      subst hz
      simp only [if_true]
      exact anyStep_item2 dblOps Generated.rwLexCfg Generated.rwCfg mxDict false (by decide) (by decide) (by decide) _ _ (hG _))
  refine ⟨res, hr, by rw [hrep]; decide, by rw [hc]; decide, by rw [hnc]; decide, by rw [hinv]; decide, by rw [hm]; decide, hex⟩

/-! ### a stray `/` or `\` in front of a parameter is dropped without a word (finding
    `detect:stray-slash-or-backslash-between-parameters`; the model agrees with the code) -/
def strayRun (data : String) : Int × List Sev × List (MVal Nat) :=
  match readDataSection dblOps Generated.rwLexCfg Generated.rwCfg exDict false false (stringToBytes data) with
  | .ok r => (exitStatus r.sev, r.reported, r.mgr.insts.flatMap (fun i => i.parts.flatMap (·.vals)))
  | .error _ => (-1, [], [])

/-- `#1 A(5);#2=A(6);` - the first record without its `=`: not created, skipped by pass 2, the record behind it read
    (value 6), exit status 1 -/
theorem C03_missing_equals_witness :
    strayRun "#1 A(5);#2=A(6);ENDSEC;END-ISO-10303-21;" = (1, [Sev.null], [.one (.atom (.int 6))]) := by decide

/-- `#1=A(/ 5);` - a slash that starts no comment - reads as `#1=A(5);`: nothing reported, exit status 0 -/
theorem C03_stray_slash_dropped_witness :
    strayRun "#1=A(/ 5);ENDSEC;END-ISO-10303-21;" = (0, [Sev.null], [.one (.atom (.int 5))]) := by decide

/-- `#1=A(\N 5);` - a backslash that starts no complete print control directive (`\N\`): three characters are eaten, ReadPcd's
    WARNING is ignored, the record reads as `#1=A(5);` -/
theorem C03_stray_backslash_dropped_witness :
    strayRun "#1=A(\\N 5);ENDSEC;END-ISO-10303-21;" = (0, [Sev.null], [.one (.atom (.int 5))]) := by decide

/-- the hypotheses of `C03_duplicate_id_confined_partial` on `#2=A(5);⏎#2=A(X);⏎`: the second record repeats the id; the file
    fails (exit 1), the manager holds the first record's instance only -/
def wDup : Step Nat := { wBad with r := { wBad.r with ds := [50] } }

theorem C03_duplicate_id_witness :
    ∃ res, readDataSection dblOps Generated.rwLexCfg Generated.rwCfg exDict false false
        ([10] ++ renderRecs (recsOfX [(wGood, true), (wDup, false)]) (endsec [] ([10] ++ (endIso ++ 59 :: [10])))) = .ok res ∧
      res.mgr.insts = [wGood.out] ∧ res.notCreated = 1 ∧ res.invalid = 1 ∧ exitStatus res.sev = 1 := by
  have sepsNil : Seps ([] : List Byte) := Seps.blanks [] (by decide)
  have sepsNl : Seps ([10] : List Byte) := Seps.blanks [10] (by decide)
  have hlexG : wGood.r.Lex := ⟨by decide, by decide, by decide, sepsNil, sepsNil, sepsNil, sepsNil, by decide, by decide, by decide⟩
  have hlexD : wDup.r.Lex := ⟨by decide, by decide, by decide, sepsNil, sepsNil, sepsNil, sepsNil, by decide, by decide, by decide⟩
  have hscanG : ∀ q ∈ wGood.r.ps, ParamScan q := by
    intro q hq
    simp only [wGood, List.mem_singleton] at hq
    subst hq
    exact ⟨(Passes.plain 53 (by decide)).toS, sepsNil, sepsNil⟩
  have hscanD : ∀ q ∈ wDup.r.ps, ParamScan q := by
    intro q hq
    simp only [wDup, wBad, List.mem_singleton] at hq
    subst hq
    exact ⟨(Passes.plain 88 (by decide)).toS, sepsNil, sepsNil⟩
  have hent : exDict.entity? "A" = some { name := "A", attrs := [wAttrX], ancestors := ["A"] } := by decide
  obtain ⟨res, hr, hm, _, _, hnc, _, hinv, hex, _⟩ := C03_duplicate_id_confined_partial dblOps Generated.rwLexCfg Generated.rwCfg exDict false
    (by decide) (by decide) [(wGood, true), (wDup, false)] [10] [] [10] [10] sepsNl (by decide) sepsNl
    (by
      refine ⟨by decide, ⟨Or.inl (by decide), trivial⟩⟩)
    (by
      intro x hx
      simp only [List.mem_cons, List.not_mem_nil, or_false] at hx
      rcases hx with rfl | rfl
      · exact ⟨hlexG, sepsNl, hscanG, _, hent, rfl⟩
      · exact ⟨hlexD, sepsNl, hscanD⟩)
    (by
      intro x hx hb
      simp only [List.mem_cons, List.not_mem_nil, or_false] at hx
      rcases hx with rfl | rfl
      · refine Or.inl ⟨hlexG, sepsNl, hscanG,
          [(({ a := wAttrX, v := .one (.atom (.int (Grammar.denoteInteger [53]))), tok := [53], before := [], after := [] } : Param Nat), Sev.null)],
          _, rfl, ?_, hent, rfl, rfl, rfl⟩
        intro q hq
        simp only [List.mem_singleton] at hq
        subst hq
        refine ⟨rfl, ⟨53, [], rfl, by decide, by decide, by decide⟩, sepsNil, fun l sk d rest hd => ⟨sk, Or.inl rfl, ?_⟩⟩
        exact attr_integer _ false wAttrX rfl rfl (by decide) [53] (by decide) (by decide) (by decide) l sk [] sepsNil d rest hd
      · cases hb)
  exact ⟨res, hr, by simpa [kept] using hm, by simpa [nskip] using hnc, by simpa [nskip] using hinv, hex (by simp [nskip])⟩

/-! ### the defect behind fixes/C03-4 and its repair on the minimal input `#1=A($1);` (lenient mode) -/
def dollarRun (keep : Bool) : M (FileResult Nat) :=
  readDataSection dblOps Generated.rwLexCfg { Generated.rwCfg with fillerKeepsError := keep } exDict false false
    (stringToBytes "#1=A($1);ENDSEC;END-ISO-10303-21;")
def dollarExit (keep : Bool) : Int × List Sev :=
  match dollarRun keep with
  | .ok r => (exitStatus r.sev, r.reported)
  | .error _ => (-1, [])

/-- the filler's USERMSG overwrites the WARNING for the `1` behind the `$`: the file passes (exit 0) -/
theorem C03_filler_drops_error_witness : dollarExit false = (0, [Sev.usermsg]) := by decide

/-- with the report kept the file fails -/
theorem C03_filler_keeps_error_repaired : dollarExit true = (1, [Sev.warning]) := by decide

/-! ### the defect behind the resynchronisation, and its repair, on the minimal input (model level; the check replays
    `corpus/C03/string-delimiters-as-scalar.json` on the code) -/
def delimRun (resync : Bool) : M (FileResult Nat) :=
  readDataSection dblOps Generated.rwLexCfg { Generated.rwCfg with errorResyncsFromStart := resync } exDict false false
    (stringToBytes "#1=A('a)b;c');#2=A(5);ENDSEC;END-ISO-10303-21;")
def delimStates (resync : Bool) : List (Int × NState × List (MVal Nat)) :=
  match delimRun resync with
  | .ok r => r.mgr.insts.map (fun i => (i.id, i.state, i.parts.flatMap (·.vals)))
  | .error _ => []

/-- without the resynchronisation the conforming record `#2=A(5);` that follows the flawed one is never read -/
theorem C03_string_delimiters_witness :
    delimStates false = [(1, .incomplete, [.one (.atom .unset)]), (2, .new, [.one (.atom .unset)])] := by decide

/-- with it, `#2` is read to its value and is complete; `#1` is reported as before -/
theorem C03_string_delimiters_repaired :
    delimStates true = [(1, .incomplete, [.one (.atom .unset)]), (2, .complete, [.one (.atom (.int 5))])] ∧
    (match delimRun true with | .ok r => r.reported | .error _ => []) = [Sev.null, Sev.warning] := by decide

end StepModel.P21.C03

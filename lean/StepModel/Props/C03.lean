import StepModel.P21.Reader
import StepModel.Generated.P21RWGen
/-! # C03 — the reader never reports a violating file as clean: property theorems (see notes/C03.md) -/
namespace StepModel.P21.C03
open StepModel StepModel.P21

/-- p21read exits non-zero exactly when the severity is worse than a user message -/
theorem C03_exit_iff_worse_than_usermsg (e : Sev) : exitStatus e = 1 ↔ e.toInt < Sev.usermsg.toInt := by
  cases e <;> decide

end StepModel.P21.C03

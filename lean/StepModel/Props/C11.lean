import StepModel.LazyRefs
/-!
# C11 — inverse attributes resolved on load contain exactly the real referrers

Model: `StepModel/LazyRefs.lean`; `fromSource` are the shape flags regenerated from `lazyRefs.h`.
-/
namespace StepModel.LazyRefs
open StepModel.Generated

/-- **Spec.Inverse**: the instances `y` of type `ia.over` (or a subtype) whose attribute `ia.attrOwner.attrName`
    mentions `x` — in population order, one entry per instance -/
def specRefs (pop : List Inst) (x : Nat) (ia : InvAttr) : List Nat :=
  (pop.filter (fun i => i.types.contains ia.over &&
      i.attrs.any (fun a => a.owner == ia.attrOwner && a.name == ia.attrName && a.refs.contains x))).map (·.id)

/-- an instance has at most one attribute per descriptor -/
def UniqueAttrs (i : Inst) : Prop :=
  ∀ a ∈ i.attrs, ∀ b ∈ i.attrs, a.owner = b.owner → a.name = b.name → a = b

def allTrue : Flags := ⟨true, true, true, true, true⟩

/-- the tie: the repaired shape of `lazyRefs.h` (regenerated on every run) -/
theorem C11_source_shape : fromSource = allTrue := rfl

def refB (x : Nat) (ia : InvAttr) (i : Inst) : Bool :=
  match i.attrs.find? (attrMatch allTrue ia) with
  | some a => a.refs.contains x
  | none => false

theorem referrers_ok (x : Nat) (ia : InvAttr) (l : List Inst) :
    referrers allTrue x ia l = .ok ((l.filter (refB x ia)).map (·.id)) := by
  induction l with
  | nil => rfl
  | cons i t ih =>
    simp only [referrers, ih, refers, refB]
    cases h : i.attrs.find? (attrMatch allTrue ia) with
    | some a =>
      by_cases hb : x ∈ a.refs <;> simp [List.filter_cons, refB, h, hb]
    | none => simp [List.filter_cons, refB, h, show allTrue.skipMissing = true from rfl]

theorem find_any (l : List Attr) (m : Attr → Bool) (x : Nat)
    (hu : ∀ a ∈ l, ∀ b ∈ l, m a = true → m b = true → a = b) :
    (match l.find? m with | some a => a.refs.contains x | none => false) =
      l.any (fun a => m a && a.refs.contains x) := by
  induction l with
  | nil => rfl
  | cons a t ih =>
    by_cases hm : m a = true
    · simp only [List.find?_cons, hm, List.any_cons, Bool.true_and]
      cases hc : a.refs.contains x with
      | true => simp
      | false =>
        simp only [Bool.false_or]
        symm
        rw [List.any_eq_false]
        intro b hb
        by_cases hmb : m b = true
        · have : a = b := hu a (by simp) b (List.mem_cons_of_mem _ hb) hm hmb
          subst this; rw [hc]; simp
        · simp [hmb]
    · have hm' : m a = false := by simpa using hm
      simp only [List.find?_cons, hm', List.any_cons, Bool.false_and, Bool.false_or]
      exact ih (fun a' ha' b hb => hu a' (List.mem_cons_of_mem _ ha') b (List.mem_cons_of_mem _ hb))

theorem pred_eq (x : Nat) (ia : InvAttr) (i : Inst) (hu : UniqueAttrs i) :
    (isCand x ia i && refB x ia i) = (i.types.contains ia.over &&
      i.attrs.any (fun a => a.owner == ia.attrOwner && a.name == ia.attrName && a.refs.contains x)) := by
  have hfa := find_any i.attrs (attrMatch allTrue ia) x (by
    intro a ha b hb h1 h2
    simp only [attrMatch, allTrue, ↓reduceIte, Bool.and_eq_true, beq_iff_eq] at h1 h2
    exact hu a ha b hb (h1.1.trans h2.1.symm) (h1.2.trans h2.2.symm))
  have hm : ∀ a, attrMatch allTrue ia a = (a.owner == ia.attrOwner && a.name == ia.attrName) := by
    intro a; simp [attrMatch, allTrue]
  unfold refB isCand
  rw [hfa]
  simp only [hm]
  cases ht : i.types.contains ia.over with
  | false => simp
  | true =>
    simp only [Bool.and_true, Bool.true_and]
    cases hany : i.attrs.any (fun a => (a.owner == ia.attrOwner && a.name == ia.attrName) && a.refs.contains x) with
    | false => simp
    | true =>
      simp only [Bool.and_true]
      rw [List.any_eq_true] at hany
      obtain ⟨a, ha, hp⟩ := hany
      simp only [Bool.and_eq_true] at hp
      unfold mentions
      rw [List.any_eq_true]
      exact ⟨a, ha, hp.2⟩

theorem referrers_spec (pop : List Inst) (x : Nat) (ia : InvAttr) (hu : ∀ i ∈ pop, UniqueAttrs i) :
    referrers allTrue x ia (pop.filter (isCand x ia)) = .ok (specRefs pop x ia) := by
  rw [referrers_ok, List.filter_filter]
  unfold specRefs
  congr 2
  apply List.filter_congr
  intro i hi
  rw [Bool.and_comm]
  exact pred_eq x ia i (hu i hi)

/-- **aggregate inverse**: after `loadInstance(x)` the inverse attribute holds exactly the real referrers, in id order,
    each once — for any number of inverse attributes on the entity (candidates are per attribute), own or inherited
    (the model does not distinguish), whatever else mentions `x` through other attributes. -/
theorem C11_exact (pop : List Inst) (x : Nat) (ia : InvAttr) (hu : ∀ i ∈ pop, UniqueAttrs i)
    (ha : ia.aggr = true) : resolve fromSource pop x ia = .ok (specRefs pop x ia) := by
  rw [C11_source_shape]
  unfold resolve resolveWith
  rw [referrers_spec pop x ia hu]
  simp only [allTrue, ↓reduceIte, ha]
  cases h : (specRefs pop x ia) with
  | nil => simp
  | cons a t => simp

/-- **single-valued inverse**: it holds the first real referrer; when there is exactly one, that one -/
theorem C11_single (pop : List Inst) (x : Nat) (ia : InvAttr) (hu : ∀ i ∈ pop, UniqueAttrs i)
    (ha : ia.aggr = false) : resolve fromSource pop x ia = .ok (specRefs pop x ia).head?.toList := by
  rw [C11_source_shape]
  unfold resolve resolveWith
  rw [referrers_spec pop x ia hu]
  simp only [allTrue, ↓reduceIte, ha]
  cases h : (specRefs pop x ia) with
  | nil => simp
  | cons a t => simp

theorem eq_of_nodup_ids : ∀ (l : List Inst), (l.map (·.id)).Nodup → ∀ a ∈ l, ∀ b ∈ l, a.id = b.id → a = b := by
  intro l
  induction l with
  | nil => intro _ a ha; cases ha
  | cons h t ih =>
    intro hd a ha b hb hid
    simp only [List.map_cons, List.nodup_cons] at hd
    rcases List.mem_cons.mp ha with ha1 | ha1 <;> rcases List.mem_cons.mp hb with hb1 | hb1
    · rw [ha1, hb1]
    · rw [ha1] at hid
      exact absurd (List.mem_map.mpr ⟨b, hb1, hid.symm⟩ : h.id ∈ t.map (·.id)) hd.1
    · rw [hb1] at hid
      exact absurd (List.mem_map.mpr ⟨a, ha1, hid⟩ : h.id ∈ t.map (·.id)) hd.1
    · exact ih hd.2 a ha1 b hb1 hid

/-- none twice: with distinct instance ids the result has no duplicates -/
theorem C11_nodup (pop : List Inst) (x : Nat) (ia : InvAttr) (hd : (pop.map (·.id)).Nodup) :
    (specRefs pop x ia).Nodup := by
  unfold specRefs
  exact List.Nodup.sublist (List.Sublist.map _ List.filter_sublist) hd

/-- an instance that mentions `x` only through *other* attributes is not in the result -/
theorem C11_not_other_attr (pop : List Inst) (x : Nat) (ia : InvAttr) (y : Inst)
    (hd : (pop.map (·.id)).Nodup) (hy : y ∈ pop)
    (hno : ∀ a ∈ y.attrs, a.owner = ia.attrOwner → a.name = ia.attrName → a.refs.contains x = false) :
    y.id ∉ specRefs pop x ia := by
  unfold specRefs
  intro hmem
  rw [List.mem_map] at hmem
  obtain ⟨i, hi, hid⟩ := hmem
  rw [List.mem_filter] at hi
  have : i = y := eq_of_nodup_ids pop hd i hi.1 y hy hid
  subst this
  have h2 := hi.2
  simp only [Bool.and_eq_true] at h2
  rw [List.any_eq_true] at h2
  obtain ⟨a, ha, hp⟩ := h2.2
  simp only [Bool.and_eq_true, beq_iff_eq] at hp
  rw [hno a ha hp.1.1 hp.1.2] at hp
  exact absurd hp.2 (by simp)

/-- The code as it was (one candidate set shared by all inverse attributes, `attributes[-1]` when the candidate's
    entity has no such attribute — which is attribute 0): entity 0 has `byr : SET OF rel(1) FOR tgt` and
    `byq : SET OF qel(2) FOR tgt2`; `#2=REL(#1)`, `#3=QEL((#1))`.  Resolving `byr` first puts the REL instance into
    the shared set, and `byq` then reports it as a referrer (its attribute 0 mentions `#1`). -/
theorem C11_shared_candidates_witness :
    let old : Flags := ⟨false, false, false, true, true⟩
    let pop : List Inst := [⟨2, [1], [⟨1, 10, false, [1]⟩]⟩, ⟨3, [2], [⟨2, 20, true, [1]⟩]⟩]
    let byr : InvAttr := ⟨0, true, 1, 10, 1⟩
    let byq : InvAttr := ⟨1, true, 2, 20, 2⟩
    resolveAll old pop 1 [byr, byq] [] = [(0, .ok [2]), (1, .ok [2, 3])] ∧
    specRefs pop 1 byq = [3] := by
  decide

/-- hypotheses satisfiable, two inverse attributes, a referrer through another attribute, a subtype referrer -/
example :
    let pop : List Inst := [⟨2, [1], [⟨1, 10, false, [1]⟩, ⟨1, 11, false, []⟩]⟩,
                            ⟨3, [2], [⟨2, 20, true, [1, 1]⟩]⟩,
                            ⟨4, [5, 1], [⟨1, 10, false, [1]⟩, ⟨1, 11, false, []⟩]⟩,
                            ⟨5, [1], [⟨1, 10, false, []⟩, ⟨1, 11, false, [1]⟩]⟩]
    resolve allTrue pop 1 ⟨0, true, 1, 10, 1⟩ = .ok [2, 4] ∧ resolve allTrue pop 1 ⟨1, true, 2, 20, 2⟩ = .ok [3] := by
  decide

end StepModel.LazyRefs

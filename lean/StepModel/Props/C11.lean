import StepModel.LazyRefs
import StepModel.LazyDictLemmas
import StepModel.LazyDictGenLemmas
import StepModel.Props.C02
/-!
# C11 — inverse attributes resolved on load contain exactly the real referrers

Model: `StepModel/LazyRefs.lean`; `fromSource` are the shape flags regenerated from `lazyRefs.h`.
-/
namespace StepModel.LazyRefs
open StepModel.Generated

/-- **Spec.Inverse**: the instances `y` of type `ia.over` (or a subtype) whose attribute `ia.attrOwner.attrName`
    mentions `x` — in population order, one entry per instance -/
def specRefs (pop : List Inst) (x : Nat) (ia : InvAttr) : List Nat :=
  (pop.filter (fun i => i.types.contains ia.over &&
      i.attrs.any (fun a => a.owner == ia.attrOwner && a.name == ia.attrName && a.refs.contains x))).map (·.id)

/-- an instance has at most one attribute per descriptor -/
def UniqueAttrs (i : Inst) : Prop :=
  ∀ a ∈ i.attrs, ∀ b ∈ i.attrs, a.owner = b.owner → a.name = b.name → a = b

def allTrue : Flags := ⟨true, true, true, true, true⟩

/-- the tie: the repaired shape of `lazyRefs.h` (regenerated on every run) -/
theorem C11_source_shape : fromSource = allTrue := rfl

/-- the tie for fix C11-4: `loadInstance` resolves inverse attributes only when no instance is half-read (`_loadDepth == 0`;
    regenerated from lazyInstMgr.cc).  The resolver model is a function of the completely loaded population; with resolution inside
    the read recursion a referrer on a reference cycle through the instance would be inspected before its attributes are complete -/
theorem C11_source_refs_deferred : refsDeferred = true := rfl

def refB (x : Nat) (ia : InvAttr) (i : Inst) : Bool :=
  match i.attrs.find? (attrMatch allTrue ia) with
  | some a => a.refs.contains x
  | none => false

theorem referrers_ok (x : Nat) (ia : InvAttr) (l : List Inst) :
    referrers allTrue x ia l = .ok ((l.filter (refB x ia)).map (·.id)) := by
  induction l with
  | nil => rfl
  | cons i t ih =>
    simp only [referrers, ih, refers, refB]
    cases h : i.attrs.find? (attrMatch allTrue ia) with
    | some a =>
      by_cases hb : x ∈ a.refs <;> simp [List.filter_cons, refB, h, hb]
    | none => simp [List.filter_cons, refB, h, show allTrue.skipMissing = true from rfl]

theorem find_any (l : List Attr) (m : Attr → Bool) (x : Nat)
    (hu : ∀ a ∈ l, ∀ b ∈ l, m a = true → m b = true → a = b) :
    (match l.find? m with | some a => a.refs.contains x | none => false) =
      l.any (fun a => m a && a.refs.contains x) := by
  induction l with
  | nil => rfl
  | cons a t ih =>
    by_cases hm : m a = true
    · simp only [List.find?_cons, hm, List.any_cons, Bool.true_and]
      cases hc : a.refs.contains x with
      | true => simp
      | false =>
        simp only [Bool.false_or]
        symm
        rw [List.any_eq_false]
        intro b hb
        by_cases hmb : m b = true
        · have : a = b := hu a (by simp) b (List.mem_cons_of_mem _ hb) hm hmb
          subst this; rw [hc]; simp
        · simp [hmb]
    · have hm' : m a = false := by simpa using hm
      simp only [List.find?_cons, hm', List.any_cons, Bool.false_and, Bool.false_or]
      exact ih (fun a' ha' b hb => hu a' (List.mem_cons_of_mem _ ha') b (List.mem_cons_of_mem _ hb))

theorem pred_eq (x : Nat) (ia : InvAttr) (i : Inst) (hu : UniqueAttrs i) :
    (isCand x ia i && refB x ia i) = (i.types.contains ia.over &&
      i.attrs.any (fun a => a.owner == ia.attrOwner && a.name == ia.attrName && a.refs.contains x)) := by
  have hfa := find_any i.attrs (attrMatch allTrue ia) x (by
    intro a ha b hb h1 h2
    simp only [attrMatch, allTrue, ↓reduceIte, Bool.and_eq_true, beq_iff_eq] at h1 h2
    exact hu a ha b hb (h1.1.trans h2.1.symm) (h1.2.trans h2.2.symm))
  have hm : ∀ a, attrMatch allTrue ia a = (a.owner == ia.attrOwner && a.name == ia.attrName) := by
    intro a; simp [attrMatch, allTrue]
  unfold refB isCand
  rw [hfa]
  simp only [hm]
  cases ht : i.types.contains ia.over with
  | false => simp
  | true =>
    simp only [Bool.and_true, Bool.true_and]
    cases hany : i.attrs.any (fun a => (a.owner == ia.attrOwner && a.name == ia.attrName) && a.refs.contains x) with
    | false => simp
    | true =>
      simp only [Bool.and_true]
      rw [List.any_eq_true] at hany
      obtain ⟨a, ha, hp⟩ := hany
      simp only [Bool.and_eq_true] at hp
      unfold mentions
      rw [List.any_eq_true]
      exact ⟨a, ha, hp.2⟩

theorem referrers_spec (pop : List Inst) (x : Nat) (ia : InvAttr) (hu : ∀ i ∈ pop, UniqueAttrs i) :
    referrers allTrue x ia (pop.filter (isCand x ia)) = .ok (specRefs pop x ia) := by
  rw [referrers_ok, List.filter_filter]
  unfold specRefs
  congr 2
  apply List.filter_congr
  intro i hi
  rw [Bool.and_comm]
  exact pred_eq x ia i (hu i hi)

/-- **aggregate inverse**: after `loadInstance(x)` the inverse attribute holds exactly the real referrers, in id order,
    each once — for any number of inverse attributes on the entity (candidates are per attribute), own or inherited
    (the model does not distinguish), whatever else mentions `x` through other attributes. -/
theorem C11_exact (pop : List Inst) (x : Nat) (ia : InvAttr) (hu : ∀ i ∈ pop, UniqueAttrs i)
    (ha : ia.aggr = true) : resolve fromSource pop x ia = .ok (specRefs pop x ia) := by
  rw [C11_source_shape]
  unfold resolve resolveWith
  rw [referrers_spec pop x ia hu]
  simp only [allTrue, ↓reduceIte, ha]
  cases h : (specRefs pop x ia) with
  | nil => simp
  | cons a t => simp

/-- **single-valued inverse**: it holds the first real referrer; when there is exactly one, that one -/
theorem C11_single (pop : List Inst) (x : Nat) (ia : InvAttr) (hu : ∀ i ∈ pop, UniqueAttrs i)
    (ha : ia.aggr = false) : resolve fromSource pop x ia = .ok (specRefs pop x ia).head?.toList := by
  rw [C11_source_shape]
  unfold resolve resolveWith
  rw [referrers_spec pop x ia hu]
  simp only [allTrue, ↓reduceIte, ha]
  cases h : (specRefs pop x ia) with
  | nil => simp
  | cons a t => simp

theorem eq_of_nodup_ids : ∀ (l : List Inst), (l.map (·.id)).Nodup → ∀ a ∈ l, ∀ b ∈ l, a.id = b.id → a = b := by
  intro l
  induction l with
  | nil => intro _ a ha; cases ha
  | cons h t ih =>
    intro hd a ha b hb hid
    simp only [List.map_cons, List.nodup_cons] at hd
    rcases List.mem_cons.mp ha with ha1 | ha1 <;> rcases List.mem_cons.mp hb with hb1 | hb1
    · rw [ha1, hb1]
    · rw [ha1] at hid
      exact absurd (List.mem_map.mpr ⟨b, hb1, hid.symm⟩ : h.id ∈ t.map (·.id)) hd.1
    · rw [hb1] at hid
      exact absurd (List.mem_map.mpr ⟨a, ha1, hid⟩ : h.id ∈ t.map (·.id)) hd.1
    · exact ih hd.2 a ha1 b hb1 hid

/-- none twice: with distinct instance ids the result has no duplicates -/
theorem C11_nodup (pop : List Inst) (x : Nat) (ia : InvAttr) (hd : (pop.map (·.id)).Nodup) :
    (specRefs pop x ia).Nodup := by
  unfold specRefs
  exact List.Nodup.sublist (List.Sublist.map _ List.filter_sublist) hd

/-- an instance that mentions `x` only through *other* attributes is not in the result -/
theorem C11_not_other_attr (pop : List Inst) (x : Nat) (ia : InvAttr) (y : Inst)
    (hd : (pop.map (·.id)).Nodup) (hy : y ∈ pop)
    (hno : ∀ a ∈ y.attrs, a.owner = ia.attrOwner → a.name = ia.attrName → a.refs.contains x = false) :
    y.id ∉ specRefs pop x ia := by
  unfold specRefs
  intro hmem
  rw [List.mem_map] at hmem
  obtain ⟨i, hi, hid⟩ := hmem
  rw [List.mem_filter] at hi
  have : i = y := eq_of_nodup_ids pop hd i hi.1 y hy hid
  subst this
  have h2 := hi.2
  simp only [Bool.and_eq_true] at h2
  rw [List.any_eq_true] at h2
  obtain ⟨a, ha, hp⟩ := h2.2
  simp only [Bool.and_eq_true, beq_iff_eq] at hp
  rw [hno a ha hp.1.1 hp.1.2] at hp
  exact absurd hp.2 (by simp)

/-- The code as it was (one candidate set shared by all inverse attributes, `attributes[-1]` when the candidate's
    entity has no such attribute — which is attribute 0): entity 0 has `byr : SET OF rel(1) FOR tgt` and
    `byq : SET OF qel(2) FOR tgt2`; `#2=REL(#1)`, `#3=QEL((#1))`.  Resolving `byr` first puts the REL instance into
    the shared set, and `byq` then reports it as a referrer (its attribute 0 mentions `#1`). -/
theorem C11_shared_candidates_witness :
    let old : Flags := ⟨false, false, false, true, true⟩
    let pop : List Inst := [⟨2, [1], [⟨1, 10, false, [1]⟩]⟩, ⟨3, [2], [⟨2, 20, true, [1]⟩]⟩]
    let byr : InvAttr := ⟨0, true, 1, 10, 1⟩
    let byq : InvAttr := ⟨1, true, 2, 20, 2⟩
    resolveAll old pop 1 [byr, byq] [] = [(0, .ok [2]), (1, .ok [2, 3])] ∧
    specRefs pop 1 byq = [3] := by
  decide

/-- hypotheses satisfiable, two inverse attributes, a referrer through another attribute, a subtype referrer -/
example :
    let pop : List Inst := [⟨2, [1], [⟨1, 10, false, [1]⟩, ⟨1, 11, false, []⟩]⟩,
                            ⟨3, [2], [⟨2, 20, true, [1, 1]⟩]⟩,
                            ⟨4, [5, 1], [⟨1, 10, false, [1]⟩, ⟨1, 11, false, []⟩]⟩,
                            ⟨5, [1], [⟨1, 10, false, []⟩, ⟨1, 11, false, [1]⟩]⟩]
    resolve allTrue pop 1 ⟨0, true, 1, 10, 1⟩ = .ok [2, 4] ∧ resolve allTrue pop 1 ⟨1, true, 2, 20, 2⟩ = .ok [3] := by
  decide

/-! ## the dictionary side (`StepModel/LazyDict.lean`) -/

/-- the tie: `superInvAttrIter::next` scans the supertype it arrives at (regenerated from superInvAttrIter.h) -/
theorem C11_iterator_shape : superIterAdvances = true := rfl

/-- `supertypesIterator` reaches exactly the proper supertypes: for every dictionary whose supertype links decrease some rank
    bounded by the number of entities (= acyclic), `x` is visited iff `x` is a supertype of a declared supertype of `n`, at any depth -/
theorem C11_walk_exact (d : Dict) (rank : Nat → Nat) (h : Ranked d rank) (n x : Nat) :
    x ∈ supWalk d n ↔ ∃ s ∈ supsOf d n, SupStar d s x := mem_supWalk d rank h.sups h.2 n x

/-- `InitIAttrs` gives a slot to exactly the inverse attributes declared by the entity or by any supertype at any depth,
    along any inheritance path (C11-5) … -/
theorem C11_slots_exact (d : Dict) (rank : Nat → Nat) (h : Ranked d rank) (n : Nat) (ia : InvDecl) :
    ia ∈ slots d n ↔ ∃ e, SupStar d n e ∧ ia ∈ invsOf d e := by
  have hr := h.sups
  have hb := h.2
  unfold slots slotsWith scannedWith
  rw [C11_iterator_shape]
  simp only [↓reduceIte, mem_dedupBy, List.mem_flatMap, List.mem_cons]
  constructor
  · rintro ⟨e, he, hia⟩
    exact ⟨e, (supStar_iff d rank hr hb n e).mpr he, hia⟩
  · rintro ⟨e, he, hia⟩
    exact ⟨e, (supStar_iff d rank hr hb n e).mp he, hia⟩

/-- … each exactly once, however many paths lead to the declaring supertype -/
theorem C11_slots_nodup (d : Dict) (n : Nat) : (slots d n).Nodup := nodup_dedupBy _

theorem C11_ialist_nodup (d : Dict) (n : Nat) : (iaList d n).Nodup := nodup_dedupBy _

/-- every inverse attribute `lazyRefs::getInverseAttrs` finds has a slot: `lazyRefs::invAttr` cannot `abort()` -/
theorem C11_slots_cover (d : Dict) (n : Nat) : slotsCover d n = true := by
  unfold slotsCover
  rw [List.all_eq_true]
  intro ia hia
  unfold iaList at hia
  rw [mem_dedupBy, List.mem_flatMap] at hia
  obtain ⟨e, he, hie⟩ := hia
  have : ia ∈ slots d n := by
    unfold slots slotsWith scannedWith
    rw [C11_iterator_shape]
    simp only [↓reduceIte, mem_dedupBy, List.mem_flatMap, List.mem_cons]
    rcases List.mem_append.mp he with h | h
    · exact ⟨e, Or.inr h, hie⟩
    · have : e = n := by simpa using h
      exact ⟨e, Or.inl this, hie⟩
  simpa using this

/-- the entity a keyword names, with every supertype -/
theorem C11_types_closure (d : Dict) (rank : Nat → Nat) (h : Ranked d rank) (k x : Nat) :
    x ∈ typesOf d k ↔ SupStar d k x := by
  unfold typesOf
  rw [mem_dedupBy, List.mem_cons, supStar_iff d rank h.sups h.2]

/-- **`subtypesIterator` and the candidate test**: the entity list `edL` that `lazyRefs::checkAnInvAttr` builds from the inverted entity
    with `subtypesIterator` (modelled as such: `subWalk`, the FIFO walk over the registry's subtype lists) contains a keyword's entity
    exactly when the inverted entity is in the supertype closure of that keyword — which is how the resolver model tests candidates.
    For every acyclic dictionary with unique entity names. -/
theorem C11_candidate_entities (d : Dict) (rank : Nat → Nat) (h : Ranked d rank) (hn : NamesUnique d) (over k : Nat) :
    k ∈ candEntities d over ↔ over ∈ typesOf d k := by
  rw [C11_types_closure d rank h, ← starSub_iff_supStar d hn]
  have hr' : ∀ n s, s ∈ subsOf d n → (fun m => d.length - rank m) s < (fun m => d.length - rank m) n := by
    intro n s hs
    have h1 := h.sups s n ((mem_subsOf d hn n s).mp hs)
    have h2 := h.2 s
    simp only; omega
  unfold candEntities subWalk
  constructor
  · intro hk
    rcases List.mem_cons.mp hk with h1 | h1
    · rw [h1]; exact StarG.refl
    · obtain ⟨y, hy, hs⟩ := levelsG_sound (subsOf d) _ _ k h1
      exact StarG.head hy hs
  · intro hs
    cases hs with
    | refl => simp
    | head h1 h2 =>
      rename_i s
      refine List.mem_cons_of_mem _ ?_
      exact levelsG_complete (subsOf d) (fun m => d.length - rank m) hr' _ _
        (fun y _ => by omega) s h1 k h2

/-- `InitIAttrs` links `INVERSE … FOR a` over `E` to an explicit attribute `a` declared by `E` or by one of its supertypes (at any
    depth), and finds one whenever there is one -/
theorem C11_attr_owner (d : Dict) (rank : Nat → Nat) (h : Ranked d rank) (over a : Nat) :
    (∀ e, attrOwner d over a = some e → SupStar d over e ∧ (attrsOf d e).any (fun p => p.1 == a) = true) ∧
    ((∃ e, SupStar d over e ∧ (attrsOf d e).any (fun p => p.1 == a) = true) → (attrOwner d over a).isSome = true) := by
  unfold attrOwner
  constructor
  · intro e he
    have hm := List.mem_of_find?_eq_some he
    have hp := List.find?_some he
    refine ⟨(supStar_iff d rank h.sups h.2 over e).mpr ?_, hp⟩
    rcases List.mem_cons.mp hm with h1 | h1
    · exact Or.inl h1
    · exact Or.inr h1
  · rintro ⟨e, hs, hp⟩
    rw [List.find?_isSome]
    refine ⟨e, ?_, hp⟩
    rcases (supStar_iff d rank h.sups h.2 over e).mp hs with h1 | h1
    · rw [h1]; simp
    · exact List.mem_cons_of_mem _ h1

/-- a loaded instance has one attribute per descriptor, for every dictionary whose entities declare each attribute name once -/
theorem C11_mkInst_unique (d : Dict) (h : AttrNamesUnique d) (p : PInst) : UniqueAttrs (mkInst d p) := by
  unfold mkInst
  cases hk : p.kw with
  | none => intro a ha; simp at ha
  | some k =>
    simp only
    intro a ha b hb ho hn
    have hkeys : ((zipAttrs (redeclOf d k) ((attrOrder d k).flatMap (fun e => (attrsOf d e).map (fun q => (e, q.1, q.2)))) p.vals).map
        (fun a => (a.owner, a.name))).Nodup := by
      rw [zipAttrs_keys, List.map_flatMap]
      have := nodup_flatMap_pairs (fun e => (attrsOf d e).map (·.1)) (attrsOf_nodup d h) (attrOrder d k) (attrOrder_nodup d k)
      simpa [List.map_map, Function.comp_def] using this
    exact eq_of_nodup_keys (fun a : Attr => (a.owner, a.name)) _ hkeys a ha b hb (by simp [ho, hn])

/-- the tie: `EntityDescriptor::InitIAttrs` never leaves its loop over the inverse attributes early (regenerated from entityDescriptor.cc) -/
theorem C11_initIAttrs_shape : initIAttrsPerInverse = true := rfl

theorem initIAttrsWith_true (d : Dict) (l : List InvDecl) :
    initIAttrsWith true d l = l.map (fun iv => (iv, attrOwner d iv.over iv.attrName)) := by
  induction l with
  | nil => rfl
  | cons iv t ih => simp [initIAttrsWith, ih]

/-- **every inverse attribute is linked to its inverted attribute on its own**: whatever its position among the inverse attributes
    of the declaring entity and wherever its siblings' inverted attributes were found, `ia->inverted_attr_()` is the descriptor the
    search of `attrOwner` yields -/
theorem C11_inverted_attr_linked (d : Dict) (k e : Nat) (iv : InvDecl) (hdecl : declarerOf d k iv = some e) :
    linkedOwner d k iv = attrOwner d iv.over iv.attrName := by
  unfold linkedOwner initIAttrs
  have hmem : iv ∈ invsOf d e := by
    unfold declarerOf at hdecl
    have := List.find?_some hdecl
    simpa using this
  rw [hdecl, C11_initIAttrs_shape]
  simp only
  rw [initIAttrsWith_true]
  generalize invsOf d e = l at hmem ⊢
  induction l with
  | nil => cases hmem
  | cons j t ih =>
    simp only [List.map_cons, List.find?_cons]
    by_cases hj : j = iv
    · subst hj; simp
    · have hj' : (j == iv) = false := by simpa using hj
      simp only [hj']
      rcases List.mem_cons.mp hmem with h | h
      · exact absurd h.symm hj
      · exact ih h

/-- … and for a well-formed dictionary (acyclic; the inverted attribute is declared by the inverted entity or by one of its supertypes, at
    any depth, along any path) that descriptor exists: no inverse attribute with a slot is left with a null inverted attribute -/
theorem C11_inverted_attr_resolved (d : Dict) (rank : Nat → Nat) (h : Ranked d rank) (k : Nat) (iv : InvDecl)
    (hs : iv ∈ slots d k)
    (hwf : ∃ e, SupStar d iv.over e ∧ (attrsOf d e).any (fun p => p.1 == iv.attrName) = true) :
    (linkedOwner d k iv).isSome = true := by
  have hdecl : ∃ e, declarerOf d k iv = some e := by
    unfold slots slotsWith scannedWith at hs
    rw [C11_iterator_shape] at hs
    simp only [↓reduceIte, mem_dedupBy, List.mem_flatMap] at hs
    obtain ⟨e, he, hie⟩ := hs
    have : (declarerOf d k iv).isSome = true := by
      unfold declarerOf
      rw [List.find?_isSome]
      exact ⟨e, he, by simpa using hie⟩
    cases hd : declarerOf d k iv with
    | none => rw [hd] at this; cases this
    | some e' => exact ⟨e', rfl⟩
  obtain ⟨e, he⟩ := hdecl
  rw [C11_inverted_attr_linked d k e iv he]
  exact (C11_attr_owner d rank h iv.over iv.attrName).2 hwf

/-- **the resolver on dictionary + population**: when the inverse attribute has a slot (always, by `C11_slots_cover`) and its
    inverted attribute is declared by entity `o` (found by `InitIAttrs`, `C11_inverted_attr_resolved`), the result is `specRefs` of
    the loaded instances — with `mkInst` giving each instance the supertype closure of its keyword (`C11_types_closure`) and its
    attributes in `attrOrder` layout -/
theorem C11_exact_dict (d : Dict) (hd : AttrNamesUnique d) (pop : List PInst) (x k : Nat) (iv : InvDecl) (hs : iv ∈ slots d k)
    (o : Nat) (ho : attrOwner d iv.over iv.attrName = some o) (ha : iv.aggr = true) :
    resolveD d pop x k iv = .ok (specRefs (pop.map (mkInst d)) x (mkIA iv o)) := by
  have hdecl : ∃ e, declarerOf d k iv = some e := by
    have hs' := hs
    unfold slots slotsWith scannedWith at hs'
    rw [C11_iterator_shape] at hs'
    simp only [↓reduceIte, mem_dedupBy, List.mem_flatMap] at hs'
    obtain ⟨e, he, hie⟩ := hs'
    have : (declarerOf d k iv).isSome = true := by
      unfold declarerOf
      rw [List.find?_isSome]
      exact ⟨e, he, by simpa using hie⟩
    cases hd' : declarerOf d k iv with
    | none => rw [hd'] at this; cases this
    | some e' => exact ⟨e', rfl⟩
  obtain ⟨e, he⟩ := hdecl
  have hl : linkedOwner d k iv = some o := by rw [C11_inverted_attr_linked d k e iv he, ho]
  unfold resolveD
  have : (slots d k).contains iv = true := by simpa using hs
  simp only [this, Bool.not_true, Bool.false_eq_true, ↓reduceIte, hl]
  apply C11_exact
  · intro i hi
    rw [List.mem_map] at hi
    obtain ⟨p, hp, rfl⟩ := hi
    exact C11_mkInst_unique d hd p
  · simpa [mkIA] using ha

/-- the seeded shape of `InitIAttrs` (C11-d2: the supertype branch `return`s out of the loop): entity 0 declares
    `inv0 : SET OF rsub(4) FOR one(10)` — `one` is declared by `rel`(3), the supertype of `rsub` — and then
    `inv1 : SET OF qel(5) FOR q1(30)`; the second one is never linked and stays empty.  Linked on its own, it points to `qel` -/
theorem C11_initIAttrs_early_return_witness :
    let d : Dict := [⟨0, [], [], [], [⟨0, true, 4, 10⟩, ⟨1, true, 5, 30⟩]⟩, ⟨3, [], [(10, false)], [], []⟩,
                     ⟨4, [3], [], [], []⟩, ⟨5, [], [(30, false)], [], []⟩]
    initIAttrsWith false d (invsOf d 0) = [(⟨0, true, 4, 10⟩, some 3), (⟨1, true, 5, 30⟩, none)] ∧
    initIAttrsWith true d (invsOf d 0) = [(⟨0, true, 4, 10⟩, some 3), (⟨1, true, 5, 30⟩, some 5)] := by
  decide

/-- dictionary of the witnesses below: 0 `tg` (inverse `byr : SET OF rel FOR one`), 1 `tsub < tg`, 2 `tsub2 < tsub`,
    3 `rel` (attribute 10 = `one`), 4 `rre < rel` redeclaring `one`, 5 `dl < tg`, 6 `dr < tg`, 7 `dj < (dl, dr)` -/
def demoDict : Dict :=
  [⟨0, [], [(20, false)], [], [⟨0, true, 3, 10⟩]⟩, ⟨1, [0], [], [], []⟩, ⟨2, [1], [], [], []⟩,
   ⟨3, [], [(10, false)], [], []⟩, ⟨4, [3], [(11, false)], [10], []⟩,
   ⟨5, [0], [], [], []⟩, ⟨6, [0], [], [], []⟩, ⟨7, [5, 6], [], [], []⟩]

/-- the old `superInvAttrIter` (scanning the supertype `supertypesIterator::next()` leaves): `tsub2` gets no slot for the inverse
    it inherits from its grand-supertype, `lazyRefs::invAttr` aborts (replayed on the tree before C11-5) -/
theorem C11_old_iterator_witness :
    slotsWith false demoDict 2 = [] ∧ iaList demoDict 2 = [⟨0, true, 3, 10⟩] ∧ slotsWith true demoDict 2 = [⟨0, true, 3, 10⟩] := by
  decide

/-- a diamond: `supertypesIterator` reaches the top once per path; only the set/map keeps the inverse attribute single
    (a list instead of the set resolves it twice and every referrer is appended twice — seed C11-c2) -/
theorem C11_diamond_paths_witness :
    supWalk demoDict 7 = [5, 6, 0, 0] ∧ iaList demoDict 7 = [⟨0, true, 3, 10⟩] ∧ slots demoDict 7 = [⟨0, true, 3, 10⟩] := by
  decide

/-- **finding `complex-referrer`**: `#3` is an externally mapped instance with a REL part whose `one` mentions `#1`. The lazy
    index has it under the empty keyword (`kw = none`), so it is no candidate: the resolver answers `[2]`, while the same
    instance read with its REL part's type would be a referrer (`[2, 3]`) -/
theorem C11_complex_referrer_witness :
    resolveD demoDict [⟨1, some 0, [[]]⟩, ⟨2, some 3, [[1]]⟩, ⟨3, none, [[1]]⟩] 1 0 ⟨0, true, 3, 10⟩ = .ok [2] ∧
    resolveD demoDict [⟨1, some 0, [[]]⟩, ⟨2, some 3, [[1]]⟩, ⟨3, some 3, [[1]]⟩] 1 0 ⟨0, true, 3, 10⟩ = .ok [2, 3] := by
  decide

/-- **finding `redeclared-inverted-attr`**: `#3=RRE(#1,…)`, `rre` redeclares `rel.one`; `STEPread` skips the value of a
    redeclared attribute, the loaded `#3` mentions nothing and is missing from `#1.byr` (`[2]`); the file mentions `#1` there -/
theorem C11_redeclared_witness :
    resolveD demoDict [⟨1, some 1, [[]]⟩, ⟨2, some 3, [[1]]⟩, ⟨3, some 4, [[1], []]⟩] 1 1 ⟨0, true, 3, 10⟩ = .ok [2] ∧
    (mkInst demoDict ⟨3, some 4, [[1], []]⟩).attrs = [⟨3, 10, false, []⟩, ⟨4, 11, false, []⟩] := by
  decide

/-- non-vacuity: the demo dictionary (grand-supertype, diamond, redeclaration) is ranked, its instances have unique descriptors -/
def demoRank (n : Nat) : Nat := if n = 0 ∨ n = 3 then 0 else if n = 2 ∨ n = 7 then 2 else if n ≤ 6 then 1 else 0

example : Ranked demoDict demoRank ∧ AttrNamesUnique demoDict ∧ NamesUnique demoDict ∧ candEntities demoDict 0 = [0, 1, 5, 6, 2, 7, 7] :=
  ⟨⟨by decide, fun n => by unfold demoRank; split <;> (try split) <;> (try split) <;> simp [demoDict]⟩, by unfold AttrNamesUnique; decide, by unfold NamesUnique; decide, by decide⟩

/-! ## end to end: the declared schema and the instances as the file means them

An independent formulation of the property: the specification below mentions only the dictionary's declarations (`supsOf`, `attrsOf`)
through their reflexive-transitive closure `SupStar` and the instances with their attribute values *by descriptor* — none of the
implementation-side functions (`mkInst`, `typesOf`, `attrOwner`, `attrOrder`, `zipAttrs`, `candEntities`).  What connects the two sides
is the Part 21 internal mapping (`encode`: the parameter list of a simple instance holds the explicit attributes of its entity and its
supertypes, supertypes first — `layoutOf`; that the loaded instance's `attributes` list has this order is C02's `C02_attr_order`). -/

/-- an instance as the file means it: the entities it is mapped to (one = internal mapping, several = external mapping) and, for the
    explicit attribute `a` declared by entity `o`, the instances its value refers to (directly or as aggregate elements) -/
structure SInst where
  id : Nat
  ents : List Nat
  val : Nat → Nat → List Nat

/-- entity `o` declares an explicit attribute named `a` -/
def Declares (d : Dict) (o a : Nat) : Prop := (attrsOf d o).any (fun p => p.1 == a) = true

/-- **Spec.Inverse over the declared schema**: `y` is a real referrer of `x` for `INVERSE … OF over FOR a` — `y` is of type `over` or a
    subtype, and its value of the attribute `a` that `over` declares or inherits refers to `x` -/
def Referrer (d : Dict) (x : Nat) (iv : InvDecl) (y : SInst) : Prop :=
  ∃ k ∈ y.ents, SupStar d k iv.over ∧ ∃ o, SupStar d iv.over o ∧ Declares d o iv.attrName ∧ x ∈ y.val o iv.attrName

/-- the explicit attributes of a simple instance of entity `k` in Part 21 order: (declaring entity, name, aggregate-valued) -/
def layoutOf (d : Dict) (k : Nat) : List (Nat × Nat × Bool) :=
  (attrOrder d k).flatMap (fun e => (attrsOf d e).map (fun q => (e, q.1, q.2)))

/-- the instance as it stands in the file and in the lazy index: keyword and parameter list of a simple instance; a complex instance is
    indexed under the empty keyword -/
def encode (d : Dict) (y : SInst) : PInst :=
  match y.ents with
  | [k] => { id := y.id, kw := some k, vals := (layoutOf d k).map (fun q => y.val q.1 q.2.1) }
  | _ => { id := y.id, kw := none, vals := [] }

/-- an attribute name is declared at most once among an entity and its supertypes (EXPRESS: the attribute names of an entity,
    inherited ones included, are distinct) -/
def InheritUnique (d : Dict) : Prop :=
  ∀ e o1 o2 a, SupStar d e o1 → SupStar d e o2 → Declares d o1 a → Declares d o2 a → o1 = o2

theorem encode_id (d : Dict) (y : SInst) : (encode d y).id = y.id := by
  unfold encode; split <;> rfl

theorem mkInst_id (d : Dict) (p : PInst) : (mkInst d p).id = p.id := by
  unfold mkInst; split <;> rfl

theorem specRefs_map {α} (l : List α) (g : α → Inst) (idf : α → Nat) (x : Nat) (ia : InvAttr) (hid : ∀ p, (g p).id = idf p) :
    specRefs (l.map g) x ia = (l.filter (fun p => (g p).types.contains ia.over &&
      (g p).attrs.any (fun a => a.owner == ia.attrOwner && a.name == ia.attrName && a.refs.contains x))).map idf := by
  unfold specRefs
  induction l with
  | nil => rfl
  | cons p t ih =>
    simp only [List.map_cons, List.filter_cons]
    split <;> simp_all

open Classical in
/-- **exactly the real referrers, end to end** (`_partial`): for every acyclic dictionary with distinct attribute names (per entity and
    along inheritance), every population of instances as the file means them in which the instances are simple and no referrer's entity
    redeclares the inverted attribute, every instance `x` of entity `k` in it, every aggregate-valued inverse attribute `iv` of `k` (own
    or inherited: `iv ∈ slots d k`) whose inverted attribute is declared by the inverted entity or a supertype: what the resolver leaves
    in the slot — computed from the file encoding of the population — is exactly the list of the instances `y` with `Referrer d x iv y`,
    in population order, each once.
    Excluded, spelled out: complex (externally mapped) instances in the population (`hsimple`; the code indexes them under the empty
    keyword and never makes them candidates: `C11_complex_referrer_witness`, kept finding `complex-referrer`); referrers whose entity
    redeclares the inverted attribute (`hnr`; `STEPread` skips the value: `C11_redeclared_witness`, kept finding
    `redeclared-inverted-attr`); single-valued inverse attributes (`C11_single`). -/
theorem C11_exact_schema_partial (d : Dict) (rank : Nat → Nat) (h : Ranked d rank) (hd : AttrNamesUnique d) (hu : InheritUnique d)
    (spop : List SInst) (hsimple : ∀ y ∈ spop, ∃ k', y.ents = [k'])
    (x k : Nat) (hx : ∃ sx ∈ spop, sx.id = x ∧ sx.ents = [k])
    (iv : InvDecl) (hs : iv ∈ slots d k) (ha : iv.aggr = true)
    (hwf : ∃ e, SupStar d iv.over e ∧ Declares d e iv.attrName)
    (hnr : ∀ y ∈ spop, ∀ k', y.ents = [k'] → (redeclOf d k').contains iv.attrName = false) :
    resolveD d (spop.map (encode d)) x k iv =
      .ok ((spop.filter (fun y => decide (Referrer d x iv y))).map (·.id)) := by
  have _ := hx
  -- the descriptor `InitIAttrs` links the inverse attribute to
  have hsome := (C11_attr_owner d rank h iv.over iv.attrName).2 hwf
  obtain ⟨o, ho⟩ : ∃ o, attrOwner d iv.over iv.attrName = some o := by
    cases hq : attrOwner d iv.over iv.attrName with
    | none => rw [hq] at hsome; cases hsome
    | some o => exact ⟨o, rfl⟩
  obtain ⟨ho1, ho2⟩ := (C11_attr_owner d rank h iv.over iv.attrName).1 o ho
  rw [C11_exact_dict d hd (spop.map (encode d)) x k iv hs o ho ha, List.map_map]
  rw [specRefs_map spop (mkInst d ∘ encode d) (·.id) x (mkIA iv o) (fun p => by
    show (mkInst d (encode d p)).id = p.id
    rw [mkInst_id, encode_id])]
  have hfil : ∀ y ∈ spop, ((mkInst d (encode d y)).types.contains (mkIA iv o).over &&
      (mkInst d (encode d y)).attrs.any (fun a => a.owner == (mkIA iv o).attrOwner && a.name == (mkIA iv o).attrName && a.refs.contains x))
      = decide (Referrer d x iv y) := by
    intro y hy
    obtain ⟨k', hk'⟩ := hsimple y hy
    have hrd := hnr y hy k' hk'
    have henc : mkInst d (encode d y) = Inst.mk y.id (typesOf d k')
        (zipAttrs (redeclOf d k') (layoutOf d k') ((layoutOf d k').map (fun q => y.val q.1 q.2.1))) := by
      unfold encode mkInst layoutOf
      rw [hk']
    rw [henc]
    simp only [mkIA]
    -- both sides as propositions
    have hl : ((typesOf d k').contains iv.over = true ∧
        (zipAttrs (redeclOf d k') (layoutOf d k') ((layoutOf d k').map (fun q => y.val q.1 q.2.1))).any
          (fun a => a.owner == o && a.name == iv.attrName && a.refs.contains x) = true) ↔ Referrer d x iv y := by
      rw [zipAttrs_any]
      constructor
      · rintro ⟨ht, q, hq, hq1, hq2, _, hxq⟩
        have hko : SupStar d k' iv.over := (C11_types_closure d rank h k' iv.over).mp (by simpa using ht)
        refine ⟨k', by rw [hk']; simp, hko, o, ho1, ho2, ?_⟩
        rw [← hq1, ← hq2]; exact hxq
      · rintro ⟨k'', hk'', hko, o', ho1', ho2', hxv⟩
        have : k'' = k' := by rw [hk'] at hk''; simpa using hk''
        subst this
        have hoo : o' = o := hu iv.over o' o iv.attrName ho1' ho1 ho2' ho2
        subst hoo
        refine ⟨by simpa using (C11_types_closure d rank h k'' iv.over).mpr hko, ?_⟩
        -- the attribute is in the layout of `k'`
        have hmem : o' ∈ attrOrder d k'' := (mem_attrOrder d rank h k'' o').mpr (SupStar.trans hko ho1')
        unfold Declares at ho2'
        rw [List.any_eq_true] at ho2'
        obtain ⟨pa, hpa, hpn⟩ := ho2'
        have hpn' : pa.1 = iv.attrName := by simpa using hpn
        refine ⟨(o', pa.1, pa.2), ?_, rfl, hpn', hrd, by simpa [hpn'] using hxv⟩
        unfold layoutOf
        rw [List.mem_flatMap]
        exact ⟨o', hmem, List.mem_map.mpr ⟨pa, hpa, rfl⟩⟩
    by_cases hR : Referrer d x iv y
    · have := hl.mpr hR
      rw [this.1, this.2]
      simp [hR]
    · have hn : ¬ ((typesOf d k').contains iv.over = true ∧
          (zipAttrs (redeclOf d k') (layoutOf d k') ((layoutOf d k').map (fun q => y.val q.1 q.2.1))).any
            (fun a => a.owner == o && a.name == iv.attrName && a.refs.contains x) = true) := fun hh => hR (hl.mp hh)
      simp only [hR, decide_false]
      cases h1 : (typesOf d k').contains iv.over with
      | false => simp
      | true =>
        cases h2 : (zipAttrs (redeclOf d k') (layoutOf d k') ((layoutOf d k').map (fun q => y.val q.1 q.2.1))).any
            (fun a => a.owner == o && a.name == iv.attrName && a.refs.contains x) with
        | false => simp
        | true => exact absurd ⟨h1, h2⟩ hn
  exact congrArg (fun l => Outcome.ok (l.map (·.id))) (List.filter_congr hfil)

/-- the instance is internally mapped (one entity) -/
def simpleB (y : SInst) : Bool :=
  match y.ents with
  | [_] => true
  | _ => false

theorem simpleB_iff (y : SInst) : simpleB y = true ↔ ∃ k, y.ents = [k] := by
  unfold simpleB
  constructor
  · intro h
    split at h
    · rename_i k hk; exact ⟨k, hk⟩
    · cases h
  · rintro ⟨k, hk⟩; rw [hk]

theorem complex_not_found (d : Dict) (y : SInst) (hy : simpleB y = false) (over : Nat) :
    (mkInst d (encode d y)).types.contains over = false := by
  have hkw : (encode d y).kw = none := by
    unfold encode
    split
    · rename_i k hk
      have : simpleB y = true := (simpleB_iff y).mpr ⟨k, hk⟩
      rw [hy] at this; cases this
    · rfl
  unfold mkInst
  rw [hkw]
  rfl

open Classical in
/-- **the same with externally mapped instances in the population** (`_partial`): nothing is asked of the instances' mapping any more —
    the slot holds exactly the **internally mapped** referrers, in population order, each once.  An externally mapped instance that
    refers to `x` through the inverted attribute is a referrer by the specification (`Referrer` looks at every entity of `y.ents`) and
    is not in the slot: this is, as a theorem, precisely what the kept finding `complex-referrer` says is lost, and nothing else is
    (the loader-level reason is `C10_complex_instance_never_candidate`).  Still excluded: referrers whose entity redeclares the
    inverted attribute (`hnr`), single-valued inverses. -/
theorem C11_exact_schema_with_complex_partial (d : Dict) (rank : Nat → Nat) (h : Ranked d rank) (hd : AttrNamesUnique d)
    (hu : InheritUnique d) (spop : List SInst)
    (x k : Nat) (hx : ∃ sx ∈ spop, sx.id = x ∧ sx.ents = [k])
    (iv : InvDecl) (hs : iv ∈ slots d k) (ha : iv.aggr = true)
    (hwf : ∃ e, SupStar d iv.over e ∧ Declares d e iv.attrName)
    (hnr : ∀ y ∈ spop, ∀ k', y.ents = [k'] → (redeclOf d k').contains iv.attrName = false) :
    resolveD d (spop.map (encode d)) x k iv =
      .ok ((spop.filter (fun y => simpleB y && decide (Referrer d x iv y))).map (·.id)) := by
  -- the descriptor `InitIAttrs` links the inverse attribute to
  have hsome := (C11_attr_owner d rank h iv.over iv.attrName).2 hwf
  obtain ⟨o, ho⟩ : ∃ o, attrOwner d iv.over iv.attrName = some o := by
    cases hq : attrOwner d iv.over iv.attrName with
    | none => rw [hq] at hsome; cases hsome
    | some o => exact ⟨o, rfl⟩
  have hid : ∀ p : SInst, ((mkInst d ∘ encode d) p).id = p.id := fun p => by
    show (mkInst d (encode d p)).id = p.id
    rw [mkInst_id, encode_id]
  -- the internally mapped part of the population
  have hx' : ∃ sx ∈ spop.filter simpleB, sx.id = x ∧ sx.ents = [k] := by
    obtain ⟨sx, hm, h1, h2⟩ := hx
    exact ⟨sx, List.mem_filter.mpr ⟨hm, (simpleB_iff sx).mpr ⟨k, h2⟩⟩, h1, h2⟩
  have hmain := C11_exact_schema_partial d rank h hd hu (spop.filter simpleB)
    (fun y hy => (simpleB_iff y).mp (List.mem_filter.mp hy).2) x k hx' iv hs ha hwf
    (fun y hy => hnr y (List.mem_filter.mp hy).1)
  rw [C11_exact_dict d hd _ x k iv hs o ho ha, List.map_map, specRefs_map _ (mkInst d ∘ encode d) (·.id) x (mkIA iv o) hid] at hmain
  rw [C11_exact_dict d hd (spop.map (encode d)) x k iv hs o ho ha, List.map_map,
    specRefs_map spop (mkInst d ∘ encode d) (·.id) x (mkIA iv o) hid]
  -- an externally mapped instance passes neither filter
  have hq : ∀ y : SInst, ((mkInst d ∘ encode d) y).types.contains (mkIA iv o).over = true → simpleB y = true := by
    intro y hy
    cases hb : simpleB y with
    | true => rfl
    | false =>
      have := complex_not_found d y hb (mkIA iv o).over
      rw [show ((mkInst d ∘ encode d) y) = mkInst d (encode d y) from rfl, this] at hy
      cases hy
  have hsame : spop.filter (fun p => ((mkInst d ∘ encode d) p).types.contains (mkIA iv o).over &&
        ((mkInst d ∘ encode d) p).attrs.any (fun a => a.owner == (mkIA iv o).attrOwner && a.name == (mkIA iv o).attrName && a.refs.contains x)) =
      (spop.filter simpleB).filter (fun p => ((mkInst d ∘ encode d) p).types.contains (mkIA iv o).over &&
        ((mkInst d ∘ encode d) p).attrs.any (fun a => a.owner == (mkIA iv o).attrOwner && a.name == (mkIA iv o).attrName && a.refs.contains x)) := by
    rw [List.filter_filter]
    apply List.filter_congr
    intro y _
    cases h1 : ((mkInst d ∘ encode d) y).types.contains (mkIA iv o).over with
    | false => simp
    | true => simp [hq y h1]
  rw [hsame, hmain, List.filter_filter]
  congr 2
  apply List.filter_congr
  intro y _
  rw [Bool.and_comm]

/-- the instance is internally mapped and its entity (or a supertype) redeclares attribute `a` -/
def redeclB (d : Dict) (a : Nat) (y : SInst) : Bool :=
  match y.ents with
  | [k] => (redeclOf d k).contains a
  | _ => false

theorem redecl_not_found (d : Dict) (y : SInst) (a o x : Nat) (hy : redeclB d a y = true) :
    (mkInst d (encode d y)).attrs.any (fun t => t.owner == o && t.name == a && t.refs.contains x) = false := by
  unfold redeclB at hy
  split at hy
  · rename_i k hk
    have henc : mkInst d (encode d y) = Inst.mk y.id (typesOf d k)
        (zipAttrs (redeclOf d k) (layoutOf d k) ((layoutOf d k).map (fun q => y.val q.1 q.2.1))) := by
      unfold encode mkInst layoutOf
      rw [hk]
    rw [henc]
    cases hany : (zipAttrs (redeclOf d k) (layoutOf d k) ((layoutOf d k).map (fun q => y.val q.1 q.2.1))).any
        (fun t => t.owner == o && t.name == a && t.refs.contains x) with
    | false => rfl
    | true =>
      obtain ⟨_, _, _, _, hc, _⟩ := (zipAttrs_any _ _ o a x _).mp hany
      rw [hy] at hc; cases hc
  · cases hy

open Classical in
/-- **the whole population** (`_partial`): externally mapped instances and referrers whose entity redeclares the inverted attribute are
    allowed — the slot holds exactly the referrers that are internally mapped **and** whose entity does not redeclare the inverted
    attribute, in population order, each once.  What the two kept findings (`complex-referrer`, `redeclared-inverted-attr`) lose is
    exactly the referrers the two conjuncts `simpleB`, `!redeclB` remove; nothing else is lost and nothing is added.  Left as a
    hypothesis: the target's own entity does not redeclare the inverted attribute (`hxg`); single-valued inverses (`C11_single`). -/
theorem C11_exact_schema_whole_population_partial (d : Dict) (rank : Nat → Nat) (h : Ranked d rank) (hd : AttrNamesUnique d)
    (hu : InheritUnique d) (spop : List SInst)
    (x k : Nat) (hx : ∃ sx ∈ spop, sx.id = x ∧ sx.ents = [k])
    (iv : InvDecl) (hxg : (redeclOf d k).contains iv.attrName = false) (hs : iv ∈ slots d k) (ha : iv.aggr = true)
    (hwf : ∃ e, SupStar d iv.over e ∧ Declares d e iv.attrName) :
    resolveD d (spop.map (encode d)) x k iv =
      .ok ((spop.filter (fun y => (simpleB y && !redeclB d iv.attrName y) && decide (Referrer d x iv y))).map (·.id)) := by
  have hsome := (C11_attr_owner d rank h iv.over iv.attrName).2 hwf
  obtain ⟨o, ho⟩ : ∃ o, attrOwner d iv.over iv.attrName = some o := by
    cases hq : attrOwner d iv.over iv.attrName with
    | none => rw [hq] at hsome; cases hsome
    | some o => exact ⟨o, rfl⟩
  have hid : ∀ p : SInst, ((mkInst d ∘ encode d) p).id = p.id := fun p => by
    show (mkInst d (encode d p)).id = p.id
    rw [mkInst_id, encode_id]
  -- the part of the population whose entities do not redeclare the inverted attribute
  have hx' : ∃ sx ∈ spop.filter (fun y => !redeclB d iv.attrName y), sx.id = x ∧ sx.ents = [k] := by
    obtain ⟨sx, hm, h1, h2⟩ := hx
    refine ⟨sx, List.mem_filter.mpr ⟨hm, ?_⟩, h1, h2⟩
    unfold redeclB; rw [h2]; simp only; rw [hxg]; rfl
  have hmain := C11_exact_schema_with_complex_partial d rank h hd hu (spop.filter (fun y => !redeclB d iv.attrName y)) x k hx' iv hs ha hwf
    (fun y hy k' hk' => by
      have := (List.mem_filter.mp hy).2
      unfold redeclB at this; rw [hk'] at this
      simpa using this)
  rw [C11_exact_dict d hd _ x k iv hs o ho ha, List.map_map, specRefs_map _ (mkInst d ∘ encode d) (·.id) x (mkIA iv o) hid] at hmain
  rw [C11_exact_dict d hd (spop.map (encode d)) x k iv hs o ho ha, List.map_map,
    specRefs_map spop (mkInst d ∘ encode d) (·.id) x (mkIA iv o) hid]
  have hsame : spop.filter (fun p => ((mkInst d ∘ encode d) p).types.contains (mkIA iv o).over &&
        ((mkInst d ∘ encode d) p).attrs.any (fun a => a.owner == (mkIA iv o).attrOwner && a.name == (mkIA iv o).attrName && a.refs.contains x)) =
      (spop.filter (fun y => !redeclB d iv.attrName y)).filter (fun p => ((mkInst d ∘ encode d) p).types.contains (mkIA iv o).over &&
        ((mkInst d ∘ encode d) p).attrs.any (fun a => a.owner == (mkIA iv o).attrOwner && a.name == (mkIA iv o).attrName && a.refs.contains x)) := by
    rw [List.filter_filter]
    apply List.filter_congr
    intro y _
    cases hb : redeclB d iv.attrName y with
    | false => simp
    | true =>
      have := redecl_not_found d y iv.attrName o x hb
      simp only [mkIA, Function.comp] at this ⊢
      rw [this]; simp
  rw [hsame, hmain, List.filter_filter]
  congr 2
  apply List.filter_congr
  intro y _
  cases simpleB y <;> cases redeclB d iv.attrName y <;> simp

open Classical in
/-- … none twice: distinct instance names give a duplicate-free result -/
theorem C11_exact_schema_nodup (d : Dict) (x : Nat) (iv : InvDecl) (spop : List SInst) (hid : (spop.map (·.id)).Nodup) :
    ((spop.filter (fun y => decide (Referrer d x iv y))).map (·.id)).Nodup :=
  (List.filter_sublist.map _).nodup hid

open Classical in
/-- … **in id order**: when the population is listed by ascending instance name — the order in which `lazyRefs` iterates its candidate
    `std::set` — the referrers are stored in ascending order -/
theorem C11_id_order (d : Dict) (x : Nat) (iv : InvDecl) (spop : List SInst) (hid : (spop.map (·.id)).Pairwise (· < ·)) :
    ((spop.filter (fun y => decide (Referrer d x iv y))).map (·.id)).Pairwise (· < ·) :=
  hid.sublist (List.filter_sublist.map _)

/-! ### the hypotheses of `C11_exact_schema_partial` are satisfiable -/

/-- a computable criterion for `InheritUnique`: per entity, the attribute names of the entity and its supertypes are distinct -/
def inheritUniqueB (d : Dict) : Bool :=
  d.all (fun e => decide (((typesOf d e.name).flatMap (fun o => (attrsOf d o).map (·.1))).Nodup))

theorem nodup_flatMap_owner {α β} (g : α → List β) : ∀ (l : List α), (l.flatMap g).Nodup → ∀ o1 ∈ l, ∀ o2 ∈ l, ∀ a, a ∈ g o1 → a ∈ g o2 →
    o1 = o2 := by
  intro l
  induction l with
  | nil => intro _ o1 h; cases h
  | cons hd t ih =>
    intro hn o1 h1 o2 h2 a a1 a2
    simp only [List.flatMap_cons, List.nodup_append] at hn
    obtain ⟨_, hnt, hdis⟩ := hn
    rcases List.mem_cons.mp h1 with e1 | e1 <;> rcases List.mem_cons.mp h2 with e2 | e2
    · rw [e1, e2]
    · subst e1
      exact absurd rfl (hdis a a1 a (List.mem_flatMap.mpr ⟨o2, e2, a2⟩))
    · subst e2
      exact absurd rfl (hdis a a2 a (List.mem_flatMap.mpr ⟨o1, e1, a1⟩))
    · exact ih hnt o1 e1 o2 e2 a a1 a2

theorem inheritUnique_of_check (d : Dict) (rank : Nat → Nat) (h : Ranked d rank) (hb : inheritUniqueB d = true) : InheritUnique d := by
  intro e o1 o2 a s1 s2 d1 d2
  cases he : d.ent e with
  | none =>
    have hsup : supsOf d e = [] := by unfold supsOf; rw [he]
    have only : ∀ o, SupStar d e o → o = e := by
      intro o hs
      cases hs with
      | refl => rfl
      | head hm _ => rw [hsup] at hm; cases hm
    rw [only o1 s1, only o2 s2]
  | some ent =>
    unfold Dict.ent at he
    have hmem := List.mem_of_find?_eq_some he
    have hname : ent.name = e := by simpa using List.find?_some he
    unfold inheritUniqueB at hb
    rw [List.all_eq_true] at hb
    have hn := hb ent hmem
    rw [hname] at hn
    have hn' := of_decide_eq_true hn
    have m1 := (C11_types_closure d rank h e o1).mpr s1
    have m2 := (C11_types_closure d rank h e o2).mpr s2
    have mem_of : ∀ o, Declares d o a → a ∈ (attrsOf d o).map (·.1) := by
      intro o hd
      unfold Declares at hd
      rw [List.any_eq_true] at hd
      obtain ⟨p, hp, hpa⟩ := hd
      exact List.mem_map.mpr ⟨p, hp, by simpa using hpa⟩
    exact nodup_flatMap_owner _ _ hn' o1 m1 o2 m2 a (mem_of o1 d1) (mem_of o2 d2)

/-- every hypothesis discharged on `demoDict`: the target `#1` is a `tsub2` (entity 2), which inherits `INVERSE inv : SET OF rel FOR one`
    from its grand-supertype (entity 0); `#2` and `#3` are `rel`s (entity 3), `#2.one = #1`, `#3.one` unset; `#4` is another `tsub2`.
    The slot of `#1` holds exactly `[2]` -/
theorem C11_exact_schema_instance_witness :
    let spop : List SInst := [⟨1, [2], fun _ _ => []⟩, ⟨2, [3], fun o a => if o = 3 ∧ a = 10 then [1] else []⟩,
                              ⟨3, [3], fun _ _ => []⟩, ⟨4, [2], fun _ _ => []⟩]
    resolveD demoDict (spop.map (encode demoDict)) 1 2 ⟨0, true, 3, 10⟩ = .ok [2] := by
  intro spop
  have hr : Ranked demoDict demoRank :=
    ⟨by decide, fun n => by unfold demoRank; split <;> (try split) <;> (try split) <;> simp [demoDict]⟩
  have hu : InheritUnique demoDict := inheritUnique_of_check demoDict demoRank hr (by decide)
  have hsimple : ∀ y ∈ spop, ∃ k', y.ents = [k'] := by
    intro y hy
    simp only [spop, List.mem_cons, List.mem_nil_iff, or_false] at hy
    rcases hy with rfl | rfl | rfl | rfl <;> exact ⟨_, rfl⟩
  have hnr : ∀ y ∈ spop, ∀ k', y.ents = [k'] → (redeclOf demoDict k').contains (10 : Nat) = false := by
    intro y hy k' hk'
    simp only [spop, List.mem_cons, List.mem_nil_iff, or_false] at hy
    rcases hy with rfl | rfl | rfl | rfl <;> (simp only [List.cons.injEq, and_true] at hk'; subst hk'; decide)
  have := C11_exact_schema_partial demoDict demoRank hr (by unfold AttrNamesUnique; decide) hu spop hsimple 1 2
    ⟨⟨1, [2], fun _ _ => []⟩, by simp [spop], rfl, rfl⟩ ⟨0, true, 3, 10⟩ (by decide) rfl
    ⟨3, SupStar.refl, by unfold Declares; decide⟩ hnr
  rw [this]
  -- the specification side, evaluated: only `#2` is a referrer
  have r2 : Referrer demoDict 1 ⟨0, true, 3, 10⟩ ⟨2, [3], fun o a => if o = 3 ∧ a = 10 then [1] else []⟩ :=
    ⟨3, by simp, SupStar.refl, 3, SupStar.refl, by unfold Declares; decide, by simp⟩
  have nr : ∀ (i : Nat) (es : List Nat), ¬ Referrer demoDict 1 ⟨0, true, 3, 10⟩ ⟨i, es, fun _ _ => []⟩ := by
    rintro i es ⟨_, _, _, _, _, _, hx⟩
    cases hx
  simp [spop, r2, nr]

/-! ## the registry assumption, derived from the generated schema init code (C02's model) -/

section Registry
open StepModel.GenCxx StepModel.GenCxx.Spec

/-- **the subtype lists the generated schema init code registers are the inverse of the supertype lists** — derived, not assumed.
    For every well-formed schema (acyclic inheritance, declared supertypes, unique entity names) and every symbol-table iteration
    order, in the registry the emitted `SchemaInit` builds (`dictOf`, C02's model of the `AddSupertype` / `AddSubtype` / `AddEntity`
    call sequence, proved to mirror the schema: `C02_mirror`): under any injective numbering of entity names, an entity is in the
    registered `_subtypes` list of `n` exactly when `n` is in its supertype list, for every resolver dictionary with the registry's
    hierarchy.  This is the fact `subsOf` (the resolver model's computed subtype lists) stood for. -/
theorem C11_registry_subtypes_inverse {s : Schema} {rank trank : String → Nat} (wf : WF s rank) (wft : WFT s trank)
    (hn : (s.entities.map (·.name)).Nodup) (roots : List String) (hr : ∀ n, n ∈ roots ↔ n ∈ s.entities.map (·.name))
    (num : String → Nat) (hinj : ∀ a b, num a = num b → a = b) (d : Dict)
    (hd : SameHierarchy num (dictOf s roots).entities d) (n x : Nat) :
    x ∈ regSubs num (dictOf s roots).entities n ↔ n ∈ supsOf d x :=
  regSubs_inverse s rank wf _ (mirrored_of_mirror s _ hn (C02_mirror wf wft hn roots hr)) num hinj d hd n x

/-- **`subtypesIterator` over the registered subtype lists**: `C11_candidate_entities` without its registry assumptions.  The entity
    list `edL` that `lazyRefs::checkAnInvAttr` builds by walking the `_subtypes` lists *as the generated init code registered them*
    contains a keyword's entity exactly when the inverted entity is in the supertype closure of that keyword.  Acyclicity and unique
    names are no longer hypotheses on the dictionary: they follow from the schema's well-formedness through `C02_mirror`. -/
theorem C11_candidate_entities_generated {s : Schema} {rank trank : String → Nat} (wf : WF s rank) (wft : WFT s trank)
    (hn : (s.entities.map (·.name)).Nodup) (roots : List String) (hr : ∀ n, n ∈ roots ↔ n ∈ s.entities.map (·.name))
    (num : String → Nat) (hinj : ∀ a b, num a = num b → a = b) (d : Dict)
    (hd : SameHierarchy num (dictOf s roots).entities d) (over k : Nat) :
    k ∈ candEntitiesBy (regSubs num (dictOf s roots).entities) (d.length + 1) over ↔ over ∈ typesOf d k := by
  have m := mirrored_of_mirror s _ hn (C02_mirror wf wft hn roots hr)
  have hrk := ranked_of_mirror s rank wf _ m num hinj d hd
  rw [C11_types_closure d _ hrk]
  exact candBy_iff d _ hrk _ (fun n x => regSubs_inverse s rank wf _ m num hinj d hd n x) over k

/-- the model's computed subtype lists and the registered ones have the same members, so `candEntities` (used by the resolver model
    and the driver) and the walk over the registered lists contain the same entities -/
theorem C11_candidate_entities_agree {s : Schema} {rank trank : String → Nat} (wf : WF s rank) (wft : WFT s trank)
    (hn : (s.entities.map (·.name)).Nodup) (roots : List String) (hr : ∀ n, n ∈ roots ↔ n ∈ s.entities.map (·.name))
    (num : String → Nat) (hinj : ∀ a b, num a = num b → a = b) (d : Dict)
    (hd : SameHierarchy num (dictOf s roots).entities d) (hu : NamesUnique d) (over k : Nat) :
    k ∈ candEntitiesBy (regSubs num (dictOf s roots).entities) (d.length + 1) over ↔ k ∈ candEntities d over := by
  have m := mirrored_of_mirror s _ hn (C02_mirror wf wft hn roots hr)
  have hrk := ranked_of_mirror s rank wf _ m num hinj d hd
  rw [C11_candidate_entities_generated wf wft hn roots hr num hinj d hd, C11_candidate_entities d _ hrk hu]

/-- the same for the resolver dictionary **read off** the generated registry (`ofGen`: names, supertype lists, explicit and redeclared
    attributes, inverse attributes of C02's `dictOf`) — no hypothesis on the dictionary is left: for every well-formed schema, the walk
    over the registered subtype lists contains a keyword's entity exactly when the inverted entity is in that keyword's supertype closure,
    and the dictionary is acyclic (`Ranked`), as every dictionary theorem above asks -/
theorem C11_candidate_entities_generated_dict {s : Schema} {rank trank : String → Nat} (wf : WF s rank) (wft : WFT s trank)
    (hn : (s.entities.map (·.name)).Nodup) (roots : List String) (hr : ∀ n, n ∈ roots ↔ n ∈ s.entities.map (·.name))
    (num : String → Nat) (hinj : ∀ a b, num a = num b → a = b) (over k : Nat) :
    (k ∈ candEntitiesBy (regSubs num (dictOf s roots).entities) ((ofGen num (dictOf s roots).entities).length + 1) over ↔
      over ∈ typesOf (ofGen num (dictOf s roots).entities) k) ∧
    Ranked (ofGen num (dictOf s roots).entities) (regRank num (dictOf s roots).entities rank) := by
  have hd := sameHierarchy_ofGen num (dictOf s roots).entities
  exact ⟨C11_candidate_entities_generated wf wft hn roots hr num hinj _ hd over k,
    ranked_of_mirror s rank wf _ (mirrored_of_mirror s _ hn (C02_mirror wf wft hn roots hr)) num hinj _ hd⟩

end Registry

end StepModel.LazyRefs

import StepModel.ExpressDiagLemmas
import StepModel.ExpressResolveLemmas
import StepModel.ExpressLexLemmas
import StepModel.Generated.ReportSites
import StepModel.ExpressBlame
/-!
# C20 — diagnostics name the construct that is actually wrong; `-w` / `-i` are local

Statement (properties.jsonl): every diagnostic is attributed to the input file; a quoted identifier / character /
count is the offending text of the input, never an empty, stale or unrelated string; switching a warning class
changes only whether warnings of that class are printed, never the verdict or another diagnostic.

All theorems are about the models `Express.Diag` (error.c, fedex.c main), `Express.Lex` (expscan.l, lexact.c) and
`Express.Resolve`, instantiated with the tables and constants regenerated from the working tree
(`Generated.LibErrors`, `Generated.ResolveGen`).  Theorems that mention `LibErrors.withLineForwardsVaList` or
`LibErrors.setWarningNullGuard` stop checking when the source regresses to the `va_list`-as-argument call or to the
unguarded `strcmp`.
-/
namespace StepModel.Express.C20
open StepModel.Generated
open StepModel.Express.Diag
open StepModel.Express

/-! ## rendering: the quoted text is the argument, whatever the registers hold -/

/-- a message body is the format with the *arriving* arguments substituted, for every `Ambient` -/
theorem C20_rendered_is_substitution (fwd : Bool) (amb : Ambient) (d : Diag)
    (h : fits (parseFmt (formatOf d.code)) (arrivingArgs fwd d) = true) :
    body fwd amb d = subst (parseFmt (formatOf d.code)) (arrivingArgs fwd d) :=
  render_eq_subst amb _ _ 0 h

/-- with the code as it is now, the caller's arguments arrive through every entry point, `ERRORreport_with_line`
    included (regenerated constant) -/
theorem C20_arguments_arrive (d : Diag) : arrivingArgs LibErrors.withLineForwardsVaList d = d.args := by
  cases hv : d.via <;> simp [arrivingArgs, hv, LibErrors.withLineForwardsVaList]

/-- full statement for one diagnostic: whenever the reporting site passes what the format expects, the text printed
    is the format with the site's arguments — the offending texts — substituted, and no `Ambient` value shows -/
theorem C20_quotes_offender (amb : Ambient) (d : Diag)
    (h : fits (parseFmt (formatOf d.code)) d.args = true) :
    body LibErrors.withLineForwardsVaList amb d = subst (parseFmt (formatOf d.code)) d.args := by
  have := C20_rendered_is_substitution LibErrors.withLineForwardsVaList amb d (by rw [C20_arguments_arrive]; exact h)
  rw [this, C20_arguments_arrive]

theorem C20_independent_of_ambient (amb₁ amb₂ : Ambient) (d : Diag)
    (h : fits (parseFmt (formatOf d.code)) d.args = true) :
    message LibErrors.withLineForwardsVaList amb₁ d = message LibErrors.withLineForwardsVaList amb₂ d := by
  unfold message
  rw [C20_quotes_offender amb₁ d h, C20_quotes_offender amb₂ d h]

/-- every message starts with the file the diagnostic was raised for (positioned entry points) -/
theorem C20_file_attributed (fwd : Bool) (amb : Ambient) (d : Diag) (h : d.via ≠ .plain) :
    ∃ rest, message fwd amb d = d.file ++ ':' :: rest := by
  unfold message
  cases hv : d.via with
  | plain => exact absurd hv h
  | symbol => simp only [positionedPrefix, List.append_assoc, List.cons_append]; exact ⟨_, rfl⟩
  | line => simp only [positionedPrefix, List.append_assoc, List.cons_append]; exact ⟨_, rfl⟩

/-- why the forwarding form matters: when the `va_list` object is passed as the variadic argument, the same
    diagnostic (`_abc`, BAD_IDENTIFIER) prints differently under two register contents and never shows `_abc` -/
theorem C20_va_list_as_argument_witness :
    let d : Diag := ⟨LibErrors.BAD_IDENTIFIER, "a.exp".toList, 1, [.str "_abc".toList], .line⟩
    let amb₁ : Ambient := ⟨fun _ => [], fun _ => 0, fun _ => 0, fun _ => []⟩
    let amb₂ : Ambient := ⟨fun _ => ['x'], fun _ => 0, fun _ => 0, fun _ => []⟩
    body false amb₁ d = "identifier () cannot start with underscore".toList ∧
    body false amb₂ d = "identifier (x) cannot start with underscore".toList ∧
    body true amb₁ d = "identifier (_abc) cannot start with underscore".toList := by
  decide

/-! ## every diagnostic call site of the C sources passes what its format consumes -/

def kindOfNat : Nat → Option Kind
  | 0 => some .str | 1 => some .chr | 2 => some .int | 3 => some .real | _ => none

/-- at a call site (position, code name, argument kinds — regenerated from src/express by `reportsites.py`) the number and
    kinds of the arguments are what the code's format in the regenerated table consumes -/
def siteFits (s : String × String × List Nat) : Bool :=
  match LibErrors.codeEnum.find? (·.1 = s.2.1), s.2.2.mapM kindOfNat with
  | some (_, c), some ks => codeFits c ks
  | _, _ => false

set_option maxRecDepth 100000 in
/-- **every `ERRORreport*` call of src/express (regenerated list, 81 sites on this tree) passes arguments of the number and kinds
    its format consumes** -/
theorem C20_report_sites_fit : ∀ s ∈ ReportSites.sites, siteFits s = true := by
  decide

/-- the shape this theorem caught (repaired by fixes/C20-5): a report of GROUP_REF_UNEXPECTED_TYPE without argument does not fit "… expression %s" (check-express
    prints stack garbage: `SELF.l\e2.v` with `l` an aggregate), with the expression's name it does -/
theorem C20_group_ref_site_witness :
    siteFits ("expr.c", "GROUP_REF_UNEXPECTED_TYPE", []) = false ∧
    siteFits ("expr.c", "GROUP_REF_UNEXPECTED_TYPE", [0]) = true := by
  decide

/-! ## lexical diagnostics quote the input -/

/-- **the argument of every lexical diagnostic is the text of the input at the offset the diagnostic carries**: the whole
    identifier that starts with an underscore (maximal run of identifier characters), the illegal character, the non-hex
    character of an encoded string literal, the number of characters between the quotes (`Lex.ArgOK` spells each case out) -/
theorem C20_lex_quotes_input (input : List Char) (d : Lex.LDiag) (h : d ∈ Lex.lexDiags input) :
    Lex.Offends input d :=
  Lex.lexDiags_offends input d h

/-- and it fits the format of its code (regenerated table), so by `C20_quotes_offender` the message printed is that format
    with the offending input text, for every `Ambient` -/
theorem C20_lex_quotes_offender (amb : Ambient) (file input : List Char) (base : Nat) (d : Lex.LDiag)
    (h : d ∈ Lex.lexDiags input) :
    body LibErrors.withLineForwardsVaList amb (Lex.toDiag file input d base)
      = subst (parseFmt (formatOf d.code)) d.arg.toList :=
  C20_quotes_offender amb (Lex.toDiag file input d base) (Lex.lexDiags_fits input d h)

/-! ## every reporting site of the resolve model passes what its format expects; file of origin in multi-file runs -/

/-- every parse-time and resolve-time diagnostic of the declaration-level model (all five passes, every schema of a
    multi-schema / multi-file run) passes arguments that fit the format of its code in the regenerated table -/
theorem C20_resolve_sites_fit (f : Resolve.File) (d : Diag)
    (h : d ∈ Resolve.parseDiags f ∨ d ∈ (Resolve.resolveDiags f).diags) :
    fits (parseFmt (formatOf d.code)) d.args = true := by
  rcases h with h | h
  · exact (Resolve.parseDiags_ok f d h).2.2.1
  · obtain ⟨p, hp⟩ := Resolve.resolveDiags_ok f d h; exact hp.2.2.1

/-- hence the text printed for it is its format with the model's arguments — the names, counts and lines the fault classes
    are about — whatever the registers hold -/
theorem C20_semantic_quotes_offender (amb : Ambient) (f : Resolve.File) (d : Diag)
    (h : d ∈ Resolve.parseDiags f ∨ d ∈ (Resolve.resolveDiags f).diags) :
    body LibErrors.withLineForwardsVaList amb d = subst (parseFmt (formatOf d.code)) d.args :=
  C20_quotes_offender amb d (C20_resolve_sites_fit f d h)

/-- in a run over several files (the file on the command line plus schema files found through the current directory /
    EXPRESS_PATH) every diagnostic of ANY of the five passes for schema `s` (passes 3-5 walk `s' = linked f fb s`, the schema with
    its cross-schema entity references resolved) carries the file `s` was read from, and is printed under it — the MODEL
    attributes it so: `mk path` with the path of the visiting schema; which symbol each C report site passes is tied by the
    regenerated report-site table and the correspondence -/
theorem C20_file_of_origin (f : Resolve.File) (s s' : Resolve.Schema) (fb fwd : Bool) (amb : Ambient) (d : Diag)
    (h : d ∈ Resolve.pass1 f s ∨ d ∈ Resolve.pass2 f fb s ∨
         d ∈ Resolve.pass3 (Resolve.fileOf f s) (Resolve.envOf f fb s) s' ∨
         d ∈ Resolve.pass4 (Resolve.fileOf f s) (Resolve.envOf f fb s) s' ∨
         d ∈ (Resolve.pass5 (Resolve.fileOf f s) (Resolve.envOf f fb s) s').diags) :
    d.file = (Resolve.fileOf f s).toList ∧
    ∃ rest, message fwd amb d = (Resolve.fileOf f s).toList ++ ':' :: rest := by
  have hb : Resolve.OKd (Resolve.fileOf f s) d := by
    rcases h with h | h | h | h | h
    · exact Resolve.pass1_ok f s d h
    · exact Resolve.pass2_ok f fb s d h
    · exact Resolve.pass3_ok _ _ s' d h
    · exact Resolve.pass4_ok _ _ s' d h
    · exact Resolve.pass5_ok _ _ s' d h
  have hf := hb.1
  have hv : d.via ≠ .plain := by rw [hb.2.1]; decide
  obtain ⟨rest, hr⟩ := C20_file_attributed fwd amb d hv
  exact ⟨hf, rest, by rw [hr, hf]⟩

/-- parse-time diagnostics of the checked file carry its name -/
theorem C20_parse_file (f : Resolve.File) (d : Diag) (h : d ∈ Resolve.parseDiags f) : d.file = f.path.toList :=
  (Resolve.parseDiags_ok f d h).1

/-- SUBTYPE_RESOLVE ("Subtype %s resolves to non-entity %s on line %d."): with the name of the non-entity passed, the
    arguments fit the format, so `C20_quotes_offender` applies; with only (subtype name, line) — the call as it stood — they do
    not: the second `%s` consumes the line number as a pointer (check-express aborts in the middle of the message) -/
theorem C20_subtype_resolve_fits (n dn : String) (dl : Nat) (h : ResolveGen.subtypeResolvePassesName = true) :
    fits (parseFmt (formatOf LibErrors.SUBTYPE_RESOLVE)) (Resolve.subtypeResolveArgs n dn dl) = true := by
  have hp : parseFmt (formatOf LibErrors.SUBTYPE_RESOLVE) = parseFmt "Subtype %s resolves to non-entity %s on line %d.".toList := by decide
  simp only [Resolve.subtypeResolveArgs, h, if_true, hp]
  simp [parseFmt, fits, convArg, Resolve.sArg]

theorem C20_subtype_resolve_two_args_witness (n : List Char) (dl : Int) :
    fits (parseFmt (formatOf LibErrors.SUBTYPE_RESOLVE)) [.str n, .int dl] = false := by
  have hp : parseFmt (formatOf LibErrors.SUBTYPE_RESOLVE) = parseFmt "Subtype %s resolves to non-entity %s on line %d.".toList := by decide
  rw [hp]
  simp [parseFmt, fits, convArg]

/-! ## cycle messages -/

/-- a cycle message names an entity / select type that really is on a cycle of the graph that was searched
    (holds for the `return 0` and the `continue` variant alike, any fuel, any sibling order) -/
theorem C20_cycle_names_on_cycle (ret : Bool) (e : String) (g : String → List String) (fuel : Nat) (r : Resolve.Dfs)
    (h : Resolve.dfs ret e g fuel (g e) [] = some r) (hf : r.found = true) :
    Resolve.Reach g e e ∧ ∀ n ∈ r.trail, Resolve.Reach g e n ∧ Resolve.ReachRefl g n e :=
  Resolve.dfs_sound ret e g fuel (g e) [] r h hf e (fun c hc => Resolve.Reach.step hc)

/-! ## duplicate declarations quote the colliding key -/

/-- a duplicate among imported names (`USE/REFERENCE FROM s (x AS y, z AS y)`) quotes the visible name that collides —
    the alias — not the name of either original -/
theorem C20_alias_duplicate_quotes_alias (path : String) :
    ∀ (items seen : List (String × Nat × Resolve.Obj)) (d : Diag), d ∈ Resolve.aliasDups path items seen →
      ∃ n l l0, (n, l) ∈ items.map (fun x => (x.1, x.2.1)) ∧ n ∈ (seen ++ items).map (·.1) ∧
        d = Resolve.mk path LibErrors.DUPLICATE_DECL l [Resolve.sArg n, .int l0] := by
  intro items
  induction items with
  | nil => intro seen d h; simp [Resolve.aliasDups] at h
  | cons x xs ih =>
    intro seen d h
    obtain ⟨n, l, o⟩ := x
    simp only [Resolve.aliasDups] at h
    split at h
    next n0 l0 o0 hf =>
      split at h
      · obtain ⟨n', l', l0', h1, h2, h3⟩ := ih seen d h
        refine ⟨n', l', l0', by simp [h1], ?_, h3⟩
        simp only [List.map_append, List.mem_append, List.map_cons, List.mem_cons] at h2 ⊢
        rcases h2 with h2 | h2
        · exact Or.inl h2
        · exact Or.inr (Or.inr h2)
      · simp only [List.mem_cons] at h
        rcases h with h | h
        · exact ⟨n, l, l0, by simp, by simp, h⟩
        · obtain ⟨n', l', l0', h1, h2, h3⟩ := ih seen d h
          refine ⟨n', l', l0', by simp [h1], ?_, h3⟩
          simp only [List.map_append, List.mem_append, List.map_cons, List.mem_cons] at h2 ⊢
          rcases h2 with h2 | h2
          · exact Or.inl h2
          · exact Or.inr (Or.inr h2)
    next hf =>
      obtain ⟨n', l', l0', h1, h2, h3⟩ := ih (seen ++ [(n, l, o)]) d h
      refine ⟨n', l', l0', by simp [h1], ?_, h3⟩
      simp only [List.map_append, List.mem_append, List.map_cons, List.mem_cons, List.map_nil, List.mem_nil_iff, or_false] at h2 ⊢
      rcases h2 with (h2 | h2) | h2
      · exact Or.inl h2
      · exact Or.inr (Or.inl h2)
      · exact Or.inr (Or.inr h2)

/-- a duplicate attribute — plain, or through `SELF\\sup.attr` — quotes the attribute name under which it was entered -/
theorem C20_attribute_duplicate_quotes_name (path : String) :
    ∀ (items seen : List (String × Nat)) (d : Diag), d ∈ Resolve.dupDiags path items seen →
      ∃ n l l0, (n, l) ∈ items ∧ d = Resolve.mk path LibErrors.DUPLICATE_DECL l [Resolve.sArg n, .int l0] := by
  intro items
  induction items with
  | nil => intro seen d h; simp [Resolve.dupDiags] at h
  | cons x xs ih =>
    intro seen d h
    obtain ⟨n, l⟩ := x
    simp only [Resolve.dupDiags] at h
    split at h
    next n0 l0 hf =>
      simp only [List.mem_cons] at h
      rcases h with h | h
      · exact ⟨n, l, l0, by simp, h⟩
      · obtain ⟨n', l', l0', h1, h2⟩ := ih seen d h
        exact ⟨n', l', l0', by simp [h1], h2⟩
    next hf =>
      obtain ⟨n', l', l0', h1, h2⟩ := ih _ d h
      exact ⟨n', l', l0', by simp [h1], h2⟩

/-! ## `-w` / `-i` -/

/-- one `-w X` / `-i X` changes the override of class-X entries only … -/
theorem C20_switch_touches_only_its_class (guard : Bool) (ov ov' : Overrides) (name : String) (b f : Bool)
    (h : setWarning guard ov name b = .ok ov' f) (j : Nat) (hj : classOf j ≠ some name) : ov' j = ov j := by
  have := setWarningLoop_apply guard name b _ 0 ov false ov' f h j
  rw [this]; split <;> simp [newOverride, hj]

/-- … and never of an entry whose severity is above WARNING -/
theorem C20_switch_never_touches_errors (guard : Bool) (ov ov' : Overrides) (name : String) (b f : Bool)
    (h : setWarning guard ov name b = .ok ov' f) (j : Nat) (hj : severityOf j > LibErrors.SEVERITY_WARNING) :
    ov' j = ov j := by
  have := setWarningLoop_apply guard name b _ 0 ov false ov' f h j
  have ns : ¬ switchable j = true := fun hsw => by have := switchable_le hsw; omega
  rw [this]; split <;> simp [newOverride, ns]

theorem initOverrides_false (i : Nat) : initOverrides i = false := by
  have hall : ∀ e ∈ LibErrors.entries, e.override = false := by decide
  have : ∀ (es : List LibErrors.Entry), (∀ e ∈ es, e.override = false) → (lookupIn es i).override = false := by
    intro es; induction es with
    | nil => intro _; rfl
    | cons e es ih =>
      intro h; simp only [lookupIn]; split
      · exact h e (by simp)
      · exact ih (fun x hx => h x (by simp [hx]))
  exact this _ hall

/-- whatever switches are given, every ERROR / EXIT / DUMP diagnostic stays enabled (so the three
    `ERRORis_enabled( … )` guards in resolve.c, all on error-severity codes, never skip a check) -/
theorem C20_errors_always_enabled (guard : Bool) (sws : List Switch) (ov : Overrides)
    (h : configure guard sws = .ok ov) (code : Nat) (hc : severityOf code > LibErrors.SEVERITY_WARNING) :
    enabled ov code = true := by
  have key : ∀ (sws : List Switch) (ov0 : Overrides), ov0 code = false →
      applySwitches guard sws ov0 = .ok ov → ov code = false := by
    intro sws
    induction sws with
    | nil => intro ov0 h0 h; simp [applySwitches] at h; rw [← h]; exact h0
    | cons s ss ih =>
      intro ov0 h0 h
      simp only [applySwitches] at h
      split at h
      · simp at h
      · simp at h
      next ov1 hs =>
        exact ih ov1 (by rw [C20_switch_never_touches_errors guard ov0 ov1 _ _ _ hs code hc]; exact h0) h
  unfold enabled
  cases sws with
  | nil =>
    simp [configure] at h
    rw [← h]
    have : ¬ severityOf code ≤ LibErrors.SEVERITY_WARNING := by omega
    simp [setAllWarnings, this, initOverrides_false]
  | cons s ss =>
    simp only [configure, show LibErrors.switchResetsAll = false by decide, Bool.false_eq_true, if_false] at h
    simp [key (s :: ss) initOverrides (initOverrides_false code) h]

/-- EVERY `ERRORis_enabled( CODE )` site of the front end (regenerated list: all of src/express outside error.c) asks about
    a code of severity above WARNING — so, by `C20_errors_always_enabled`, no -w / -i switch can change what such a site
    does (a guard on a warning code would make the guarded look-ups, and the errors they report, depend on the switch) -/
def guardedSeverityAboveWarning (n : String) : Bool :=
  match LibErrors.codeEnum.find? (·.1 = n) with
  | some (_, c) => decide (severityOf c > LibErrors.SEVERITY_WARNING)
  | none => false

theorem C20_guarded_checks_are_errors :
    ∀ n ∈ ResolveGen.guardedCodeNames, guardedSeverityAboveWarning n = true := by
  decide

/-- two option lists that differ in one switch of class `X` (`-w X` here, `-i X` there) end in the same way
    (both run, both stop with the usage text, or both crash) and, when they run, with override columns that agree
    outside class `X` -/
theorem C20_switch_local_config (guard : Bool) (X : String) (pre post : List Switch) :
    match configure guard (pre ++ ⟨.w, X⟩ :: post), configure guard (pre ++ ⟨.i, X⟩ :: post) with
    | .ok ov₁, .ok ov₂ => ∀ j, ov₁ j ≠ ov₂ j → classOf j = some X ∧ severityOf j ≤ LibErrors.SEVERITY_WARNING
    | .crash, .crash => True
    | .usage, .usage => True
    | _, _ => False :=
  switch_local_config guard X pre post

/-- with override columns that differ only on warning entries of class `X`, the same sequence of reports gives
    the same verdict (sticky error flag, exit/abort) and the same printed diagnostics outside class `X`
    (`filt X` drops the diagnostics of class `X`) -/
theorem C20_switch_local_report (fwd : Bool) (amb : Ambient) (X : String) (ov₁ ov₂ : Overrides)
    (h : ∀ j, ov₁ j ≠ ov₂ j → classOf j = some X ∧ severityOf j ≤ LibErrors.SEVERITY_WARNING)
    (ds : List Diag) (r : Run) :
    (report fwd amb ov₁ ds r).occurred = (report fwd amb ov₂ ds r).occurred ∧
    (report fwd amb ov₁ ds r).halt = (report fwd amb ov₂ ds r).halt ∧
    filt X (report fwd amb ov₁ ds r).printed = filt X (report fwd amb ov₂ ds r).printed :=
  switch_local_report fwd amb X ov₁ ov₂ h ds r r rfl rfl rfl

/-- **the whole tool run**: with override columns that differ only on warning entries of class `X`, `main` ends with the same
    exit status, banner and backend decision, and prints the same diagnostics outside class `X` — for every tool and every
    sequence of parse / resolve / backend diagnostics -/
theorem C20_switch_local (tool : Tool) (fwd : Bool) (amb : Ambient) (X : String) (ov₁ ov₂ : Overrides)
    (h : ∀ j, ov₁ j ≠ ov₂ j → classOf j = some X ∧ severityOf j ≤ LibErrors.SEVERITY_WARNING)
    (p r b : List Diag) :
    (runMain tool fwd amb ov₁ p r b).status = (runMain tool fwd amb ov₂ p r b).status ∧
    (runMain tool fwd amb ov₁ p r b).banner = (runMain tool fwd amb ov₂ p r b).banner ∧
    (runMain tool fwd amb ov₁ p r b).backendRan = (runMain tool fwd amb ov₂ p r b).backendRan ∧
    filt X (runMain tool fwd amb ov₁ p r b).printed = filt X (runMain tool fwd amb ov₂ p r b).printed :=
  switch_local_main tool fwd amb X ov₁ ov₂ h p r b

/-- **the whole command line**: `tool … -w X …` and `tool … -i X …` (same other switches around) both crash, both stop with
    the usage text, or both run — and then with the same verdict and the same diagnostics outside class `X` -/
theorem C20_switch_local_command (tool : Tool) (guard fwd : Bool) (amb : Ambient) (X : String) (pre post : List Switch)
    (p r b : List Diag) :
    match runCmd tool guard fwd amb (pre ++ ⟨.w, X⟩ :: post) p r b, runCmd tool guard fwd amb (pre ++ ⟨.i, X⟩ :: post) p r b with
    | .ran a, .ran c => a.status = c.status ∧ a.banner = c.banner ∧ a.backendRan = c.backendRan ∧ filt X a.printed = filt X c.printed
    | .crashed, .crashed => True
    | .usage, .usage => True
    | _, _ => False := by
  have hc := switch_local_config guard X pre post
  simp only [runCmd]
  cases h₁ : configure guard (pre ++ ⟨.w, X⟩ :: post) <;> cases h₂ : configure guard (pre ++ ⟨.i, X⟩ :: post) <;>
    simp only [h₁, h₂] at hc ⊢ <;> try exact hc
  exact switch_local_main tool fwd amb X _ _ hc p r b

/-- **with and without the switch**, on a command line that already holds a switch: inserting `-w X` / `-i X` is either refused
    (usage: `X` names no class) or leaves the exit status, the banner, the backend decision and every diagnostic outside class `X`
    as they were -/
theorem C20_switch_with_without (tool : Tool) (fwd : Bool) (amb : Ambient) (X : String) (o : Sw) (sw0 : Switch)
    (pre post : List Switch) (p r b : List Diag) :
    match runCmd tool LibErrors.setWarningNullGuard fwd amb (sw0 :: pre ++ post) p r b,
          runCmd tool LibErrors.setWarningNullGuard fwd amb (sw0 :: pre ++ ⟨o, X⟩ :: post) p r b with
    | .ran a, .ran c => a.status = c.status ∧ a.banner = c.banner ∧ a.backendRan = c.backendRan ∧ filt X a.printed = filt X c.printed
    | _, .usage => True
    | _, _ => False := by
  have hc := switch_added_config LibErrors.setWarningNullGuard (by decide) X o sw0 pre post
  simp only [runCmd]
  cases h₁ : configure LibErrors.setWarningNullGuard (sw0 :: pre ++ post) <;>
    cases h₂ : configure LibErrors.setWarningNullGuard (sw0 :: pre ++ ⟨o, X⟩ :: post) <;>
    simp only [h₁, h₂] at hc ⊢ <;> try exact hc
  exact switch_local_main tool fwd amb X _ _ hc p r b

/-- whether two warnings of classes other than `downcast` are enabled after option processing: the class-less WRONG_ARG_COUNT and
    CASE_SKIP_LABEL (class `invalid_case`) -/
def warnProbe (c : Config) : Option (Bool × Bool) :=
  match c with
  | .ok ov => some (enabled ov LibErrors.WRONG_ARG_COUNT, enabled ov LibErrors.CASE_SKIP_LABEL)
  | _ => none

/-- `_witness` — **the FIRST switch of a command line is not local**: without any `-w`/`-i` every warning is switched off
    (`if( no_warnings ) ERRORset_all_warnings( … )` in fedex.c's `main`), the first switch — whatever class it names — leaves that
    call out, so every warning of every OTHER class appears.  Here: the class-less WRONG_ARG_COUNT and CASE_SKIP_LABEL (class
    `invalid_case`) are off without switches and on under `-w downcast` as well as under `-i downcast`.  The with/without form of
    the property holds only from the second switch on (`C20_switch_with_without`); finding `first-switch-enables-all-warnings` -/
theorem C20_first_switch_enables_other_classes_witness :
    warnProbe (configure LibErrors.setWarningNullGuard []) = some (false, false) ∧
    warnProbe (configure LibErrors.setWarningNullGuard [⟨.w, "downcast"⟩]) = some (true, true) ∧
    warnProbe (configure LibErrors.setWarningNullGuard [⟨.i, "downcast"⟩]) = some (true, true) := by
  decide

/-- `-w X` / `-i X` for a class that exists does not crash (regenerated guard); on the unguarded code every switch
    does: index 0 of the table is a zero-filled warning entry without a class name -/
theorem C20_switch_does_not_crash (ov : Overrides) (name : String) (b : Bool) :
    setWarning LibErrors.setWarningNullGuard ov name b ≠ .crash :=
  setWarning_guarded_no_crash ov name b (by decide)

theorem C20_unguarded_switch_crashes_witness (ov : Overrides) (name : String) (b : Bool) :
    (match setWarning false ov name b with | .crash => true | _ => false) = true := by
  have h0 : switchable 0 = true := by decide
  have h1 : classOf 0 = none := by decide
  have hs : LibErrors.tableSize = (LibErrors.tableSize - 1) + 1 := by decide
  unfold setWarning
  rw [hs]
  simp [setWarningLoop, h0, h1]

/-- non-vacuity: a switch list and a diagnostic satisfying the hypotheses above -/
example : fits (parseFmt (formatOf LibErrors.BAD_IDENTIFIER)) [.str "_abc".toList] = true := by decide
example : ∃ ov, configure true [⟨.w, "downcast"⟩] = .ok ov := by
  simp [configure, applySwitches, setWarning, show LibErrors.switchResetsAll = false by decide]
  exact ⟨_, rfl⟩

/-! ## who is blamed: the construct a diagnostic names really is the faulty one

`C20_semantic_quotes_offender` says the printed text is the format with the model's arguments; the theorems below say what those
arguments are: a name (and line) of the input that violates the well-formedness condition of the check — for every "undefined X"
class and the structural checks of the declaration-level model. -/

open Resolve in
/-- UNDEFINED_TYPE / NOT_A_TYPE quote the name at the core of the reference, on its line, and that name denotes no type -/
theorem C20_blame_undefined_type (p : String) (env : Env) (s : Schema) (t : TypeRef) (d : Diag) (h : d ∈ typeRefDiags p env s t) :
    ∃ n l, t.coreName = some (n, l) ∧ ¬ DenotesType env s n ∧ d.line = l ∧ d.args.head? = some (sArg n) :=
  typeRef_blames p env s t d h

open Resolve in
/-- UNKNOWN_SUPERTYPE / SUPERTYPE_RESOLVE / UNKNOWN_SUBTYPE / SUBTYPE_RESOLVE quote a listed name that is no entity -/
theorem C20_blame_super_sub (p : String) (env : Env) (s : Schema) (e : Entity) (d : Diag) (h : d ∈ superSubDiags p env s e) :
    (∃ x ∈ e.supers, isEnt env s x.1 = false ∧ d.line = x.2 ∧ d.args.head? = some (sArg x.1)) ∨
    (∃ n ∈ e.subs, isEnt env s n = false ∧ d.line = e.line ∧ d.args.head? = some (sArg n)) :=
  superSub_blames p env s e d h

open Resolve in
/-- MISSING_SUPERTYPE quotes (entity, subtype) for a subtype that really does not list the entity, on the subtype's line -/
theorem C20_blame_missing_supertype (p : String) (s : Schema) (e : Entity) (d : Diag) (h : d ∈ missingSuperDiags p s e) :
    ∃ sub ∈ subtypesOf s e, ∃ se, findEntity s sub = some se ∧ e.name ∉ supersOf s se ∧
      d.line = se.line ∧ d.args = [sArg e.name, sArg (declName se.name)] :=
  missingSuper_blames p s e d h

open Resolve in
/-- UNDEFINED_FUNC quotes the called name, which is neither declared nor built in (any expression context) -/
theorem C20_blame_undefined_function (p : String) (s : Schema) (r : Rule) (fn : String) (argc : Nat) (d : Diag)
    (h : d ∈ callDiags p s r fn argc) (he : isErrorCode d.code = true) :
    ¬ CallWF s fn ∧ d.line = r.line ∧
      ((d.code = LibErrors.UNDEFINED_FUNC ∧ d.args = [sArg fn]) ∨ (d.code = LibErrors.MISSING_SELF ∧ d.args = [sArg r.label])) :=
  call_blames p s r fn argc d h he

open Resolve in
/-- UNKNOWN_ATTR_IN_ENTITY quotes (attribute, entity) for a `SELF.a` the entity neither declares nor inherits -/
theorem C20_blame_unknown_attribute (p : String) (env : Env) (s : Schema) (fuel : Nat) (e : Entity) (r : Rule) (an : String)
    (d : Diag) (h : d ∈ ruleItemDiags p env s fuel e r (.selfAttr an)) :
    ¬ AttrVisible s fuel e an ∧ d.line = r.line ∧ d.args = [sArg an, sArg e.name] :=
  selfAttr_blames p env s fuel e r an d h

open Resolve in
/-- UNDEFINED quotes a bare identifier that is no attribute in reach and that the schema scope does not know (entity-level
    expressions: domain rules, DERIVE, bounds) -/
theorem C20_blame_undefined_reference (p : String) (env : Env) (s : Schema) (fuel : Nat) (e : Entity) (r : Rule) (an : String)
    (d : Diag) (h : d ∈ ruleItemDiags p env s fuel e r (.bareAttr an)) (he : isErrorCode d.code = true) :
    ¬ BareVisible s fuel e an ∧ d.line = r.line ∧
      ((d.code = LibErrors.UNDEFINED ∧ d.args = [sArg an] ∧ ¬ GlobalVisible env s an) ∨
       (d.code = LibErrors.MISSING_SELF ∧ d.args = [sArg r.label] ∧ r.isWhere = true)) :=
  bareAttr_blames p env s fuel e r an d h he

open Resolve in
/-- the same inside function bodies, global rules and constants -/
theorem C20_blame_undefined_reference_in_algorithm (p : String) (env : Env) (s : Schema) (f : Func) (r : Rule) (n : String)
    (d : Diag) (h : d ∈ algItemDiags p env s f r (.bareAttr n)) (he : isErrorCode d.code = true) :
    n ∉ f.locals ∧ ¬ GlobalVisible env s n ∧ d.line = r.line ∧ d.code = LibErrors.UNDEFINED ∧ d.args = [sArg n] :=
  algRef_blames p env s f r n d h he

open Resolve in
/-- UNDEFINED_SCHEMA quotes the clause's schema name, which no schema of the run has -/
theorem C20_blame_undefined_schema (f : File) (s : Schema) (d : Diag) (h : d ∈ pass1 f s) :
    ∃ i ∈ s.ifaces, (findSchema f i.schema).isSome = false ∧ d.line = i.line ∧ d.args = [sArg i.schema] ∧
      d.code = LibErrors.UNDEFINED_SCHEMA :=
  pass1_blames f s d h

open Resolve in
/-- REF_NONEXISTENT quotes (item, source schema) for an item that schema does not hand out -/
theorem C20_blame_nonexistent_import (f : File) (fb : Bool) (s : Schema) (d : Diag) (h : d ∈ pass2 f fb s)
    (hc : d.code = LibErrors.REF_NONEXISTENT) :
    ∃ x ∈ useItems s ++ refItems s, exportOf f fb (processedBefore f s.name) (importFuel f) x.1 x.2.old = none ∧
      d.line = x.2.line ∧ d.args = [sArg x.2.old, sArg x.1] :=
  pass2_blames f fb s d h hc

open Resolve in
/-- OVERLOADED_ATTR quotes (attribute, supertype) where the supertype really has an attribute of that name -/
theorem C20_blame_overloaded_attribute (p : String) (s : Schema) (fuel : Nat) (e : Entity) (d : Diag)
    (h : d ∈ overloadDiags p s fuel e) :
    ∃ a ∈ e.attrs, a.redeclOf = none ∧ ∃ sup ∈ supersOf s e, overloadFound s a.name fuel sup = some true ∧
      d.line = a.line ∧ d.args = [sArg a.name, sArg (declName sup)] :=
  overload_blames p s fuel e d h

open Resolve in
/-- REDECL_NO_SUCH_SUPERTYPE / REDECL_NO_SUCH_ATTR quote the two names of an ill-formed redeclaration -/
theorem C20_blame_redeclaration (p : String) (s : Schema) (fuel : Nat) (e : Entity) (d : Diag) (h : d ∈ redeclDiags p s fuel e) :
    ∃ a ∈ e.attrs, ∃ sup, a.redeclOf = some sup ∧ d.line = a.line ∧
      ((d.code = LibErrors.REDECL_NO_SUCH_SUPERTYPE ∧ d.args = [sArg sup, sArg a.name] ∧
          (sup = e.name ∨ isAncestor s sup fuel e.name = false)) ∨
       (d.code = LibErrors.REDECL_NO_SUCH_ATTR ∧ d.args = [sArg a.name, sArg (declName sup)] ∧
          ∃ se, findEntity s sup = some se ∧ se.attrs.any (·.name = a.name) = false)) :=
  redecl_blames p s fuel e d h

open Resolve in
/-- INVERSE_BAD_ATTR / INVERSE_BAD_ENTITY quote the FOR name of a clause that really is ill formed -/
theorem C20_blame_inverse (p : String) (s : Schema) (a : Attr) (hasAttr : String → String → Bool) (d : Diag)
    (h : d ∈ inverseDiags p s a hasAttr) :
    ¬ InverseWF s hasAttr a ∧ ∃ attrName l, a.inverseFor = some (attrName, l) ∧ d.args.head? = some (sArg attrName) ∧
      (d.line = l ∨ d.line = a.line) :=
  inverse_blames p s a hasAttr d h

open Resolve in
/-- every diagnostic of a UNIQUE rule is on the rule's line and quotes the attribute or the qualifier written there; an ERROR among
    them means the reference is ill formed -/
theorem C20_blame_unique (p : String) (s : Schema) (e : Entity) (fuel : Nat) (u : UniqueItem) (d : Diag)
    (h : d ∈ uniqueDiags p s e fuel u) :
    d.line = u.line ∧
    (d.args.head? = some (sArg u.attr) ∨ ∃ q, u.qual = some q ∧ d.args.head? = some (sArg q)) ∧
    (isErrorCode d.code = true → ¬ UniqueWF s fuel e u) :=
  unique_blames p s e fuel u d h

open Resolve in
/-- the diagnostics of a type declaration (CIRCULAR_REFERENCE, TYPE_IS_ENTITY, UNDEFINED_TYPE / NOT_A_TYPE) quote a name written in
    it — the underlying type's core name, or a select item that denotes no type — and the declaration is ill formed -/
theorem C20_blame_type_declaration (p : String) (env : Env) (s : Schema) (t : TypeDecl) (d : Diag)
    (h : d ∈ typeDeclDiags p env s t) :
    ¬ TypeDeclWF env s t ∧
    ((∃ r, t.body = .ref r ∧ ∃ n l, r.coreName = some (n, l) ∧ d.args.head? = some (sArg n)) ∨
     (∃ items, t.body = .select items ∧ ∃ x ∈ items, d.args.head? = some (sArg x.1) ∧ d.line = x.2 ∧ ¬ DenotesType env s x.1)) :=
  typeDecl_blames p env s t d h

open Resolve in
/-- WRONG_ARG_COUNT ("Call to %s uses %d arguments, but expected %d.") quotes the number of arguments the call is written with and the
    parameter count of the function it names (upper-cased for a built-in), on the call's line -/
theorem C20_wrong_arg_count_quotes_counts (p : String) (s : Schema) (r : Rule) (fn : String) (argc : Nat) (d : Diag)
    (h : d ∈ callDiags p s r fn argc) (hc : d.code = LibErrors.WRONG_ARG_COUNT) :
    d.line = r.line ∧ ∃ (name : String) (k : Nat), d.args = [sArg name, .int argc, .int k] ∧ k ≠ argc ∧
      ((∃ fd, findFunc s fn = some fd ∧ k = fd.nparams ∧ name = fn) ∨
       (findFunc s fn = none ∧ builtinArity fn = some k ∧ name = fn.toUpper)) :=
  callCount_blames p s r fn argc d h hc

open Resolve in
/-- for a call with an argument list the count check is made for the number of arguments WRITTEN, whichever of them resolve -/
theorem C20_call_count_independent_of_arguments (p : String) (env : Env) (s : Schema) (fuel : Nat) (e : Entity) (r : Rule)
    (fn : String) (args : List CallArg) (d : Diag) (h : d ∈ callDiags p s r fn args.length) :
    d ∈ callWithDiags p env s fuel e r fn args :=
  callWith_count p env s fuel e r fn args d h

open Resolve in
/-- the arguments are resolved left to right and the walk stops at the first one that fails: its diagnostics are the last ones of
    the walk, later arguments are not looked at -/
theorem C20_first_failing_argument_reported (diagsOf : CallArg → List Diag) (sees : CallArg → Bool) (pre : List CallArg)
    (a : CallArg) (post : List CallArg) (hpre : ∀ x ∈ pre, hasError (diagsOf x) = false) (ha : hasError (diagsOf a) = true) :
    (argsRun diagsOf sees (pre ++ a :: post)).1 = pre.flatMap diagsOf ++ diagsOf a :=
  argsRun_first_failure diagsOf sees pre a post hpre ha

/-- with `-B` every buffered diagnostic ends its line when the buffer is flushed (regenerated `bufferedNewline`: the flush prints
    `"%s\n"`): a chunk the flush adds to stderr is a stored message followed by a line end -/
theorem C20_buffered_messages_end_their_line (r : BufRun) (c : List Char) (h : c ∈ (flushInto r).out) :
    c ∈ r.out ∨ c.getLast? = some '\n' := by
  have hn : LibErrors.bufferedNewline = true := by decide
  simp only [flushInto, hn, if_true, List.mem_append, List.mem_map] at h
  rcases h with h | ⟨m, _, rfl⟩
  · exact Or.inl h
  · exact Or.inr (by simp)

/-- a full message buffer does not end the run (regenerated `bufferFullEndsRun = false`): after a diagnostic below EXIT severity
    the buffered run goes on with the remaining diagnostics, whatever the fill state -/
theorem C20_full_buffer_does_not_end_the_run : LibErrors.bufferFullEndsRun = false ∧ LibErrors.succeedFlushes = true := by
  decide

/-- **which symbol and which expressions each report site passes, for the sites where the kinds cannot tell a swap** (two or more
    arguments of one kind): the regenerated list `ReportSites.argExprs` is the list below.  This is what the model's `mk path CODE line
    [args]` rests on — e.g. MISSING_SUPERTYPE is reported at the SUBTYPE's symbol with (supertype name, subtype name), OVERLOADED_ATTR at
    the attribute with (attribute, supertype), REF_NONEXISTENT at the item with (item, schema), WRONG_ARG_COUNT with (name, arguments
    written, parameters declared).  The file / line attribution theorems and the `C20_blame_*` theorems above are statements about the
    MODEL's diagnostics (inversion of `mk`); that the tool's call sites pass these symbols in this order is pinned here (a swapped
    pair of names at one of these sites no longer checks) and compared by the correspondence -/
theorem C20_report_site_argument_order :
    ReportSites.argExprs = [
      ("dict.c", "DUPLICATE_DECL_DIFF_FILE", ["sym", "name", "old->symbol->line", "old->symbol->filename"]),
      ("dict.c", "DUPLICATE_DECL_DIFF_FILE", ["sym", "name", "e2->symbol->line", "e2->symbol->filename"]),
      ("entity.c", "UNKNOWN_SUPERTYPE", ["grp_ref", "grp_ref->name", "e->symbol.name"]),
      ("entity.c", "UNKNOWN_ATTR_IN_ENTITY", ["attr_ref", "attr_ref->name", "ref_entity->symbol.name"]),
      ("entity.c", "UNKNOWN_ATTR_IN_ENTITY", ["attr_ref", "attr_ref->name", "e->symbol.name"]),
      ("expr.c", "ENUM_NO_SUCH_ITEM", ["&op2->symbol", "op1type->symbol.name", "op2->symbol.name"]),
      ("expr.c", "WARN_UNSUPPORTED_LANG_FEAT", ["&e->symbol", "\"indexingonaBINARY\"", "__FILE__", "__LINE__"]),
      ("express.c", "FILE_UNREADABLE", ["", "filename", "strerror(errno)"]),
      ("express.c", "REF_NONEXISTENT", ["r->old", "r->old->name", "r->schema->symbol.name"]),
      ("express.c", "SCHEMA_NOT_IN_OWN_SCHEMA_FILE", ["", "name", "dir->full"]),
      ("lexact.c", "LITERAL_OUT_OF_RANGE", ["yylineno", "\"REAL\"", "yytext"]),
      ("lexact.c", "LITERAL_OUT_OF_RANGE", ["yylineno", "\"INTEGER\"", "yytext"]),
      ("lexact.c", "WARN_UNSUPPORTED_LANG_FEAT", ["yylineno", "\"INCLUDE:thefileisnotread\"", "__FILE__", "__LINE__"]),
      ("resolve.c", "SYNTAX", ["&sym", "\"Morethan\"RESOLVE_STR(RESOLVE_MAX_NESTING)\"levelsofnesting\"", "\"one\"", "what"]),
      ("resolve.c", "WRONG_ARG_COUNT", ["&expr->symbol", "expr->symbol.name", "LISTget_length(expr->u.funcall.list)", "f->u.func->pcount"]),
      ("resolve.c", "WRONG_ARG_COUNT", ["&expr->symbol", "expr->symbol.name", "0", "((Function)x)->u.func->pcount"]),
      ("resolve.c", "NOT_A_VALUE", ["&expr->symbol", "expr->symbol.name", "OBJget_type(DICT_type)"]),
      ("resolve.c", "UNKNOWN_SUBTYPE", ["&ent->symbol", "expr->symbol.name", "ent->symbol.name"]),
      ("resolve.c", "SUBTYPE_RESOLVE", ["&ent->symbol", "expr->symbol.name", "sym->name", "sym->line"]),
      ("resolve.c", "NOT_A_TYPE", ["&type->symbol", "type->symbol.name", "OBJget_type(DICT_type)"]),
      ("resolve.c", "INVERSE_BAD_ATTR", ["v->inverse_symbol", "v->inverse_symbol->name", "type->u.type->body->entity->symbol.name"]),
      ("resolve.c", "REDECL_NO_SUCH_SUPERTYPE", ["&attr->name->e.op1->e.op2->symbol", "attr->name->e.op1->e.op2->symbol.name", "VARget_simple_name(attr)"]),
      ("resolve.c", "REDECL_NO_SUCH_ATTR", ["&attr->name->e.op2->symbol", "sname", "sup->symbol.name"]),
      ("resolve.c", "OVERLOADED_ATTR", ["&attr->name->symbol", "attr->name->symbol.name", "supr->symbol.name"]),
      ("resolve.c", "MISSING_SUPERTYPE", ["&sub->symbol", "ent->symbol.name", "sub->symbol.name"]),
      ("resolve.c", "UNKNOWN_SUPERTYPE", ["sym", "sym->name", "e->symbol.name"]),
      ("resolve.c", "UNIQUE_QUAL_REDECL", ["&(expr->e.op2->symbol)", "expr->e.op2->symbol.name", "e->symbol.name"]),
      ("expparse.y", "SYNTAX", ["&sym", "\"Toomanynestedscopes\"", "CURRENT_SCOPE_TYPE_PRINTABLE", "CURRENT_SCOPE_NAME"]),
      ("expparse.y", "SYNTAX", ["&sym", "\"Syntaxerror\"", "CURRENT_SCOPE_TYPE_PRINTABLE", "CURRENT_SCOPE_NAME"])] := by
  rfl

/-- is the `limits` warning WARN_SMALL_REAL enabled after option processing -/
def limitsProbe (c : Config) : Option Bool :=
  match c with
  | .ok ov => some (enabled ov LibErrors.WARN_SMALL_REAL)
  | _ => none

/-- `_witness` — **what the regenerated `switchResetsAll = false` excludes**: in the other form of the option loop (every `-w` / `-i` first
    switches all classes on again) a later switch undoes an earlier `-w`: after `-w limits -w invalid_case` the `limits` warning is
    enabled again, whereas the loop as it is keeps it suppressed — and with ONE switch the two forms agree.  (`C20_switch_with_without`
    and `C20_switch_local_command` are theorems about the form as it is; they unfold `configure` with the constant.) -/
theorem C20_reset_per_switch_undoes_earlier_witness :
    limitsProbe (applySwitches LibErrors.setWarningNullGuard [⟨.w, "limits"⟩, ⟨.w, "invalid_case"⟩] initOverrides) = some false ∧
    limitsProbe (applySwitchesReset LibErrors.setWarningNullGuard [⟨.w, "limits"⟩, ⟨.w, "invalid_case"⟩] initOverrides) = some true ∧
    limitsProbe (applySwitches LibErrors.setWarningNullGuard [⟨.w, "limits"⟩] initOverrides) =
      limitsProbe (applySwitchesReset LibErrors.setWarningNullGuard [⟨.w, "limits"⟩] initOverrides) := by
  decide

end StepModel.Express.C20

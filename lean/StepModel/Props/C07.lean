import StepModel.ExpDecl
import StepModel.ExpParseLemmas
import StepModel.ExpDeclSynLemmas
import StepModel.ExpEntitySynLemmas
import StepModel.ExpStmtSynLemmas
import StepModel.ExpTypeDeclSynLemmas
import StepModel.ExpSchemaSynLemmas
import StepModel.ExpStmtFuel
/-!
# C07 — pretty-printed EXPRESS is valid, equivalent to its source and stable

Layout layer: for EVERY line length, indent and position `wrap`/`raw` only drop leading blanks of a fragment and insert a
newline + indent in front of it (`C07_wrap_decomp`, `C07_layout_nonspace`), `breakLongStr` partitions the string
(`C07_splitDots_flatten`, `C07_breakLongStr_chars_partial`).
Structure layer: parentheses are omitted only for a LEFT operand with its parent's operator, where the `%left` parser builds the
same tree back (`C07_omit_only_left_nested`, `C07_omit_left_assoc` — regenerated); no associativity of an EXPRESS operator is
assumed; what the parser reads back is the expression itself (`C07_norm_id`, `C07_parse_print`), literals survive
(`C07_string_roundtrip`, `C07_real_keeps_point`, `C07_binary_literal`), unlabelled rules have
no label token (`C07_unlabelled_where`), repetition flags stay off shared literals (`C07_no_shared_repeat`).
-/
namespace StepModel.Express
open StepModel.Generated

/-! ## structure layer -/

/-- **Parentheses are omitted only where leaving them out gives the same tree back.**  `EXPRop2__out` hands its operator as
`previous_op` to the LEFT operand only (regenerated from the two `EXPR__out` calls of `EXPRop2__out`): a left operand with the
same operator is printed without parentheses — and the parser, for which these operators are `%left` (`C07_omit_left_assoc`),
builds `a + b + c` as `(a + b) + c`, the tree that was printed.  A right operand never continues a chain (`chainR`): `a + (b + c)`
keeps its parentheses.  No associativity of any EXPRESS operator is assumed (the operators are overloaded: `s + (a + b)` adds one
element to the aggregate `s`, `(s + a) + b` two; the printer has no operand types).  Refuted by the unrepaired code, which handed the
operator to both operands (repaired, C07-16). -/
theorem C07_omit_only_left_nested : ExpPrec.rightOperandSeesParent = false ∧ ∀ o : BinOp, o.chainR = false ∧ rprev o = none :=
  ⟨rfl, fun o => ⟨chainR_false o, rprev_none o⟩⟩

/-- the operators whose LEFT operand may drop its parentheses are declared left-associative in expparse.y -/
theorem C07_omit_left_assoc : ∀ o : BinOp, o.omitSame = true → o.rightAssoc = false := by
  intro o; cases o <;> decide

/-- every operator the grammar creates has a printed token, padding, a precedence level and a stratum -/
theorem C07_tables_total : ∀ o : BinOp, o.text ≠ "(* unknown op-expression *)" ∧ o.padded = true ∧ o.level ≠ 0 ∧ o.tokName ≠ "" := by
  intro o; cases o <;> decide

/-- **What the parser reads back is the expression itself**: `norm` regroups a chain only where a right operand was printed without
its parentheses, and that is nowhere (`C07_omit_only_left_nested`) -/
theorem C07_norm_id (e : Expr) : norm e = e := norm_id e

example : norm (.bin .plus (.ident "s") (.bin .plus (.ident "a") (.ident "b")))
    = .bin .plus (.ident "s") (.bin .plus (.ident "a") (.ident "b")) := by decide
example : toks Shared.clean (.bin .plus (.ident "s") (.bin .plus (.ident "a") (.ident "b"))) false none
    = [.id "s", .op .plus, .lp, .id "a", .op .plus, .id "b", .rp] := by decide
example : toks Shared.clean (.bin .plus (.bin .plus (.ident "s") (.ident "a")) (.ident "b")) false none
    = [.id "s", .op .plus, .id "a", .op .plus, .id "b"] := by decide

/-! ### stability at token level -/

/-- stability: printing what the parser reads back (`norm e`) gives token for token what printing `e` gave, in every
context (`paren`, parent operator) and for every state of the shared-literal flags -/
theorem C07_stable (sh : Shared) (e : Expr) (paren : Bool) (prev : Option BinOp) :
    toks sh (norm e) paren prev = toks sh e paren prev := by rw [norm_id]

/-- the normal form is a fixed point: a third printing changes nothing either -/
theorem C07_stable_twice (sh : Shared) (e : Expr) (paren : Bool) (prev : Option BinOp) :
    toks sh (norm (norm e)) paren prev = toks sh e paren prev := by
  rw [C07_stable, C07_stable]

/-! ### parse ∘ print -/

/-- **The parser reads exppp's text back as the normal form — for the whole expression grammar.**  For every well-formed
expression (`wfE`: literals, identifiers, all 21 two-operand operators in any nesting, negation, NOT, attribute `.` and group
`\` qualifiers, index `[i]` and `[i:j]`, function calls with any number of arguments, aggregate initialisers with and without
repetition counts, QUERY) the precedence parser driven by the regenerated `%left/%right` levels, strata, omit-parentheses
dispatch and index-operand rule returns exactly `norm e` on the tokens exppp prints for `e` in top-level position.
Hypotheses in `wfE`: argument/item lists are proper spines; the `%#.15g` text of a real literal contains its point (`LitWF`,\na property of printf's `#` flag; that `real2exp` keeps it is `C07_real_keeps_point`). -/
theorem parse_print_norm (e : Expr) (hw : wfE e) :
    parse (toks Shared.clean e false none) = some (norm e) := by
  have E := ((parseOK_all e).1 hw).1
  obtain ⟨c, hc1, hc2, L⟩ := E.loop false none
  have hlen := (sz_le_toks e).1 hw false none
  have hcond : LoopCond e false none 0 [] := by
    cases e <;> simp [LoopCond, Fol]
  have h := L (8 * (T e false none).length + 8) (by omega) 0 [] hcond (by simp [NoQ])
  simp only [List.append_nil] at h
  unfold parse
  show (match parseExpr (8 * (T e false none).length + 8) 0 (T e false none) with
        | some (e, []) => some e
        | _ => none) = some (norm e)
  rw [h]
  obtain ⟨j, hj⟩ : ∃ j, 8 * (T e false none).length + 8 - c = j + 1 := ⟨8 * (T e false none).length + 8 - c - 1, by omega⟩
  rw [hj, parseLoop_stop j 0 (norm e) [] (by simp [Fol])]

/-- **`parse ∘ print` is the identity — for the whole expression grammar.**  For every well-formed expression (`wfE`: literals,
identifiers, all 21 two-operand operators in any nesting, negation, NOT, attribute `.` and group `\` qualifiers, index `[i]` and
`[i:j]`, function calls with any number of arguments, aggregate initialisers with and without repetition counts, QUERY) the
precedence parser driven by the regenerated `%left/%right` levels, strata, omit-parentheses dispatch and index-operand rule
returns, from the tokens exppp prints for `e` in top-level position, exactly `e`: the same tree, not merely an "equivalent" one —
no re-association is involved (`C07_omit_only_left_nested`).  REAL literals are opaque tokens here (the token carries the
`%#.15g` text; spelling and value: `C07_real_keeps_point`, `C07_lex_layout_respelled_partial`, numeric grid of the check).
Hypotheses in `wfE`: argument/item lists are proper spines; the `%#.15g` text of a real literal contains its point (`LitWF`). -/
theorem C07_parse_print (e : Expr) (hw : wfE e) :
    parse (toks Shared.clean e false none) = some e := by
  have := parse_print_norm e hw
  rwa [norm_id] at this

/-- the same for an expression printed with `paren = 1` at top level (`EXPR_out( e, 1 )`: QUERY source, RETURN value, …): an
operator expression comes out in parentheses and is read back as the same tree -/
theorem C07_parse_print_paren (e : Expr) (hw : wfE e) :
    parse (toks Shared.clean e true none) = some e := by
  have E := ((parseOK_all e).1 hw).1
  have hlen := (sz_le_toks e).1 hw true none
  have hu := E.unary true none (closed_true_none e) (8 * (T e true none).length + 7) (by omega) [] (by simp [NoQ])
  simp only [List.append_nil] at hu
  unfold parse
  show (match parseExpr (8 * (T e true none).length + 8) 0 (T e true none) with
        | some (e, []) => some e
        | _ => none) = some e
  rw [parseExpr, hu]
  obtain ⟨j, hj⟩ : ∃ j, 8 * (T e true none).length + 7 = j + 1 := ⟨8 * (T e true none).length + 6, by omega⟩
  rw [hj]
  simp only []
  rw [parseLoop_stop j 0 (norm e) [] (by simp [Fol]), norm_id]

/-- **`real2exp` keeps the decimal point** (was the hypothesis `LitWF`): the text `printf("%#.15g")` gives has a point, and after
`real2exp` removed trailing zeros the spelling still has one — a REAL literal is never printed as an INTEGER literal -/
theorem C07_real_keeps_point (g : List Char) (h : '.' ∈ g) :
    '.' ∈ real2exp g ∧ (real2exp g).all Char.isDigit = false :=
  ⟨real2exp_keeps_point g h, real2exp_not_all_digits g h⟩

/-- … and printing what was read gives the same tokens again (second printing = first) -/
theorem C07_reprint (e : Expr) (hw : wfE e) :
    (parse (toks Shared.clean e false none)).map (fun e' => toks Shared.clean e' false none)
      = some (toks Shared.clean e false none) := by
  rw [C07_parse_print e hw]
  simp

/-- the same inside every bracketing context exppp creates: as an index operand (a `simple_expression` position) the
printed operand is read back whole, whatever follows the closing bracket -/
theorem C07_parse_print_index_operand (i : Expr) (hw : wfE i) (r : List Tok) :
    ∀ n, 4 * sz i ≤ n → parseExpr n simpleMin (toks Shared.clean i (indexParen i) none ++ .rb :: r) = some (i, .rb :: r) :=
  fun n hn => by have := bracket_operand i ((parseOK_all i).1 hw).1 n hn _ ⟨r, Or.inl rfl⟩; rwa [norm_id] at this

example : wfE (.index (.dot (.ident "a") "b") (.bin .eq (.call "f" (.cons (.ident "x") (.cons (.lit (.int 1)) .nil))) (.ident "y"))) := by
  simp [wfE, wfArgs, LitWF]
example : parse (toks Shared.clean (.aggr (.rep (.bin .minus (.ident "a") (.bin .minus (.ident "b") (.neg (.ident "c"))))
      (.lit (.int 3)) (.cons (.query "q" (.ident "l") (.bin .gt (.ident "q") (.lit (.int 2)))) .nil))) false none)
    = some (.aggr (.rep (.bin .minus (.ident "a") (.bin .minus (.ident "b") (.neg (.ident "c"))))
      (.lit (.int 3)) (.cons (.query "q" (.ident "l") (.bin .gt (.ident "q") (.lit (.int 2)))) .nil))) := by decide

/-! ### literals, labels, shared nodes -/

theorem unescQ_escape : ∀ s : List Char,
    unescQ (s.flatMap (fun c => if c = '\'' then ['\'', '\''] else [c])) = s := by
  intro s
  induction s with
  | nil => rfl
  | cons c s ih =>
    by_cases hc : c = '\''
    · subst hc
      simp only [List.flatMap_cons, if_true, List.cons_append, List.nil_append]
      rw [unescQ]; simp [ih]
    · simp only [List.flatMap_cons, hc, if_false, List.cons_append, List.nil_append]
      generalize hr : s.flatMap (fun c => if c = '\'' then ['\'', '\''] else [c]) = r at ih ⊢
      cases r with
      | nil => rw [unescQ]; simp [← ih, unescQ]
      | cons d r => rw [unescQ]; simp [hc, ih]

/-- a simple string literal is read back to the value it was printed from: apostrophes are doubled on output and the
scanner halves them again — for every string -/
theorem C07_string_roundtrip (s : List Char) : unescQ (escQ s) = s := by
  have h : ExpPrec.stringQuoteDoubled = true := rfl
  simp only [escQ, h, if_true]
  exact unescQ_escape s

/-- **Constants are printed as the scanner's keywords**: the words both printers (`EXPR__out`, `EXPRstring`) write for PI and
e are looked up in the scanner's keyword table (regenerated from lexact.c) and give the constants' tokens; so the constant is
read back as the constant.  (Refuted by the unrepaired code, which wrote `E` — an identifier — for `CONST_E`; repaired, C07-14.) -/
theorem C07_constants_keywords :
    (∀ s ∈ ExpPrec.constSpellings, lookup2 s.2.2 ExpPrec.scannerKeywords = some ("TOK_" ++ s.1))
      ∧ litToks .pi = [.kw "PI"] ∧ litToks .e = [.kw "CONST_E"] ∧ kwLit "PI" = some .pi ∧ kwLit "CONST_E" = some .e := by
  refine ⟨by decide, ?_, ?_, rfl, rfl⟩ <;> simp [litToks]

/-- a binary literal is printed from the field the parser stored it in -/
theorem C07_binary_literal (s : String) : litToks (.bin s) = [.bin s] := by
  have h : ExpPrec.binaryPrintedFrom = ExpPrec.binaryStoredIn := by decide
  simp [litToks, h]

/-- an unlabelled rule is printed without a label (the parser's placeholder is not a token of the language) -/
theorem C07_unlabelled_where (e : Expr) : effLabel ⟨none, e⟩ = none := by
  simp only [effLabel]; decide

/-- a labelled rule keeps its label -/
theorem C07_labelled_where (l : String) (e : Expr) (h : l ∉ ExpPrec.whereNoLabelNames) :
    effLabel ⟨some l, e⟩ = some l := by
  simp [effLabel, h]

/-- parsing a repetition count leaves the shared literal nodes `0`, `1`, `?` untouched, whatever the schema -/
theorem C07_no_shared_repeat (s : Schema) : s.shared = Shared.clean := by
  have h : ExpPrec.repeatOverwritesCountType = false := rfl
  simp [Schema.shared, h]

/-! ### declarations: types and formal parameters -/

/-- `( precision )` / `FIXED` are printed for every simple type that can carry them (regenerated from `TYPE_body_out`) -/
theorem C07_precision_printed : ∀ k ∈ ["INTEGER", "REAL", "STRING", "BINARY"], ExpPrec.precisionKinds.contains k = true := by
  decide

/-- `ALGargs_out` starts a new parameter group when VAR changes (regenerated from `pretty_alg.c`) -/
theorem C07_args_merge_checks_var : ExpPrec.argsMergeChecksVar = true := rfl

/-- **Types: print/parse round trip** — every type form of the grammar (simple types with `( precision )` and `FIXED`,
ARRAY/BAG/LIST/SET with bounds, UNIQUE, OPTIONAL, GENERIC[:label], AGGREGATE[:label] OF, named types, nested to any
depth) is read back from exppp's tokens as exactly the same type; embedded expressions are single tokens here
(their round trip is `C07_parse_print`). -/
theorem C07_type_roundtrip (t : Ty) (hw : wfTy t) (r : List DTok) (hr : TyFol r) :
    parseTy (tyDepth t) (tyToks t ++ r) = some (t, r) :=
  type_roundtrip t hw _ (Nat.le_refl _) r hr

/-- **Formal parameters: print/parse round trip** — whatever grouping `ALGargs_out` chooses, the header is read back as
exactly the (name, VAR, type) triples of the parameters; in particular no parameter gains or loses VAR and none changes its
type.  `obj` is the identity of the `Type` object the merge rule compares; parameters sharing it have the same type. -/
theorem C07_params_roundtrip (ps : List Param) (hne : ps ≠ []) (hwf : ∀ p ∈ ps, wfTy p.ty)
    (hobj : ∀ a ∈ ps, ∀ b ∈ ps, a.obj = b.obj → a.ty = b.ty) (D : Nat) (hD : ∀ p ∈ ps, tyDepth p.ty ≤ D) (r : List DTok) :
    parseParams (ps.length + D + 1) (argsToks ps ++ .sym ")" :: r) = some (ps.map Param.triple, .sym ")" :: r) :=
  params_roundtrip ps.length ps (Nat.le_refl _) hne hwf hobj D hD _ (Nat.le_refl _) r

/-- the shape of the seeded regression C07-b1: three adjacent parameters of one named type, the middle one VAR -/
example : argsToks [⟨"lo", false, .named "measure", 0⟩, ⟨"v", true, .named "measure", 0⟩, ⟨"hi", false, .named "measure", 0⟩]
    = [.id "lo", .sym ":", .id "measure", .sym ";", .kw "VAR", .id "v", .sym ":", .id "measure", .sym ";",
       .id "hi", .sym ":", .id "measure"] := by decide
example : tyToks (.aggr "LIST" (some (.lit (.int 1), .lit .infinity)) false false (.simple "REAL" (some (.ident "digits")) false))
    = [.kw "LIST", .sym "[", .ex (.lit (.int 1)), .sym ":", .ex (.lit .infinity), .sym "]", .kw "OF", .kw "REAL",
       .sym "(", .ex (.ident "digits"), .sym ")"] := by decide

/-- **LOCAL block** — `SCOPElocals_out` prints the block exactly when the algorithm has local variables, whatever the line
length (its only early exit, `if( !max_indent ) return;`, tests the length of the longest name: regenerated
`localsWidthIsNameLength`), and the block reads back as the same variables, types and initialisers. -/
theorem C07_locals_roundtrip (ls : List Local) (hn : ∀ l ∈ ls, l.name.length ≠ 0) (hwf : ∀ l ∈ ls, wfTy l.ty)
    (D : Nat) (hD : ∀ l ∈ ls, tyDepth l.ty ≤ D) (r : List DTok) (hr : ∀ r', r ≠ .kw "LOCAL" :: r') :
    parseLocals (ls.length + D + 1) (localsToks ls ++ r) = some (ls, r) :=
  locals_roundtrip ls hn hwf D hD r hr

theorem C07_locals_printed_iff (ls : List Local) (hn : ∀ l ∈ ls, l.name.length ≠ 0) : localsToks ls = [] ↔ ls = [] := by
  unfold localsToks
  constructor
  · intro h
    by_cases h0 : localsWidth ls = 0
    · exact (localsWidth_zero_iff ls hn).mp h0
    · simp [h0] at h
  · intro h; subst h; simp [localsWidth]

/-! ### declarations: ENTITY -/

/-- in a supertype expression `AND` and `ANDOR` go through `EXPRop2__out( …, previous_op )` (regenerated dispatch): a LEFT operand
with the same operator is printed without parentheses (`a AND b AND c` = `(a AND b) AND c`, the tree the single left-associative
level of `supertype_expression` builds); a right operand keeps them (`C07_omit_only_left_nested`) -/
theorem C07_supertype_ops_omit : supOmit false = true ∧ supOmit true = true ∧ ∀ o, supRprev o = none :=
  ⟨by decide, by decide, supRprev_none⟩

/-- **Supertype expressions: print/parse round trip.**  For every supertype expression the grammar can build (entity references,
ONEOF lists, AND / ANDOR, any nesting) the reader of `supertype_expression` returns, from the tokens exppp prints, the same
expression — the same tree, no regrouping.  `r`: whatever follows (not AND / ANDOR); fuel: any sufficiently large number. -/
theorem C07_supertype_roundtrip (s : SupEx) (h : wfSup s) (r : List DTok) (hr : NoOp r) :
    ∃ n0, ∀ n, n0 ≤ n → parseSupExpr n (supToks s false none ++ r) = some (s, r) :=
  sup_roundtrip_normal s ((wfSup_normal s).1 h) r hr

theorem C07_supertype_stable (s : SupEx) (p : Bool) (q : Option Bool) : supToks (supNorm s) p q = supToks s p q ∧ supNorm s = s :=
  ⟨(supNorm_all s).1.1 p q, supNorm_id s⟩

/-- **ENTITY declarations: print/parse round trip at token level, independent of the line length.**  Header (ABSTRACT, SUPERTYPE
OF with its expression, SUBTYPE OF), explicit attributes (OPTIONAL, redeclared names `SELF\e.a`, every type of
`C07_type_roundtrip`), DERIVE, INVERSE (SET/BAG with bounds, FOR), UNIQUE (labels, reference lists), WHERE (labels): the reader
following `entity_decl` of expparse.y returns, from the tokens `ENTITY_out` prints, the same declaration, whatever follows.  Embedded expressions are single tokens here (`C07_parse_print`,
`C07_lex_layout_partial` for their own round trip). -/
theorem C07_entity_roundtrip (e : EntityDecl) (h : wfEntityP e) (r : List DTok) :
    ∃ n0, ∀ n, n0 ≤ n → parseEntity n (entityToks e ++ r) = some (e, r) := by
  have := entity_rt e.norm (wfEntity_norm e h) r
  rw [entityToks_norm, entity_norm_id] at this
  exact this

/-! ### statements -/

/-- **Statements: print/parse round trip at token level, independent of the line length.**  For every statement the grammar can
build — assignment, procedure call (any number of actual parameters), RETURN with and without a value, SKIP, ESCAPE, BEGIN…END,
IF…THEN…[ELSE…]END_IF, CASE with several labels per action and OTHERWISE, REPEAT with increment control / WHILE / UNTIL,
ALIAS…FOR…END_ALIAS, nested to any depth — the reader following `statement` of expparse.y returns, from the tokens `STMT_out` /
`CASEout` / `LOOPout` print, the same statement, whatever follows.  (Under the unrepaired CASEout a case action with two labels was
printed as two actions, C07-13; under the unrepaired STMT_out an ALIAS statement lost its names, C07-15.) -/
theorem C07_statement_roundtrip (s : Stmt) (h : wfStmt s) (r : List DTok) :
    ∃ n0, ∀ n, n0 ≤ n → parseStmt n (stmtToks s ++ r) = some (s, r) :=
  stmt_roundtrip s h r

/-- the same for a statement list (the body of an algorithm or of a compound construct), up to the first token that cannot begin
a statement (END_FUNCTION, END_IF, ELSE, …) -/
theorem C07_statements_roundtrip (s : Stmt) (h : wfStmts s) (r : List DTok) (hr : startsStmt r = false) :
    ∃ n0, ∀ n, n0 ≤ n → parseStmts n (stmtsToks s ++ r) = some (s, r) :=
  stmts_roundtrip s h r hr

/-- **Explicit fuel for the statement reader**: `C07_statement_roundtrip` / `C07_statements_roundtrip` with the bound spelled out —
`fuelS s`, computed from the statement alone: its nesting depth plus the longest actual-parameter / label list (1 for a simple
statement, `+ 1` per level of BEGIN / IF / CASE / REPEAT / ALIAS and per list element position) -/
theorem C07_statement_roundtrip_fuel (s : Stmt) :
    (wfStmt s → ∀ n, fuelS s ≤ n → ∀ r, parseStmt n (stmtToks s ++ r) = some (s, r))
      ∧ (wfStmts s → ∀ n, fuelS s ≤ n → ∀ r, startsStmt r = false → parseStmts n (stmtsToks s ++ r) = some (s, r)) :=
  ⟨(stmt_fuel s).1, (stmt_fuel s).2.1⟩

/-! ### TYPE declarations, CONSTANT blocks, algorithm bodies -/

/-- **TYPE declarations: print/parse round trip at token level** — underlying type (every form of `C07_type_roundtrip`),
`ENUMERATION OF ( … )`, `SELECT ( … )` (items in source order), WHERE rules with and without labels -/
theorem C07_typedecl_roundtrip (d : TypeDeclS) (h : wfTypeDecl d) (r : List DTok) :
    ∃ n0, ∀ n, n0 ≤ n → parseTypeDecl n (typeDeclToks d ++ r) = some (d, r) :=
  typeDecl_rt d h r

/-- **CONSTANT block**: printed exactly when the scope has constants, read back as the same constants (name, type, initialiser) -/
theorem C07_constants_roundtrip (cs : List ConstDeclS) (hwf : ∀ c ∈ cs, wfTy c.ty) (r : List DTok)
    (hr : ∀ r', r ≠ .kw "CONSTANT" :: r') :
    (∃ n0, ∀ n, n0 ≤ n → parseConsts n (constsToks cs ++ r) = some (cs, r)) ∧ (constsToks cs = [] ↔ cs = []) := by
  refine ⟨consts_rt cs hwf r hr, ?_⟩
  unfold constsToks
  by_cases h : cs = [] <;> simp [h]

/-- **Algorithm body** (what `SCOPElocals_out` and `STMTlist_out` print between the header and END_FUNCTION / END_PROCEDURE /
the WHERE of a rule): the LOCAL block, if any, and the statement list are read back unchanged -/
theorem C07_algorithm_body_roundtrip (ls : List Local) (b : Stmt) (hn : ∀ l ∈ ls, l.name.length ≠ 0) (hwf : ∀ l ∈ ls, wfTy l.ty)
    (hb : wfStmts b) (r : List DTok) (hr : startsStmt r = false) (hr2 : ∀ r', r ≠ .kw "LOCAL" :: r') :
    ∃ n0, ∀ n, n0 ≤ n → parseAlgBody n (algBodyToks ls b ++ r) = some ((ls, b), r) :=
  algBody_rt ls b hn hwf hb r hr hr2

/-! ### FUNCTION / PROCEDURE / RULE and the whole schema -/

/-- **Every declaration: print/parse round trip at token level.**  TYPE, ENTITY, FUNCTION (formal parameters in whatever groups
`ALGargs_out` prints them, return type), PROCEDURE, RULE (FOR list, WHERE clause), each algorithm with its nested declarations
to any depth, its CONSTANT block, LOCAL block and statements: the reader following expparse.y returns, from the tokens exppp
prints, the same declaration — `Decl.erase`: type-object identities of parameters (not in the text) forgotten, supertype chains
regrouped. -/
theorem C07_declaration_roundtrip (d : Decl) (h : wfDecl d) (r : List DTok) :
    ∃ n0, ∀ n, n0 ≤ n → parseDecl n (declToks d ++ r) = some (d.erase, r) :=
  (decl_rt d).1 h r

/-- **Whole schemas: print/parse round trip at token level, independent of the line length** — `SCHEMA name;`, the CONSTANT
block, every declaration in the order exppp prints them, `END_SCHEMA;`.  Together with `C07_parse_print` for the embedded
expressions: the token stream exppp writes for a schema determines the schema.  Excluded (not in the model's schema type):
USE FROM / REFERENCE FROM clauses; the order in which exppp emits the declarations of one scope is an input (declarations
are keyed by name, any order reads back). -/
theorem C07_schema_roundtrip_partial (s : SchemaS) (h : wfSchema s) (r : List DTok) :
    ∃ n0, ∀ n, n0 ≤ n → parseSchema n (schemaToks s ++ r) = some (s.erase, r) :=
  schema_rt s h r

/-! ## layout layer -/

def isWs (c : Char) : Bool := c == ' ' || c == '\n'
/-- the characters that are not blanks or newlines, in order -/
def nonWs (s : List Char) : List Char := s.filter (fun c => !isWs c)

theorem nonWs_append (a b : List Char) : nonWs (a ++ b) = nonWs a ++ nonWs b := by simp [nonWs]

theorem text_emit (st : PState) (s : List Char) (d : Bool) : (emit st s d).text = st.text ++ s := by
  simp [emit, PState.text]

theorem text_raw (st : PState) (s : List Char) : (raw st s).text = st.text ++ s := by
  simp [raw, emit, PState.text]

theorem strip_eq_drop (sl : Bool) : ∀ s : List Char, ∃ k, strip sl s = s.drop k ∧ ∀ c ∈ s.take k, c = ' ' := by
  intro s
  induction s with
  | nil => exact ⟨0, rfl, by simp⟩
  | cons c rest ih =>
    unfold strip
    split
    · rename_i h
      obtain ⟨k, hk, hall⟩ := ih
      refine ⟨k + 1, by simpa using hk, ?_⟩
      intro x hx
      simp only [List.take_succ_cons, List.mem_cons] at hx
      rcases hx with rfl | hx
      · exact h.1
      · exact hall x hx
    · exact ⟨0, rfl, by simp⟩

/-- `wrap`, for every state (line length, indent, position, last-blank flag) and every fragment: the text grows by an
optional "newline + indent2 blanks" followed by the fragment minus some of its *leading blanks* — nothing else is removed,
nothing else is inserted -/
theorem C07_wrap_decomp (st : PState) (s : List Char) :
    ∃ sep k, (wrap st s).text = st.text ++ sep ++ s.drop k ∧ (sep = [] ∨ sep = newlinePiece st.indent2)
      ∧ ∀ c ∈ s.take k, c = ' ' := by
  obtain ⟨k1, h1, a1⟩ := strip_eq_drop st.spaceLast s
  unfold wrap
  simp only []
  split
  · obtain ⟨k2, h2, a2⟩ := strip_eq_drop (emit st (newlinePiece st.indent2) false).spaceLast (strip st.spaceLast s)
    refine ⟨newlinePiece st.indent2, k1 + k2, ?_, Or.inr rfl, ?_⟩
    · simp only [text_emit, PState.text] at *
      simp only [emit] at h2 ⊢
      rw [h2, h1, List.drop_drop]
      simp [PState.text, Nat.add_comm]
    · intro c hc
      rw [← List.take_append_drop k1 s, List.take_add] at hc
      rw [h1] at a2
      simp only [List.take_append_drop] at hc
      rcases List.mem_append.mp hc with hc | hc
      · exact a1 c hc
      · exact a2 c hc
  · obtain ⟨k2, h2, a2⟩ := strip_eq_drop st.spaceLast (strip st.spaceLast s)
    refine ⟨[], k1 + k2, ?_, Or.inl rfl, ?_⟩
    · simp only [emit, PState.text] at *
      rw [h2, h1, List.drop_drop]
      simp [Nat.add_comm]
    · intro c hc
      rw [← List.take_append_drop k1 s, List.take_add] at hc
      rw [h1] at a2
      simp only [List.take_append_drop] at hc
      rcases List.mem_append.mp hc with hc | hc
      · exact a1 c hc
      · exact a2 c hc

/-! ### white space that separates two fragments is never removed entirely -/

def EndsWs (t : List Char) : Prop := ∃ c, t.getLast? = some c ∧ (c = ' ' ∨ c = '\n')

/-- `printedSpaceLast` is only set when the text ends in white space -/
def Inv (st : PState) : Prop := st.spaceLast = true → EndsWs st.text

theorem endsWs_append_newline (t : List Char) (n : Nat) : EndsWs (t ++ newlinePiece n) := by
  cases n with
  | zero => exact ⟨'\n', by simp [newlinePiece], Or.inr rfl⟩
  | succ n =>
    refine ⟨' ', ?_, Or.inl rfl⟩
    have : t ++ newlinePiece (n + 1) = (t ++ '\n' :: List.replicate n ' ') ++ [' '] := by
      simp [newlinePiece, List.replicate_succ']
    rw [this, List.getLast?_append]; rfl

theorem strip_false_head (s rest : List Char) (h : s = ' ' :: rest) : (strip false s).head? = some ' ' := by
  subst h
  induction rest with
  | nil => simp [strip]
  | cons c rest ih =>
    by_cases hc : c = ' '
    · subst hc
      have : strip false (' ' :: ' ' :: rest) = strip false (' ' :: rest) := by simp [strip]
      rw [this]; exact ih
    · simp [strip, hc]

theorem strip_false_nil (s : List Char) (h : strip false s = []) : s = [] := by
  cases s with
  | nil => rfl
  | cons c rest =>
    by_cases hc : c = ' '
    · have := strip_false_head (c :: rest) rest (by rw [hc])
      rw [h] at this; simp at this
    · simp [strip, hc] at h

theorem inv_emit_nonempty (st : PState) (s : List Char) (d : Bool) (hs : s ≠ []) : Inv (emit st s d) := by
  intro h
  obtain ⟨c, hc⟩ : ∃ c, s.getLast? = some c := by
    cases hl : s.getLast? with
    | none => simp [List.getLast?_eq_none_iff] at hl; exact absurd hl hs
    | some c => exact ⟨c, rfl⟩
  refine ⟨c, ?_, ?_⟩
  · rw [text_emit, List.getLast?_append, hc]; rfl
  · simp [emit, lastIsSpace, hc] at h; exact Or.inl h

theorem inv_raw (st : PState) (s : List Char) (h : Inv st) : Inv (raw st s) := by
  by_cases hs : s = []
  · subst hs
    intro hsl
    have : (raw st []).text = st.text := by simp [text_raw]
    rw [this]
    apply h
    simpa [raw, emit, lastIsSpace] using hsl
  · have := inv_emit_nonempty st s st.spaceLast hs
    intro hsl
    have ht : (raw st s).text = (emit st s st.spaceLast).text := by simp [raw, emit, PState.text]
    rw [ht]; apply this
    simpa [raw, emit] using hsl

/-- the state `wrap` continues from after its optional line break -/
def wrapMid (st : PState) (s : List Char) : PState :=
  if wrapBreaks st (strip st.spaceLast s).length
  then { emit st (newlinePiece st.indent2) false with curpos := st.indent2 } else st

theorem wrap_eq (st : PState) (s : List Char) :
    wrap st s = { emit (wrapMid st s) (strip (wrapMid st s).spaceLast (strip st.spaceLast s))
        (decide ((strip (wrapMid st s).spaceLast (strip st.spaceLast s)).length < s.length) || (wrapMid st s).spaceLast) with
      curpos := advance (wrapMid st s).curpos (strip (wrapMid st s).spaceLast (strip st.spaceLast s)) } := by
  simp [wrap, wrapMid]

theorem text_break (st : PState) :
    ({ emit st (newlinePiece st.indent2) false with curpos := st.indent2 } : PState).text = st.text ++ newlinePiece st.indent2 := by
  simp [emit, PState.text]

theorem inv_wrapMid (st : PState) (s : List Char) (h : Inv st) : Inv (wrapMid st s) := by
  unfold wrapMid
  split
  · intro _; rw [text_break]; exact endsWs_append_newline _ _
  · exact h

theorem inv_wrap (st : PState) (s : List Char) (h : Inv st) : Inv (wrap st s) := by
  have hm := inv_wrapMid st s h
  rw [wrap_eq]
  generalize hmid : wrapMid st s = m at hm ⊢
  generalize hs2 : strip m.spaceLast (strip st.spaceLast s) = s2
  by_cases he : s2 = []
  · subst he
    intro hsl
    have ht : ({ emit m [] (decide (([] : List Char).length < s.length) || m.spaceLast) with curpos := advance m.curpos [] } : PState).text = m.text := by
      simp [emit, PState.text]
    rw [ht]
    by_cases hml : m.spaceLast = true
    · exact hm hml
    · -- nothing is left of the fragment although no blank was printed last: then a line break was inserted
      have hmf : m.spaceLast = false := by simpa using hml
      rw [hmf] at hs2
      have h1 := strip_false_nil _ hs2
      unfold wrapMid at hmid
      split at hmid
      · rw [← hmid, text_break]; exact endsWs_append_newline _ _
      · rw [← hmid] at hmf
        rw [hmf] at h1
        have h0 := strip_false_nil _ h1
        subst h0
        simp [emit, lastIsSpace, hmf] at hsl
        rw [← hmid] at hsl; simp [hmf] at hsl
  · have := inv_emit_nonempty m s2 (decide (s2.length < s.length) || m.spaceLast) he
    intro hsl
    have ht : ({ emit m s2 (decide (s2.length < s.length) || m.spaceLast) with curpos := advance m.curpos s2 } : PState).text
        = (emit m s2 (decide (s2.length < s.length) || m.spaceLast)).text := by simp [emit, PState.text]
    rw [ht]; apply this
    simpa [emit] using hsl

/-- **White space between fragments survives wrapping, at every width.**  If a fragment begins with a blank (it is
separated from what was printed before), then in the output the rest of the fragment is still preceded by white space:
either one of its own blanks remains, or the text printed before it ends in a blank or newline.  Together with
`C07_wrap_decomp` (only leading blanks are dropped, only "newline + indent" is inserted): wrapping changes the amount of white
space at fragment boundaries and nothing else, so two tokens are never joined. -/
theorem C07_wrap_separation (st : PState) (hinv : Inv st) (s rest : List Char) (hs : s = ' ' :: rest) :
    ∃ pre body, (wrap st s).text = pre ++ body ∧ (∃ k, body = s.drop k ∧ ∀ x ∈ s.take k, x = ' ')
      ∧ (EndsWs pre ∨ body.head? = some ' ') := by
  have hm := inv_wrapMid st s hinv
  obtain ⟨k1, h1, a1⟩ := strip_eq_drop st.spaceLast s
  obtain ⟨k2, h2, a2⟩ := strip_eq_drop (wrapMid st s).spaceLast (strip st.spaceLast s)
  refine ⟨(wrapMid st s).text, strip (wrapMid st s).spaceLast (strip st.spaceLast s), ?_, ⟨k1 + k2, ?_, ?_⟩, ?_⟩
  · rw [wrap_eq]; simp [emit, PState.text]
  · rw [h2, h1, List.drop_drop]
  · intro c hc
    rw [← List.take_append_drop k1 s, List.take_add] at hc
    rw [h1] at a2
    simp only [List.take_append_drop] at hc
    rcases List.mem_append.mp hc with hc | hc
    · exact a1 c hc
    · exact a2 c hc
  · by_cases hml : (wrapMid st s).spaceLast = true
    · exact Or.inl (hm hml)
    · have hmf : (wrapMid st s).spaceLast = false := by simpa using hml
      -- no blank was printed last: was a line break inserted?
      by_cases hb : wrapBreaks st (strip st.spaceLast s).length = true
      · left
        simp only [wrapMid, hb, if_true]; rw [text_break]; exact endsWs_append_newline _ _
      · right
        have hmid : wrapMid st s = st := by simp [wrapMid, hb]
        rw [hmid] at hmf ⊢
        rw [hmf]
        obtain ⟨c', r', hh⟩ : ∃ c' r', strip false s = c' :: r' := by
          have := strip_false_head s rest hs
          cases hst : strip false s with
          | nil => rw [hst] at this; simp at this
          | cons c' r' => exact ⟨c', r', rfl⟩
        have hc' : c' = ' ' := by
          have := strip_false_head s rest hs; rw [hh] at this; simpa using this
        subst hc'
        exact strip_false_head _ r' hh

theorem inv_maybeBreak (st : PState) (len : Nat) (first : Bool) (h : Inv st) : Inv (maybeBreak st len first) := by
  unfold maybeBreak
  split
  · split <;> exact inv_raw _ _ h
  · split
    · exact inv_raw _ _ h
    · exact h

theorem inv_breakPieces : ∀ (ps : List (List Char)) (st : PState) (first : Bool), Inv st → Inv (breakPieces st ps first) := by
  intro ps
  induction ps with
  | nil => intro st first h; exact h
  | cons p ps ih => intro st first h; exact ih _ _ (inv_raw _ _ (inv_maybeBreak _ _ _ h))

theorem inv_breakLongStr (st : PState) (s : List Char) (paren : Bool) (h : Inv st) : Inv (breakLongStr st s paren) := by
  unfold breakLongStr
  simp only []
  split
  · exact inv_raw _ _ h
  · apply inv_raw
    apply inv_breakPieces
    split
    · exact inv_wrap _ _ h
    · exact h

/-- the premise of `C07_wrap_separation` holds in every state the layout engine reaches: it is an invariant of `raw`, `wrap`
and `breakLongStr`, hence of every fragment list, from any state that satisfies it (the initial state does) -/
theorem C07_layout_invariant (fs : List Frag) : ∀ st : PState, Inv st → Inv (run st fs) := by
  induction fs with
  | nil => intro st h; exact h
  | cons f fs ih =>
    intro st h
    simp only [run, List.foldl_cons]
    apply ih
    cases f with
    | raw s => exact inv_raw _ _ h
    | wrap s => exact inv_wrap _ _ h
    | str s p => exact inv_breakLongStr _ _ _ h

example : Inv ({} : PState) := by intro h; simp at h

theorem nonWs_newlinePiece (n : Nat) : nonWs (newlinePiece n) = [] := by
  simp [nonWs, newlinePiece, isWs, List.filter_replicate]

theorem nonWs_drop_blanks (s : List Char) (k : Nat) (h : ∀ c ∈ s.take k, c = ' ') : nonWs (s.drop k) = nonWs s := by
  conv => rhs; rw [← List.take_append_drop k s]
  rw [nonWs_append]
  have : nonWs (s.take k) = [] := by
    simp only [nonWs, List.filter_eq_nil_iff]
    intro c hc; simp [isWs, h c hc]
  simp [this]

theorem nonWs_wrap (st : PState) (s : List Char) : nonWs (wrap st s).text = nonWs st.text ++ nonWs s := by
  obtain ⟨sep, k, ht, hsep, hk⟩ := C07_wrap_decomp st s
  rw [ht, nonWs_append, nonWs_append, nonWs_drop_blanks s k hk]
  rcases hsep with rfl | rfl
  · simp [nonWs]
  · simp [nonWs_newlinePiece]

def Frag.chars : Frag → List Char
  | .raw s => s | .wrap s => s | .str s _ => s
def Frag.isStr : Frag → Bool
  | .str _ _ => true | _ => false

/-- the layout engine, for EVERY line length / indent / start position and every list of `raw`/`wrap` fragments: the
non-blank characters of the output are exactly those of the fragments, in order — wrapping only moves white space -/
theorem C07_layout_nonspace (fs : List Frag) (hfs : ∀ f ∈ fs, f.isStr = false) :
    ∀ st : PState, nonWs (run st fs).text = nonWs st.text ++ nonWs (fs.flatMap Frag.chars) := by
  induction fs with
  | nil => intro st; simp [run, nonWs]
  | cons f fs ih =>
    intro st
    have hf := hfs f (List.mem_cons_self)
    have ih' := ih (fun g hg => hfs g (List.mem_cons_of_mem _ hg))
    simp only [run, List.foldl_cons] at ih' ⊢
    rw [ih' (step st f)]
    cases f with
    | raw s => simp [step, text_raw, nonWs_append, Frag.chars, List.append_assoc]
    | wrap s => simp [step, nonWs_wrap, nonWs_append, Frag.chars, List.append_assoc]
    | str s p => simp [Frag.isStr] at hf

/-- `nextBreakpoint` cuts the string into consecutive pieces: nothing is lost, duplicated or reordered -/
theorem C07_splitDots_flatten : ∀ s : List Char, (splitDots s).flatten = s := by
  intro s
  induction s with
  | nil => rfl
  | cons c cs ih =>
    unfold splitDots
    split
    · simp [ih]
    · split
      · rename_i h; rw [h] at ih; simp at ih; simp [← ih]
      · rename_i p ps h; rw [h] at ih; simp at ih; simp [← ih]

/-- characters `breakLongStr` itself may add: apostrophes, the newline + indent, "+ " -/
def isSepChar (c : Char) : Bool := c == '\'' || c == '\n' || c == '+' || c == ' '
def payload (s : List Char) : List Char := s.filter (fun c => !isSepChar c)

theorem payload_append (a b : List Char) : payload (a ++ b) = payload a ++ payload b := by simp [payload]

theorem payload_maybeBreak (st : PState) (len : Nat) (first : Bool) :
    payload (maybeBreak st len first).text = payload st.text := by
  unfold maybeBreak
  split
  · split <;> simp [text_raw, payload_append, payload, breakSepFirst, breakSep, newlinePiece, isSepChar, List.filter_replicate]
  · split
    · split <;> simp [text_raw, payload_append, payload, isSepChar]
    · rfl

theorem payload_breakPieces : ∀ (ps : List (List Char)) (st : PState) (first : Bool),
    payload (breakPieces st ps first).text = payload st.text ++ payload ps.flatten := by
  intro ps
  induction ps with
  | nil => intro st first; simp [breakPieces, payload]
  | cons p ps ih =>
    intro st first
    simp only [breakPieces]
    rw [ih, text_raw, payload_append, payload_maybeBreak]
    simp [payload_append, List.append_assoc]

/-- `breakLongStr`, for every state and every string: apart from apostrophes, blanks, newlines and '+' (the characters the
splitting itself uses) the characters of the string come out exactly once and in order, wherever the breaks fall.
Partial: blanks, '+' and apostrophes *inside* the string are not tracked by this statement (the apostrophes are covered by
`C07_string_roundtrip`, the pieces by `C07_splitDots_flatten`) -/
theorem C07_breakLongStr_chars_partial (st : PState) (s : List Char) :
    payload (breakLongStr st s false).text = payload st.text ++ payload (escQ s) := by
  unfold breakLongStr
  simp only [splitParen, Bool.false_and]
  split
  · split <;> simp [text_raw, payload_append, payload, isSepChar]
  · rw [text_raw, payload_append, payload_breakPieces, C07_splitDots_flatten]
    simp [payload, isSepChar]

/-! ### `breakLongStr`, exact form (every character tracked, apostrophes, blanks and `+` included) -/

/-- separators put in front of the pieces -/
def weave : List (List Char) → List (List Char) → List Char
  | s :: ss, p :: ps => s ++ p ++ weave ss ps
  | _, _ => []

theorem raw_indent2 (st : PState) (s : List Char) : (raw st s).indent2 = st.indent2 := by simp [raw, emit]

theorem maybeBreak_false (st : PState) (len : Nat) :
    ∃ sep, (sep = [] ∨ sep = breakSep st.indent2) ∧ (maybeBreak st len false).text = st.text ++ sep
      ∧ (maybeBreak st len false).indent2 = st.indent2 := by
  unfold maybeBreak
  split
  · exact ⟨breakSep st.indent2, Or.inr rfl, by simp [text_raw], by simp [raw_indent2]⟩
  · exact ⟨[], Or.inl rfl, by simp, by simp⟩

theorem maybeBreak_true (st : PState) (len : Nat) :
    ∃ sep, (sep = ['\''] ∨ sep = [' ', '\''] ∨ sep = breakSepFirst st.indent2) ∧ (maybeBreak st len true).text = st.text ++ sep
      ∧ (maybeBreak st len true).indent2 = st.indent2 := by
  unfold maybeBreak
  split
  · exact ⟨breakSepFirst st.indent2, Or.inr (Or.inr rfl), by simp [text_raw], by simp [raw_indent2]⟩
  · by_cases h : st.spaceLast = true
    · exact ⟨['\''], Or.inl rfl, by simp [text_raw, h], by simp [raw_indent2]⟩
    · exact ⟨[' ', '\''], Or.inr (Or.inl rfl), by simp [text_raw, h], by simp [raw_indent2]⟩

theorem breakPieces_weave : ∀ (ps : List (List Char)) (st : PState),
    ∃ seps : List (List Char), seps.length = ps.length ∧ (∀ x ∈ seps, x = [] ∨ x = breakSep st.indent2)
      ∧ (breakPieces st ps false).text = st.text ++ weave seps ps := by
  intro ps
  induction ps with
  | nil => intro st; exact ⟨[], rfl, by simp, by simp [breakPieces, weave]⟩
  | cons p ps ih =>
    intro st
    obtain ⟨sep, hsep, htext, hind⟩ := maybeBreak_false st p.length
    obtain ⟨seps, hlen, hall, ht⟩ := ih (raw (maybeBreak st p.length false) p)
    refine ⟨sep :: seps, by simp [hlen], ?_, ?_⟩
    · intro x hx
      rcases List.mem_cons.mp hx with rfl | hx
      · exact hsep
      · have := hall x hx
        rwa [raw_indent2, hind] at this
    · simp only [breakPieces, ht, text_raw, htext, weave, List.append_assoc]

theorem splitDots_eq_nil (s : List Char) (h : splitDots s = []) : s = [] := by
  have := C07_splitDots_flatten s
  rw [h] at this
  simpa using this.symm

theorem wrap_indent2 (st : PState) (s : List Char) : (wrap st s).indent2 = st.indent2 := by
  unfold wrap; simp only []; split <;> simp [emit]

theorem wrap_openParen (st : PState) :
    (wrap st openParen).text = st.text ++ openParen ∨ (wrap st openParen).text = st.text ++ newlinePiece st.indent2 ++ openParen := by
  have hs : ∀ b, strip b openParen = openParen := by intro b; simp [openParen, strip]
  unfold wrap
  simp only [hs]
  split
  · right; simp [emit, PState.text]
  · left; simp [emit, PState.text]

/-- `breakLongStr_paren`, for every state (line length, indent, position), every string and both values of `paren`, character
for character: either the literal is printed in one piece `'…'` (after at most one blank), or the text is the
doubled-apostrophe form of the string cut at `nextBreakpoint`'s piece boundaries with, in front of each piece, nothing or
exactly the separator `'` newline indent `+ '` (in front of the first piece: the opening apostrophe, possibly after a blank
or the newline+indent), closed by `' ` — or, when `paren` is set, the same between `( ` (possibly on a new line) and `' )`.
No character of the string is lost, duplicated or altered, wherever the breaks fall. -/
theorem C07_breakLongStr_exact (st : PState) (s : List Char) (paren : Bool) :
    (∃ lead, (lead = [] ∨ lead = [' ']) ∧ (breakLongStr st s paren).text = st.text ++ lead ++ ['\''] ++ escQ s ++ ['\''])
    ∨ (∃ opn cls first seps,
        ((opn = [] ∧ cls = ['\'', ' ']) ∨
         (paren = true ∧ (opn = openParen ∨ opn = newlinePiece st.indent2 ++ openParen) ∧ cls = ['\'', ' ', ')']))
        ∧ (first = ['\''] ∨ first = [' ', '\''] ∨ first = breakSepFirst st.indent2)
        ∧ (first :: seps).length = (splitDots (escQ s)).length
        ∧ (∀ x ∈ seps, x = [] ∨ x = breakSep st.indent2)
        ∧ (breakLongStr st s paren).text = st.text ++ opn ++ weave (first :: seps) (splitDots (escQ s)) ++ cls) := by
  unfold breakLongStr
  simp only []
  split
  · left
    by_cases h : st.spaceLast = true
    · exact ⟨[], Or.inl rfl, by simp [text_raw, h]⟩
    · exact ⟨[' '], Or.inr rfl, by simp [text_raw, h]⟩
  · rename_i hlong
    right
    cases hp : splitDots (escQ s) with
    | nil =>
      have := splitDots_eq_nil _ hp
      simp [this] at hlong
    | cons p ps =>
      by_cases hpar : splitParen st (p :: ps) paren = true
      · have hparen : paren = true := by
          simp only [splitParen, Bool.and_eq_true] at hpar; exact hpar.1
        simp only [hpar, if_true]
        obtain ⟨first, hfirst, htext, hind⟩ := maybeBreak_true (wrap st openParen) p.length
        obtain ⟨seps, hlen, hall, ht⟩ := breakPieces_weave ps (raw (maybeBreak (wrap st openParen) p.length true) p)
        rw [wrap_indent2] at hind hfirst
        rcases wrap_openParen st with ho | ho
        · refine ⟨openParen, _, first, seps, Or.inr ⟨hparen, Or.inl rfl, rfl⟩, hfirst, by simp [hlen], ?_, ?_⟩
          · intro x hx
            have := hall x hx
            rwa [raw_indent2, hind] at this
          · simp only [breakPieces, text_raw, ht, htext, ho, weave, List.append_assoc]
        · refine ⟨newlinePiece st.indent2 ++ openParen, _, first, seps, Or.inr ⟨hparen, Or.inr rfl, rfl⟩, hfirst, by simp [hlen], ?_, ?_⟩
          · intro x hx
            have := hall x hx
            rwa [raw_indent2, hind] at this
          · simp only [breakPieces, text_raw, ht, htext, ho, weave, List.append_assoc]
      · simp only [hpar]
        obtain ⟨first, hfirst, htext, hind⟩ := maybeBreak_true st p.length
        obtain ⟨seps, hlen, hall, ht⟩ := breakPieces_weave ps (raw (maybeBreak st p.length true) p)
        refine ⟨[], _, first, seps, Or.inl ⟨rfl, rfl⟩, hfirst, by simp [hlen], ?_, ?_⟩
        · intro x hx
          have := hall x hx
          rwa [raw_indent2, hind] at this
        · simp [breakPieces, text_raw, ht, htext, weave, List.append_assoc]

/-- the pieces woven with empty separators are the string itself: dropping the separators of `C07_breakLongStr_exact`
gives back the (apostrophe-doubled) literal, whose scanner value is the source string (`C07_string_roundtrip`) -/
theorem C07_weave_value (seps ps : List (List Char)) (h : seps.length = ps.length) :
    weave (seps.map fun _ => []) ps = ps.flatten := by
  induction ps generalizing seps with
  | nil => cases seps <;> simp [weave]
  | cons p ps ih =>
    cases seps with
    | nil => simp at h
    | cons x xs => simp [weave, ih xs (by simpa using h)]

/-! ### remarks -/

/-- every place where exppp prints a `--` remark uses `raw` and is followed only by `raw` calls up to the raw newline
(regenerated from all of src/exppp/*.c): nothing that could start a continuation line is printed inside a remark -/
theorem C07_remark_sites_raw : ∀ s ∈ ExpPrec.remarkSites, s.2.1 = "raw" ∧ s.2.2 = true := by decide

/-- `raw` fragments are emitted verbatim at every line length, indent and position: nothing is inserted or removed -/
theorem C07_raw_verbatim (ss : List (List Char)) : ∀ st : PState, (run st (ss.map Frag.raw)).text = st.text ++ ss.flatten := by
  induction ss with
  | nil => intro st; simp [run]
  | cons s ss ih =>
    intro st
    simp only [List.map_cons, run, List.foldl_cons, step] at ih ⊢
    rw [ih (raw st s), text_raw]; simp

/-- whatever the engine prints, it only appends -/
theorem run_appends (fs : List Frag) : ∀ st : PState, ∃ tail, (run st fs).text = st.text ++ tail := by
  induction fs with
  | nil => intro st; exact ⟨[], by simp [run]⟩
  | cons f fs ih =>
    intro st
    obtain ⟨tail, ht⟩ := ih (step st f)
    simp only [run, List.foldl_cons] at ht ⊢
    have hstep : ∃ t1, (step st f).text = st.text ++ t1 := by
      cases f with
      | raw s => exact ⟨s, text_raw st s⟩
      | wrap s =>
        obtain ⟨sep, k, h, _, _⟩ := C07_wrap_decomp st s
        exact ⟨sep ++ s.drop k, by simp [step, h, List.append_assoc]⟩
      | str s p =>
        rcases C07_breakLongStr_exact st s p with ⟨lead, _, h⟩ | ⟨opn, cls, first, seps, _, _, _, _, h⟩
        · exact ⟨lead ++ ['\''] ++ escQ s ++ ['\''], by simp [step, h, List.append_assoc]⟩
        · exact ⟨opn ++ weave (first :: seps) (splitDots (escQ s)) ++ cls, by simp [step, h, List.append_assoc]⟩
    obtain ⟨t1, h1⟩ := hstep
    exact ⟨t1 ++ tail, by rw [ht, h1, List.append_assoc]⟩

/-- **A tail remark ends its line.**  `tail_comment` prints ` -- name` and the newline with `raw`: at every line length, in
every state and whatever is printed afterwards, the output is the text so far, the remark, a newline, and then the rest —
no fragment printed after the `--` lands on the remark's line, and nothing is broken out of the remark onto a code line
(the remark itself is verbatim). -/
theorem C07_tail_remark_ends_line (st : PState) (name : List Char) (fs : List Frag) :
    ∃ tail, (run st (.raw (" -- ".toList ++ name) :: .raw ['\n'] :: fs)).text
      = st.text ++ (" -- ".toList ++ name) ++ '\n' :: tail := by
  obtain ⟨tail, ht⟩ := run_appends fs (raw (raw st (" -- ".toList ++ name)) ['\n'])
  refine ⟨tail, ?_⟩
  simp only [run, List.foldl_cons, step] at ht ⊢
  rw [ht, text_raw, text_raw]; simp [List.append_assoc]

/-- hypotheses are satisfiable / the engine really breaks lines: width 10, continuation indent 4 -/
example : (run { linelen := 10, indent2 := 4, curpos := 9 } [W "abc", R " ", W "+", W " ", W "de"]).text
    = "\n    abc + \n    de".toList := by decide
example : (breakLongStr { linelen := 12, indent2 := 2, curpos := 8 } "ab.cd.ef".toList).text
    = " 'ab.'\n  + 'cd.ef' ".toList := by decide
example : (breakLongStr { linelen := 14, indent2 := 2, curpos := 6 } "ab.cd.ef".toList true).text
    = "( 'ab.'\n  + 'cd.ef' )".toList := by decide

end StepModel.Express

import StepModel.ExpDecl
namespace StepModel.Express
open StepModel.Generated

end StepModel.Express
